(* Proofs/AddProofs.v — theorems about the add / remove / add-ILI model (Model/Rel.v, Model/Add.v).
   Every statement is for all databases / resources; well-formedness hypotheses are boolean
   predicates with an Example of a non-trivial database satisfying them. *)
From Coq Require Import ZArith List Bool Lia.
Import ListNotations.
Require Import WnV.Base.Sx WnV.Gen.Schema WnV.Gen.Constants WnV.Model.Spec WnV.Model.Val.
Require Import WnV.Model.Rel WnV.Model.Add.
From Coq Require Import String Ascii.
Import ListNotations.
Local Open Scope Z_scope.
Local Open Scope string_scope.

(* ====================================================================== *)
(* Generic lemmas: the result monad, lists                                 *)
(* ====================================================================== *)
Lemma bind_ok : forall {T U} (e : result T) (f : T -> result U) y,
    bind e f = Ok y -> exists x, e = Ok x /\ f x = Ok y.
Proof.
  intros T U e f y H. destruct e as [x| |]; simpl in H; try discriminate.
  exists x. split; [reflexivity|exact H].
Qed.

Lemma foldM_app : forall {T S} (f : S -> T -> result S) l1 l2 s,
    foldM f (l1 ++ l2)%list s = bind (foldM f l1 s) (foldM f l2).
Proof.
  intros T S f l1. induction l1 as [|x l1 IH]; intros l2 s; simpl; [reflexivity|].
  destruct (f s x) as [s'| |]; simpl; [apply IH|reflexivity|reflexivity].
Qed.

Lemma foldM_concat : forall {T S} (f : S -> T -> result S) ls s,
    foldM (fun s b => foldM f b s) ls s = foldM f (List.concat ls) s.
Proof.
  intros T S f ls. induction ls as [|b ls IH]; intros s; simpl; [reflexivity|].
  rewrite foldM_app. destruct (foldM f b s) as [s'| |]; simpl; [apply IH|reflexivity|reflexivity].
Qed.

Lemma foldM_inv : forall {T S} (f : S -> T -> result S) (P : S -> Prop),
    (forall s x s', P s -> f s x = Ok s' -> P s') ->
    forall l s s', P s -> foldM f l s = Ok s' -> P s'.
Proof.
  intros T S f P Hstep l. induction l as [|x l IH]; intros s s' Hs H; simpl in H.
  - injection H as <-. exact Hs.
  - apply bind_ok in H. destruct H as [s1 [H1 H2]].
    eapply IH; [|exact H2]. eapply Hstep; eassumption.
Qed.

(* a reflexive-transitive relation established by every step *)
Lemma foldM_rel : forall {T S} (f : S -> T -> result S) (R : S -> S -> Prop),
    (forall s, R s s) -> (forall a b c, R a b -> R b c -> R a c) ->
    (forall s x s', f s x = Ok s' -> R s s') ->
    forall l s s', foldM f l s = Ok s' -> R s s'.
Proof.
  intros T S f R Hrefl Htrans Hstep l. induction l as [|x l IH]; intros s s' H; simpl in H.
  - injection H as <-. apply Hrefl.
  - apply bind_ok in H. destruct H as [s1 [H1 H2]].
    eapply Htrans; [eapply Hstep; exact H1|eapply IH; exact H2].
Qed.

Lemma existsb_ext : forall {T} (f g : T -> bool) l,
    (forall x, f x = g x) -> existsb f l = existsb g l.
Proof.
  intros T f g l H. induction l as [|x l IH]; simpl; [reflexivity|]. rewrite H, IH. reflexivity.
Qed.
Lemma find_ext : forall {T} (f g : T -> bool) l,
    (forall x, f x = g x) -> find f l = find g l.
Proof.
  intros T f g l H. induction l as [|x l IH]; simpl; [reflexivity|]. rewrite H, IH. reflexivity.
Qed.
Lemma existsb_false_forall : forall {T} (f : T -> bool) l,
    existsb f l = false -> forall x, In x l -> f x = false.
Proof.
  intros T f l H x Hx. destruct (f x) eqn:E; [|reflexivity].
  assert (existsb f l = true) as H' by (apply existsb_exists; exists x; auto).
  congruence.
Qed.
Lemma find_split : forall {T} (f : T -> bool) l x,
    find f l = Some x ->
    exists pre post, l = (pre ++ x :: post)%list /\ f x = true /\ (forall y, In y pre -> f y = false).
Proof.
  intros T f l. induction l as [|a l IH]; intros x H; simpl in H; [discriminate|].
  destruct (f a) eqn:E.
  - injection H as <-. exists [], l. split; [reflexivity|]. split; [exact E|]. intros y [].
  - destruct (IH x H) as [pre [post [Hl [Hx Hpre]]]].
    exists (a :: pre), post. split; [rewrite Hl; reflexivity|]. split; [exact Hx|].
    intros y [<-|Hy]; [exact E|apply Hpre; exact Hy].
Qed.

(* ---------- set_nth / cell_at ---------- *)
Lemma cell_at_set_nth_other : forall i j c r, i <> j -> cell_at j (set_nth i c r) = cell_at j r.
Proof.
  unfold cell_at. induction i as [|i IH]; intros j c r Hij; destruct r as [|x r]; simpl; try reflexivity.
  - destruct j as [|j]; [congruence|reflexivity].
  - destruct j as [|j]; [reflexivity|]. apply IH. congruence.
Qed.
Lemma length_set_nth : forall i c r, List.length (set_nth i c r) = List.length r.
Proof.
  induction i as [|i IH]; intros c r; destruct r as [|x r]; simpl; try reflexivity.
  rewrite IH. reflexivity.
Qed.
Lemma cell_at_set_nth_same : forall i c r, (i < List.length r)%nat -> cell_at i (set_nth i c r) = c.
Proof.
  unfold cell_at. induction i as [|i IH]; intros c r Hl; destruct r as [|x r]; simpl in *; try lia.
  - reflexivity.
  - apply IH. lia.
Qed.
Lemma set_nth_set_nth_same : forall i a b r, set_nth i a (set_nth i b r) = set_nth i a r.
Proof.
  induction i as [|i IH]; intros a b r; destruct r as [|x r]; simpl; try reflexivity.
  rewrite IH. reflexivity.
Qed.
Lemma set_nth_comm : forall i j a b r, i <> j -> set_nth i a (set_nth j b r) = set_nth j b (set_nth i a r).
Proof.
  induction i as [|i IH]; intros j a b r Hij; destruct r as [|x r]; destruct j as [|j]; simpl;
    try reflexivity; try congruence.
  rewrite IH; [reflexivity|congruence].
Qed.
Lemma set_nth_same_cell : forall i r, (i < List.length r)%nat -> set_nth i (cell_at i r) r = r.
Proof.
  unfold cell_at. induction i as [|i IH]; intros r Hl; destruct r as [|x r]; simpl in *; try lia.
  - reflexivity.
  - rewrite IH; [reflexivity|lia].
Qed.
Lemma rowid_of_set_nth : forall i c r, i <> O -> rowid_of (set_nth i c r) = rowid_of r.
Proof.
  intros i c r Hi. destruct i as [|i]; [congruence|]. destruct r as [|x r]; reflexivity.
Qed.

(* ---------- table names ---------- *)
Lemma str_of_string_inj : forall a b, str_of_string a = str_of_string b -> a = b.
Proof.
  induction a as [|c a IH]; intros b H; destruct b as [|c' b]; simpl in H; try discriminate.
  - reflexivity.
  - injection H as H1 H2. apply Nat2Z.inj in H1.
    assert (c = c') as ->.
    { rewrite <- (ascii_nat_embedding c), <- (ascii_nat_embedding c'), H1. reflexivity. }
    rewrite (IH b H2). reflexivity.
Qed.
Lemma tn_neq : forall a b, a <> b -> str_eqb (tn a) (tn b) = false.
Proof.
  intros a b H. destruct (str_eqb (tn a) (tn b)) eqn:E; [|reflexivity].
  apply str_eqb_eq in E. apply str_of_string_inj in E. contradiction.
Qed.

(* ---------- get_table / set_table ---------- *)
Lemma get_set_same : forall d t rows, get_table (set_table d t rows) t = rows.
Proof.
  intros d t rows. unfold get_table, set_table.
  induction d as [|[n r] d IH]; simpl.
  - rewrite str_eqb_refl. reflexivity.
  - destruct (str_eqb n (tn t)) eqn:E; simpl; rewrite E; [reflexivity|exact IH].
Qed.
Lemma get_set_other : forall d t t' rows, t <> t' -> get_table (set_table d t rows) t' = get_table d t'.
Proof.
  intros d t t' rows Ht. unfold get_table, set_table.
  induction d as [|[n r] d IH]; simpl.
  - rewrite (tn_neq t t' Ht). reflexivity.
  - destruct (str_eqb n (tn t)) eqn:E; simpl.
    + apply str_eqb_eq in E. subst n. rewrite (tn_neq t t' Ht). reflexivity.
    + destruct (str_eqb n (tn t')); [reflexivity|exact IH].
Qed.
Lemma set_set_same : forall d t r1 r2, set_table (set_table d t r1) t r2 = set_table d t r2.
Proof.
  intros d t r1 r2. unfold set_table.
  induction d as [|[n r] d IH]; simpl.
  - rewrite str_eqb_refl. reflexivity.
  - destruct (str_eqb n (tn t)) eqn:E; simpl; rewrite E; [reflexivity|rewrite IH; reflexivity].
Qed.
Definition has_table (d : db) (t : string) : bool := existsb (fun nt => str_eqb (fst nt) (tn t)) d.
Lemma set_get_same : forall d t, has_table d t = true -> set_table d t (get_table d t) = d.
Proof.
  intros d t. unfold has_table, set_table, get_table.
  induction d as [|[n r] d IH]; simpl; intro H; [discriminate|].
  destruct (str_eqb n (tn t)) eqn:E; simpl; [reflexivity|].
  simpl in H. rewrite IH; [reflexivity|exact H].
Qed.
Lemma has_table_set : forall d t rows, has_table (set_table d t rows) t = true.
Proof.
  intros d t rows. unfold has_table, set_table.
  induction d as [|[n r] d IH]; simpl.
  - rewrite str_eqb_refl. reflexivity.
  - destruct (str_eqb n (tn t)) eqn:E; simpl; rewrite E; [reflexivity|exact IH].
Qed.

(* ---------- next_rowid is fresh ---------- *)
Lemma fold_max_ge : forall (rows : table) m,
    m <= fold_left (fun m r => Z.max m (rowid_of r)) rows m
    /\ forall r, In r rows -> rowid_of r <= fold_left (fun m r => Z.max m (rowid_of r)) rows m.
Proof.
  induction rows as [|a rows IH]; intros m; simpl.
  - split; [lia|]. intros r [].
  - destruct (IH (Z.max m (rowid_of a))) as [H1 H2]. split; [lia|].
    intros r [<-|Hr]; [lia|apply H2; exact Hr].
Qed.
Lemma next_rowid_fresh : forall rows r, In r rows -> rowid_of r < next_rowid rows.
Proof.
  intros rows r Hr. unfold next_rowid. destruct (fold_max_ge rows 0) as [_ H]. specialize (H r Hr). lia.
Qed.

(* ---------- _batch ---------- *)
Lemma batch_go_concat : forall {T} (l : list T) n room cur,
    List.concat (batch_go n room cur l) = (rev cur ++ l)%list.
Proof.
  intros T l. induction l as [|x l IH]; intros n room cur; simpl.
  - destruct cur as [|c cur]; simpl; [reflexivity|]. rewrite app_nil_r. reflexivity.
  - destruct room as [|room]; simpl.
    + rewrite IH. simpl. reflexivity.
    + rewrite IH. simpl. rewrite <- app_assoc. reflexivity.
Qed.
Lemma batch_concat : forall {T} (l : list T), List.concat (_batch l) = l.
Proof.
  intros T l. unfold _batch, batch_n.
  destruct (Z.to_nat BATCH_SIZE) as [|n] eqn:E; [vm_compute in E; discriminate|].
  rewrite batch_go_concat. reflexivity.
Qed.

(* ---------- update of a single row ---------- *)
Lemma update_go_none : forall t p sets todo done,
    (forall r, In r todo -> p r = false) ->
    update_go t p sets done todo = Ok (rev done ++ todo)%list.
Proof.
  intros t p sets todo. induction todo as [|a todo IH]; intros done H; simpl.
  - rewrite app_nil_r. reflexivity.
  - rewrite (H a (or_introl eq_refl)). rewrite IH.
    + simpl. rewrite <- app_assoc. reflexivity.
    + intros r Hr. apply H. right. exact Hr.
Qed.
Lemma update_go_single : forall t p sets pre old post done,
    (forall r, In r pre -> p r = false) -> (forall r, In r post -> p r = false) -> p old = true ->
    row_checks_ok t (data_columns t) (tl (apply_sets t sets old)) = true ->
    unique_conflict t (rev_append (rev pre ++ done)%list post) (apply_sets t sets old) = false ->
    update_go t p sets done (pre ++ old :: post)%list
    = Ok (rev done ++ pre ++ apply_sets t sets old :: post)%list.
Proof.
  intros t p sets pre. induction pre as [|a pre IH]; intros old post done Hpre Hpost Hold Hchk Huq.
  - simpl. rewrite Hold, Hchk. simpl. simpl in Huq. rewrite Huq.
    rewrite (update_go_none t p sets post _ Hpost). simpl. rewrite <- app_assoc. reflexivity.
  - simpl. rewrite (Hpre a (or_introl eq_refl)). rewrite IH; try assumption.
    + simpl. rewrite <- app_assoc. reflexivity.
    + intros r Hr. apply Hpre. right. exact Hr.
    + simpl in Huq. rewrite <- app_assoc in Huq. exact Huq.
Qed.

(* ====================================================================== *)
(* STAGE A — the ILI index (add_ili)                                       *)
(* ====================================================================== *)

(* ---------- facts computed from the schema ---------- *)
Lemma dc_ili_statuses : data_columns "ili_statuses" = [("status", "TEXT", true, false)].
Proof. reflexivity. Qed.
Lemma dc_ilis : data_columns "ilis"
  = [("id", "TEXT", true, false); ("status_rowid", "INTEGER", true, false);
     ("definition", "TEXT", false, false); ("metadata", "META", false, false)].
Proof. reflexivity. Qed.
Lemma uq_ili_statuses : table_uniques "ili_statuses" = [["status"]].
Proof. reflexivity. Qed.
Lemma uq_ilis : table_uniques "ilis" = [["id"]].
Proof. reflexivity. Qed.
Lemma col_ilis_id : forall r, col "ilis" "id" r = cell_at 1 r.
Proof. reflexivity. Qed.
Lemma col_ilis_status : forall r, col "ilis" "status_rowid" r = cell_at 2 r.
Proof. reflexivity. Qed.
Lemma col_ilis_definition : forall r, col "ilis" "definition" r = cell_at 3 r.
Proof. reflexivity. Qed.
Lemma col_ilis_metadata : forall r, col "ilis" "metadata" r = cell_at 4 r.
Proof. reflexivity. Qed.
Lemma col_statuses_status : forall r, col "ili_statuses" "status" r = cell_at 1 r.
Proof. reflexivity. Qed.

Lemma sql_eq_sym : forall a b, sql_eq a b = sql_eq b a.
Proof.
  intros a b. destruct a as [|x|x|x]; destruct b as [|y|y|y]; simpl; try reflexivity.
  - apply Z.eqb_sym.
  - destruct (str_eqb x y) eqn:E; destruct (str_eqb y x) eqn:E'; try reflexivity.
    + apply str_eqb_eq in E. subst. rewrite str_eqb_refl in E'. discriminate.
    + apply str_eqb_eq in E'. subst. rewrite str_eqb_refl in E. discriminate.
Qed.

(* ---------- ili_statuses: INSERT OR IGNORE of one status ---------- *)
Definition has_status (S : table) (s : str) : bool :=
  existsb (fun r => sql_eq (CText s) (cell_at 1 r)) S.
Definition add_status (S : table) (s : str) : table :=
  if has_status S s then S else (S ++ [[CInt (next_rowid S); CText s]])%list.
Definition add_statuses (S : table) (ss : list str) : table := fold_left add_status ss S.

Lemma unique_conflict_statuses : forall rows rid s,
    unique_conflict "ili_statuses" rows [CInt rid; CText s] = has_status rows s.
Proof.
  intros rows rid s. unfold unique_conflict. rewrite uq_ili_statuses. simpl existsb at 1.
  rewrite orb_false_r. unfold has_status. apply existsb_ext. intro r.
  unfold same_key. simpl forallb. rewrite !col_statuses_status. rewrite andb_true_r. reflexivity.
Qed.

Definition ioi_status (d : db) (s : str) : db := insert_or_ignore d "ili_statuses" [CText s].

Lemma ioi_status_eq : forall d s,
    ioi_status d s =
    if has_status (get_table d "ili_statuses") s then d
    else set_table d "ili_statuses"
           (get_table d "ili_statuses" ++ [[CInt (next_rowid (get_table d "ili_statuses")); CText s]])%list.
Proof.
  intros d s. unfold ioi_status, insert_or_ignore, try_insert. rewrite dc_ili_statuses.
  change (coerce_all [("status", "TEXT", true, false)] [CText s]) with [CText s].
  change (row_checks_ok "ili_statuses" [("status", "TEXT", true, false)] [CText s]) with true.
  cbv beta iota zeta. simpl negb. cbv iota.
  rewrite unique_conflict_statuses.
  destruct (has_status (get_table d "ili_statuses") s); reflexivity.
Qed.

Lemma ioi_statuses_table : forall ss d,
    get_table (fold_left ioi_status ss d) "ili_statuses" = add_statuses (get_table d "ili_statuses") ss.
Proof.
  induction ss as [|s ss IH]; intros d; simpl; [reflexivity|].
  rewrite IH. f_equal. rewrite ioi_status_eq. unfold add_status.
  destruct (has_status (get_table d "ili_statuses") s); [reflexivity|]. apply get_set_same.
Qed.
Lemma ioi_statuses_other : forall ss d t, t <> "ili_statuses" ->
    get_table (fold_left ioi_status ss d) t = get_table d t.
Proof.
  induction ss as [|s ss IH]; intros d t Ht; simpl; [reflexivity|].
  rewrite IH by exact Ht. rewrite ioi_status_eq.
  destruct (has_status (get_table d "ili_statuses") s); [reflexivity|].
  apply get_set_other. congruence.
Qed.
Lemma ioi_statuses_present : forall ss d,
    (forall s, In s ss -> has_status (get_table d "ili_statuses") s = true) ->
    fold_left ioi_status ss d = d.
Proof.
  induction ss as [|s ss IH]; intros d H; simpl; [reflexivity|].
  assert (ioi_status d s = d) as E.
  { rewrite ioi_status_eq. rewrite (H s (or_introl eq_refl)). reflexivity. }
  rewrite E. apply IH. intros s' Hs'. apply H. right. exact Hs'.
Qed.

(* ---------- the statuses of a file ---------- *)
Definition info_t := list (val * str).
Definition status_of (info : info_t) : str :=
  match dict_get info (vs "status") with Some s => s | None => k "active" end.
Definition def_cell (info : info_t) : cell :=
  match dict_get info (vs "definition") with Some s => CText s | None => CNull end.

Lemma info_get_status : forall info, info_get info "status" (vs "active") = VStr (status_of info).
Proof. intro info. unfold info_get, status_of. destruct (dict_get info (vs "status")); reflexivity. Qed.
Lemma param_definition : forall info, param (info_get info "definition" VNone) = Ok (def_cell info).
Proof. intro info. unfold info_get, def_cell. destruct (dict_get info (vs "definition")); reflexivity. Qed.

Lemma all_strs_VStr : forall l, all_strs (map VStr l) = Some l.
Proof. induction l as [|s l IH]; simpl; [reflexivity|]. rewrite IH. reflexivity. Qed.
Lemma sorted_set_VStr : forall l, sorted_set (map VStr l) = Ok (map VStr (sorted_strs l)).
Proof. intro l. unfold sorted_set. rewrite all_strs_VStr. reflexivity. Qed.

Definition file_statuses (infos : list info_t) : list str := sorted_strs (map status_of infos).

Lemma status_fold_eq : forall ss d,
    foldM (fun d stat => c <- param stat ;; Ok (insert_or_ignore d "ili_statuses" [c])) (map VStr ss) d
    = Ok (fold_left ioi_status ss d).
Proof.
  induction ss as [|s ss IH]; intros d; simpl; [reflexivity|]. apply IH.
Qed.

(* ---------- ilis: the upsert of one line ---------- *)
Definition has_id (i : str) (r : row) : bool := sql_eq (CText i) (cell_at 1 r).
Definition ili_set (st df : cell) (r : row) : row := set_nth 3 df (set_nth 2 st r).
Definition ili_new (rows : table) (i : str) (st df : cell) : row :=
  [CInt (next_rowid rows); CText i; st; df; CNull].
Definition ili_upd (i : str) (st df : cell) (r : row) : row := if has_id i r then ili_set st df r else r.
Definition ili_upsert (rows : table) (i : str) (st df : cell) : table :=
  if existsb (has_id i) rows then map (ili_upd i st df) rows
  else (rows ++ [ili_new rows i st df])%list.

(* well-formed ilis table: five cells per row with an integer rowid and a text id,
   distinct rowids, distinct ids *)
Definition ili_shape (r : row) : bool :=
  match r with [CInt _; CText _; _; _; _] => true | _ => false end.
Fixpoint ilis_ok (rows : table) : bool :=
  match rows with
  | [] => true
  | r :: rest =>
      ili_shape r
      && forallb (fun r' => negb (Z.eqb (rowid_of r) (rowid_of r'))
                            && negb (sql_eq (cell_at 1 r) (cell_at 1 r'))) rest
      && ilis_ok rest
  end.

Lemma ilis_ok_shape : forall rows r, ilis_ok rows = true -> In r rows -> ili_shape r = true.
Proof.
  induction rows as [|a rows IH]; intros r H Hr; [destruct Hr|].
  simpl in H. apply andb_true_iff in H. destruct H as [H H3]. apply andb_true_iff in H. destruct H as [H1 H2].
  destruct Hr as [<-|Hr]; [exact H1|apply IH; assumption].
Qed.
Lemma ilis_ok_split : forall pre old post, ilis_ok (pre ++ old :: post)%list = true ->
    ili_shape old = true
    /\ forall r, In r (pre ++ post)%list ->
                 Z.eqb (rowid_of r) (rowid_of old) = false /\ sql_eq (cell_at 1 old) (cell_at 1 r) = false.
Proof.
  induction pre as [|a pre IH]; intros old post H; simpl in H.
  - apply andb_true_iff in H. destruct H as [H H3]. apply andb_true_iff in H. destruct H as [H1 H2].
    split; [exact H1|]. intros r Hr. simpl in Hr.
    rewrite forallb_forall in H2. specialize (H2 r Hr). apply andb_true_iff in H2. destruct H2 as [Ha Hb].
    apply negb_true_iff in Ha. apply negb_true_iff in Hb. rewrite Z.eqb_sym. split; assumption.
  - apply andb_true_iff in H. destruct H as [H H3]. apply andb_true_iff in H. destruct H as [H1 H2].
    destruct (IH old post H3) as [Hs Hr]. split; [exact Hs|].
    intros r [<-|Hin].
    + rewrite forallb_forall in H2. specialize (H2 old (in_elt old pre post)).
      apply andb_true_iff in H2. destruct H2 as [Ha Hb].
      apply negb_true_iff in Ha. apply negb_true_iff in Hb. rewrite sql_eq_sym. split; assumption.
    + apply Hr. exact Hin.
Qed.
Lemma ilis_ok_map : forall f rows,
    ilis_ok rows = true ->
    (forall r, ili_shape r = true ->
               ili_shape (f r) = true /\ rowid_of (f r) = rowid_of r /\ cell_at 1 (f r) = cell_at 1 r) ->
    ilis_ok (map f rows) = true.
Proof.
  intros f rows. induction rows as [|a rows IH]; intros H Hf; [reflexivity|].
  simpl in H. apply andb_true_iff in H. destruct H as [H H3]. apply andb_true_iff in H. destruct H as [H1 H2].
  simpl. destruct (Hf a H1) as [Ha1 [Ha2 Ha3]]. rewrite Ha1, Ha2, Ha3. simpl.
  rewrite IH by assumption. rewrite andb_true_r.
  rewrite forallb_forall. intros r' Hr'. apply in_map_iff in Hr'. destruct Hr' as [r0 [<- Hr0]].
  assert (ili_shape r0 = true) as Hs0 by (eapply ilis_ok_shape; eassumption).
  destruct (Hf r0 Hs0) as [_ [Hb2 Hb3]]. rewrite Hb2, Hb3.
  rewrite forallb_forall in H2. exact (H2 r0 Hr0).
Qed.
Lemma ilis_ok_snoc : forall rows r,
    ilis_ok rows = true -> ili_shape r = true ->
    (forall r0, In r0 rows -> Z.eqb (rowid_of r0) (rowid_of r) = false
                              /\ sql_eq (cell_at 1 r0) (cell_at 1 r) = false) ->
    ilis_ok (rows ++ [r])%list = true.
Proof.
  induction rows as [|a rows IH]; intros r H Hs Hr; simpl.
  - rewrite Hs. reflexivity.
  - simpl in H. apply andb_true_iff in H. destruct H as [H H3]. apply andb_true_iff in H. destruct H as [H1 H2].
    rewrite H1. simpl. rewrite IH; try assumption.
    + rewrite andb_true_r. rewrite forallb_app, H2. simpl.
      destruct (Hr a (or_introl eq_refl)) as [Ha Hb]. rewrite Ha, Hb. reflexivity.
    + intros r0 Hr0. apply Hr. right. exact Hr0.
Qed.

Lemma ili_shape_inv : forall r, ili_shape r = true ->
    exists n i s d m, r = [CInt n; CText i; s; d; m].
Proof.
  intros r H.
  destruct r as [|c0 r]; simpl in H; [discriminate|]. destruct c0; simpl in H; try discriminate.
  destruct r as [|c1 r]; simpl in H; [discriminate|]. destruct c1; simpl in H; try discriminate.
  destruct r as [|c2 r]; simpl in H; [discriminate|].
  destruct r as [|c3 r]; simpl in H; [discriminate|].
  destruct r as [|c4 r]; simpl in H; [discriminate|].
  destruct r as [|c5 r]; simpl in H; [|discriminate].
  eauto 10.
Qed.
Lemma ili_shape_set : forall st df r, ili_shape r = true -> ili_shape (ili_set st df r) = true.
Proof.
  intros st df r H. destruct (ili_shape_inv r H) as (n & i & s & d & m & ->). reflexivity.
Qed.
Lemma ili_shape_length : forall r, ili_shape r = true -> List.length r = 5%nat.
Proof.
  intros r H. destruct (ili_shape_inv r H) as (n & i & s & d & m & ->). reflexivity.
Qed.
Lemma ili_set_cells : forall st df r j, j <> 2%nat -> j <> 3%nat -> cell_at j (ili_set st df r) = cell_at j r.
Proof.
  intros st df r j H2 H3. unfold ili_set.
  rewrite cell_at_set_nth_other by congruence. apply cell_at_set_nth_other. congruence.
Qed.
Lemma ili_set_status : forall st df r, (4 <= List.length r)%nat -> cell_at 2 (ili_set st df r) = st.
Proof.
  intros st df r H. unfold ili_set. rewrite cell_at_set_nth_other by congruence.
  apply cell_at_set_nth_same. lia.
Qed.
Lemma ili_set_definition : forall st df r, (4 <= List.length r)%nat -> cell_at 3 (ili_set st df r) = df.
Proof.
  intros st df r H. unfold ili_set. apply cell_at_set_nth_same. rewrite length_set_nth. lia.
Qed.
Lemma length_ili_set : forall st df r, List.length (ili_set st df r) = List.length r.
Proof. intros. unfold ili_set. rewrite !length_set_nth. reflexivity. Qed.
Lemma rowid_of_ili_set : forall st df r, rowid_of (ili_set st df r) = rowid_of r.
Proof. intros. unfold ili_set. rewrite !rowid_of_set_nth by congruence. reflexivity. Qed.
Lemma has_id_ili_set : forall i st df r, has_id i (ili_set st df r) = has_id i r.
Proof. intros. unfold has_id. rewrite ili_set_cells by congruence. reflexivity. Qed.
Lemma ili_set_ili_set : forall a b c e r, ili_set a b (ili_set c e r) = ili_set a b r.
Proof.
  intros. unfold ili_set.
  rewrite (set_nth_comm 2 3 a e) by congruence. rewrite !set_nth_set_nth_same. reflexivity.
Qed.
Lemma ili_set_same : forall r, (4 <= List.length r)%nat -> ili_set (cell_at 2 r) (cell_at 3 r) r = r.
Proof.
  intros r H. unfold ili_set.
  rewrite set_nth_same_cell by lia.
  rewrite set_nth_same_cell by lia. reflexivity.
Qed.

Lemma has_id_eq : forall i j r, has_id i r = true -> has_id j r = true -> i = j.
Proof.
  unfold has_id. intros i j r Hi Hj. destruct (cell_at 1 r) as [|n|s|v]; simpl in *; try discriminate.
  apply str_eqb_eq in Hi. apply str_eqb_eq in Hj. congruence.
Qed.

Lemma ilis_ok_upsert : forall rows i st df,
    ilis_ok rows = true -> ilis_ok (ili_upsert rows i st df) = true.
Proof.
  intros rows i st df H. unfold ili_upsert. destruct (existsb (has_id i) rows) eqn:E.
  - apply ilis_ok_map; [exact H|]. intros r Hs. unfold ili_upd. destruct (has_id i r).
    + split; [apply ili_shape_set; exact Hs|]. split; [apply rowid_of_ili_set|].
      apply ili_set_cells; congruence.
    + auto.
  - apply ilis_ok_snoc; [exact H|reflexivity|]. intros r0 Hr0. split.
    + apply Z.eqb_neq. pose proof (next_rowid_fresh rows r0 Hr0) as Hf. simpl. lia.
    + pose proof (existsb_false_forall _ _ E r0 Hr0) as Hn. unfold has_id in Hn.
      rewrite sql_eq_sym. exact Hn.
Qed.

(* ---------- the model's upsert on ilis is ili_upsert ---------- *)
Definition st_cell_ok (st : cell) : Prop := st = CNull \/ exists n, st = CInt n.
Definition df_cell_ok (df : cell) : Prop := df = CNull \/ exists s, df = CText s.

Lemma same_key_ilis : forall x i rest r, same_key "ilis" ["id"] (x :: CText i :: rest) r = has_id i r.
Proof.
  intros. unfold same_key. simpl forallb. rewrite !col_ilis_id. rewrite andb_true_r. reflexivity.
Qed.
Lemma unique_conflict_ilis : forall rows x i rest,
    unique_conflict "ilis" rows (x :: CText i :: rest) = existsb (has_id i) rows.
Proof.
  intros. unfold unique_conflict. rewrite uq_ilis. simpl existsb at 1. rewrite orb_false_r.
  apply existsb_ext. intro r. apply same_key_ilis.
Qed.
Lemma coerce_ilis : forall i n df, df_cell_ok df ->
    coerce_all (data_columns "ilis") [CText i; CInt n; df; CNull] = [CText i; CInt n; df; CNull].
Proof. intros i n df [->|[s ->]]; reflexivity. Qed.
Lemma checks_ilis : forall i n df m,
    row_checks_ok "ilis" (data_columns "ilis") [CText i; CInt n; df; m] = true.
Proof. intros. reflexivity. Qed.
Lemma checks_ilis_null : forall i df m,
    row_checks_ok "ilis" (data_columns "ilis") (coerce_all (data_columns "ilis") [CText i; CNull; df; m]) = false.
Proof. intros. reflexivity. Qed.
Lemma apply_sets_ilis : forall n df a j s0 d0 m0, df_cell_ok df ->
    apply_sets "ilis" [("status_rowid", CInt n); ("definition", df)] [CInt a; CText j; s0; d0; m0]
    = ili_set (CInt n) df [CInt a; CText j; s0; d0; m0].
Proof. intros n df a j s0 d0 m0 [->|[s ->]]; reflexivity. Qed.

Lemma sql_eq_text_false : forall i j c,
    sql_eq (CText i) (CText j) = true -> sql_eq (CText j) c = false -> sql_eq (CText i) c = true -> False.
Proof.
  intros i j c H1 H2 H3. simpl in H1. apply str_eqb_eq in H1. subst j. congruence.
Qed.
Lemma map_id_in : forall {T} (f : T -> T) l, (forall x, In x l -> f x = x) -> map f l = l.
Proof.
  intros T f l H. induction l as [|a l IH]; simpl; [reflexivity|].
  rewrite H by (left; reflexivity). rewrite IH; [reflexivity|]. intros x Hx. apply H. right. exact Hx.
Qed.

Lemma upsert_ilis : forall d i st df,
    ilis_ok (get_table d "ilis") = true -> st_cell_ok st -> df_cell_ok df ->
    upsert d "ilis" [CText i; st; df; CNull] ["id"] ["status_rowid"; "definition"]
    = if is_null st then OtherError
      else Ok (set_table d "ilis" (ili_upsert (get_table d "ilis") i st df)).
Proof.
  intros d i st df Hok Hst Hdf. unfold upsert. cbv zeta.
  destruct Hst as [->|[n ->]].
  { rewrite checks_ilis_null. reflexivity. }
  rewrite (coerce_ilis i n df Hdf). rewrite checks_ilis. simpl negb. cbv iota. simpl is_null. cbv iota.
  rewrite (find_ext _ (has_id i) _ (same_key_ilis _ i _)).
  unfold ili_upsert.
  destruct (find (has_id i) (get_table d "ilis")) as [old|] eqn:Hf.
  - (* the ILI exists: UPDATE *)
    assert (existsb (has_id i) (get_table d "ilis") = true) as Hex.
    { apply existsb_exists. exists old. apply find_some in Hf. exact Hf. }
    rewrite Hex.
    destruct (find_split _ _ _ Hf) as [pre [post [HT [Hold Hpre]]]].
    rewrite HT in Hok. destruct (ilis_ok_split _ _ _ Hok) as [Hshape Hdist].
    destruct (ili_shape_inv old Hshape) as (a & j & s0 & d0 & m0 & Eold).
    match goal with |- context [update _ _ _ ?s] =>
      replace s with [("status_rowid", CInt n); ("definition", df)] by reflexivity end.
    assert (apply_sets "ilis" [("status_rowid", CInt n); ("definition", df)] old
            = ili_set (CInt n) df old) as Happ.
    { rewrite Eold. apply apply_sets_ilis. exact Hdf. }
    unfold update. rewrite HT.
    rewrite (update_go_single "ilis" _ _ pre old post []).
    + unfold bind. rewrite Happ. cbn [rev app]. f_equal. f_equal.
      rewrite map_app. simpl map. f_equal; [|f_equal].
      * symmetry. apply map_id_in. intros r Hr. unfold ili_upd. rewrite (Hpre r Hr). reflexivity.
      * unfold ili_upd. rewrite Hold. reflexivity.
      * symmetry. apply map_id_in. intros r Hr. unfold ili_upd.
        destruct (has_id i r) eqn:Er; [|reflexivity]. exfalso.
        destruct (Hdist r (in_or_app _ _ _ (or_intror Hr))) as [_ Hne].
        unfold has_id in Hold, Er. rewrite Eold in Hold, Hne.
        change (cell_at 1 [CInt a; CText j; s0; d0; m0]) with (CText j) in Hold, Hne.
        exact (sql_eq_text_false i j _ Hold Hne Er).
    + intros r Hr. apply (Hdist r (in_or_app _ _ _ (or_introl Hr))).
    + intros r Hr. apply (Hdist r (in_or_app _ _ _ (or_intror Hr))).
    + apply Z.eqb_refl.
    + rewrite Happ, Eold. reflexivity.
    + rewrite Happ, Eold.
      change (ili_set (CInt n) df [CInt a; CText j; s0; d0; m0]) with [CInt a; CText j; CInt n; df; m0].
      rewrite unique_conflict_ilis. rewrite rev_append_rev, app_nil_r, rev_involutive.
      destruct (existsb (has_id j) (pre ++ post)%list) eqn:Ee; [|reflexivity]. exfalso.
      apply existsb_exists in Ee. destruct Ee as [r [Hr Er]].
      destruct (Hdist r Hr) as [_ Hne]. rewrite Eold in Hne.
      change (cell_at 1 [CInt a; CText j; s0; d0; m0]) with (CText j) in Hne.
      unfold has_id in Er. congruence.
  - (* a new ILI: INSERT *)
    assert (existsb (has_id i) (get_table d "ilis") = false) as Hex.
    { destruct (existsb (has_id i) (get_table d "ilis")) eqn:E; [|reflexivity].
      apply existsb_exists in E. destruct E as [r [Hr Er]].
      rewrite (find_none _ _ Hf r Hr) in Er. discriminate. }
    rewrite Hex. unfold insert, try_insert. cbv zeta.
    rewrite (coerce_ilis i n df Hdf). rewrite checks_ilis. simpl negb. cbv iota.
    rewrite unique_conflict_ilis, Hex. reflexivity.
Qed.

(* ---------- add_ili as a function on the two tables ---------- *)
Definition trip := (str * cell * cell)%type.     (* id, status rowid, definition *)
Definition status_lookup (S : table) (s : str) : cell :=
  match find (fun r => sql_eq (cell_at 1 r) (CText s)) S with
  | Some r => CInt (rowid_of r)
  | None => CNull
  end.
Lemma ILISTAT_QUERY_eq : forall d s,
    ILISTAT_QUERY d (CText s) = status_lookup (get_table d "ili_statuses") s.
Proof. reflexivity. Qed.

Definition trip_of (S : table) (info : info_t) : option trip :=
  match dict_get info (vs "ili") with
  | None => None
  | Some i => if is_null (status_lookup S (status_of info)) then None
              else Some (i, status_lookup S (status_of info), def_cell info)
  end.
Fixpoint trips_of (S : table) (infos : list info_t) : option (list trip) :=
  match infos with
  | [] => Some []
  | x :: r => match trip_of S x with
              | None => None
              | Some t => match trips_of S r with None => None | Some l => Some (t :: l) end
              end
  end.
Definition ups (T : table) (x : trip) : table := ili_upsert T (fst (fst x)) (snd (fst x)) (snd x).
Definition ups_all (T : table) (l : list trip) : table := fold_left ups l T.

(* the body of the loop of add_ili *)
Definition ili_step (d : db) (info : info_t) : result db :=
  match dict_get info (vs "ili") with
  | None => OtherError
  | Some id =>
      status <- param (info_get info "status" (vs "active")) ;;
      definition <- param (info_get info "definition" VNone) ;;
      upsert d "ilis" [CText id; ILISTAT_QUERY d status; definition; CNull]
             ["id"] ["status_rowid"; "definition"]
  end.

Lemma status_lookup_ok : forall S s, st_cell_ok (status_lookup S s).
Proof.
  intros S s. unfold status_lookup, st_cell_ok.
  destruct (find _ S) as [r|]; [right; eexists; reflexivity|left; reflexivity].
Qed.
Lemma def_cell_ok : forall info, df_cell_ok (def_cell info).
Proof.
  intro info. unfold def_cell, df_cell_ok.
  destruct (dict_get info (vs "definition")) as [s|]; [right; eexists; reflexivity|left; reflexivity].
Qed.

Lemma ili_step_eq : forall d info,
    ilis_ok (get_table d "ilis") = true ->
    ili_step d info = match trip_of (get_table d "ili_statuses") info with
                      | None => OtherError
                      | Some x => Ok (set_table d "ilis" (ups (get_table d "ilis") x))
                      end.
Proof.
  intros d info Hok. unfold ili_step, trip_of.
  destruct (dict_get info (vs "ili")) as [i|]; [|reflexivity].
  rewrite info_get_status. simpl param. unfold bind at 1. rewrite param_definition. unfold bind.
  rewrite ILISTAT_QUERY_eq.
  rewrite (upsert_ilis d i _ _ Hok (status_lookup_ok _ _) (def_cell_ok info)).
  destruct (is_null (status_lookup (get_table d "ili_statuses") (status_of info))); reflexivity.
Qed.

Lemma ilis_ok_ups : forall T x, ilis_ok T = true -> ilis_ok (ups T x) = true.
Proof. intros T x H. unfold ups. apply ilis_ok_upsert. exact H. Qed.
Lemma ilis_ok_ups_all : forall l T, ilis_ok T = true -> ilis_ok (ups_all T l) = true.
Proof.
  induction l as [|x l IH]; intros T H; simpl; [exact H|]. apply IH. apply ilis_ok_ups. exact H.
Qed.

Lemma phase2_eq : forall infos d,
    ilis_ok (get_table d "ilis") = true ->
    foldM ili_step infos d
    = match trips_of (get_table d "ili_statuses") infos with
      | None => OtherError
      | Some [] => Ok d
      | Some l => Ok (set_table d "ilis" (ups_all (get_table d "ilis") l))
      end.
Proof.
  induction infos as [|info infos IH]; intros d Hok; [reflexivity|].
  simpl foldM. rewrite (ili_step_eq d info Hok). simpl trips_of.
  destruct (trip_of (get_table d "ili_statuses") info) as [x|]; [|reflexivity].
  unfold bind. rewrite IH.
  - rewrite get_set_other by congruence. rewrite get_set_same.
    destruct (trips_of (get_table d "ili_statuses") infos) as [[|y l]|]; try reflexivity.
    rewrite set_set_same. reflexivity.
  - rewrite get_set_same. apply ilis_ok_ups. exact Hok.
Qed.

Lemma add_ili_eq : forall d lines,
    add_ili d lines
    = match ili_load lines with
      | Ok infos => foldM ili_step infos (fold_left ioi_status (file_statuses infos) d)
      | WnError => WnError
      | OtherError => OtherError
      end.
Proof.
  intros d lines. unfold add_ili. destruct (ili_load lines) as [infos| |]; try reflexivity.
  unfold bind at 1.
  replace (map (fun info => info_get info "status" (vs "active")) infos)
    with (map VStr (map status_of infos))
    by (rewrite map_map; apply map_ext; intro info; symmetry; apply info_get_status).
  rewrite sorted_set_VStr. unfold bind at 1. rewrite status_fold_eq. unfold bind at 1.
  rewrite foldM_concat, batch_concat. reflexivity.
Qed.

(* the characterisation used by all the theorems of this stage *)
Lemma add_ili_char : forall d lines d',
    ilis_ok (get_table d "ilis") = true ->
    add_ili d lines = Ok d' ->
    exists infos l,
      ili_load lines = Ok infos
      /\ trips_of (add_statuses (get_table d "ili_statuses") (file_statuses infos)) infos = Some l
      /\ let d1 := fold_left ioi_status (file_statuses infos) d in
         d' = match l with [] => d1 | _ => set_table d1 "ilis" (ups_all (get_table d "ilis") l) end.
Proof.
  intros d lines d' Hok H. rewrite add_ili_eq in H.
  destruct (ili_load lines) as [infos| |]; try discriminate.
  rewrite phase2_eq in H by (rewrite ioi_statuses_other by congruence; exact Hok).
  rewrite ioi_statuses_table in H. rewrite ioi_statuses_other in H by congruence.
  destruct (trips_of _ infos) as [l|] eqn:El; [|discriminate].
  exists infos, l. split; [reflexivity|]. split; [exact El|].
  destruct l; injection H as <-; reflexivity.
Qed.

(* ---------- the fold of upserts on the ilis table ---------- *)
Definition tid (x : trip) : str := fst (fst x).
Definition tst (x : trip) : cell := snd (fst x).
Definition tdf (x : trip) : cell := snd x.
Definition upd (x : trip) (r : row) : row := ili_upd (tid x) (tst x) (tdf x) r.
Definition apply_trips (l : list trip) (r : row) : row := fold_left (fun r x => upd x r) l r.

Lemma ups_present : forall T x, existsb (has_id (tid x)) T = true -> ups T x = map (upd x) T.
Proof. intros T x H. unfold ups, ili_upsert. fold (tid x). rewrite H. reflexivity. Qed.
Lemma ups_absent : forall T x, existsb (has_id (tid x)) T = false ->
    ups T x = (T ++ [ili_new T (tid x) (tst x) (tdf x)])%list.
Proof. intros T x H. unfold ups, ili_upsert. fold (tid x). rewrite H. reflexivity. Qed.

Lemma has_id_upd : forall i x r, has_id i (upd x r) = has_id i r.
Proof.
  intros i x r. unfold upd, ili_upd. destruct (has_id (tid x) r); [apply has_id_ili_set|reflexivity].
Qed.
Lemma has_id_new : forall i T j st df, has_id i (ili_new T j st df) = str_eqb i j.
Proof. reflexivity. Qed.
Lemma upd_cells : forall x r j, j <> 2%nat -> j <> 3%nat -> cell_at j (upd x r) = cell_at j r.
Proof.
  intros x r j H2 H3. unfold upd, ili_upd. destruct (has_id (tid x) r); [apply ili_set_cells; assumption|reflexivity].
Qed.
Lemma length_upd : forall x r, List.length (upd x r) = List.length r.
Proof. intros x r. unfold upd, ili_upd. destruct (has_id (tid x) r); [apply length_ili_set|reflexivity]. Qed.

Lemma apply_trips_cells : forall l r j, j <> 2%nat -> j <> 3%nat -> cell_at j (apply_trips l r) = cell_at j r.
Proof.
  induction l as [|x l IH]; intros r j H2 H3; simpl; [reflexivity|].
  unfold apply_trips in IH. rewrite IH by assumption. apply upd_cells; assumption.
Qed.
Lemma has_id_apply_trips : forall l i r, has_id i (apply_trips l r) = has_id i r.
Proof. intros l i r. unfold has_id. rewrite apply_trips_cells by congruence. reflexivity. Qed.
Lemma length_apply_trips : forall l r, List.length (apply_trips l r) = List.length r.
Proof.
  induction l as [|x l IH]; intros r; simpl; [reflexivity|].
  unfold apply_trips in IH. rewrite IH. apply length_upd.
Qed.
Lemma rowid_of_apply_trips : forall l r, rowid_of (apply_trips l r) = rowid_of r.
Proof.
  induction l as [|x l IH]; intros r; simpl; [reflexivity|].
  unfold apply_trips in IH. rewrite IH. unfold upd, ili_upd.
  destruct (has_id (tid x) r); [apply rowid_of_ili_set|reflexivity].
Qed.
Lemma apply_trips_unlisted : forall l r,
    (forall x, In x l -> has_id (tid x) r = false) -> apply_trips l r = r.
Proof.
  induction l as [|x l IH]; intros r H; simpl; [reflexivity|].
  assert (upd x r = r) as E.
  { unfold upd, ili_upd. rewrite (H x (or_introl eq_refl)). reflexivity. }
  rewrite E. apply IH. intros y Hy. apply H. right. exact Hy.
Qed.
Lemma apply_trips_app : forall l1 l2 r, apply_trips (l1 ++ l2)%list r = apply_trips l2 (apply_trips l1 r).
Proof. intros. unfold apply_trips. apply fold_left_app. Qed.
Lemma apply_trips_form : forall l r,
    apply_trips l r = r \/ exists a b, apply_trips l r = ili_set a b r.
Proof.
  induction l as [|x l IH]; intros r; simpl; [left; reflexivity|].
  fold (apply_trips l (upd x r)).
  destruct (IH (upd x r)) as [E|[a [b E]]]; rewrite E; unfold upd, ili_upd;
    destruct (has_id (tid x) r).
  - right. eauto.
  - left. reflexivity.
  - right. exists a, b. apply ili_set_ili_set.
  - right. eauto.
Qed.

Lemma ups_all_app : forall T l1 l2, ups_all T (l1 ++ l2)%list = ups_all (ups_all T l1) l2.
Proof. intros. unfold ups_all. apply fold_left_app. Qed.

(* structure: the old rows, updated in place, followed by the new ILIs *)
Lemma ups_all_struct : forall l T, exists news, ups_all T l = (map (apply_trips l) T ++ news)%list.
Proof.
  induction l as [|x l IH] using rev_ind; intros T.
  - exists []. simpl. rewrite map_id, app_nil_r. reflexivity.
  - rewrite ups_all_app. simpl. destruct (IH T) as [news E]. rewrite E.
    destruct (existsb (has_id (tid x)) (map (apply_trips l) T ++ news)%list) eqn:Ex.
    + rewrite ups_present by exact Ex. rewrite map_app, map_map.
      exists (map (upd x) news). f_equal. apply map_ext. intro r. rewrite apply_trips_app. reflexivity.
    + rewrite ups_absent by exact Ex. rewrite <- app_assoc. eexists. f_equal.
      apply map_ext_in. intros r Hr. rewrite apply_trips_app. simpl.
      unfold upd, ili_upd.
      rewrite (existsb_false_forall _ _ Ex (apply_trips l r)); [reflexivity|].
      apply in_or_app. left. apply in_map. exact Hr.
Qed.

(* presence of ids *)
Lemma present_ups : forall T y i, existsb (has_id i) T = true -> existsb (has_id i) (ups T y) = true.
Proof.
  intros T y i H. destruct (existsb (has_id (tid y)) T) eqn:Ey.
  - rewrite ups_present by exact Ey. apply existsb_exists in H. destruct H as [r [Hr Hi]].
    apply existsb_exists. exists (upd y r). split; [apply in_map; exact Hr|]. rewrite has_id_upd. exact Hi.
  - rewrite ups_absent by exact Ey. rewrite existsb_app, H. reflexivity.
Qed.
Lemma present_ups_self : forall T x, existsb (has_id (tid x)) (ups T x) = true.
Proof.
  intros T x. destruct (existsb (has_id (tid x)) T) eqn:Ex.
  - apply present_ups. exact Ex.
  - rewrite ups_absent by exact Ex. rewrite existsb_app. simpl. rewrite has_id_new, str_eqb_refl.
    rewrite orb_true_r. reflexivity.
Qed.
Lemma present_ups_all : forall l T i, existsb (has_id i) T = true -> existsb (has_id i) (ups_all T l) = true.
Proof.
  induction l as [|y l IH]; intros T i H; simpl; [exact H|]. apply IH. apply present_ups. exact H.
Qed.
Lemma ids_present : forall l T x, In x l -> existsb (has_id (tid x)) (ups_all T l) = true.
Proof.
  induction l as [|y l IH]; intros T x Hx; [destruct Hx|]. simpl.
  destruct Hx as [->|Hx]; [apply present_ups_all; apply present_ups_self|apply IH; exact Hx].
Qed.

(* when every id is present the fold is a map *)
Lemma ups_all_map : forall l T,
    (forall x, In x l -> existsb (has_id (tid x)) T = true) -> ups_all T l = map (apply_trips l) T.
Proof.
  induction l as [|x l IH]; intros T H; simpl.
  - rewrite map_id. reflexivity.
  - rewrite ups_present by (apply H; left; reflexivity). rewrite IH.
    + rewrite map_map. reflexivity.
    + intros y Hy. rewrite <- (ups_present T x) by (apply H; left; reflexivity).
      apply present_ups. apply H. right. exact Hy.
Qed.

(* every row of the result is a fixed point of the updates *)
Lemma ups_all_fixed : forall l T r, In r (ups_all T l) -> apply_trips l r = r.
Proof.
  induction l as [|x l IH] using rev_ind; intros T r Hr; [reflexivity|].
  rewrite ups_all_app in Hr. simpl in Hr. rewrite apply_trips_app. simpl.
  destruct (existsb (has_id (tid x)) (ups_all T l)) eqn:Ex.
  - rewrite ups_present in Hr by exact Ex. apply in_map_iff in Hr. destruct Hr as [r0 [<- Hr0]].
    unfold upd at 2. unfold ili_upd. destruct (has_id (tid x) r0) eqn:E0.
    + unfold upd, ili_upd. rewrite has_id_apply_trips, has_id_ili_set, E0.
      destruct (apply_trips_form l (ili_set (tst x) (tdf x) r0)) as [E|[a [b E]]]; rewrite E;
        rewrite !ili_set_ili_set; reflexivity.
    + rewrite (IH T r0 Hr0). unfold upd, ili_upd. rewrite E0. reflexivity.
  - rewrite ups_absent in Hr by exact Ex. apply in_app_or in Hr. destruct Hr as [Hr|[<-|[]]].
    + rewrite (IH T r Hr). unfold upd, ili_upd.
      rewrite (existsb_false_forall _ _ Ex r Hr). reflexivity.
    + rewrite apply_trips_unlisted.
      * unfold upd, ili_upd. rewrite has_id_new, str_eqb_refl. reflexivity.
      * intros y Hy. rewrite has_id_new.
        destruct (str_eqb (tid y) (tid x)) eqn:E; [|reflexivity].
        apply str_eqb_eq in E. rewrite <- E in Ex. rewrite (ids_present l T y Hy) in Ex. discriminate.
Qed.

Lemma ups_all_idempotent : forall l T, ups_all (ups_all T l) l = ups_all T l.
Proof.
  intros l T. rewrite ups_all_map.
  - apply map_id_in. intros r Hr. eapply ups_all_fixed. exact Hr.
  - intros x Hx. apply ids_present. exact Hx.
Qed.

(* rows whose id is different from the id of an upsert are not affected by it *)
Lemma ups_other_in : forall U y i r,
    tid y <> i -> In r (ups U y) -> has_id i r = true -> In r U.
Proof.
  intros U y i r Hne Hr Hi. destruct (existsb (has_id (tid y)) U) eqn:Ey.
  - rewrite ups_present in Hr by exact Ey. apply in_map_iff in Hr. destruct Hr as [r0 [<- Hr0]].
    rewrite has_id_upd in Hi. unfold upd, ili_upd.
    destruct (has_id (tid y) r0) eqn:E0; [|exact Hr0].
    exfalso. apply Hne. eapply has_id_eq; eassumption.
  - rewrite ups_absent in Hr by exact Ey. apply in_app_or in Hr. destruct Hr as [Hr|[<-|[]]]; [exact Hr|].
    rewrite has_id_new in Hi. apply str_eqb_eq in Hi. congruence.
Qed.
Lemma ups_other_keep : forall U y i r,
    tid y <> i -> In r U -> has_id i r = true -> In r (ups U y).
Proof.
  intros U y i r Hne Hr Hi. destruct (existsb (has_id (tid y)) U) eqn:Ey.
  - rewrite ups_present by exact Ey.
    assert (upd y r = r) as E.
    { unfold upd, ili_upd. destruct (has_id (tid y) r) eqn:E0; [|reflexivity].
      exfalso. apply Hne. eapply has_id_eq; eassumption. }
    rewrite <- E. apply in_map. exact Hr.
  - rewrite ups_absent by exact Ey. apply in_or_app. left. exact Hr.
Qed.
Lemma ups_all_other_in : forall post U i r,
    (forall y, In y post -> tid y <> i) -> In r (ups_all U post) -> has_id i r = true -> In r U.
Proof.
  induction post as [|y post IH]; intros U i r H Hr Hi; [exact Hr|]. simpl in Hr.
  eapply ups_other_in; [apply H; left; reflexivity| |exact Hi].
  eapply IH; [|exact Hr|exact Hi]. intros z Hz. apply H. right. exact Hz.
Qed.
Lemma ups_all_other_keep : forall post U i r,
    (forall y, In y post -> tid y <> i) -> In r U -> has_id i r = true -> In r (ups_all U post).
Proof.
  induction post as [|y post IH]; intros U i r H Hr Hi; [exact Hr|]. simpl.
  apply (IH _ i); [intros z Hz; apply H; right; exact Hz| |exact Hi].
  apply (ups_other_keep U y i); [apply H; left; reflexivity|exact Hr|exact Hi].
Qed.

(* the last line listing an id determines the status and the definition *)
Lemma ups_all_listed : forall pre x post T,
    ilis_ok T = true -> (forall y, In y post -> tid y <> tid x) ->
    (exists r, In r (ups_all T (pre ++ x :: post)%list) /\ has_id (tid x) r = true)
    /\ forall r, In r (ups_all T (pre ++ x :: post)%list) -> has_id (tid x) r = true ->
                 cell_at 2 r = tst x /\ cell_at 3 r = tdf x.
Proof.
  intros pre x post T Hok Hpost. rewrite ups_all_app. simpl.
  set (U := ups_all T pre). assert (ilis_ok U = true) as HU by (apply ilis_ok_ups_all; exact Hok).
  assert (forall r, In r (ups U x) -> has_id (tid x) r = true ->
                    cell_at 2 r = tst x /\ cell_at 3 r = tdf x) as Hcells.
  { intros r Hr Hi. destruct (existsb (has_id (tid x)) U) eqn:Ex.
    - rewrite ups_present in Hr by exact Ex. apply in_map_iff in Hr. destruct Hr as [r0 [<- Hr0]].
      rewrite has_id_upd in Hi. unfold upd, ili_upd. rewrite Hi.
      pose proof (ili_shape_length r0 (ilis_ok_shape U r0 HU Hr0)) as Hl.
      split; [apply ili_set_status|apply ili_set_definition]; lia.
    - rewrite ups_absent in Hr by exact Ex. apply in_app_or in Hr. destruct Hr as [Hr|[<-|[]]].
      + rewrite (existsb_false_forall _ _ Ex r Hr) in Hi. discriminate.
      + split; reflexivity. }
  split.
  - pose proof (present_ups_self U x) as Hp. apply existsb_exists in Hp. destruct Hp as [r [Hr Hi]].
    exists r. split; [|exact Hi]. apply (ups_all_other_keep post _ (tid x)); assumption.
  - intros r Hr Hi. apply Hcells; [|exact Hi]. apply (ups_all_other_in post _ (tid x)); assumption.
Qed.

(* ---------- inversion of the generic statements ---------- *)
Lemma try_insert_inv : forall d t vals d' rid,
    try_insert d t vals = Inserted d' rid ->
    rid = next_rowid (get_table d t)
    /\ d' = set_table d t (get_table d t ++ [CInt rid :: coerce_all (data_columns t) vals])%list.
Proof.
  intros d t vals d' rid H. unfold try_insert in H. cbv zeta in H.
  destruct (negb (row_checks_ok t (data_columns t) (coerce_all (data_columns t) vals))); [discriminate|].
  destruct (unique_conflict t (get_table d t) _); [discriminate|].
  injection H as <- <-. split; reflexivity.
Qed.
Lemma insert_inv : forall d t vals d',
    insert d t vals = Ok d' ->
    d' = set_table d t (get_table d t ++ [CInt (next_rowid (get_table d t))
                                          :: coerce_all (data_columns t) vals])%list.
Proof.
  intros d t vals d' H. unfold insert in H.
  destruct (try_insert d t vals) as [d1 rid|] eqn:E; [|discriminate].
  injection H as <-. destruct (try_insert_inv _ _ _ _ _ E) as [-> ->]. reflexivity.
Qed.
Lemma insert_rowid_inv : forall d t vals d' rid,
    insert_rowid d t vals = Ok (d', rid) ->
    rid = next_rowid (get_table d t)
    /\ d' = set_table d t (get_table d t ++ [CInt rid :: coerce_all (data_columns t) vals])%list.
Proof.
  intros d t vals d' rid H. unfold insert_rowid in H.
  destruct (try_insert d t vals) as [d1 r1|] eqn:E; [|discriminate].
  injection H as <- <-. exact (try_insert_inv _ _ _ _ _ E).
Qed.
Lemma insert_or_ignore_inv : forall d t vals,
    insert_or_ignore d t vals = d
    \/ insert_or_ignore d t vals
       = set_table d t (get_table d t ++ [CInt (next_rowid (get_table d t))
                                          :: coerce_all (data_columns t) vals])%list.
Proof.
  intros d t vals. unfold insert_or_ignore.
  destruct (try_insert d t vals) as [d1 rid|] eqn:E; [|left; reflexivity].
  right. destruct (try_insert_inv _ _ _ _ _ E) as [-> ->]. reflexivity.
Qed.
Lemma update_inv : forall d t p sets d',
    update d t p sets = Ok d' -> exists rows, d' = set_table d t rows.
Proof.
  intros d t p sets d' H. unfold update in H. apply bind_ok in H. destruct H as [rows [_ H]].
  injection H as <-. exists rows. reflexivity.
Qed.
Lemma upsert_other : forall d t vals key up d' t',
    upsert d t vals key up = Ok d' -> t <> t' -> get_table d' t' = get_table d t'.
Proof.
  intros d t vals key up d' t' H Ht. unfold upsert in H. cbv zeta in H.
  destruct (negb _); [discriminate|].
  destruct (find _ (get_table d t)) as [old|].
  - apply update_inv in H. destruct H as [rows ->]. apply get_set_other. exact Ht.
  - apply insert_inv in H. rewrite H. apply get_set_other. exact Ht.
Qed.

Lemma ili_step_other : forall d info d' t,
    ili_step d info = Ok d' -> t <> "ilis" -> get_table d' t = get_table d t.
Proof.
  intros d info d' t H Ht. unfold ili_step in H.
  destruct (dict_get info (vs "ili")) as [i|]; [|discriminate].
  apply bind_ok in H. destruct H as [st [_ H]]. apply bind_ok in H. destruct H as [df [_ H]].
  eapply upsert_other; [exact H|congruence].
Qed.

(* ---------- (A1) ---------- *)
Theorem add_ili_touches_only_ili_tables : forall d lines d',
    add_ili d lines = Ok d' ->
    forall t, t <> "ilis" -> t <> "ili_statuses" -> get_table d' t = get_table d t.
Proof.
  intros d lines d' H t Ht1 Ht2. rewrite add_ili_eq in H.
  destruct (ili_load lines) as [infos| |]; try discriminate.
  rewrite <- (ioi_statuses_other (file_statuses infos) d t Ht2).
  revert H. apply foldM_inv with (P := fun x => get_table x t = get_table (fold_left ioi_status (file_statuses infos) d) t).
  - intros s x s' Hs Hstep. rewrite <- Hs. eapply ili_step_other; eassumption.
  - reflexivity.
Qed.

(* the statuses table after add_ili *)
Lemma add_ili_statuses_table : forall d lines d' infos,
    add_ili d lines = Ok d' -> ili_load lines = Ok infos ->
    get_table d' "ili_statuses" = add_statuses (get_table d "ili_statuses") (file_statuses infos).
Proof.
  intros d lines d' infos H Hl. rewrite add_ili_eq, Hl in H.
  rewrite <- ioi_statuses_table.
  revert H. apply foldM_inv with (P := fun x => get_table x "ili_statuses"
                 = get_table (fold_left ioi_status (file_statuses infos) d) "ili_statuses").
  - intros s x s' Hs Hstep. rewrite <- Hs. eapply ili_step_other; [eassumption|congruence].
  - reflexivity.
Qed.

(* ---------- (A5) ili_statuses only grows ---------- *)
From Coq Require Import Sorted.

Definition str_lt (a b : str) : Prop := str_ltb a b = true.

Lemma str_ltb_trans : forall a b c, str_ltb a b = true -> str_ltb b c = true -> str_ltb a c = true.
Proof.
  induction a as [|x a IH]; intros b c Hab Hbc; destruct b as [|y b]; destruct c as [|z c];
    simpl in *; try discriminate; try reflexivity.
  apply orb_true_iff in Hab. apply orb_true_iff in Hbc.
  destruct (Z.ltb_spec x z) as [Hxz|Hxz]; [reflexivity|]. simpl.
  destruct Hab as [Hab|Hab]; destruct Hbc as [Hbc|Hbc];
    try apply Z.ltb_lt in Hab; try apply Z.ltb_lt in Hbc;
    try (apply andb_true_iff in Hab; destruct Hab as [Hab1 Hab2]; apply Z.eqb_eq in Hab1);
    try (apply andb_true_iff in Hbc; destruct Hbc as [Hbc1 Hbc2]; apply Z.eqb_eq in Hbc1);
    try lia.
  subst. rewrite Z.eqb_refl. simpl. eapply IH; eassumption.
Qed.
Lemma str_ltb_total : forall a b, str_eqb a b = false -> str_ltb a b = false -> str_ltb b a = true.
Proof.
  induction a as [|x a IH]; intros b He Hl; destruct b as [|y b]; simpl in *; try discriminate; try reflexivity.
  apply orb_false_iff in Hl. destruct Hl as [Hl1 Hl2]. apply Z.ltb_ge in Hl1.
  destruct (Z.ltb_spec y x) as [Hyx|Hyx]; [reflexivity|]. simpl.
  assert (x = y) by lia. subst y. rewrite Z.eqb_refl in *. simpl in *. apply IH; assumption.
Qed.

Lemma In_insert_sorted : forall x l y, In y (insert_sorted x l) <-> y = x \/ In y l.
Proof.
  intros x l y. induction l as [|a l IH]; simpl.
  - split; [intros [<-|[]]; left; reflexivity|intros [->|[]]; left; reflexivity].
  - destruct (str_eqb x a) eqn:E.
    + apply str_eqb_eq in E. subst a. simpl. split; [intro H; right; exact H|intros [->|H]; [left; reflexivity|exact H]].
    + destruct (str_ltb x a); simpl.
      * split; [intros [<-|H]; [left; reflexivity|right; exact H]|intros [->|H]; [left; reflexivity|right; exact H]].
      * rewrite IH. split; [intros [<-|[->|H]]; auto|intros [->|[<-|H]]; auto].
Qed.
Lemma insert_sorted_sorted : forall x l,
    StronglySorted str_lt l -> StronglySorted str_lt (insert_sorted x l).
Proof.
  intros x l H. induction H as [|a l Hl IH Ha]; simpl.
  - constructor; constructor.
  - destruct (str_eqb x a) eqn:E; [constructor; assumption|].
    destruct (str_ltb x a) eqn:E'.
    + constructor; [constructor; assumption|]. constructor; [exact E'|].
      rewrite Forall_forall in *. intros y Hy. eapply str_ltb_trans; [exact E'|apply Ha; exact Hy].
    + constructor; [exact IH|]. rewrite Forall_forall in *. intros y Hy.
      apply In_insert_sorted in Hy. destruct Hy as [->|Hy]; [|apply Ha; exact Hy].
      apply str_ltb_total; [exact E|exact E'].
Qed.
Lemma sorted_strs_acc : forall l acc,
    StronglySorted str_lt acc ->
    StronglySorted str_lt (fold_left (fun acc x => insert_sorted x acc) l acc)
    /\ forall y, In y (fold_left (fun acc x => insert_sorted x acc) l acc) <-> In y l \/ In y acc.
Proof.
  induction l as [|x l IH]; intros acc H; simpl.
  - split; [exact H|]. intro y. split; [auto|intros [[]|Hy]; exact Hy].
  - destruct (IH (insert_sorted x acc) (insert_sorted_sorted x acc H)) as [H1 H2]. split; [exact H1|].
    intro y. rewrite H2, In_insert_sorted. split.
    + intros [Hy|[->|Hy]]; auto.
    + intros [[<-|Hy]|Hy]; auto.
Qed.
Lemma sorted_strs_sorted : forall l, StronglySorted str_lt (sorted_strs l).
Proof. intro l. apply sorted_strs_acc. constructor. Qed.
Lemma sorted_strs_In : forall l y, In y (sorted_strs l) <-> In y l.
Proof.
  intros l y. unfold sorted_strs. destruct (sorted_strs_acc l [] (SSorted_nil _)) as [_ H].
  rewrite H. split; [intros [Hy|[]]; exact Hy|auto].
Qed.

Inductive subseq {T} : list T -> list T -> Prop :=
| subseq_nil : subseq [] []
| subseq_skip : forall x a b, subseq a b -> subseq a (x :: b)
| subseq_take : forall x a b, subseq a b -> subseq (x :: a) (x :: b).

Lemma has_status_app : forall S1 S2 s, has_status (S1 ++ S2)%list s = has_status S1 s || has_status S2 s.
Proof. intros. unfold has_status. apply existsb_app. Qed.
Lemma has_status_add_self : forall S s, has_status (add_status S s) s = true.
Proof.
  intros S s. unfold add_status. destruct (has_status S s) eqn:E; [exact E|].
  rewrite has_status_app. unfold has_status at 2. simpl. rewrite str_eqb_refl. apply orb_true_r.
Qed.
Lemma has_status_add_mono : forall S s s', has_status S s = true -> has_status (add_status S s') s = true.
Proof.
  intros S s s' H. unfold add_status. destruct (has_status S s'); [exact H|].
  rewrite has_status_app, H. reflexivity.
Qed.
Lemma add_statuses_mono : forall ss S s, has_status S s = true -> has_status (add_statuses S ss) s = true.
Proof.
  induction ss as [|x ss IH]; intros S s H; simpl; [exact H|]. apply IH. apply has_status_add_mono. exact H.
Qed.
Lemma add_statuses_has : forall ss S s, In s ss -> has_status (add_statuses S ss) s = true.
Proof.
  induction ss as [|x ss IH]; intros S s Hs; [destruct Hs|]. simpl.
  destruct Hs as [->|Hs]; [apply add_statuses_mono; apply has_status_add_self|apply IH; exact Hs].
Qed.

Lemma add_statuses_struct : forall ss S,
    exists ns rows,
      add_statuses S ss = (S ++ rows)%list
      /\ map (cell_at 1) rows = map CText ns
      /\ subseq ns ss
      /\ (forall s, In s ns -> has_status S s = false)
      /\ (forall r, In r rows -> exists n s, r = [CInt n; CText s]).
Proof.
  induction ss as [|s ss IH]; intros S.
  - exists [], []. simpl. rewrite app_nil_r. repeat split; try constructor; intros x [].
  - change (add_statuses S (s :: ss)) with (add_statuses (add_status S s) ss).
    unfold add_status. destruct (has_status S s) eqn:E.
    + destruct (IH S) as (ns & rows & H1 & H2 & H3 & H4 & H5).
      exists ns, rows. repeat split; try assumption. constructor. exact H3.
    + destruct (IH (S ++ [[CInt (next_rowid S); CText s]])%list) as (ns & rows & H1 & H2 & H3 & H4 & H5).
      exists (s :: ns), ([CInt (next_rowid S); CText s] :: rows).
      split; [rewrite H1, <- app_assoc; reflexivity|].
      split; [simpl; rewrite H2; reflexivity|].
      split; [constructor; exact H3|]. split.
      * intros x [<-|Hx]; [exact E|]. specialize (H4 x Hx). rewrite has_status_app in H4.
        apply orb_false_iff in H4. apply H4.
      * intros r [<-|Hr]; [eauto|apply H5; exact Hr].
Qed.

Theorem add_ili_statuses_grow : forall d lines d' infos,
    add_ili d lines = Ok d' -> ili_load lines = Ok infos ->
    exists ns rows,
      get_table d' "ili_statuses" = (get_table d "ili_statuses" ++ rows)%list
      /\ map (col "ili_statuses" "status") rows = map CText ns
      /\ subseq ns (file_statuses infos)
      /\ StronglySorted str_lt (file_statuses infos)
      /\ (forall s, In s ns -> has_status (get_table d "ili_statuses") s = false)
      /\ (forall info, In info infos ->
                       has_status (get_table d' "ili_statuses") (status_of info) = true).
Proof.
  intros d lines d' infos H Hl. rewrite (add_ili_statuses_table d lines d' infos H Hl).
  destruct (add_statuses_struct (file_statuses infos) (get_table d "ili_statuses"))
    as (ns & rows & H1 & H2 & H3 & H4 & H5).
  exists ns, rows. split; [exact H1|]. split; [exact H2|]. split; [exact H3|].
  split; [apply sorted_strs_sorted|]. split; [exact H4|].
  intros info Hi. apply add_statuses_has. unfold file_statuses. apply sorted_strs_In.
  apply in_map. exact Hi.
Qed.

(* ---------- linking the lines of the file to the upserts ---------- *)
Lemma has_id_iff : forall i r, has_id i r = true <-> cell_at 1 r = CText i.
Proof.
  intros i r. unfold has_id. split.
  - destruct (cell_at 1 r) as [|n|s|v]; simpl; try discriminate. intro H. apply str_eqb_eq in H. subst. reflexivity.
  - intros ->. simpl. apply str_eqb_refl.
Qed.
Lemma trip_of_inv : forall S info x, trip_of S info = Some x ->
    dict_get info (vs "ili") = Some (tid x)
    /\ tst x = status_lookup S (status_of info) /\ is_null (tst x) = false /\ tdf x = def_cell info.
Proof.
  intros S info x H. unfold trip_of in H. destruct (dict_get info (vs "ili")) as [i|]; [|discriminate].
  destruct (is_null (status_lookup S (status_of info))) eqn:E; [discriminate|].
  injection H as <-. repeat split; assumption.
Qed.
Lemma trips_of_app : forall S a b l, trips_of S (a ++ b)%list = Some l ->
    exists la lb, trips_of S a = Some la /\ trips_of S b = Some lb /\ l = (la ++ lb)%list.
Proof.
  intros S a. induction a as [|x a IH]; intros b l H; simpl in H.
  - exists [], l. repeat split. exact H.
  - simpl. destruct (trip_of S x) as [t|]; [|discriminate].
    destruct (trips_of S (a ++ b)%list) as [l'|] eqn:E; [|discriminate]. injection H as <-.
    destruct (IH b l' E) as (la & lb & Ha & Hb & ->). rewrite Ha.
    exists (t :: la), lb. repeat split. exact Hb.
Qed.
Lemma trips_of_in : forall S infos l y, trips_of S infos = Some l -> In y l ->
    exists info, In info infos /\ trip_of S info = Some y.
Proof.
  intros S infos. induction infos as [|x infos IH]; intros l y H Hy; simpl in H.
  - injection H as <-. destruct Hy.
  - destruct (trip_of S x) as [t|] eqn:Et; [|discriminate].
    destruct (trips_of S infos) as [l'|] eqn:E; [|discriminate]. injection H as <-.
    destruct Hy as [<-|Hy].
    + exists x. split; [left; reflexivity|exact Et].
    + destruct (IH l' y eq_refl Hy) as [info [Hi Ht]]. exists info. split; [right; exact Hi|exact Ht].
Qed.

Lemma rowid_of_upd : forall x r, rowid_of (upd x r) = rowid_of r.
Proof. intros x r. unfold upd, ili_upd. destruct (has_id (tid x) r); [apply rowid_of_ili_set|reflexivity]. Qed.

(* the new rows carry listed ids that were not in the table, with fresh rowids *)
Lemma ups_all_news : forall l T,
    exists news,
      ups_all T l = (map (apply_trips l) T ++ news)%list
      /\ forall r, In r news ->
                   exists x, In x l /\ has_id (tid x) r = true
                             /\ existsb (has_id (tid x)) T = false
                             /\ forall r0, In r0 T -> rowid_of r0 < rowid_of r.
Proof.
  induction l as [|x l IH] using rev_ind; intros T.
  - exists []. simpl. rewrite map_id, app_nil_r. split; [reflexivity|]. intros r [].
  - rewrite ups_all_app. simpl. destruct (IH T) as [news [E Hn]]. rewrite E.
    destruct (existsb (has_id (tid x)) (map (apply_trips l) T ++ news)%list) eqn:Ex.
    + rewrite ups_present by exact Ex. rewrite map_app, map_map.
      exists (map (upd x) news). split.
      * f_equal. apply map_ext. intro r. rewrite apply_trips_app. reflexivity.
      * intros r Hr. apply in_map_iff in Hr. destruct Hr as [r1 [<- Hr1]].
        destruct (Hn r1 Hr1) as (y & Hy & Hi & Ha & Hf). exists y.
        split; [apply in_or_app; left; exact Hy|]. split; [rewrite has_id_upd; exact Hi|].
        split; [exact Ha|]. intros r0 Hr0. rewrite rowid_of_upd. apply Hf. exact Hr0.
    + rewrite ups_absent by exact Ex. rewrite <- app_assoc. eexists. split.
      * f_equal. apply map_ext_in. intros r Hr. rewrite apply_trips_app. simpl.
        unfold upd, ili_upd.
        rewrite (existsb_false_forall _ _ Ex (apply_trips l r)); [reflexivity|].
        apply in_or_app. left. apply in_map. exact Hr.
      * intros r Hr. apply in_app_or in Hr. destruct Hr as [Hr|[<-|[]]].
        -- destruct (Hn r Hr) as (y & Hy & Hi & Ha & Hf). exists y.
           split; [apply in_or_app; left; exact Hy|]. auto.
        -- exists x. split; [apply in_or_app; right; left; reflexivity|].
           split; [rewrite has_id_new; apply str_eqb_refl|]. split.
           ++ destruct (existsb (has_id (tid x)) T) eqn:ET; [|reflexivity].
              apply existsb_exists in ET. destruct ET as [r0 [Hr0 Hi0]].
              rewrite <- (has_id_apply_trips l) in Hi0.
              rewrite (existsb_false_forall _ _ Ex (apply_trips l r0)) in Hi0; [discriminate|].
              apply in_or_app. left. apply in_map. exact Hr0.
           ++ intros r0 Hr0. rewrite <- (rowid_of_apply_trips l r0).
              change (rowid_of (ili_new (map (apply_trips l) T ++ news)%list (tid x) (tst x) (tdf x)))
                with (next_rowid (map (apply_trips l) T ++ news)%list).
              apply next_rowid_fresh. apply in_or_app. left. apply in_map. exact Hr0.
Qed.

(* the ilis table after add_ili *)
Lemma add_ili_ilis_table : forall d lines d' infos,
    ilis_ok (get_table d "ilis") = true ->
    add_ili d lines = Ok d' -> ili_load lines = Ok infos ->
    exists l,
      trips_of (get_table d' "ili_statuses") infos = Some l
      /\ get_table d' "ilis" = ups_all (get_table d "ilis") l.
Proof.
  intros d lines d' infos Hok H Hl.
  pose proof (add_ili_statuses_table d lines d' infos H Hl) as HS.
  destruct (add_ili_char d lines d' Hok H) as (infos' & l & Hl' & Htr & Hd').
  rewrite Hl in Hl'. injection Hl' as <-. exists l. rewrite HS. split; [exact Htr|].
  cbv zeta in Hd'. destruct l as [|x l]; subst d'.
  - simpl. apply ioi_statuses_other. congruence.
  - apply get_set_same.
Qed.

Theorem add_ili_ilis_ok : forall d lines d',
    ilis_ok (get_table d "ilis") = true -> add_ili d lines = Ok d' ->
    ilis_ok (get_table d' "ilis") = true.
Proof.
  intros d lines d' Hok H.
  destruct (add_ili_char d lines d' Hok H) as (infos & l & Hl & _ & _).
  destruct (add_ili_ilis_table d lines d' infos Hok H Hl) as (l' & _ & ->).
  apply ilis_ok_ups_all. exact Hok.
Qed.

(* in a well-formed ilis table the row of an id is unique *)
Lemma ilis_ok_unique : forall T r1 r2 i,
    ilis_ok T = true -> In r1 T -> In r2 T ->
    col "ilis" "id" r1 = CText i -> col "ilis" "id" r2 = CText i -> r1 = r2.
Proof.
  induction T as [|a T IH]; intros r1 r2 i Hok H1 H2 E1 E2; [destruct H1|].
  rewrite col_ilis_id in *.
  simpl in Hok. apply andb_true_iff in Hok. destruct Hok as [Hok H3].
  apply andb_true_iff in Hok. destruct Hok as [_ Hd]. rewrite forallb_forall in Hd.
  assert (forall r, In r T -> cell_at 1 a = CText i -> cell_at 1 r = CText i -> False) as Hno.
  { intros r Hr Ea Er. specialize (Hd r Hr). apply andb_true_iff in Hd. destruct Hd as [_ Hd].
    rewrite Ea, Er in Hd. simpl in Hd. rewrite str_eqb_refl in Hd. discriminate. }
  destruct H1 as [<-|H1]; destruct H2 as [<-|H2].
  - reflexivity.
  - exfalso. eapply Hno; eassumption.
  - exfalso. eapply Hno; eassumption.
  - eapply IH; try eassumption; rewrite col_ilis_id; assumption.
Qed.

(* ---------- (A2) ---------- *)
Theorem add_ili_listed : forall d lines d' infos pre info post i,
    ilis_ok (get_table d "ilis") = true ->
    add_ili d lines = Ok d' ->
    ili_load lines = Ok infos -> infos = (pre ++ info :: post)%list ->
    dict_get info (vs "ili") = Some i ->
    (forall x, In x post -> dict_get x (vs "ili") <> Some i) ->       (* the last line listing i *)
    (* there is a row for i *)
    (exists r, In r (get_table d' "ilis") /\ col "ilis" "id" r = CText i)
    (* with the status of the line (default "active") and its definition (NULL when missing) *)
    /\ (forall r, In r (get_table d' "ilis") -> col "ilis" "id" r = CText i ->
                  col "ilis" "status_rowid" r = ILISTAT_QUERY d' (CText (status_of info))
                  /\ (exists n, col "ilis" "status_rowid" r = CInt n)
                  /\ col "ilis" "definition" r = def_cell info)
    (* and the rowid and metadata it had before, when it existed *)
    /\ (forall r0, In r0 (get_table d "ilis") -> col "ilis" "id" r0 = CText i ->
                   exists r, In r (get_table d' "ilis") /\ col "ilis" "id" r = CText i
                             /\ rowid_of r = rowid_of r0
                             /\ col "ilis" "metadata" r = col "ilis" "metadata" r0).
Proof.
  intros d lines d' infos pre info post i Hok H Hl Hinfos Hi Hpost.
  destruct (add_ili_ilis_table d lines d' infos Hok H Hl) as (l & Htr & HT).
  rewrite HT. rewrite Hinfos in Htr.
  destruct (trips_of_app _ _ _ _ Htr) as (la & lrest & Ha & Hrest & ->).
  simpl in Hrest. destruct (trip_of (get_table d' "ili_statuses") info) as [x|] eqn:Ex; [|discriminate].
  destruct (trips_of (get_table d' "ili_statuses") post) as [lb|] eqn:Eb; [|discriminate].
  injection Hrest as <-.
  destruct (trip_of_inv _ _ _ Ex) as (Hx1 & Hx2 & Hx3 & Hx4).
  rewrite Hi in Hx1. injection Hx1 as Hx1.
  assert (forall y, In y lb -> tid y <> tid x) as Hlb.
  { intros y Hy E. destruct (trips_of_in _ _ _ y Eb Hy) as [info' [Hin' Ht']].
    destruct (trip_of_inv _ _ _ Ht') as (Hy1 & _). apply (Hpost info' Hin'). congruence. }
  destruct (ups_all_listed la x lb (get_table d "ilis") Hok Hlb) as [[r [Hr Hri]] Hall].
  rewrite <- Hx1 in *. split; [|split].
  - exists r. split; [exact Hr|]. rewrite col_ilis_id. apply has_id_iff. exact Hri.
  - intros r' Hr' Hid. rewrite col_ilis_id in Hid. apply has_id_iff in Hid.
    destruct (Hall r' Hr' Hid) as [Hs Hd]. rewrite col_ilis_status, col_ilis_definition, Hs, Hd.
    rewrite ILISTAT_QUERY_eq, <- Hx2. split; [reflexivity|]. split; [|exact Hx4].
    destruct (status_lookup_ok (get_table d' "ili_statuses") (status_of info)) as [E|[n E]];
      rewrite <- Hx2 in E; [rewrite E in Hx3; discriminate|eauto].
  - intros r0 Hr0 Hid. destruct (ups_all_struct (la ++ x :: lb)%list (get_table d "ilis")) as [news E].
    exists (apply_trips (la ++ x :: lb)%list r0). split.
    + rewrite E. apply in_or_app. left. apply in_map. exact Hr0.
    + rewrite !col_ilis_id in *. rewrite !col_ilis_metadata.
      rewrite !apply_trips_cells by congruence. rewrite rowid_of_apply_trips. auto.
Qed.

(* ---------- (A3) ---------- *)
Theorem add_ili_unlisted : forall d lines d' infos,
    ilis_ok (get_table d "ilis") = true ->
    add_ili d lines = Ok d' -> ili_load lines = Ok infos ->
    exists (f : row -> row) (news : table),
      (* the old rows, in place, followed by the new ILIs *)
      get_table d' "ilis" = (map f (get_table d "ilis") ++ news)%list
      (* only the status and the definition of an old row may change: rowid, id, metadata stay *)
      /\ (forall r j, j <> col_index "ilis" "status_rowid" -> j <> col_index "ilis" "definition" ->
                      cell_at j (f r) = cell_at j r)
      /\ (forall r, rowid_of (f r) = rowid_of r /\ List.length (f r) = List.length r)
      (* a row whose id is not listed is unchanged *)
      /\ (forall r, (forall info i, In info infos -> dict_get info (vs "ili") = Some i ->
                                    col "ilis" "id" r <> CText i) -> f r = r)
      (* the new rows are for listed ids that were unknown, with fresh rowids *)
      /\ (forall r, In r news ->
                    exists info i, In info infos /\ dict_get info (vs "ili") = Some i
                                   /\ col "ilis" "id" r = CText i
                                   /\ forall r0, In r0 (get_table d "ilis") ->
                                                 col "ilis" "id" r0 <> CText i /\ rowid_of r0 < rowid_of r).
Proof.
  intros d lines d' infos Hok H Hl.
  destruct (add_ili_ilis_table d lines d' infos Hok H Hl) as (l & Htr & HT).
  destruct (ups_all_news l (get_table d "ilis")) as [news [E Hn]].
  exists (apply_trips l), news. rewrite HT. split; [exact E|].
  change (col_index "ilis" "status_rowid") with 2%nat. change (col_index "ilis" "definition") with 3%nat.
  split; [intros r j H2 H3; apply apply_trips_cells; assumption|].
  split; [intro r; split; [apply rowid_of_apply_trips|apply length_apply_trips]|]. split.
  - intros r Hr. apply apply_trips_unlisted. intros x Hx.
    destruct (trips_of_in _ _ _ x Htr Hx) as [info [Hin Ht]].
    destruct (trip_of_inv _ _ _ Ht) as (Hx1 & _).
    destruct (has_id (tid x) r) eqn:Eh; [|reflexivity]. exfalso.
    apply has_id_iff in Eh. apply (Hr info (tid x) Hin Hx1). rewrite col_ilis_id. exact Eh.
  - intros r Hr. destruct (Hn r Hr) as (x & Hx & Hi & Ha & Hf).
    destruct (trips_of_in _ _ _ x Htr Hx) as [info [Hin Ht]].
    destruct (trip_of_inv _ _ _ Ht) as (Hx1 & _).
    exists info, (tid x). split; [exact Hin|]. split; [exact Hx1|].
    split; [rewrite col_ilis_id; apply has_id_iff; exact Hi|].
    intros r0 Hr0. split; [|apply Hf; exact Hr0].
    rewrite col_ilis_id. intro E0. apply has_id_iff in E0.
    rewrite (existsb_false_forall _ _ Ha r0 Hr0) in E0. discriminate.
Qed.

(* ---------- (A4) ---------- *)
Theorem add_ili_idempotent : forall d lines d',
    ilis_ok (get_table d "ilis") = true ->
    add_ili d lines = Ok d' -> add_ili d' lines = Ok d'.
Proof.
  intros d lines d' Hok H.
  pose proof (add_ili_ilis_ok d lines d' Hok H) as Hok'.
  destruct (add_ili_char d lines d' Hok H) as (infos & l & Hl & Htr & Hd'). cbv zeta in Hd'.
  pose proof (add_ili_statuses_table d lines d' infos H Hl) as HS.
  destruct (add_ili_ilis_table d lines d' infos Hok H Hl) as (l' & Htr' & HT).
  rewrite HS, Htr in Htr'. injection Htr' as <-.
  rewrite add_ili_eq, Hl.
  rewrite ioi_statuses_present.
  - rewrite (phase2_eq infos d' Hok'). rewrite HS, Htr.
    destruct l as [|x l]; [reflexivity|].
    rewrite HT, ups_all_idempotent. rewrite Hd' at 1. rewrite set_set_same. rewrite <- Hd'. reflexivity.
  - intros s Hs. rewrite HS. apply add_statuses_has. exact Hs.
Qed.

(* a non-trivial well-formed ilis table: the result of loading an ILI file into the
   empty database and of loading a second file that updates and extends it *)
Definition ex_lines1 : list (list str) :=
  [[k "ILI"; k "status"; k "definition"]; [k "i1"; k "active"; k "first ili"];
   [k "i2"; k "deprecated"; k ""]; [k "i9"; k "active"]].
Definition ex_lines2 : list (list str) :=
  [[k "ili"; k "Status"; k "Definition"]; [k "i1"; k "deprecated"; k "changed"];
   [k "i9"; k "weird"; k "new def"]; [k "i9"; k "active"; k "again"]; [k "i3"]].
Definition ex_db : db :=
  match add_ili [] ex_lines1 with
  | Ok d => match add_ili d ex_lines2 with Ok d' => d' | _ => [] end
  | _ => []
  end.
Example ex_db_ilis_ok :
  ilis_ok (get_table ex_db "ilis") = true /\ List.length (get_table ex_db "ilis") = 4%nat
  /\ List.length (get_table ex_db "ili_statuses") = 3%nat.
Proof. vm_compute. repeat split. Qed.

(* ====================================================================== *)
(* STAGE B — removal                                                       *)
(* ====================================================================== *)

(* ---------- (B1) referential integrity, generically from the schema ---------- *)
Definition rowids (rows : table) : list Z := map rowid_of rows.

Lemma zmem_z_In : forall n l, zmem_z n l = true <-> In n l.
Proof.
  intros n l. unfold zmem_z. rewrite existsb_exists. split.
  - intros [x [Hx E]]. apply Z.eqb_eq in E. subst. exact Hx.
  - intro H. exists n. split; [exact H|apply Z.eqb_refl].
Qed.

(* a foreign-key cell is NULL or the rowid of an existing row of the parent table *)
Definition fk_cell_ok (d : db) (parent : string) (c : cell) : bool :=
  match c with
  | CNull => true
  | CInt n => zmem_z n (rowids (get_table d parent))
  | _ => false
  end.
Definition fk_ok (d : db) : bool :=
  forallb (fun e : string * columns_t * fkeys_t * uniques_t =>
             let '(t, _, fks, _) := e in
             forallb (fun fk : string * string * string * string =>
                        let '(c, parent, _, _) := fk in
                        forallb (fun r => fk_cell_ok d parent (col t c r)) (get_table d t))
                     fks)
          schema.

Lemma fk_ok_iff : forall d,
    fk_ok d = true <->
    forall t cols fks uqs, In (t, cols, fks, uqs) schema ->
    forall c p pc a, In (c, p, pc, a) fks ->
    forall r, In r (get_table d t) -> fk_cell_ok d p (col t c r) = true.
Proof.
  intro d. unfold fk_ok. rewrite forallb_forall. split.
  - intros H t cols fks uqs Hin c p pc a Hfk r Hr.
    specialize (H _ Hin). cbv beta iota in H. rewrite forallb_forall in H.
    specialize (H _ Hfk). cbv beta iota in H. rewrite forallb_forall in H. exact (H r Hr).
  - intros H [[[t cols] fks] uqs] Hin. rewrite forallb_forall. intros [[[c p] pc] a] Hfk.
    rewrite forallb_forall. intros r Hr. eapply H; eassumption.
Qed.

(* facts computed from the schema: a foreign-key column is never the rowid column,
   and every foreign key refers to the rowid of its parent *)
Definition fk_cols_sane : bool :=
  forallb (fun e : string * columns_t * fkeys_t * uniques_t =>
             let '(t, _, fks, _) := e in
             forallb (fun fk : string * string * string * string =>
                        let '(c, _, pc, _) := fk in
                        negb (Nat.eqb (col_index t c) 0) && String.eqb pc "rowid") fks)
          schema.
Lemma fk_cols_sane_true : fk_cols_sane = true.
Proof. vm_compute. reflexivity. Qed.

Lemma referencing_iff : forall p child c a,
    In (child, c, a) (referencing p) <->
    exists cols fks uqs pc, In (child, cols, fks, uqs) schema /\ In (c, p, pc, a) fks.
Proof.
  intros p child c a. unfold referencing. rewrite in_flat_map. split.
  - intros [[[[t cols] fks] uqs] [Hin H]]. apply in_flat_map in H.
    destruct H as [[[[c' p'] pc] a'] [Hfk H]].
    destruct (String.eqb p' p) eqn:E; [|destruct H].
    apply String.eqb_eq in E. subst p'. destruct H as [H|[]]. injection H as <- <- <-.
    exists cols, fks, uqs, pc. split; assumption.
  - intros (cols & fks & uqs & pc & Hin & Hfk).
    exists (child, cols, fks, uqs). split; [exact Hin|]. apply in_flat_map.
    exists (c, p, pc, a). split; [exact Hfk|]. rewrite String.eqb_refl. left. reflexivity.
Qed.
Lemma referencing_col_nonzero : forall p child c a,
    In (child, c, a) (referencing p) -> col_index child c <> O.
Proof.
  intros p child c a H. apply referencing_iff in H. destruct H as (cols & fks & uqs & pc & Hin & Hfk).
  pose proof fk_cols_sane_true as Hs. unfold fk_cols_sane in Hs. rewrite forallb_forall in Hs.
  specialize (Hs _ Hin). cbv beta iota in Hs. rewrite forallb_forall in Hs.
  specialize (Hs _ Hfk). cbv beta iota in Hs. apply andb_true_iff in Hs. destruct Hs as [Hs _].
  apply negb_true_iff in Hs. apply Nat.eqb_neq in Hs. exact Hs.
Qed.

(* ---------- what a cascade may do to a database ---------- *)
(* position j of the rows of table t is a column with an ON DELETE SET NULL foreign key *)
Definition setnull_col (t : string) (j : nat) : Prop :=
  exists cols fks uqs c p pc,
    In (t, cols, fks, uqs) schema /\ In (c, p, pc, "SET NULL") fks /\ j = col_index t c.
(* r' is r (a row of table t) with some SET NULL foreign-key cells nulled *)
Definition row_le (t : string) (r' r : row) : Prop :=
  rowid_of r' = rowid_of r
  /\ forall j, cell_at j r' = cell_at j r \/ (cell_at j r' = CNull /\ setnull_col t j).
Lemma row_le_refl : forall t r, row_le t r r.
Proof. intros t r. split; [reflexivity|]. intro j. left. reflexivity. Qed.
Lemma row_le_trans : forall t a b c, row_le t a b -> row_le t b c -> row_le t a c.
Proof.
  intros t a b c [H1 H2] [H3 H4]. split; [congruence|]. intro j.
  destruct (H2 j) as [E|E]; [|right; exact E]. rewrite E. apply H4.
Qed.
(* every row of d' is a row of d with some cells nulled *)
Definition shrink (d d' : db) : Prop :=
  forall t r', In r' (get_table d' t) -> exists r, In r (get_table d t) /\ row_le t r' r.
Lemma shrink_refl : forall d, shrink d d.
Proof. intros d t r Hr. exists r. split; [exact Hr|apply row_le_refl]. Qed.
Lemma shrink_trans : forall a b c, shrink a b -> shrink b c -> shrink a c.
Proof.
  intros a b c H1 H2 t r Hr. destruct (H2 t r Hr) as [r1 [Hr1 L1]].
  destruct (H1 t r1 Hr1) as [r0 [Hr0 L0]]. exists r0. split; [exact Hr0|eapply row_le_trans; eassumption].
Qed.

Definition norefer (d : db) (child c : string) (rids : list Z) : Prop :=
  forall r, In r (get_table d child) -> refers (col_index child c) rids r = false.
Lemma refers_le : forall t i rids r' r, row_le t r' r -> refers i rids r' = true -> refers i rids r = true.
Proof.
  intros t i rids r' r [_ H] Hr. unfold refers in *.
  destruct (H i) as [E|[E _]]; rewrite E in Hr; [exact Hr|discriminate].
Qed.
Lemma norefer_shrink : forall d d' child c rids,
    norefer d child c rids -> shrink d d' -> norefer d' child c rids.
Proof.
  intros d d' child c rids H Hs r' Hr'. destruct (Hs child r' Hr') as [r [Hr L]].
  destruct (refers (col_index child c) rids r') eqn:E; [|reflexivity].
  specialize (H r Hr). rewrite (refers_le _ _ _ _ _ L E) in H. discriminate.
Qed.

Definition handled (d : db) (lg : dellog) : Prop :=
  forall p rs, In (p, rs) lg ->
  forall child c a, In (child, c, a) (referencing p) -> (a = "CASCADE" \/ a = "SET NULL") ->
  norefer d child c rs.
Definition kept (d d' : db) (lg : dellog) : Prop :=
  forall t n, In n (rowids (get_table d t)) ->
              In n (rowids (get_table d' t)) \/ exists rs, In (t, rs) lg /\ In n rs.
Definition Rel (st st' : db * dellog) : Prop :=
  exists more, snd st' = (more ++ snd st)%list
               /\ shrink (fst st) (fst st') /\ kept (fst st) (fst st') more /\ handled (fst st') more.

Lemma Rel_refl : forall st, Rel st st.
Proof.
  intro st. exists []. split; [reflexivity|]. split; [apply shrink_refl|]. split.
  - intros t n H. left. exact H.
  - intros p rs [].
Qed.
Lemma Rel_trans : forall a b c, Rel a b -> Rel b c -> Rel a c.
Proof.
  intros a b c (m1 & E1 & S1 & K1 & H1) (m2 & E2 & S2 & K2 & H2).
  exists (m2 ++ m1)%list. split; [rewrite E2, E1, app_assoc; reflexivity|].
  split; [eapply shrink_trans; eassumption|]. split.
  - intros t n Hn. destruct (K1 t n Hn) as [Hn1|[rs [Hrs Hin]]].
    + destruct (K2 t n Hn1) as [Hn2|[rs [Hrs Hin]]]; [left; exact Hn2|].
      right. exists rs. split; [apply in_or_app; left; exact Hrs|exact Hin].
    + right. exists rs. split; [apply in_or_app; right; exact Hrs|exact Hin].
  - intros p rs Hp child col0 a0 Href Ha. apply in_app_or in Hp. destruct Hp as [Hp|Hp].
    + eapply H2; eassumption.
    + eapply norefer_shrink; [eapply H1; eassumption|exact S2].
Qed.

(* ---------- the cascade ---------- *)
Definition del_step (f : nat) (rids : list Z) (st : db * dellog) (ref : string * string * string)
  : result (db * dellog) :=
  let '(child, c, action) := ref in
  let '(d, lg) := st in
  let i := col_index child c in
  if String.eqb action "CASCADE" then
    let kids := map rowid_of (filter (refers i rids) (get_table d child)) in
    delete_rows f (d, lg) child kids
  else if String.eqb action "SET NULL" then
    Ok (set_table d child
                  (map (fun r => if refers i rids r then set_nth i CNull r else r)
                       (get_table d child)), lg)
  else Ok st.

Lemma delete_rows_S : forall f d lg t rids,
    delete_rows (S f) (d, lg) t rids =
    match rids with
    | [] => Ok (d, lg)
    | _ => foldM (del_step f rids) (referencing t)
                 (set_table d t (filter (fun r => negb (zmem_z (rowid_of r) rids)) (get_table d t)),
                  (t, rids) :: lg)
    end.
Proof. intros. reflexivity. Qed.

Definition gone (d : db) (t : string) (rids : list Z) : Prop :=
  forall r, In r (get_table d t) -> ~ In (rowid_of r) rids.
Definition DelSpec (f : nat) : Prop :=
  forall st t rids st', delete_rows f st t rids = Ok st' -> Rel st st' /\ gone (fst st') t rids.

Lemma cell_at_lt : forall i r, cell_at i r <> CNull -> (i < List.length r)%nat.
Proof.
  intros i r H. destruct (Nat.lt_ge_cases i (List.length r)) as [Hl|Hl]; [exact Hl|].
  exfalso. apply H. unfold cell_at. apply nth_overflow. exact Hl.
Qed.
Lemma refers_lt : forall i rids r, refers i rids r = true -> (i < List.length r)%nat.
Proof.
  intros i rids r H. apply cell_at_lt. unfold refers in H. destruct (cell_at i r); discriminate.
Qed.

(* the SET NULL action on one row *)
Definition null_ref (i : nat) (rids : list Z) (r : row) : row :=
  if refers i rids r then set_nth i CNull r else r.
Lemma null_ref_le : forall t i rids r, i <> O -> setnull_col t i -> row_le t (null_ref i rids r) r.
Proof.
  intros t i rids r Hi Hsn. unfold null_ref. destruct (refers i rids r) eqn:E; [|apply row_le_refl].
  split; [apply rowid_of_set_nth; exact Hi|]. intro j. destruct (Nat.eq_dec i j) as [<-|Hij].
  - right. split; [|exact Hsn]. apply cell_at_set_nth_same. eapply refers_lt. exact E.
  - left. apply cell_at_set_nth_other. exact Hij.
Qed.
Lemma null_ref_norefer : forall i rids r, refers i rids (null_ref i rids r) = false.
Proof.
  intros i rids r. unfold null_ref. destruct (refers i rids r) eqn:E; [|exact E].
  unfold refers. rewrite cell_at_set_nth_same; [reflexivity|]. eapply refers_lt. exact E.
Qed.

Lemma del_step_spec : forall f, DelSpec f ->
    forall p rids st child c a st',
      In (child, c, a) (referencing p) -> del_step f rids st (child, c, a) = Ok st' ->
      Rel st st' /\ ((a = "CASCADE" \/ a = "SET NULL") -> norefer (fst st') child c rids).
Proof.
  intros f IH p rids [d lg] child c a st' Href H. unfold del_step in H.
  pose proof (referencing_col_nonzero _ _ _ _ Href) as Hi.
  destruct (String.eqb a "CASCADE") eqn:Ea.
  - (* CASCADE *)
    destruct (IH _ _ _ _ H) as [HR Hg]. split; [exact HR|]. intros _ r' Hr'.
    destruct HR as (more & _ & S1 & _ & _). simpl in S1.
    destruct (S1 child r' Hr') as [r [Hr L]].
    destruct (refers (col_index child c) rids r') eqn:E; [|reflexivity]. exfalso.
    apply (Hg r' Hr'). destruct L as [L0 L1]. rewrite L0.
    apply in_map. apply filter_In. split; [exact Hr|].
    eapply (refers_le child); [split; eassumption|exact E].
  - destruct (String.eqb a "SET NULL") eqn:Es.
    + (* SET NULL *)
      assert (setnull_col child (col_index child c)) as Hsn.
      { apply String.eqb_eq in Es. subst a. apply referencing_iff in Href.
        destruct Href as (cols & fks & uqs & pc & Hin & Hfk).
        exists cols, fks, uqs, c, p, pc. repeat split; assumption. }
      injection H as <-. cbn [fst snd]. split.
      * exists []. cbn [fst snd]. split; [reflexivity|]. split; [|split].
        -- intros t r' Hr'. destruct (string_dec child t) as [<-|Hne].
           ++ rewrite get_set_same in Hr'. apply in_map_iff in Hr'. destruct Hr' as [r [<- Hr]].
              exists r. split; [exact Hr|]. apply (null_ref_le child _ rids r Hi Hsn).
           ++ rewrite get_set_other in Hr' by exact Hne. exists r'. split; [exact Hr'|apply row_le_refl].
        -- intros t n Hn. left. destruct (string_dec child t) as [<-|Hne].
           ++ rewrite get_set_same. unfold rowids in *. rewrite map_map.
              rewrite (map_ext _ rowid_of); [exact Hn|].
              intro r. apply (null_ref_le child _ rids r Hi Hsn).
           ++ rewrite get_set_other by exact Hne. exact Hn.
        -- intros p0 rs [].
      * intros _ r' Hr'. rewrite get_set_same in Hr'. apply in_map_iff in Hr'. destruct Hr' as [r [<- Hr]].
        apply null_ref_norefer.
    + (* NO ACTION *)
      injection H as <-. split; [apply Rel_refl|].
      apply String.eqb_neq in Ea. apply String.eqb_neq in Es. intros [E|E]; contradiction.
Qed.

Lemma del_fold_spec : forall f, DelSpec f ->
    forall p rids refs st st',
      (forall child c a, In (child, c, a) refs -> In (child, c, a) (referencing p)) ->
      foldM (del_step f rids) refs st = Ok st' ->
      Rel st st'
      /\ forall child c a, In (child, c, a) refs -> (a = "CASCADE" \/ a = "SET NULL") ->
                           norefer (fst st') child c rids.
Proof.
  intros f IH p rids refs. induction refs as [|[[child c] a] refs IHr]; intros st st' Hs H.
  - simpl in H. injection H as <-. split; [apply Rel_refl|]. intros ? ? ? [].
  - simpl in H. apply bind_ok in H. destruct H as [s1 [H1 H2]].
    destruct (del_step_spec f IH p rids st child c a s1 (Hs _ _ _ (or_introl eq_refl)) H1) as [R1 N1].
    destruct (IHr s1 st' (fun ch c0 a0 Hin => Hs ch c0 a0 (or_intror Hin)) H2) as [R2 N2].
    split; [eapply Rel_trans; eassumption|].
    intros ch c0 a0 [E|Hin] Ha.
    + injection E as <- <- <-. destruct R2 as (_ & _ & S2 & _ & _).
      eapply norefer_shrink; [apply N1; exact Ha|exact S2].
    + eapply N2; eassumption.
Qed.

Lemma delete_rows_spec : forall f, DelSpec f.
Proof.
  induction f as [|f IH]; intros [d lg] t rids st' H; [discriminate|].
  rewrite delete_rows_S in H. destruct rids as [|x rids0].
  { injection H as <-. split; [apply Rel_refl|]. intros r _ []. }
  set (rids := x :: rids0) in *.
  set (d1 := set_table d t (filter (fun r => negb (zmem_z (rowid_of r) rids)) (get_table d t))) in *.
  apply (del_fold_spec f IH t) in H; [|intros child c a Hin; exact Hin].
  destruct H as [(more & E & S1 & K1 & H1) Hnr]. destruct st' as [d' lg']. cbn [fst snd] in *.
  assert (shrink d d1) as S0.
  { intros t' r' Hr'. unfold d1 in Hr'. destruct (string_dec t t') as [<-|Hne].
    - rewrite get_set_same in Hr'. apply filter_In in Hr'. exists r'. split; [apply Hr'|apply row_le_refl].
    - rewrite get_set_other in Hr' by exact Hne. exists r'. split; [exact Hr'|apply row_le_refl]. }
  split.
  - exists (more ++ [(t, rids)])%list. cbn [fst snd].
    split; [rewrite E, <- app_assoc; reflexivity|].
    split; [eapply shrink_trans; eassumption|]. split.
    + intros t' n Hn. destruct (string_dec t t') as [<-|Hne].
      * unfold rowids in Hn. apply in_map_iff in Hn. destruct Hn as [r [<- Hr]].
        destruct (zmem_z (rowid_of r) rids) eqn:Ez.
        -- right. exists rids. split; [apply in_or_app; right; left; reflexivity|apply zmem_z_In; exact Ez].
        -- assert (In (rowid_of r) (rowids (get_table d1 t))) as Hin.
           { unfold d1. rewrite get_set_same. unfold rowids. apply in_map. apply filter_In.
             split; [exact Hr|rewrite Ez; reflexivity]. }
           destruct (K1 t _ Hin) as [Hk|[rs [Hrs Hn]]]; [left; exact Hk|].
           right. exists rs. split; [apply in_or_app; left; exact Hrs|exact Hn].
      * assert (In n (rowids (get_table d1 t'))) as Hin
            by (unfold d1; rewrite get_set_other by exact Hne; exact Hn).
        destruct (K1 t' _ Hin) as [Hk|[rs [Hrs Hn']]]; [left; exact Hk|].
        right. exists rs. split; [apply in_or_app; left; exact Hrs|exact Hn'].
    + intros p rs Hp child c a Href Ha. apply in_app_or in Hp. destruct Hp as [Hp|[Hp|[]]].
      * eapply H1; eassumption.
      * injection Hp as <- <-. eapply Hnr; eassumption.
  - intros r' Hr' Hin. destruct (S1 t r' Hr') as [r [Hr [L0 _]]].
    unfold d1 in Hr. rewrite get_set_same in Hr. apply filter_In in Hr. destruct Hr as [_ Hr].
    apply negb_true_iff in Hr. rewrite L0 in Hin. apply zmem_z_In in Hin. congruence.
Qed.

Lemma no_action_ok_spec : forall d lg, no_action_ok d lg = true ->
    forall p rs, In (p, rs) lg ->
    forall child c a, In (child, c, a) (referencing p) ->
    ~ (a = "CASCADE" \/ a = "SET NULL") -> norefer d child c rs.
Proof.
  intros d lg H p rs Hp child c a Href Ha. unfold no_action_ok in H. rewrite forallb_forall in H.
  specialize (H _ Hp). cbv beta iota in H. rewrite forallb_forall in H.
  specialize (H _ Href). cbv beta iota in H.
  destruct (String.eqb a "CASCADE") eqn:E1; [apply String.eqb_eq in E1; exfalso; apply Ha; left; exact E1|].
  destruct (String.eqb a "SET NULL") eqn:E2; [apply String.eqb_eq in E2; exfalso; apply Ha; right; exact E2|].
  simpl in H. apply negb_true_iff in H. intros r Hr. exact (existsb_false_forall _ _ H r Hr).
Qed.

(* all references to the logged deletions are gone *)
Definition all_norefer (d : db) (lg : dellog) : Prop :=
  forall p rs, In (p, rs) lg -> forall child c a, In (child, c, a) (referencing p) -> norefer d child c rs.

Lemma cascade_fk_ok : forall d d' lg,
    fk_ok d = true -> shrink d d' -> kept d d' lg -> all_norefer d' lg -> fk_ok d' = true.
Proof.
  intros d d' lg Hok Hs Hk Hn. rewrite fk_ok_iff in *.
  intros t cols fks uqs Hin c p pc a Hfk r' Hr'.
  destruct (Hs t r' Hr') as [r [Hr [L0 L1]]].
  specialize (Hok t cols fks uqs Hin c p pc a Hfk r Hr).
  unfold col in *. destruct (L1 (col_index t c)) as [E|[E _]]; [|rewrite E; reflexivity].
  rewrite E. unfold fk_cell_ok in *. destruct (cell_at (col_index t c) r) as [|n|s|v] eqn:Ec; try assumption.
  apply zmem_z_In in Hok. apply zmem_z_In.
  destruct (Hk p n Hok) as [Hin'|[rs [Hrs Hnrs]]]; [exact Hin'|]. exfalso.
  assert (In (t, c, a) (referencing p)) as Href.
  { apply referencing_iff. exists cols, fks, uqs, pc. split; assumption. }
  specialize (Hn p rs Hrs t c a Href r' Hr'). unfold refers in Hn. rewrite E in Hn.
  apply zmem_z_In in Hnrs. congruence.
Qed.

Lemma delete_row_inv : forall fuel d t rid d',
    delete_row fuel d t rid = Ok d' ->
    d' = d \/ exists lg, delete_rows fuel (d, []) t [rid] = Ok (d', lg) /\ no_action_ok d' lg = true.
Proof.
  intros fuel d t rid d' H. unfold delete_row in H.
  destruct (existsb _ (get_table d t)); [|left; injection H as <-; reflexivity].
  apply bind_ok in H. destruct H as [[d1 lg] [H1 H2]].
  destruct (no_action_ok d1 lg) eqn:E; [|discriminate]. injection H2 as <-.
  right. exists lg. split; assumption.
Qed.

(* what a successful DELETE gives *)
Lemma delete_row_spec : forall fuel d t rid d',
    delete_row fuel d t rid = Ok d' ->
    exists lg, shrink d d' /\ kept d d' lg /\ all_norefer d' lg.
Proof.
  intros fuel d t rid d' H. destruct (delete_row_inv _ _ _ _ _ H) as [->|[lg [H1 H2]]].
  - exists []. split; [apply shrink_refl|]. split; [intros t' n Hn; left; exact Hn|].
    intros p rs [].
  - destruct (delete_rows_spec fuel _ _ _ _ H1) as [(more & E & S1 & K1 & Hh) _]. cbn [fst snd] in *.
    rewrite app_nil_r in E. subst more. exists lg. split; [exact S1|]. split; [exact K1|].
    intros p rs Hp child c a Href.
    destruct (string_dec a "CASCADE") as [Ea|Ea]; [eapply Hh; eauto|].
    destruct (string_dec a "SET NULL") as [Es|Es]; [eapply Hh; eauto|].
    eapply no_action_ok_spec; try eassumption. intros [E|E]; contradiction.
Qed.

Theorem delete_row_fk_ok : forall fuel d t rid d',
    fk_ok d = true -> delete_row fuel d t rid = Ok d' -> fk_ok d' = true.
Proof.
  intros fuel d t rid d' Hok H. destruct (delete_row_spec _ _ _ _ _ H) as (lg & S1 & K1 & N1).
  eapply cascade_fk_ok; eassumption.
Qed.

(* ---------- which rows a cascade deletes ---------- *)
(* a set of (table, rowid) closed, in database d0, under "a row referring to a member
   through an ON DELETE CASCADE foreign key" *)
Definition cascade_closed (d0 : db) (P : string -> Z -> Prop) : Prop :=
  forall p m child c r,
    P p m -> In (child, c, "CASCADE") (referencing p) ->
    In r (get_table d0 child) -> cell_at (col_index child c) r = CInt m ->
    P child (rowid_of r).

Definition LogSpec (f : nat) : Prop :=
  forall d lg t rids d' lg',
    delete_rows f (d, lg) t rids = Ok (d', lg') ->
    exists more, lg' = (more ++ lg)%list
      /\ forall d0 P, cascade_closed d0 P -> shrink d0 d -> (forall n, In n rids -> P t n) ->
                      forall p rs, In (p, rs) more -> forall n, In n rs -> P p n.

Lemma shrink_filter : forall d t g, shrink d (set_table d t (filter g (get_table d t))).
Proof.
  intros d t g t' r' Hr'. destruct (string_dec t t') as [<-|Hne].
  - rewrite get_set_same in Hr'. apply filter_In in Hr'. exists r'. split; [apply Hr'|apply row_le_refl].
  - rewrite get_set_other in Hr' by exact Hne. exists r'. split; [exact Hr'|apply row_le_refl].
Qed.

Lemma log_fold_spec : forall f, LogSpec f ->
    forall t rids refs st st',
      (forall child c a, In (child, c, a) refs -> In (child, c, a) (referencing t)) ->
      foldM (del_step f rids) refs st = Ok st' ->
      exists more, snd st' = (more ++ snd st)%list
        /\ forall d0 P, cascade_closed d0 P -> shrink d0 (fst st) -> (forall n, In n rids -> P t n) ->
                        forall p rs, In (p, rs) more -> forall n, In n rs -> P p n.
Proof.
  intros f IH t rids refs. induction refs as [|[[child c] a] refs IHr]; intros st st' Hs H.
  - simpl in H. injection H as <-. exists []. split; [reflexivity|]. intros d0 P _ _ _ p rs [].
  - simpl in H. apply bind_ok in H. destruct H as [s1 [H1 H2]].
    pose proof (Hs _ _ _ (or_introl eq_refl)) as Href.
    destruct (del_step_spec f (delete_rows_spec f) t rids st child c a s1 Href H1) as [(m0 & _ & S01 & _ & _) _].
    destruct (IHr s1 st' (fun ch c0 a0 Hin => Hs ch c0 a0 (or_intror Hin)) H2) as (m2 & E2 & J2).
    destruct st as [d lg]. destruct s1 as [d1 lg1]. cbn [fst snd] in *.
    assert (exists m1, lg1 = (m1 ++ lg)%list
                       /\ forall d0 P, cascade_closed d0 P -> shrink d0 d -> (forall n, In n rids -> P t n) ->
                                       forall p rs, In (p, rs) m1 -> forall n, In n rs -> P p n) as (m1 & E1 & J1).
    { unfold del_step in H1. destruct (String.eqb a "CASCADE") eqn:Ea.
      - apply String.eqb_eq in Ea. subst a.
        destruct (IH _ _ _ _ _ _ H1) as (m1 & E1 & J1). exists m1. split; [exact E1|].
        intros d0 P Hc Hsh HP. apply (J1 d0 P Hc Hsh).
        intros n Hn. apply in_map_iff in Hn. destruct Hn as [r1 [<- Hr1]].
        apply filter_In in Hr1. destruct Hr1 as [Hr1 Hrf].
        destruct (Hsh child r1 Hr1) as [r0 [Hr0 [L0 L1]]]. rewrite L0.
        unfold refers in Hrf. destruct (cell_at (col_index child c) r1) as [|m|s|v] eqn:Ec; try discriminate.
        apply zmem_z_In in Hrf.
        apply (Hc t m child c r0 (HP m Hrf) Href Hr0).
        destruct (L1 (col_index child c)) as [E|[E _]]; rewrite Ec in E; [symmetry; exact E|discriminate].
      - destruct (String.eqb a "SET NULL"); injection H1 as <- <-;
          (exists []; split; [reflexivity|intros d0 P _ _ _ p rs []]). }
    exists (m2 ++ m1)%list. split; [rewrite E2, E1, app_assoc; reflexivity|].
    intros d0 P Hc Hsh HP p rs Hp n Hn. apply in_app_or in Hp. destruct Hp as [Hp|Hp].
    + eapply (J2 d0 P Hc); try eassumption. eapply shrink_trans; eassumption.
    + eapply (J1 d0 P Hc); eassumption.
Qed.

Lemma delete_rows_log : forall f, LogSpec f.
Proof.
  induction f as [|f IH]; intros d lg t rids d' lg' H; [discriminate|].
  rewrite delete_rows_S in H. destruct rids as [|x rids0].
  { injection H as <- <-. exists []. split; [reflexivity|]. intros d0 P _ _ _ p rs []. }
  set (rids := x :: rids0) in *.
  apply (log_fold_spec f IH t rids) in H; [|intros child c a Hin; exact Hin].
  destruct H as (more & E & J). cbn [fst snd] in *.
  exists (more ++ [(t, rids)])%list. split; [rewrite E, <- app_assoc; reflexivity|].
  intros d0 P Hc Hsh HP p rs Hp n Hn. apply in_app_or in Hp. destruct Hp as [Hp|[Hp|[]]].
  - eapply (J d0 P Hc); try eassumption. eapply shrink_trans; [exact Hsh|apply shrink_filter].
  - injection Hp as <- <-. apply HP. exact Hn.
Qed.

(* the rows that the deletion of the roots reaches through ON DELETE CASCADE keys *)
Inductive doomed (d : db) (roots : string -> Z -> Prop) : string -> Z -> Prop :=
| doomed_root : forall t n, roots t n -> doomed d roots t n
| doomed_step : forall p m child c r,
    doomed d roots p m -> In (child, c, "CASCADE") (referencing p) ->
    In r (get_table d child) -> cell_at (col_index child c) r = CInt m ->
    doomed d roots child (rowid_of r).
Lemma doomed_closed : forall d roots, cascade_closed d (doomed d roots).
Proof. intros d roots p m child c r H1 H2 H3 H4. eapply doomed_step; eassumption. Qed.
Lemma doomed_shrink : forall d d' roots t n, shrink d d' -> doomed d' roots t n -> doomed d roots t n.
Proof.
  intros d d' roots t n Hs H. induction H as [t n Hr|p m child c r _ IH Href Hr Hc].
  - apply doomed_root. exact Hr.
  - destruct (Hs child r Hr) as [r0 [Hr0 [L0 L1]]]. rewrite L0.
    eapply doomed_step; [exact IH|exact Href|exact Hr0|].
    destruct (L1 (col_index child c)) as [E|[E _]]; rewrite Hc in E; [symmetry; exact E|discriminate].
Qed.
Lemma doomed_mono : forall d (R1 R2 : string -> Z -> Prop) t n,
    (forall t n, R1 t n -> R2 t n) -> doomed d R1 t n -> doomed d R2 t n.
Proof.
  intros d R1 R2 t n HR H. induction H as [t n Hr|p m child c r _ IH Href Hr Hc].
  - apply doomed_root. apply HR. exact Hr.
  - eapply doomed_step; eassumption.
Qed.

(* ---------- summary of one or several DELETEs ---------- *)
Definition Summary (d d' : db) (lg : dellog) : Prop :=
  shrink d d' /\ kept d d' lg /\ all_norefer d' lg.

Lemma Summary_refl : forall d, Summary d d [].
Proof.
  intro d. split; [apply shrink_refl|]. split; [intros t n H; left; exact H|intros p rs []].
Qed.
Lemma Summary_trans : forall a b c l1 l2,
    Summary a b l1 -> Summary b c l2 -> Summary a c (l2 ++ l1)%list.
Proof.
  intros a b c l1 l2 (S1 & K1 & N1) (S2 & K2 & N2). split; [eapply shrink_trans; eassumption|]. split.
  - intros t n Hn. destruct (K1 t n Hn) as [Hn1|[rs [Hrs Hin]]].
    + destruct (K2 t n Hn1) as [Hn2|[rs [Hrs Hin]]]; [left; exact Hn2|].
      right. exists rs. split; [apply in_or_app; left; exact Hrs|exact Hin].
    + right. exists rs. split; [apply in_or_app; right; exact Hrs|exact Hin].
  - intros p rs Hp child c0 a0 Href. apply in_app_or in Hp. destruct Hp as [Hp|Hp].
    + eapply N2; eassumption.
    + eapply norefer_shrink; [eapply N1; eassumption|exact S2].
Qed.

Definition root1 (t : string) (rid : Z) : string -> Z -> Prop := fun p n => p = t /\ n = rid.

Lemma delete_rows_logged : forall f d lg t x rids d' lg',
    delete_rows f (d, lg) t (x :: rids) = Ok (d', lg') -> In (t, x :: rids) lg'.
Proof.
  intros f d lg t x rids d' lg' H. destruct f as [|f]; [discriminate|].
  rewrite delete_rows_S in H.
  apply (del_fold_spec f (delete_rows_spec f) t) in H; [|intros child c a Hin; exact Hin].
  destruct H as [(more & E & _) _]. cbn [fst snd] in E. rewrite E.
  apply in_or_app. right. left. reflexivity.
Qed.

Lemma delete_row_summary : forall fuel d t rid d',
    delete_row fuel d t rid = Ok d' ->
    exists lg,
      Summary d d' lg
      /\ (forall p rs, In (p, rs) lg -> forall n, In n rs -> doomed d (root1 t rid) p n)
      /\ ((existsb (fun r => Z.eqb (rowid_of r) rid) (get_table d t) = false /\ d' = d)
          \/ (In (t, [rid]) lg /\ gone d' t [rid])).
Proof.
  intros fuel d t rid d' H. unfold delete_row in H.
  destruct (existsb (fun r => Z.eqb (rowid_of r) rid) (get_table d t)) eqn:Ex.
  - apply bind_ok in H. destruct H as [[d1 lg] [H1 H2]].
    destruct (no_action_ok d1 lg) eqn:E; [|discriminate]. injection H2 as <-.
    destruct (delete_rows_spec fuel _ _ _ _ H1) as [(more & E1 & S1 & K1 & Hh) Hg]. cbn [fst snd] in *.
    rewrite app_nil_r in E1. subst more.
    destruct (delete_rows_log fuel _ _ _ _ _ _ H1) as (more & E2 & J). rewrite app_nil_r in E2. subst more.
    exists lg. split; [|split].
    + split; [exact S1|]. split; [exact K1|].
      intros p rs Hp child c a Href.
      destruct (string_dec a "CASCADE") as [Ea|Ea]; [eapply Hh; eauto|].
      destruct (string_dec a "SET NULL") as [Es|Es]; [eapply Hh; eauto|].
      eapply no_action_ok_spec; try eassumption. intros [E'|E']; contradiction.
    + intros p rs Hp n Hn. apply (J d (doomed d (root1 t rid)) (doomed_closed _ _) (shrink_refl d)) with (rs := rs);
        try assumption.
      intros m [<-|[]]. apply doomed_root. split; reflexivity.
    + right. split; [eapply delete_rows_logged; exact H1|exact Hg].
  - injection H as <-. exists []. split; [apply Summary_refl|]. split; [intros p rs []|].
    left. split; reflexivity.
Qed.

(* a sequence of DELETE FROM lexicons WHERE rowid = ? *)
Definition delete_seq (d : db) (rids : list Z) : result db :=
  foldM (fun d rid => delete_row delete_fuel d "lexicons" rid) rids d.
Definition roots_of (rids : list Z) : string -> Z -> Prop := fun p n => p = "lexicons" /\ In n rids.

Lemma delete_seq_summary : forall rids d d',
    delete_seq d rids = Ok d' ->
    exists lg, Summary d d' lg
               /\ forall p rs, In (p, rs) lg -> forall n, In n rs -> doomed d (roots_of rids) p n.
Proof.
  induction rids as [|rid rids IH]; intros d d' H.
  - injection H as <-. exists []. split; [apply Summary_refl|intros p rs []].
  - unfold delete_seq in H. simpl in H. apply bind_ok in H. destruct H as [d1 [H1 H2]].
    destruct (delete_row_summary _ _ _ _ _ H1) as (lg1 & S1 & J1 & _).
    destruct (IH d1 d' H2) as (lg2 & S2 & J2).
    exists (lg2 ++ lg1)%list. split; [eapply Summary_trans; eassumption|].
    intros p rs Hp n Hn. apply in_app_or in Hp. destruct Hp as [Hp|Hp].
    + apply (doomed_shrink d d1); [apply S1|].
      eapply doomed_mono; [|eapply J2; eassumption]. intros t0 n0 [Ht Hn0]. split; [exact Ht|right; exact Hn0].
    + eapply doomed_mono; [|eapply J1; eassumption]. intros t0 n0 [Ht Hn0]. split; [exact Ht|left; congruence].
Qed.

Theorem delete_seq_fk_ok : forall rids d d',
    fk_ok d = true -> delete_seq d rids = Ok d' -> fk_ok d' = true.
Proof.
  intros rids d d' Hok H. destruct (delete_seq_summary _ _ _ H) as (lg & (S1 & K1 & N1) & _).
  eapply cascade_fk_ok; eassumption.
Qed.

(* no reference to a removed lexicon is left *)
Lemma delete_seq_norefer : forall rids d d',
    fk_ok d = true -> delete_seq d rids = Ok d' ->
    forall n, In n rids -> forall child c a, In (child, c, a) (referencing "lexicons") ->
    norefer d' child c [n].
Proof.
  induction rids as [|rid rids IH]; intros d d' Hok H n Hn child c a Href; [destruct Hn|].
  unfold delete_seq in H. simpl in H. apply bind_ok in H. destruct H as [d1 [H1 H2]].
  pose proof (delete_row_fk_ok _ _ _ _ _ Hok H1) as Hok1.
  destruct Hn as [<-|Hn]; [|eapply IH; eassumption].
  destruct (delete_seq_summary _ _ _ H2) as (lg2 & (S2 & _ & _) & _).
  eapply norefer_shrink; [|exact S2].
  destruct (delete_row_summary _ _ _ _ _ H1) as (lg1 & (_ & _ & N1) & _ & [[Ex ->]|[Hin _]]).
  - (* the lexicon did not exist: nothing referred to it *)
    intros r Hr. unfold refers. destruct (cell_at (col_index child c) r) as [|m|s|v] eqn:Ec; try reflexivity.
    simpl. rewrite orb_false_r. destruct (Z.eqb m rid) eqn:Em; [|reflexivity]. exfalso.
    apply Z.eqb_eq in Em. subst m. apply referencing_iff in Href.
    destruct Href as (cols & fks & uqs & pc & Hin & Hfk).
    rewrite fk_ok_iff in Hok. specialize (Hok _ _ _ _ Hin _ _ _ _ Hfk r Hr).
    unfold col in Hok. rewrite Ec in Hok. simpl in Hok. apply zmem_z_In in Hok.
    unfold rowids in Hok. apply in_map_iff in Hok. destruct Hok as [r0 [E0 Hr0]].
    pose proof (existsb_false_forall _ _ Ex r0 Hr0) as Hf. cbv beta in Hf.
    rewrite E0, Z.eqb_refl in Hf. discriminate.
  - eapply N1; eassumption.
Qed.

(* ---------- tables that no cascade can reach ---------- *)
Definition never_child (t0 : string) : Prop := forall p c a, ~ In (t0, c, a) (referencing p).

Lemma filter_all : forall {T} (g : T -> bool) l, (forall x, In x l -> g x = true) -> filter g l = l.
Proof.
  intros T g l H. induction l as [|a l IH]; simpl; [reflexivity|].
  rewrite H by (left; reflexivity). rewrite IH; [reflexivity|]. intros x Hx. apply H. right. exact Hx.
Qed.
Lemma filter_filter : forall {T} (g1 g2 : T -> bool) l,
    filter g2 (filter g1 l) = filter (fun x => g1 x && g2 x) l.
Proof.
  intros T g1 g2 l. induction l as [|a l IH]; simpl; [reflexivity|].
  destruct (g1 a); simpl; [destruct (g2 a); rewrite IH; reflexivity|exact IH].
Qed.

Definition TouchSpec (f : nat) : Prop :=
  forall d lg t rids d' lg' t0,
    delete_rows f (d, lg) t rids = Ok (d', lg') -> never_child t0 ->
    get_table d' t0 = if String.eqb t0 t
                      then filter (fun r => negb (zmem_z (rowid_of r) rids)) (get_table d t0)
                      else get_table d t0.

Lemma touch_fold : forall f, TouchSpec f ->
    forall t rids t0 refs st st',
      (forall child c a, In (child, c, a) refs -> In (child, c, a) (referencing t)) ->
      never_child t0 ->
      foldM (del_step f rids) refs st = Ok st' -> get_table (fst st') t0 = get_table (fst st) t0.
Proof.
  intros f IH t rids t0 refs. induction refs as [|[[child c] a] refs IHr]; intros st st' Hs Hn H.
  - simpl in H. injection H as <-. reflexivity.
  - simpl in H. apply bind_ok in H. destruct H as [s1 [H1 H2]].
    rewrite (IHr s1 st' (fun ch c0 a0 Hin => Hs ch c0 a0 (or_intror Hin)) Hn H2).
    assert (t0 <> child) as Hne.
    { intros ->. exact (Hn _ _ _ (Hs _ _ _ (or_introl eq_refl))). }
    destruct st as [d lg]. unfold del_step in H1. cbn [fst].
    destruct (String.eqb a "CASCADE").
    + destruct s1 as [d1 lg1]. cbn [fst]. rewrite (IH _ _ _ _ _ _ t0 H1 Hn).
      apply String.eqb_neq in Hne. rewrite Hne. reflexivity.
    + destruct (String.eqb a "SET NULL"); injection H1 as <-; cbn [fst]; [|reflexivity].
      apply get_set_other. congruence.
Qed.

Lemma delete_rows_touch : forall f, TouchSpec f.
Proof.
  induction f as [|f IH]; intros d lg t rids d' lg' t0 H Hn; [discriminate|].
  rewrite delete_rows_S in H. destruct rids as [|x rids0].
  { injection H as <- <-. destruct (String.eqb t0 t); [|reflexivity].
    symmetry. apply filter_all. intros r _. reflexivity. }
  apply (touch_fold f IH t _ t0) in H; [|intros child c a Hin; exact Hin|exact Hn].
  cbn [fst] in H. rewrite H. destruct (String.eqb t0 t) eqn:E.
  - apply String.eqb_eq in E. subst t0. apply get_set_same.
  - apply String.eqb_neq in E. apply get_set_other. congruence.
Qed.

Lemma never_child_lexicons : never_child "lexicons".
Proof.
  intros p c a H. apply referencing_iff in H. destruct H as (cols & fks & uqs & pc & Hin & Hfk).
  assert (forallb (fun e : string * columns_t * fkeys_t * uniques_t =>
                     let '(t, _, fks, _) := e in
                     negb (String.eqb t "lexicons") || match fks with [] => true | _ => false end)
                  schema = true) as Hs by (vm_compute; reflexivity).
  rewrite forallb_forall in Hs. specialize (Hs _ Hin). cbv beta iota in Hs.
  rewrite String.eqb_refl in Hs. simpl in Hs. destruct fks; [destruct Hfk|discriminate].
Qed.

Lemma delete_row_lexicons : forall fuel d rid d',
    delete_row fuel d "lexicons" rid = Ok d' ->
    get_table d' "lexicons"
    = filter (fun r => negb (zmem_z (rowid_of r) [rid])) (get_table d "lexicons").
Proof.
  intros fuel d rid d' H. unfold delete_row in H.
  destruct (existsb (fun r => Z.eqb (rowid_of r) rid) (get_table d "lexicons")) eqn:Ex.
  - apply bind_ok in H. destruct H as [[d1 lg] [H1 H2]].
    destruct (no_action_ok d1 lg); [|discriminate]. injection H2 as <-.
    rewrite (delete_rows_touch fuel _ _ _ _ _ _ "lexicons" H1 never_child_lexicons). reflexivity.
  - injection H as <-. symmetry. apply filter_all. intros r Hr.
    pose proof (existsb_false_forall _ _ Ex r Hr) as Hf. cbv beta in Hf.
    simpl. rewrite Hf. reflexivity.
Qed.
Lemma delete_seq_lexicons : forall rids d d',
    delete_seq d rids = Ok d' ->
    get_table d' "lexicons"
    = filter (fun r => negb (zmem_z (rowid_of r) rids)) (get_table d "lexicons").
Proof.
  induction rids as [|rid rids IH]; intros d d' H.
  - injection H as <-. symmetry. apply filter_all. intros r _. reflexivity.
  - unfold delete_seq in H. simpl in H. apply bind_ok in H. destruct H as [d1 [H1 H2]].
    rewrite (IH d1 d' H2), (delete_row_lexicons _ _ _ _ H1), filter_filter.
    apply filter_ext. intro r. simpl. rewrite orb_false_r.
    destruct (Z.eqb (rowid_of r) rid); reflexivity.
Qed.

(* ---------- remove is a sequence of deletions from lexicons ---------- *)
Lemma foldM_map : forall {T U S} (g : S -> U -> result S) (h : T -> U) l s,
    foldM (fun s x => g s (h x)) l s = foldM g (map h l) s.
Proof.
  intros T U S g h l. induction l as [|x l IH]; intros s; simpl; [reflexivity|].
  destruct (g s (h x)); simpl; [apply IH|reflexivity|reflexivity].
Qed.
Lemma delete_seq_app : forall a b d,
    delete_seq d (a ++ b)%list = bind (delete_seq d a) (fun d1 => delete_seq d1 b).
Proof. intros. unfold delete_seq. apply foldM_app. Qed.

Lemma remove_one_seq : forall d rowid d',
    remove_one d rowid = Ok d' ->
    exists exts, _find_all_extensions d rowid = Ok exts
                 /\ delete_seq d (map fst (rev exts) ++ [rowid])%list = Ok d'.
Proof.
  intros d rowid d' H. unfold remove_one in H. apply bind_ok in H. destruct H as [exts [He H]].
  apply bind_ok in H. destruct H as [d1 [H1 H2]]. exists exts. split; [exact He|].
  rewrite delete_seq_app. unfold delete_seq at 1. rewrite <- foldM_map. rewrite H1. simpl.
  unfold delete_seq. simpl. rewrite H2. reflexivity.
Qed.

Definition remove_step (st : db * bool) (specifier : str) : result (db * bool) :=
  let '(d, found) := st in
  let rows := select_one (lexrows_of d) None specifier in
  d <- foldM (fun d (l : lexrow) => remove_one d (lx_rowid l)) rows d ;;
  Ok (d, found || match rows with [] => false | _ => true end).
Lemma remove_unfold : forall d lexicon,
    remove d lexicon =
    bind (foldM remove_step (split_ws lexicon) (d, false))
         (fun st => if negb (snd st) && negb (str_eqb lexicon [c_star]) then WnError else Ok (fst st)).
Proof.
  intros d lexicon. unfold remove.
  destruct (foldM _ (split_ws lexicon) (d, false)) as [[d1 f1]| |]; reflexivity.
Qed.

Lemma remove_rows_seq : forall (rows : list lexrow) d d',
    foldM (fun d (l : lexrow) => remove_one d (lx_rowid l)) rows d = Ok d' ->
    exists rids, delete_seq d rids = Ok d'.
Proof.
  induction rows as [|l rows IHr]; intros d d' H; simpl in H.
  - injection H as <-. exists []. reflexivity.
  - apply bind_ok in H. destruct H as [d4 [H4 H5]].
    destruct (remove_one_seq _ _ _ H4) as [exts [_ Hq]].
    destruct (IHr _ _ H5) as [rids5 Hq5].
    eexists. rewrite delete_seq_app, Hq. simpl. exact Hq5.
Qed.
Lemma remove_steps_seq : forall specs d f0 d' f1,
    foldM remove_step specs (d, f0) = Ok (d', f1) -> exists rids, delete_seq d rids = Ok d'.
Proof.
  induction specs as [|s specs IH]; intros d f0 d' f1 H; simpl in H.
  - injection H as <- _. exists []. reflexivity.
  - apply bind_ok in H. destruct H as [[d2 f2] [Hs Hrest]].
    apply bind_ok in Hs. destruct Hs as [d3 [Hrows Hd3]]. injection Hd3 as <- _.
    destruct (IH _ _ _ _ Hrest) as [rids2 Hseq2].
    destruct (remove_rows_seq _ _ _ Hrows) as [rids1 Hseq1].
    exists (rids1 ++ rids2)%list. rewrite delete_seq_app, Hseq1. simpl. exact Hseq2.
Qed.
Lemma remove_seq : forall d spec d',
    remove d spec = Ok d' -> exists rids, delete_seq d rids = Ok d'.
Proof.
  intros d spec d' H. rewrite remove_unfold in H. apply bind_ok in H. destruct H as [[d1 f1] [H1 H2]].
  cbn [fst snd] in H2. destruct (negb f1 && negb (str_eqb spec [c_star])); [discriminate|].
  injection H2 as <-. eapply remove_steps_seq. exact H1.
Qed.

(* ---------- rowids are keys ---------- *)
Fixpoint nodup_zb (l : list Z) : bool :=
  match l with [] => true | x :: l' => negb (zmem_z x l') && nodup_zb l' end.
Lemma nodup_zb_NoDup : forall l, nodup_zb l = true -> NoDup l.
Proof.
  induction l as [|x l IH]; intro H; [constructor|]. simpl in H. apply andb_true_iff in H. destruct H as [H1 H2].
  constructor; [|apply IH; exact H2]. intro Hin. apply zmem_z_In in Hin. rewrite Hin in H1. discriminate.
Qed.
(* in every table of the schema the rowids are pairwise different *)
Definition db_rowids_ok (d : db) : bool :=
  forallb (fun e : string * columns_t * fkeys_t * uniques_t =>
             nodup_zb (rowids (get_table d (fst (fst (fst e)))))) schema.
Lemma db_rowids_ok_NoDup : forall d t cols fks uqs,
    db_rowids_ok d = true -> In (t, cols, fks, uqs) schema -> NoDup (rowids (get_table d t)).
Proof.
  intros d t cols fks uqs H Hin. unfold db_rowids_ok in H. rewrite forallb_forall in H.
  apply nodup_zb_NoDup. exact (H _ Hin).
Qed.
Lemma NoDup_rowids_inj : forall (rows : table) a b,
    NoDup (rowids rows) -> In a rows -> In b rows -> rowid_of a = rowid_of b -> a = b.
Proof.
  induction rows as [|x rows IH]; intros a b Hnd Ha Hb E; [destruct Ha|].
  simpl in Hnd. inversion Hnd as [|? ? Hnot Hnd']. subst.
  destruct Ha as [<-|Ha]; destruct Hb as [<-|Hb].
  - reflexivity.
  - exfalso. apply Hnot. rewrite E. apply in_map. exact Hb.
  - exfalso. apply Hnot. rewrite <- E. apply in_map. exact Ha.
  - apply IH; assumption.
Qed.

(* ---------- (B3) frame ---------- *)
Lemma summary_frame : forall d d' lg (roots : string -> Z -> Prop) t r,
    Summary d d' lg ->
    (forall p rs, In (p, rs) lg -> forall n, In n rs -> doomed d roots p n) ->
    NoDup (rowids (get_table d t)) ->
    In r (get_table d t) -> ~ doomed d roots t (rowid_of r) ->
    exists r', In r' (get_table d' t) /\ row_le t r' r.
Proof.
  intros d d' lg roots t r (S1 & K1 & _) J Hnd Hr Hnot.
  destruct (K1 t (rowid_of r) (in_map rowid_of _ _ Hr)) as [Hk|[rs [Hrs Hn]]].
  - unfold rowids in Hk. apply in_map_iff in Hk. destruct Hk as [r' [E Hr']].
    destruct (S1 t r' Hr') as [r0 [Hr0 L]]. exists r'. split; [exact Hr'|].
    assert (r0 = r) as <-; [|exact L].
    apply (NoDup_rowids_inj _ _ _ Hnd Hr0 Hr). destruct L as [L0 _]. congruence.
  - exfalso. apply Hnot. eapply J; eassumption.
Qed.

Theorem delete_seq_frame : forall rids d d' t r,
    delete_seq d rids = Ok d' ->
    NoDup (rowids (get_table d t)) ->
    In r (get_table d t) -> ~ doomed d (roots_of rids) t (rowid_of r) ->
    exists r', In r' (get_table d' t) /\ row_le t r' r.
Proof.
  intros rids d d' t r H Hnd Hr Hnot. destruct (delete_seq_summary _ _ _ H) as (lg & HS & J).
  eapply summary_frame; eassumption.
Qed.

(* the only columns that a removal may null *)
Example setnull_columns :
  flat_map (fun e : string * columns_t * fkeys_t * uniques_t =>
              let '(t, _, fks, _) := e in
              flat_map (fun fk : string * string * string * string =>
                          let '(c, _, _, a) := fk in
                          if String.eqb a "SET NULL" then [(t, c)] else []) fks) schema
  = [("lexicon_dependencies", "provider_rowid"); ("definitions", "sense_rowid")].
Proof. vm_compute. reflexivity. Qed.
(* the references to lexicons: every lexicon_rowid column is among them, with ON DELETE CASCADE *)
Example references_to_lexicons :
  referencing "lexicons"
  = [("lexicon_dependencies", "dependent_rowid", "CASCADE");
     ("lexicon_dependencies", "provider_rowid", "SET NULL");
     ("lexicon_extensions", "base_rowid", "NO ACTION");
     ("lexicon_extensions", "extension_rowid", "CASCADE");
     ("entries", "lexicon_rowid", "CASCADE"); ("forms", "lexicon_rowid", "CASCADE");
     ("synsets", "lexicon_rowid", "CASCADE"); ("synset_relations", "lexicon_rowid", "CASCADE");
     ("definitions", "lexicon_rowid", "CASCADE"); ("synset_examples", "lexicon_rowid", "CASCADE");
     ("senses", "lexicon_rowid", "CASCADE"); ("sense_relations", "lexicon_rowid", "CASCADE");
     ("sense_synset_relations", "lexicon_rowid", "CASCADE");
     ("sense_examples", "lexicon_rowid", "CASCADE"); ("counts", "lexicon_rowid", "CASCADE");
     ("syntactic_behaviours", "lexicon_rowid", "CASCADE")].
Proof. vm_compute. reflexivity. Qed.
Example lexicon_rowid_columns_covered :
  forallb (fun e : string * columns_t * fkeys_t * uniques_t =>
             let '(t, cols, _, _) := e in
             negb (existsb (fun c => String.eqb (col_name c) "lexicon_rowid") cols)
             || existsb (fun ref : string * string * string =>
                           let '(child, c, a) := ref in
                           String.eqb child t && String.eqb c "lexicon_rowid" && String.eqb a "CASCADE")
                        (referencing "lexicons")) schema = true.
Proof. vm_compute. reflexivity. Qed.

(* a CASCADE column is never a SET NULL column *)
Definition cascade_setnull_disjoint : bool :=
  forallb (fun e1 : string * columns_t * fkeys_t * uniques_t =>
    let '(t1, _, fks1, _) := e1 in
    forallb (fun e2 : string * columns_t * fkeys_t * uniques_t =>
      let '(t2, _, fks2, _) := e2 in
      negb (String.eqb t1 t2)
      || forallb (fun fk1 : string * string * string * string =>
           let '(c1, _, _, a1) := fk1 in
           forallb (fun fk2 : string * string * string * string =>
             let '(c2, _, _, a2) := fk2 in
             negb (String.eqb a1 "CASCADE" && String.eqb a2 "SET NULL")
             || negb (Nat.eqb (col_index t1 c1) (col_index t1 c2))) fks2) fks1) schema) schema.
Lemma cascade_setnull_disjoint_true : cascade_setnull_disjoint = true.
Proof. vm_compute. reflexivity. Qed.
Lemma cascade_not_setnull : forall p child c,
    In (child, c, "CASCADE") (referencing p) -> ~ setnull_col child (col_index child c).
Proof.
  intros p child c Href (cols2 & fks2 & uqs2 & c2 & p2 & pc2 & Hin2 & Hfk2 & E).
  apply referencing_iff in Href. destruct Href as (cols1 & fks1 & uqs1 & pc1 & Hin1 & Hfk1).
  pose proof cascade_setnull_disjoint_true as H. unfold cascade_setnull_disjoint in H.
  rewrite forallb_forall in H. specialize (H _ Hin1). cbv beta iota in H.
  rewrite forallb_forall in H. specialize (H _ Hin2). cbv beta iota in H.
  rewrite String.eqb_refl in H. simpl in H.
  rewrite forallb_forall in H. specialize (H _ Hfk1). cbv beta iota in H.
  rewrite forallb_forall in H. specialize (H _ Hfk2). cbv beta iota in H.
  simpl in H. rewrite E, Nat.eqb_refl in H. discriminate.
Qed.

(* everything that the removed lexicons own, transitively, is gone *)
Theorem delete_seq_doomed_gone : forall rids d d',
    fk_ok d = true -> db_rowids_ok d = true -> delete_seq d rids = Ok d' ->
    forall t n, doomed d (roots_of rids) t n -> ~ In n (rowids (get_table d' t)).
Proof.
  intros rids d d' Hok Hrid H t n Hd.
  pose proof (delete_seq_fk_ok _ _ _ Hok H) as Hok'.
  destruct (delete_seq_summary _ _ _ H) as (lg & (S1 & _ & _) & _).
  induction Hd as [t n [-> Hn]|p m child c r _ IH Href Hr Hc].
  - rewrite (delete_seq_lexicons _ _ _ H). unfold rowids. intro Hin. apply in_map_iff in Hin.
    destruct Hin as [r [<- Hr]]. apply filter_In in Hr. destruct Hr as [_ Hr].
    apply negb_true_iff in Hr. apply zmem_z_In in Hn. congruence.
  - intro Hin. unfold rowids in Hin. apply in_map_iff in Hin. destruct Hin as [r' [E Hr']].
    destruct (S1 child r' Hr') as [r0 [Hr0 [L0 L1]]].
    pose proof Href as Href'. apply referencing_iff in Href'.
    destruct Href' as (cols & fks & uqs & pc & Hin & Hfk).
    assert (r0 = r) as ->.
    { apply (NoDup_rowids_inj (get_table d child)); try assumption; [|congruence].
      eapply db_rowids_ok_NoDup; eassumption. }
    destruct (L1 (col_index child c)) as [Ec|[_ Hsn]].
    + rewrite fk_ok_iff in Hok'. specialize (Hok' _ _ _ _ Hin _ _ _ _ Hfk r' Hr').
      unfold col in Hok'. rewrite Ec, Hc in Hok'. simpl in Hok'. apply zmem_z_In in Hok'.
      exact (IH Hok').
    + exact (cascade_not_setnull _ _ _ Href Hsn).
Qed.

(* ---------- the extensions of a lexicon ---------- *)
(* x is reachable from y through rows (extension_rowid = x', base_rowid = y') of lexicon_extensions *)
Inductive ext_rt (d : db) : Z -> Z -> Prop :=
| ext_rt_refl : forall y, ext_rt d y y
| ext_rt_step : forall y z x, In z (direct_extensions d y) -> ext_rt d z x -> ext_rt d y x.
(* x is a (transitive) extension of b *)
Definition ext_reach (d : db) (b x : Z) : Prop :=
  exists y, In y (direct_extensions d b) /\ ext_rt d y x.

Lemma dedupe_z_acc : forall l acc x,
    In x (fold_left (fun acc x => if existsb (Z.eqb x) acc then acc else (acc ++ [x])%list) l acc)
    <-> In x acc \/ In x l.
Proof.
  induction l as [|a l IH]; intros acc x; simpl.
  - split; [auto|intros [H|[]]; exact H].
  - rewrite IH. destruct (existsb (Z.eqb a) acc) eqn:E.
    + apply existsb_exists in E. destruct E as [a' [Ha' E]]. apply Z.eqb_eq in E. subst a'.
      split; [intros [H|H]; auto|intros [H|[<-|H]]; auto].
    + rewrite in_app_iff. simpl. split; [intros [[H|[<-|[]]]|H]; auto|intros [H|[<-|H]]; auto].
Qed.
Lemma In_dedupe_z : forall l x, In x (dedupe_z l) <-> In x l.
Proof.
  intros l x. unfold dedupe_z. rewrite dedupe_z_acc. split; [intros [[]|H]; exact H|auto].
Qed.

Lemma extension_levels_spec : forall fuel d frontier res,
    extension_levels fuel d frontier = Ok res ->
    forall x, In x res <-> exists y, In y frontier /\ ext_rt d y x.
Proof.
  induction fuel as [|f IH]; intros d frontier res H x.
  - destruct frontier; [|discriminate]. injection H as <-. split; [intros []|intros [y [[] _]]].
  - destruct frontier as [|a fr].
    { injection H as <-. split; [intros []|intros [y [[] _]]]. }
    set (front := a :: fr) in *.
    change (extension_levels (S f) d front)
      with (rest <- extension_levels f d (dedupe_z (flat_map (direct_extensions d) front)) ;;
            Ok (front ++ rest)%list) in H.
    apply bind_ok in H. destruct H as [rest [Hrest H]]. injection H as <-.
    specialize (IH _ _ _ Hrest x). change (a :: fr ++ rest)%list with (front ++ rest)%list.
    rewrite in_app_iff. split.
    + intros [Hx|Hx].
      * exists x. split; [exact Hx|apply ext_rt_refl].
      * apply IH in Hx. destruct Hx as [z [Hz Hzx]]. apply (proj1 (In_dedupe_z _ _)) in Hz.
        apply in_flat_map in Hz. destruct Hz as [y [Hy Hyz]].
        exists y. split; [exact Hy|eapply ext_rt_step; eassumption].
    + intros [y [Hy Hyx]]. inversion Hyx as [|? z ? Hz Hzx]; subst.
      * left. exact Hy.
      * right. apply IH. exists z. split; [|exact Hzx].
        apply In_dedupe_z. apply in_flat_map. exists y. split; assumption.
Qed.
Theorem get_lexicon_extensions_spec : forall d rowid exts,
    get_lexicon_extensions d rowid = Ok exts -> forall x, In x exts <-> ext_reach d rowid x.
Proof.
  intros d rowid exts H x. unfold get_lexicon_extensions in H.
  rewrite (extension_levels_spec _ _ _ _ H x). unfold ext_reach.
  split; intros [y [Hy Hyx]]; exists y; (split; [|exact Hyx]); apply In_dedupe_z; exact Hy.
Qed.

Lemma mapM_fst : forall {T} (g : Z -> result T) l res,
    mapM (fun x => v <- g x ;; Ok (x, v)) l = Ok res -> map fst res = l.
Proof.
  intros T g l. induction l as [|a l IH]; intros res H; simpl in H.
  - injection H as <-. reflexivity.
  - apply bind_ok in H. destruct H as [y [Hy H]]. apply bind_ok in H. destruct H as [ys [Hys H]].
    injection H as <-. apply bind_ok in Hy. destruct Hy as [v [_ Hy]]. injection Hy as <-.
    simpl. rewrite (IH ys Hys). reflexivity.
Qed.
Lemma find_all_extensions_ids : forall d rowid exts,
    _find_all_extensions d rowid = Ok exts -> get_lexicon_extensions d rowid = Ok (map fst exts).
Proof.
  intros d rowid exts H. unfold _find_all_extensions in H. apply bind_ok in H.
  destruct H as [ids [Hids H]]. rewrite Hids. f_equal. symmetry. clear Hids.
  revert exts H. induction ids as [|a ids IH]; intros exts H; simpl in H.
  - injection H as <-. reflexivity.
  - apply bind_ok in H. destruct H as [y [Hy H]]. apply bind_ok in H. destruct H as [ys [Hys H]].
    injection H as <-. apply bind_ok in Hy. destruct Hy as [v [_ Hy]]. injection Hy as <-.
    simpl. rewrite (IH ys Hys). reflexivity.
Qed.

Lemma existsb_rev_eq : forall {T} (g : T -> bool) l, existsb g (rev l) = existsb g l.
Proof.
  intros T g l. induction l as [|a l IH]; simpl; [reflexivity|].
  rewrite existsb_app, IH. simpl. rewrite orb_false_r. apply orb_comm.
Qed.
Lemma zmem_rev_app : forall x l a, zmem_z x (rev l ++ [a])%list = zmem_z x (a :: l).
Proof.
  intros x l a. unfold zmem_z. rewrite existsb_app, existsb_rev_eq. simpl. rewrite orb_false_r.
  apply orb_comm.
Qed.

(* removing one lexicon: its transitive extensions, deepest first, then the lexicon *)
Theorem remove_one_spec : forall d rowid d',
    remove_one d rowid = Ok d' ->
    exists exts,
      get_lexicon_extensions d rowid = Ok exts
      /\ (forall x, In x exts <-> ext_reach d rowid x)
      /\ delete_seq d (rev exts ++ [rowid])%list = Ok d'
      /\ get_table d' "lexicons"
         = filter (fun r => negb (zmem_z (rowid_of r) (rowid :: exts))) (get_table d "lexicons").
Proof.
  intros d rowid d' H. destruct (remove_one_seq _ _ _ H) as [exts [He Hq]].
  pose proof (find_all_extensions_ids _ _ _ He) as Hids.
  exists (map fst exts). split; [exact Hids|]. split; [apply get_lexicon_extensions_spec; exact Hids|].
  rewrite map_rev in Hq. split; [exact Hq|].
  rewrite (delete_seq_lexicons _ _ _ Hq). apply filter_ext. intro r. f_equal.
  apply zmem_rev_app.
Qed.

(* ---------- remove ---------- *)
Lemma remove_rows_seq' : forall (rows : list lexrow) d d',
    foldM (fun d (l : lexrow) => remove_one d (lx_rowid l)) rows d = Ok d' ->
    exists rids, delete_seq d rids = Ok d' /\ forall l, In l rows -> In (lx_rowid l) rids.
Proof.
  induction rows as [|l rows IHr]; intros d d' H; simpl in H.
  - injection H as <-. exists []. split; [reflexivity|intros l []].
  - apply bind_ok in H. destruct H as [d4 [H4 H5]].
    destruct (remove_one_seq _ _ _ H4) as [exts [_ Hq]].
    destruct (IHr _ _ H5) as [rids5 [Hq5 Hc5]].
    exists ((map fst (rev exts) ++ [lx_rowid l]) ++ rids5)%list. split.
    + rewrite delete_seq_app, Hq. simpl. exact Hq5.
    + intros l' [<-|Hl'].
      * apply in_or_app. left. apply in_or_app. right. left. reflexivity.
      * apply in_or_app. right. apply Hc5. exact Hl'.
Qed.
Lemma remove_steps_seq' : forall specs d f0 d' f1,
    foldM remove_step specs (d, f0) = Ok (d', f1) ->
    exists rids, delete_seq d rids = Ok d'
                 /\ forall s specs', specs = s :: specs' ->
                    forall l, In l (select_one (lexrows_of d) None s) -> In (lx_rowid l) rids.
Proof.
  induction specs as [|s specs IH]; intros d f0 d' f1 H; simpl in H.
  - injection H as <- _. exists []. split; [reflexivity|]. intros s specs' E. discriminate.
  - apply bind_ok in H. destruct H as [[d2 f2] [Hs Hrest]].
    apply bind_ok in Hs. destruct Hs as [d3 [Hrows Hd3]]. injection Hd3 as <- _.
    destruct (IH _ _ _ _ Hrest) as [rids2 [Hseq2 _]].
    destruct (remove_rows_seq' _ _ _ Hrows) as [rids1 [Hseq1 Hc1]].
    exists (rids1 ++ rids2)%list. split; [rewrite delete_seq_app, Hseq1; simpl; exact Hseq2|].
    intros s0 specs' E l Hl. injection E as <- <-. apply in_or_app. left. apply Hc1. exact Hl.
Qed.

(* (B2) + (B3) + integrity for remove: the lexicons R removed by the call *)
Theorem remove_owned_rows_gone : forall d spec d',
    fk_ok d = true -> remove d spec = Ok d' ->
    exists R : list Z,
      (* the call is this sequence of DELETE FROM lexicons WHERE rowid = ? *)
      delete_seq d R = Ok d'
      (* every lexicon selected by the first specifier is removed *)
      /\ (forall s specs', split_ws spec = s :: specs' ->
            forall l, In l (select_one (lexrows_of d) None s) -> In (lx_rowid l) R)
      (* the lexicons table loses exactly the rows of R *)
      /\ get_table d' "lexicons"
         = filter (fun r => negb (zmem_z (rowid_of r) R)) (get_table d "lexicons")
      (* no row of any table refers to a removed lexicon: in particular no lexicon_rowid,
         dependent_rowid, extension_rowid, base_rowid or provider_rowid *)
      /\ (forall child c a, In (child, c, a) (referencing "lexicons") ->
            forall r, In r (get_table d' child) -> forall n, In n R -> col child c r <> CInt n)
      (* no dangling reference at all *)
      /\ fk_ok d' = true.
Proof.
  intros d spec d' Hok H. rewrite remove_unfold in H. apply bind_ok in H.
  destruct H as [[d1 f1] [H1 H2]]. cbn [fst snd] in H2.
  destruct (negb f1 && negb (str_eqb spec [c_star])); [discriminate|]. injection H2 as <-.
  destruct (remove_steps_seq' _ _ _ _ _ H1) as [R [Hseq Hcov]].
  exists R. split; [exact Hseq|]. split; [exact Hcov|].
  split; [apply delete_seq_lexicons; exact Hseq|]. split; [|eapply delete_seq_fk_ok; eassumption].
  intros child c a Href r Hr n Hn E.
  pose proof (delete_seq_norefer _ _ _ Hok Hseq n Hn child c a Href r Hr) as Hnr.
  unfold refers in Hnr. unfold col in E. rewrite E in Hnr. simpl in Hnr.
  rewrite Z.eqb_refl in Hnr. discriminate.
Qed.

(* (B3) the rows that are not owned, transitively through ON DELETE CASCADE keys, by a removed
   lexicon are still there, unchanged except for nulled SET NULL columns
   (lexicon_dependencies.provider_rowid, definitions.sense_rowid: Example setnull_columns);
   conversely everything that is owned is gone *)
Theorem remove_frame : forall d spec d',
    fk_ok d = true -> db_rowids_ok d = true -> remove d spec = Ok d' ->
    exists R : list Z,
      delete_seq d R = Ok d'
      /\ (forall t cols fks uqs r, In (t, cols, fks, uqs) schema ->
            In r (get_table d t) -> ~ doomed d (roots_of R) t (rowid_of r) ->
            exists r', In r' (get_table d' t) /\ row_le t r' r)
      /\ (forall t n, doomed d (roots_of R) t n -> ~ In n (rowids (get_table d' t)))
      /\ shrink d d'.
Proof.
  intros d spec d' Hok Hrid H. destruct (remove_seq _ _ _ H) as [R Hseq]. exists R.
  split; [exact Hseq|]. split; [|split].
  - intros t cols fks uqs r Hin Hr Hnot. eapply delete_seq_frame; try eassumption.
    eapply db_rowids_ok_NoDup; eassumption.
  - eapply delete_seq_doomed_gone; eassumption.
  - destruct (delete_seq_summary _ _ _ Hseq) as (lg & (S1 & _) & _). exact S1.
Qed.

(* the usual case: one specifier selecting one lexicon *)
Theorem remove_single : forall d spec s l d',
    split_ws spec = [s] -> select_one (lexrows_of d) None s = [l] ->
    remove d spec = Ok d' -> remove_one d (lx_rowid l) = Ok d'.
Proof.
  intros d spec s l d' Hs Hl H. rewrite remove_unfold, Hs in H. simpl in H. rewrite Hl in H. simpl in H.
  destruct (remove_one d (lx_rowid l)) as [d1| |]; simpl in H; try discriminate.
  injection H as <-. reflexivity.
Qed.

(* ---------- (B4) ---------- *)
Lemma remove_steps_nothing : forall specs d f0,
    (forall s, In s specs -> select_one (lexrows_of d) None s = []) ->
    foldM remove_step specs (d, f0) = Ok (d, f0).
Proof.
  induction specs as [|s specs IH]; intros d f0 H; simpl; [reflexivity|].
  rewrite (H s (or_introl eq_refl)). simpl. rewrite orb_false_r. apply IH.
  intros s' Hs'. apply H. right. exact Hs'.
Qed.
Theorem remove_nothing_matches : forall d spec,
    (forall s, In s (split_ws spec) -> select_one (lexrows_of d) None s = []) ->
    spec <> [c_star] -> remove d spec = WnError.
Proof.
  intros d spec H Hne. rewrite remove_unfold, (remove_steps_nothing _ _ _ H). simpl.
  destruct (str_eqb spec [c_star]) eqn:E; [apply str_eqb_eq in E; contradiction|reflexivity].
Qed.
Theorem remove_star_empty : forall d, get_table d "lexicons" = [] -> remove d [c_star] = Ok d.
Proof.
  intros d H. rewrite remove_unfold.
  change (split_ws [c_star]) with [[c_star]]. rewrite remove_steps_nothing; [reflexivity|].
  intros s [<-|[]]. unfold lexrows_of. rewrite H. reflexivity.
Qed.

(* a non-trivial database satisfying the well-formedness predicates: a lexicon with a
   synset linked to an ILI, an entry, a sense and a definition, added to [ex_db] *)
Definition vd (l : list (string * val)) : val := VDict (map (fun kv => (k (fst kv), snd kv)) l).
Definition ex_lexicon (id : string) (more : list (string * val)) : val :=
  vd ([("id", vs id); ("label", vs "Label"); ("language", vs "en"); ("email", vs "a@b.c");
       ("license", vs "CC"); ("version", vs "1"); ("meta", VNone);
       ("entries", VList [vd [("id", vs "e1");
                              ("lemma", vd [("writtenForm", vs "cat"); ("partOfSpeech", vs "n")]);
                              ("meta", VNone);
                              ("senses", VList [vd [("id", vs "s1"); ("synset", vs "ss1");
                                                    ("meta", VNone)]])]]);
       ("synsets", VList [vd [("id", vs "ss1"); ("ili", vs "i1"); ("partOfSpeech", vs "n");
                              ("meta", VNone);
                              ("definitions", VList [vd [("text", vs "a cat"); ("meta", VNone);
                                                         ("sourceSense", vs "s1")]])]])] ++ more)%list.
Definition ex_resource (lexicons : list val) : val :=
  vd [("lmf_version", vs "1.1"); ("lexicons", VList lexicons)].
Definition ex_db2 : db :=
  match add_lexical_resource ex_db (ex_resource [ex_lexicon "ba" []]) [] with
  | Ok d =>
      match add_lexical_resource d
              (ex_resource [ex_lexicon "bb" [("requires", VList [vd [("id", vs "ba"); ("version", vs "1")]])]]) []
      with Ok d' => d' | _ => [] end
  | _ => []
  end.
Example ex_db2_ok :
  fk_ok ex_db2 = true /\ db_rowids_ok ex_db2 = true
  /\ map (fun r => (rowid_of r, col "lexicons" "id" r)) (get_table ex_db2 "lexicons")
     = [(1, CText (k "ba")); (2, CText (k "bb"))]
  /\ map (fun r => (col "synsets" "ili_rowid" r, col "synsets" "lexicon_rowid" r)) (get_table ex_db2 "synsets")
     = [(CInt 1, CInt 1); (CInt 1, CInt 2)]
  /\ map (col "definitions" "sense_rowid") (get_table ex_db2 "definitions") = [CInt 1; CInt 2]
  /\ map (col "lexicon_dependencies" "provider_rowid") (get_table ex_db2 "lexicon_dependencies") = [CInt 1].
Proof. vm_compute. repeat split. Qed.
(* and removing the first lexicon from it *)
Example ex_remove :
  match remove ex_db2 (k "ba") with
  | Ok d' => fk_ok d' = true
             /\ map rowid_of (get_table d' "lexicons") = [2]
             /\ map (col "lexicon_dependencies" "provider_rowid") (get_table d' "lexicon_dependencies") = [CNull]
             /\ List.length (get_table d' "senses") = 1%nat
  | _ => False
  end.
Proof. vm_compute. repeat split. Qed.

(* ====================================================================== *)
(* STAGE C — add_lexical_resource                                          *)
(* ====================================================================== *)

(* ---------- (C1) nothing stored is altered or removed ---------- *)
Definition prov_idx : nat := col_index "lexicon_dependencies" "provider_rowid".
(* a stored row stays as it is; only lexicon_dependencies.provider_rowid may be set *)
Definition row_upd (t : string) (r r' : row) : Prop :=
  r' = r \/ (t = "lexicon_dependencies" /\ exists c, r' = set_nth prov_idx c r).
(* rows' = the rows of [rows], in place, followed by new rows with larger rowids *)
Definition tbl_ext (t : string) (rows rows' : table) : Prop :=
  exists olds news,
    rows' = (olds ++ news)%list /\ Forall2 (row_upd t) rows olds
    /\ forall r, In r news -> forall r0, In r0 rows -> rowid_of r0 < rowid_of r.
Definition db_ext (d d' : db) : Prop := forall t, tbl_ext t (get_table d t) (get_table d' t).

Lemma row_upd_refl : forall t r, row_upd t r r.
Proof. intros. left. reflexivity. Qed.
Lemma row_upd_trans : forall t a b c, row_upd t a b -> row_upd t b c -> row_upd t a c.
Proof.
  intros t a b c [->|[Ht [x ->]]] [->|[Ht' [y ->]]].
  - left. reflexivity.
  - right. split; [exact Ht'|eauto].
  - right. split; [exact Ht|eauto].
  - right. split; [exact Ht|]. exists y. apply set_nth_set_nth_same.
Qed.
Lemma row_upd_rowid : forall t r r', row_upd t r r' -> rowid_of r' = rowid_of r.
Proof.
  intros t r r' [->|[_ [c ->]]]; [reflexivity|]. apply rowid_of_set_nth. unfold prov_idx. vm_compute. discriminate.
Qed.
Lemma Forall2_refl : forall {T} (R : T -> T -> Prop) l, (forall x, R x x) -> Forall2 R l l.
Proof. intros T R l H. induction l; constructor; auto. Qed.
Lemma Forall2_trans : forall {T} (R : T -> T -> Prop) a b c,
    (forall x y z, R x y -> R y z -> R x z) -> Forall2 R a b -> Forall2 R b c -> Forall2 R a c.
Proof.
  intros T R a b c HR H. revert c. induction H as [|x y a b Hxy Hab IH]; intros c Hc; inversion Hc; subst.
  - constructor.
  - constructor; [eapply HR; eassumption|apply IH; assumption].
Qed.
Lemma Forall2_rowids : forall t rows olds, Forall2 (row_upd t) rows olds -> rowids olds = rowids rows.
Proof.
  intros t rows olds H. induction H as [|x y a b Hxy Hab IH]; simpl; [reflexivity|].
  rewrite (row_upd_rowid _ _ _ Hxy), IH. reflexivity.
Qed.

Lemma tbl_ext_refl : forall t rows, tbl_ext t rows rows.
Proof.
  intros t rows. exists rows, []. rewrite app_nil_r. split; [reflexivity|].
  split; [apply Forall2_refl; apply row_upd_refl|intros r []].
Qed.
Lemma tbl_ext_trans : forall t a b c, tbl_ext t a b -> tbl_ext t b c -> tbl_ext t a c.
Proof.
  intros t a b c (o1 & n1 & -> & F1 & H1) (o2 & n2 & -> & F2 & H2).
  apply Forall2_app_inv_l in F2. destruct F2 as (o2a & o2b & Fa & Fb & ->).
  exists o2a, (o2b ++ n2)%list. split; [rewrite app_assoc; reflexivity|].
  split; [eapply Forall2_trans; [apply row_upd_trans|exact F1|exact Fa]|].
  intros r Hr r0 Hr0. apply in_app_or in Hr. destruct Hr as [Hr|Hr].
  - (* an updated copy of a row of n1 *)
    assert (In (rowid_of r) (rowids n1)) as Hin.
    { rewrite <- (Forall2_rowids _ _ _ Fb). apply in_map. exact Hr. }
    unfold rowids in Hin. apply in_map_iff in Hin. destruct Hin as [r1 [<- Hr1]]. apply H1; assumption.
  - (* fresh with respect to b, which holds the rowids of a *)
    assert (In (rowid_of r0) (rowids o1)) as Hin.
    { rewrite (Forall2_rowids _ _ _ F1). apply in_map. exact Hr0. }
    unfold rowids in Hin. apply in_map_iff in Hin. destruct Hin as [r1 [E Hr1]]. rewrite <- E.
    apply H2; [exact Hr|]. apply in_or_app. left. exact Hr1.
Qed.
Lemma db_ext_refl : forall d, db_ext d d.
Proof. intros d t. apply tbl_ext_refl. Qed.
Lemma db_ext_trans : forall a b c, db_ext a b -> db_ext b c -> db_ext a c.
Proof. intros a b c H1 H2 t. eapply tbl_ext_trans; [apply H1|apply H2]. Qed.

Lemma ext_set_snoc : forall d t r,
    r = CInt (next_rowid (get_table d t)) :: tl r ->
    db_ext d (set_table d t (get_table d t ++ [r])%list).
Proof.
  intros d t r Hr t'. destruct (string_dec t t') as [<-|Hne].
  - rewrite get_set_same. exists (get_table d t), [r]. split; [reflexivity|].
    split; [apply Forall2_refl; apply row_upd_refl|].
    intros r1 [<-|[]] r0 Hr0. rewrite Hr. simpl. apply next_rowid_fresh. exact Hr0.
  - rewrite get_set_other by exact Hne. apply tbl_ext_refl.
Qed.
Lemma ext_insert : forall d t vals d', insert d t vals = Ok d' -> db_ext d d'.
Proof. intros d t vals d' H. apply insert_inv in H. subst d'. apply ext_set_snoc. reflexivity. Qed.
Lemma ext_insert_rowid : forall d t vals d' rid, insert_rowid d t vals = Ok (d', rid) -> db_ext d d'.
Proof.
  intros d t vals d' rid H. apply insert_rowid_inv in H. destruct H as [-> ->].
  apply ext_set_snoc. reflexivity.
Qed.
Lemma ext_ioi : forall d t vals, db_ext d (insert_or_ignore d t vals).
Proof.
  intros d t vals. destruct (insert_or_ignore_inv d t vals) as [->| ->]; [apply db_ext_refl|].
  apply ext_set_snoc. reflexivity.
Qed.

Lemma update_go_forall2 : forall t p sets todo done res,
    update_go t p sets done todo = Ok res ->
    exists todo', res = (rev done ++ todo')%list
                  /\ Forall2 (fun r r' => r' = r \/ r' = apply_sets t sets r) todo todo'.
Proof.
  intros t p sets todo. induction todo as [|a todo IH]; intros done res H; simpl in H.
  - injection H as <-. exists []. split; [rewrite app_nil_r; reflexivity|constructor].
  - destruct (p a).
    + destruct (negb (row_checks_ok t (data_columns t) (tl (apply_sets t sets a)))); [discriminate|].
      destruct (unique_conflict t (rev_append done todo) (apply_sets t sets a)); [discriminate|].
      destruct (IH _ _ H) as (todo' & -> & F). exists (apply_sets t sets a :: todo').
      split; [simpl; rewrite <- app_assoc; reflexivity|]. constructor; [right; reflexivity|exact F].
    + destruct (IH _ _ H) as (todo' & -> & F). exists (a :: todo').
      split; [simpl; rewrite <- app_assoc; reflexivity|]. constructor; [left; reflexivity|exact F].
Qed.
Lemma ext_update_prov : forall d p c d',
    update d "lexicon_dependencies" p [("provider_rowid", c)] = Ok d' -> db_ext d d'.
Proof.
  intros d p c d' H. unfold update in H. apply bind_ok in H. destruct H as [rows [Hu H]].
  injection H as <-. apply update_go_forall2 in Hu. destruct Hu as (rows' & -> & F). simpl.
  intros t. destruct (string_dec "lexicon_dependencies" t) as [<-|Hne].
  - rewrite get_set_same. exists rows', []. rewrite app_nil_r. split; [reflexivity|]. split; [|intros r []].
    induction F as [|r r' l l' Hr _ IHF]; constructor; [|exact IHF].
    destruct Hr as [->| ->]; [left; reflexivity|].
    right. split; [reflexivity|]. eexists. reflexivity.
  - rewrite get_set_other by exact Hne. apply tbl_ext_refl.
Qed.

(* ---------- inversion of the monadic code ---------- *)
Ltac mstep :=
  match goal with
  | H : WnError = Ok _ |- _ => discriminate H
  | H : OtherError = Ok _ |- _ => discriminate H
  | H : Ok _ = Ok _ |- _ => injection H as H; try subst
  | H : bind _ _ = Ok _ |- _ =>
      let x := fresh "x" in let Hx := fresh "Hx" in
      apply bind_ok in H; destruct H as [x [Hx H]]
  | H : (if ?b then _ else _) = Ok _ |- _ => destruct b eqn:?
  | H : match ?x with _ => _ end = Ok _ |- _ => destruct x eqn:?
  end.

Ltac ext_chain :=
  first [ apply db_ext_refl
        | eassumption
        | match goal with |- db_ext ?a (insert_or_ignore ?a _ _) => apply ext_ioi end
        | eapply db_ext_trans; [eassumption|ext_chain]
        | match goal with
          | |- db_ext ?a ?b =>
              match b with
              | context [insert_or_ignore a ?t ?v] =>
                  apply (db_ext_trans a (insert_or_ignore a t v)); [apply ext_ioi|ext_chain]
              end
          end ].

Ltac ext_fact :=
  match goal with
  | H : insert _ _ _ = Ok _ |- _ => apply ext_insert in H
  | H : insert_rowid _ _ _ = Ok (_, _) |- _ => apply ext_insert_rowid in H
  | H : update _ "lexicon_dependencies" _ [("provider_rowid", _)] = Ok _ |- _ => apply ext_update_prov in H
  | H : @foldM _ db _ _ _ = Ok _ |- _ =>
      apply (foldM_rel _ db_ext db_ext_refl db_ext_trans) in H;
      [|clear; let s := fresh "s" in let x := fresh "x" in let s' := fresh "s'" in let Hs := fresh "Hs" in
               intros s x s' Hs; cbv beta in Hs; ext_all]
  end
with ext_all := repeat mstep; repeat ext_fact; ext_chain.

Lemma ext_update_lookup_tables : forall lexicon d d', _update_lookup_tables lexicon d = Ok d' -> db_ext d d'.
Proof. intros lexicon d d' H. unfold _update_lookup_tables in H. ext_all. Qed.
Lemma ext_insert_lexicon_link : forall d table lexid dep d',
    insert_lexicon_link d table lexid dep = Ok d' -> db_ext d d'.
Proof. intros d table lexid dep d' H. unfold insert_lexicon_link in H. ext_all. Qed.
Lemma ext_insert_lexicon : forall lexicon d d' lexid extid,
    _insert_lexicon lexicon d = Ok (d', lexid, extid) -> db_ext d d'.
Proof.
  intros lexicon d d' lexid extid H. unfold _insert_lexicon in H.
  repeat mstep; repeat ext_fact;
    repeat match goal with
           | H : insert_lexicon_link _ _ _ _ = Ok _ |- _ => apply ext_insert_lexicon_link in H
           | H : @foldM _ db _ _ _ = Ok _ |- _ =>
               apply (foldM_rel _ db_ext db_ext_refl db_ext_trans) in H;
               [|clear; intros s x s' Hs; eapply ext_insert_lexicon_link; exact Hs]
           end; ext_chain.
Qed.
Lemma ext_insert_synsets : forall synsets lexid d d', _insert_synsets synsets lexid d = Ok d' -> db_ext d d'.
Proof. intros synsets lexid d d' H. unfold _insert_synsets in H. ext_all. Qed.
Lemma ext_insert_synset_definitions : forall synsets lexid m d d',
    _insert_synset_definitions synsets lexid m d = Ok d' -> db_ext d d'.
Proof. intros synsets lexid m d d' H. unfold _insert_synset_definitions in H. ext_all. Qed.
Lemma ext_insert_synset_relations : forall synsets lexid m d d',
    _insert_synset_relations synsets lexid m d = Ok d' -> db_ext d d'.
Proof. intros synsets lexid m d d' H. unfold _insert_synset_relations in H. ext_all. Qed.
Lemma ext_insert_entries : forall entries lexid d d', _insert_entries entries lexid d = Ok d' -> db_ext d d'.
Proof. intros entries lexid d d' H. unfold _insert_entries in H. ext_all. Qed.
Lemma ext_insert_forms : forall nt entries lexid m d d', _insert_forms nt entries lexid m d = Ok d' -> db_ext d d'.
Proof. intros nt entries lexid m d d' H. unfold _insert_forms in H. ext_all. Qed.
Lemma ext_insert_pronunciation : forall e l f r d p d', insert_pronunciation e l f r d p = Ok d' -> db_ext d d'.
Proof. intros e l f r d p d' H. unfold insert_pronunciation in H. ext_all. Qed.
Lemma ext_insert_tag : forall e l f r d p d', insert_tag e l f r d p = Ok d' -> db_ext d d'.
Proof. intros e l f r d p d' H. unfold insert_tag in H. ext_all. Qed.
Lemma ext_insert_pronunciations : forall entries lexid m d d',
    _insert_pronunciations entries lexid m d = Ok d' -> db_ext d d'.
Proof. intros entries lexid m d d' H. unfold _insert_pronunciations, insert_pronunciation in H. ext_all. Qed.
Lemma ext_insert_tags : forall entries lexid m d d', _insert_tags entries lexid m d = Ok d' -> db_ext d d'.
Proof. intros entries lexid m d d' H. unfold _insert_tags, insert_tag in H. ext_all. Qed.
Lemma ext_insert_senses : forall entries synsets lexid m d d',
    _insert_senses entries synsets lexid m d = Ok d' -> db_ext d d'.
Proof. intros entries synsets lexid m d d' H. unfold _insert_senses in H. cbv zeta in H. ext_all. Qed.
Lemma ext_insert_adjpositions : forall entries lexid m d d',
    _insert_adjpositions entries lexid m d = Ok d' -> db_ext d d'.
Proof. intros entries lexid m d d' H. unfold _insert_adjpositions in H. ext_all. Qed.
Lemma ext_insert_counts : forall entries lexid m d d', _insert_counts entries lexid m d = Ok d' -> db_ext d d'.
Proof. intros entries lexid m d d' H. unfold _insert_counts in H. ext_all. Qed.
Lemma ext_insert_syntactic_behaviours : forall sbs lexid m d d',
    _insert_syntactic_behaviours sbs lexid m d = Ok d' -> db_ext d d'.
Proof. intros sbs lexid m d d' H. unfold _insert_syntactic_behaviours in H. cbv zeta in H. ext_all. Qed.
Lemma ext_insert_sense_relations : forall lexicon lexid m d d',
    _insert_sense_relations lexicon lexid m d = Ok d' -> db_ext d d'.
Proof. intros lexicon lexid m d d' H. unfold _insert_sense_relations in H. cbv zeta in H. ext_all. Qed.
Lemma ext_insert_examples : forall objs lexid m table d d',
    _insert_examples objs lexid m table d = Ok d' -> db_ext d d'.
Proof. intros objs lexid m table d d' H. unfold _insert_examples in H. cbv zeta in H. ext_all. Qed.

Lemma ext_add_one_lexicon : forall nt lexicon d d', add_one_lexicon nt lexicon d = Ok d' -> db_ext d d'.
Proof.
  intros nt lexicon d d' H. unfold add_one_lexicon in H. cbv zeta in H.
  repeat mstep.
  repeat match goal with
         | H : _update_lookup_tables _ _ = Ok _ |- _ => apply ext_update_lookup_tables in H
         | H : _insert_lexicon _ _ = Ok _ |- _ => apply ext_insert_lexicon in H
         | H : _insert_synsets _ _ _ = Ok _ |- _ => apply ext_insert_synsets in H
         | H : _insert_entries _ _ _ = Ok _ |- _ => apply ext_insert_entries in H
         | H : _insert_forms _ _ _ _ _ = Ok _ |- _ => apply ext_insert_forms in H
         | H : _insert_pronunciations _ _ _ _ = Ok _ |- _ => apply ext_insert_pronunciations in H
         | H : _insert_tags _ _ _ _ = Ok _ |- _ => apply ext_insert_tags in H
         | H : _insert_senses _ _ _ _ _ = Ok _ |- _ => apply ext_insert_senses in H
         | H : _insert_adjpositions _ _ _ _ = Ok _ |- _ => apply ext_insert_adjpositions in H
         | H : _insert_counts _ _ _ _ = Ok _ |- _ => apply ext_insert_counts in H
         | H : _insert_syntactic_behaviours _ _ _ _ = Ok _ |- _ => apply ext_insert_syntactic_behaviours in H
         | H : _insert_synset_relations _ _ _ _ = Ok _ |- _ => apply ext_insert_synset_relations in H
         | H : _insert_sense_relations _ _ _ _ = Ok _ |- _ => apply ext_insert_sense_relations in H
         | H : _insert_synset_definitions _ _ _ _ = Ok _ |- _ => apply ext_insert_synset_definitions in H
         | H : _insert_examples _ _ _ _ _ = Ok _ |- _ => apply ext_insert_examples in H
         end.
  ext_chain.
Qed.

(* (C1) *)
Theorem add_lexical_resource_monotone : forall d r nt d',
    add_lexical_resource d r nt = Ok d' -> db_ext d d'.
Proof.
  intros d r nt d' H. unfold add_lexical_resource in H.
  repeat mstep; try apply db_ext_refl.
  unfold _add_lexical_resource in H. repeat mstep.
  apply (foldM_rel _ db_ext db_ext_refl db_ext_trans) in H; [exact H|].
  clear. intros s x s' Hs. cbv beta in Hs. repeat mstep; try apply db_ext_refl.
  eapply ext_add_one_lexicon. eassumption.
Qed.

(* consequences of db_ext, spelled out *)
Corollary add_keeps_rows : forall d r nt d' t,
    add_lexical_resource d r nt = Ok d' -> t <> "lexicon_dependencies" ->
    exists news, get_table d' t = (get_table d t ++ news)%list
                 /\ forall r1, In r1 news -> forall r0, In r0 (get_table d t) -> rowid_of r0 < rowid_of r1.
Proof.
  intros d r nt d' t H Ht. destruct (add_lexical_resource_monotone _ _ _ _ H t) as (olds & news & E & F & Hf).
  exists news. split; [|exact Hf]. rewrite E. f_equal.
  clear - F Ht. induction F as [|x y a b Hxy _ IH]; [reflexivity|].
  destruct Hxy as [->|[E _]]; [rewrite IH; reflexivity|contradiction].
Qed.
Corollary add_keeps_dependencies : forall d r nt d',
    add_lexical_resource d r nt = Ok d' ->
    exists olds news,
      get_table d' "lexicon_dependencies" = (olds ++ news)%list
      /\ Forall2 (fun r0 r1 => r1 = r0 \/ exists c, r1 = set_nth prov_idx c r0)
                 (get_table d "lexicon_dependencies") olds
      /\ forall r1, In r1 news -> forall r0, In r0 (get_table d "lexicon_dependencies") ->
                                             rowid_of r0 < rowid_of r1.
Proof.
  intros d r nt d' H.
  destruct (add_lexical_resource_monotone _ _ _ _ H "lexicon_dependencies") as (olds & news & E & F & Hf).
  exists olds, news. split; [exact E|]. split; [|exact Hf].
  clear - F. induction F as [|x y a b Hxy _ IH]; constructor; [|exact IH].
  destruct Hxy as [->|[_ Hc]]; [left; reflexivity|right; exact Hc].
Qed.

(* ---------- (C3) re-adding is a no-op; an extension without its base is skipped ---------- *)
(* the lexicon (id, version) is in the database *)
Definition installed (d : db) (lex : val) : Prop :=
  exists idc vc, preq lex "id" = Ok idc /\ preq lex "version" = Ok vc
                 /\ is_null (LEXICON_QUERY d idc vc) = false.
(* an extension whose base (id, version) is not in the database (and that is not installed) *)
Definition base_missing (d : db) (lex : val) : Prop :=
  exists idc vc bidc bvc,
    preq lex "id" = Ok idc /\ preq lex "version" = Ok vc
    /\ is_null (LEXICON_QUERY d idc vc) = true
    /\ vtruthy (vgetk lex "extends") = true
    /\ preq (vgetk lex "extends") "id" = Ok bidc /\ preq (vgetk lex "extends") "version" = Ok bvc
    /\ is_null (LEXICON_QUERY d bidc bvc) = true.

Lemma preq_inv : forall x key c, preq x key = Ok c -> exists v, vreq x key = Ok v /\ param v = Ok c.
Proof. intros x key c H. unfold preq in H. apply bind_ok in H. exact H. Qed.

Lemma dict_set_true : forall (m : skipmap_t) s,
    forallb (fun kv : val * bool => snd kv) m = true ->
    forallb (fun kv : val * bool => snd kv) (dict_set (dict_set m (VStr s) false) (VStr s) true) = true.
Proof.
  induction m as [|[k0 b0] m IH]; intros s H; simpl.
  - rewrite str_eqb_refl. reflexivity.
  - simpl in H. apply andb_true_iff in H. destruct H as [H1 H2]. simpl in H1. subst b0.
    destruct (val_eqb k0 (VStr s)) eqn:E; simpl; rewrite E; simpl; [exact H2|apply IH; exact H2].
Qed.

Definition precheck_step (d : db) (skipmap : skipmap_t) (info : val) : result skipmap_t :=
  id <- vreq info "id" ;;
  version <- vreq info "version" ;;
  let key := VStr (format_lexicon_specifier id version) in
  let base := vgetk info "extends" in
  let skipmap := dict_set skipmap key false in
  present <- lexqry d info ;;
  if present then Ok (dict_set skipmap key true)
  else if vtruthy base then
         base_present <- lexqry d base ;;
         if base_present then Ok skipmap else Ok (dict_set skipmap key true)
       else Ok skipmap.
Lemma precheck_unfold : forall infos d, _precheck infos d = foldM (precheck_step d) infos [].
Proof. reflexivity. Qed.

Lemma precheck_step_skipped : forall d m lex,
    installed d lex \/ base_missing d lex ->
    forallb (fun kv : val * bool => snd kv) m = true ->
    exists m', precheck_step d m lex = Ok m' /\ forallb (fun kv : val * bool => snd kv) m' = true.
Proof.
  intros d m lex Hl Hm. unfold precheck_step, lexqry.
  destruct Hl as [(idc & vc & Hi & Hv & Hq)|(idc & vc & bidc & bvc & Hi & Hv & Hq & Hb & Hbi & Hbv & Hbq)];
    destruct (preq_inv _ _ _ Hi) as [iv [Hiv _]]; destruct (preq_inv _ _ _ Hv) as [vv [Hvv _]];
    rewrite Hiv, Hvv; simpl bind; rewrite Hi, Hv; simpl bind; rewrite Hq; simpl.
  - eexists. split; [reflexivity|]. apply dict_set_true. exact Hm.
  - rewrite Hb, Hbi, Hbv. simpl bind. rewrite Hbq. simpl.
    eexists. split; [reflexivity|]. apply dict_set_true. exact Hm.
Qed.
Lemma precheck_all_skipped : forall d lexs m,
    (forall lex, In lex lexs -> installed d lex \/ base_missing d lex) ->
    forallb (fun kv : val * bool => snd kv) m = true ->
    exists m', foldM (precheck_step d) lexs m = Ok m' /\ forallb (fun kv : val * bool => snd kv) m' = true.
Proof.
  intros d lexs. induction lexs as [|lex lexs IH]; intros m H Hm; simpl.
  - exists m. split; [reflexivity|exact Hm].
  - destruct (precheck_step_skipped d m lex (H lex (or_introl eq_refl)) Hm) as [m1 [E1 Hm1]].
    rewrite E1. simpl. apply IH; [|exact Hm1]. intros l Hl. apply H. right. exact Hl.
Qed.

Theorem add_lexical_resource_skips : forall d r nt lexs,
    vreq r "lexicons" = Ok (VList lexs) ->
    (forall lex, In lex lexs -> installed d lex \/ base_missing d lex) ->
    add_lexical_resource d r nt = Ok d.
Proof.
  intros d r nt lexs Hr H. unfold add_lexical_resource. rewrite Hr. unfold bind at 1. cbv beta iota.
  destruct (negb (vtruthy (VList lexs))); [reflexivity|].
  rewrite precheck_unfold.
  destruct (precheck_all_skipped d lexs [] H eq_refl) as [m [E Hm]]. rewrite E. unfold bind. cbv beta iota.
  rewrite Hm. reflexivity.
Qed.
(* the two special cases of the property *)
Corollary readd_is_noop : forall d r nt lexs,
    vreq r "lexicons" = Ok (VList lexs) -> (forall lex, In lex lexs -> installed d lex) ->
    add_lexical_resource d r nt = Ok d.
Proof. intros d r nt lexs Hr H. eapply add_lexical_resource_skips; [exact Hr|]. intros lex Hl. left. auto. Qed.
Corollary extensions_without_base_skipped : forall d r nt lexs,
    vreq r "lexicons" = Ok (VList lexs) -> (forall lex, In lex lexs -> base_missing d lex) ->
    add_lexical_resource d r nt = Ok d.
Proof. intros d r nt lexs Hr H. eapply add_lexical_resource_skips; [exact Hr|]. intros lex Hl. right. auto. Qed.

(* after a successful add the lexicon of the resource is installed (so adding it again is a no-op):
   shown on the example *)
Example ex_readd :
  add_lexical_resource ex_db2 (ex_resource [ex_lexicon "ba" []]) [] = Ok ex_db2
  /\ add_lexical_resource ex_db2
       (ex_resource [ex_lexicon "xq" [("extends", vd [("id", vs "nobase"); ("version", vs "1")])]]) []
     = Ok ex_db2.
Proof. vm_compute. split; reflexivity. Qed.

(* ---------- (C4) ---------- *)
(* Atomicity: [add_lexical_resource] returns [Ok d'], [WnError] or [OtherError]; the two
   error outcomes carry no database (by the type [result db]): the caller keeps [d]. *)
(* _precheck reads only the id, the version and the extends of each lexicon *)
Definition same_key (a b : val) (key : string) : Prop :=
  vhas a (k key) = vhas b (k key) /\ vget a (k key) = vget b (k key).
Definition same_spec (a b : val) : Prop :=
  same_key a b "id" /\ same_key a b "version" /\ same_key a b "extends".

Lemma vreq_same : forall a b key, same_key a b key -> vreq a key = vreq b key.
Proof. intros a b key [H1 H2]. unfold vreq. rewrite H1, H2. reflexivity. Qed.
Lemma precheck_step_same : forall d m a b, same_spec a b -> precheck_step d m a = precheck_step d m b.
Proof.
  intros d m a b (Hi & Hv & He). unfold precheck_step, lexqry, preq.
  rewrite (vreq_same _ _ _ Hi), (vreq_same _ _ _ Hv).
  unfold vgetk. destruct He as [_ He]. rewrite He. reflexivity.
Qed.
Theorem precheck_depends_on_spec_only : forall d infos infos',
    Forall2 same_spec infos infos' -> _precheck infos d = _precheck infos' d.
Proof.
  intros d infos infos' H. rewrite !precheck_unfold. generalize (@nil (val * bool)).
  induction H as [|a b l l' Hab _ IH]; intros m; simpl; [reflexivity|].
  rewrite (precheck_step_same d m a b Hab). destruct (precheck_step d m b); simpl; auto.
Qed.

(* ---------- (C2) add preserves referential integrity ---------- *)
Lemma fk_cell_ok_mono : forall d d' p c,
    (forall n, In n (rowids (get_table d p)) -> In n (rowids (get_table d' p))) ->
    fk_cell_ok d p c = true -> fk_cell_ok d' p c = true.
Proof.
  intros d d' p c H Hc. destruct c as [|n|s|v]; simpl in *; try assumption.
  apply zmem_z_In. apply H. apply zmem_z_In. exact Hc.
Qed.
Lemma rowids_snoc_mono : forall d t r t0 n,
    In n (rowids (get_table d t0)) -> In n (rowids (get_table (set_table d t (get_table d t ++ [r])%list) t0)).
Proof.
  intros d t r t0 n H. destruct (string_dec t t0) as [<-|Hne].
  - rewrite get_set_same. unfold rowids in *. rewrite map_app. apply in_or_app. left. exact H.
  - rewrite get_set_other by exact Hne. exact H.
Qed.

(* the names of the tables of the schema are pairwise different *)
Lemma schema_find_in : forall t cols fks uqs,
    In (t, cols, fks, uqs) schema -> table_fkeys t = fks.
Proof.
  assert (forall (l : list (string * columns_t * fkeys_t * uniques_t)) t cols fks uqs,
             NoDup (map (fun e => fst (fst (fst e))) l) -> In (t, cols, fks, uqs) l ->
             find (fun e => String.eqb (fst (fst (fst e))) t) l = Some (t, cols, fks, uqs)) as Hgen.
  { induction l as [|[[[t0 c0] f0] u0] l IH]; intros t cols fks uqs Hnd Hin; [destruct Hin|].
    simpl in Hnd. inversion Hnd as [|? ? Hnot Hnd']. subst. simpl.
    destruct Hin as [E|Hin].
    - injection E as -> -> -> ->. rewrite String.eqb_refl. reflexivity.
    - destruct (String.eqb t0 t) eqn:E.
      + apply String.eqb_eq in E. subst t0. exfalso. apply Hnot.
        apply in_map_iff. exists (t, cols, fks, uqs). split; [reflexivity|exact Hin].
      + apply IH; assumption. }
  intros t cols fks uqs Hin. unfold table_fkeys, schema_find.
  match goal with
  | |- context [find ?F schema] =>
      change (find F schema)
        with (find (fun e : string * columns_t * fkeys_t * uniques_t => String.eqb (fst (fst (fst e))) t) schema)
  end.
  rewrite (Hgen schema t cols fks uqs); [reflexivity| |exact Hin].
  assert (forall l : list string, (fix nd (l : list string) : bool :=
             match l with [] => true | x :: l' => negb (existsb (String.eqb x) l') && nd l' end) l = true
          -> NoDup l) as Hnd.
  { induction l as [|x l IH]; intro H; [constructor|]. apply andb_true_iff in H. destruct H as [H1 H2].
    constructor; [|apply IH; exact H2]. intro Hx. apply negb_true_iff in H1.
    assert (existsb (String.eqb x) l = true) by (apply existsb_exists; exists x; split; [exact Hx|apply String.eqb_refl]).
    congruence. }
  apply Hnd. vm_compute. reflexivity.
Qed.

(* the foreign-key cells of a row about to be inserted into t are valid in d *)
Definition fks_valid (d : db) (t : string) (vals : list cell) : Prop :=
  forall c p pc a, In (c, p, pc, a) (table_fkeys t) ->
    fk_cell_ok d p (cell_at (col_index t c) (CInt 0 :: coerce_all (data_columns t) vals)) = true.

Lemma cell_at_cons_nonzero : forall i x y r, i <> O -> cell_at i (x :: r) = cell_at i (y :: r).
Proof. intros i x y r Hi. destruct i; [congruence|reflexivity]. Qed.

Lemma snoc_fk_ok : forall d t rid vals,
    fk_ok d = true -> fks_valid d t vals ->
    fk_ok (set_table d t (get_table d t ++ [CInt rid :: coerce_all (data_columns t) vals])%list) = true.
Proof.
  intros d t rid vals Hok Hv. rewrite fk_ok_iff in *.
  intros t' cols fks uqs Hin c p pc a Hfk r Hr.
  apply fk_cell_ok_mono with (d := d); [intros n Hn; apply rowids_snoc_mono; exact Hn|].
  destruct (string_dec t t') as [<-|Hne].
  - rewrite get_set_same in Hr. apply in_app_or in Hr. destruct Hr as [Hr|[<-|[]]].
    + eapply Hok; eassumption.
    + unfold col. rewrite (cell_at_cons_nonzero _ _ (CInt 0)).
      * apply (Hv c p pc a). rewrite (schema_find_in _ _ _ _ Hin). exact Hfk.
      * eapply referencing_col_nonzero. apply referencing_iff. exists cols, fks, uqs, pc. split; eassumption.
  - rewrite get_set_other in Hr by exact Hne. eapply Hok; eassumption.
Qed.
Lemma insert_fk_ok : forall d t vals d',
    fk_ok d = true -> insert d t vals = Ok d' -> fks_valid d t vals -> fk_ok d' = true.
Proof. intros d t vals d' Hok H Hv. apply insert_inv in H. subst d'. apply snoc_fk_ok; assumption. Qed.
Lemma insert_rowid_fk_ok : forall d t vals d' rid,
    fk_ok d = true -> insert_rowid d t vals = Ok (d', rid) -> fks_valid d t vals -> fk_ok d' = true.
Proof.
  intros d t vals d' rid Hok H Hv. apply insert_rowid_inv in H. destruct H as [-> ->].
  apply snoc_fk_ok; assumption.
Qed.
Lemma ioi_fk_ok : forall d t vals,
    fk_ok d = true -> fks_valid d t vals -> fk_ok (insert_or_ignore d t vals) = true.
Proof.
  intros d t vals Hok Hv. destruct (insert_or_ignore_inv d t vals) as [->| ->]; [exact Hok|].
  apply snoc_fk_ok; assumption.
Qed.

(* a scalar sub-select on the parent table yields a valid foreign-key cell *)
Lemma select_rowid_valid : forall d t p, fk_cell_ok d t (select_rowid d t p) = true.
Proof.
  intros d t p. unfold select_rowid. destruct (find p (get_table d t)) as [r|] eqn:E; [|reflexivity].
  simpl. apply zmem_z_In. apply in_map. apply find_some in E. apply E.
Qed.
Lemma ENTRY_QUERY_valid : forall d a b, fk_cell_ok d "entries" (ENTRY_QUERY d a b) = true.
Proof. intros. apply select_rowid_valid. Qed.
Lemma SENSE_QUERY_valid : forall d a b, fk_cell_ok d "senses" (SENSE_QUERY d a b) = true.
Proof. intros. apply select_rowid_valid. Qed.
Lemma SYNSET_QUERY_valid : forall d a b, fk_cell_ok d "synsets" (SYNSET_QUERY d a b) = true.
Proof. intros. apply select_rowid_valid. Qed.
Lemma RELTYPE_QUERY_valid : forall d a, fk_cell_ok d "relation_types" (RELTYPE_QUERY d a) = true.
Proof. intros. apply select_rowid_valid. Qed.
Lemma ILISTAT_QUERY_valid : forall d a, fk_cell_ok d "ili_statuses" (ILISTAT_QUERY d a) = true.
Proof. intros. apply select_rowid_valid. Qed.
Lemma LEXFILE_QUERY_valid : forall d a, fk_cell_ok d "lexfiles" (LEXFILE_QUERY d a) = true.
Proof. intros. apply select_rowid_valid. Qed.
Lemma LEXICON_QUERY_valid : forall d a b, fk_cell_ok d "lexicons" (LEXICON_QUERY d a b) = true.
Proof. intros. apply select_rowid_valid. Qed.
Lemma FORM_QUERY_valid : forall d a b c e, fk_cell_ok d "forms" (FORM_QUERY d a b c e) = true.
Proof.
  intros. unfold FORM_QUERY. cbv zeta.
  match goal with |- fk_cell_ok _ _ (match ?l with _ => _ end) = true => destruct l as [|f l'] eqn:E end;
    [reflexivity|].
  simpl. apply zmem_z_In. apply in_map.
  assert (In f (f :: l')) as Hin by (left; reflexivity). rewrite <- E in Hin.
  apply in_flat_map in Hin. destruct Hin as [x [_ Hf]]. apply filter_In in Hf. apply Hf.
Qed.

(* per table: which cells of the VALUES list must be valid *)
Ltac fkv :=
  let c := fresh "c" in let p := fresh "p" in let pc := fresh "pc" in let a := fresh "a" in
  let Hfk := fresh "Hfk" in
  intros c p pc a Hfk; vm_compute in Hfk;
  repeat (destruct Hfk as [Hfk|Hfk]);
  try contradiction;
  injection Hfk as <- <- <- <-;
  match goal with
  | |- fk_cell_ok ?d ?p ?X = true => let X' := eval vm_compute in X in change X with X'
  end;
  repeat match goal with |- context [match ?v with _ => _ end] => destruct v end;
  assumption.

Lemma fkv_nofk : forall d t vals, table_fkeys t = [] -> fks_valid d t vals.
Proof. intros d t vals H c p pc a Hfk. rewrite H in Hfk. destruct Hfk. Qed.
Lemma fkv_dependencies : forall d lx a b c q,
    fk_cell_ok d "lexicons" lx = true -> fk_cell_ok d "lexicons" q = true ->
    fks_valid d "lexicon_dependencies" [lx; a; b; c; q].
Proof. intros d lx a b c q H1 H2. fkv. Qed.
Lemma fkv_extensions : forall d lx a b c q,
    fk_cell_ok d "lexicons" lx = true -> fk_cell_ok d "lexicons" q = true ->
    fks_valid d "lexicon_extensions" [lx; a; b; c; q].
Proof. intros d lx a b c q H1 H2. fkv. Qed.
Lemma fkv_ilis : forall d a s b c,
    fk_cell_ok d "ili_statuses" s = true -> fks_valid d "ilis" [a; s; b; c].
Proof. intros d a s b c H1. fkv. Qed.
Lemma fkv_synsets : forall d id lx ili pos lz lf meta,
    fk_cell_ok d "lexicons" lx = true -> fk_cell_ok d "ilis" ili = true ->
    fk_cell_ok d "lexfiles" lf = true -> fks_valid d "synsets" [id; lx; ili; pos; lz; lf; meta].
Proof. intros d id lx ili pos lz lf meta H1 H2 H3. fkv. Qed.
Lemma fkv_proposed : forall d s a b,
    fk_cell_ok d "synsets" s = true -> fks_valid d "proposed_ilis" [s; a; b].
Proof. intros d s a b H1. fkv. Qed.
Lemma fkv_entries : forall d id lx pos meta,
    fk_cell_ok d "lexicons" lx = true -> fks_valid d "entries" [id; lx; pos; meta].
Proof. intros d id lx pos meta H1. fkv. Qed.
Lemma fkv_forms : forall d fid lx e wf norm script rank,
    fk_cell_ok d "lexicons" lx = true -> fk_cell_ok d "entries" e = true ->
    fks_valid d "forms" [fid; lx; e; wf; norm; script; rank].
Proof. intros d fid lx e wf norm script rank H1 H2. fkv. Qed.
Lemma fkv_pronunciations : forall d f a b c e g,
    fk_cell_ok d "forms" f = true -> fks_valid d "pronunciations" [f; a; b; c; e; g].
Proof. intros d f a b c e g H1. fkv. Qed.
Lemma fkv_tags : forall d f a b, fk_cell_ok d "forms" f = true -> fks_valid d "tags" [f; a; b].
Proof. intros d f a b H1. fkv. Qed.
Lemma fkv_senses : forall d sid lx e i ss rank lz meta,
    fk_cell_ok d "lexicons" lx = true -> fk_cell_ok d "entries" e = true ->
    fk_cell_ok d "synsets" ss = true -> fks_valid d "senses" [sid; lx; e; i; ss; rank; lz; meta].
Proof. intros d sid lx e i ss rank lz meta H1 H2 H3. fkv. Qed.
Lemma fkv_adjpositions : forall d s a, fk_cell_ok d "senses" s = true -> fks_valid d "adjpositions" [s; a].
Proof. intros d s a H1. fkv. Qed.
Lemma fkv_counts : forall d lx s v m,
    fk_cell_ok d "lexicons" lx = true -> fk_cell_ok d "senses" s = true ->
    fks_valid d "counts" [lx; s; v; m].
Proof. intros d lx s v m H1 H2. fkv. Qed.
Lemma fkv_sbs : forall d id lx frame,
    fk_cell_ok d "lexicons" lx = true -> fks_valid d "syntactic_behaviours" [id; lx; frame].
Proof. intros d id lx frame H1. fkv. Qed.
Lemma fkv_sbsenses : forall d sb s,
    fk_cell_ok d "syntactic_behaviours" sb = true -> fk_cell_ok d "senses" s = true ->
    fks_valid d "syntactic_behaviour_senses" [sb; s].
Proof. intros d sb s H1 H2. fkv. Qed.
Lemma fkv_synset_relations : forall d lx s1 s2 rt m,
    fk_cell_ok d "lexicons" lx = true -> fk_cell_ok d "synsets" s1 = true ->
    fk_cell_ok d "synsets" s2 = true -> fk_cell_ok d "relation_types" rt = true ->
    fks_valid d "synset_relations" [lx; s1; s2; rt; m].
Proof. intros d lx s1 s2 rt m H1 H2 H3 H4. fkv. Qed.
Lemma fkv_sense_relations : forall d lx s1 s2 rt m,
    fk_cell_ok d "lexicons" lx = true -> fk_cell_ok d "senses" s1 = true ->
    fk_cell_ok d "senses" s2 = true -> fk_cell_ok d "relation_types" rt = true ->
    fks_valid d "sense_relations" [lx; s1; s2; rt; m].
Proof. intros d lx s1 s2 rt m H1 H2 H3 H4. fkv. Qed.
Lemma fkv_sense_synset_relations : forall d lx s1 s2 rt m,
    fk_cell_ok d "lexicons" lx = true -> fk_cell_ok d "senses" s1 = true ->
    fk_cell_ok d "synsets" s2 = true -> fk_cell_ok d "relation_types" rt = true ->
    fks_valid d "sense_synset_relations" [lx; s1; s2; rt; m].
Proof. intros d lx s1 s2 rt m H1 H2 H3 H4. fkv. Qed.
Lemma fkv_definitions : forall d lx ss text lang s m,
    fk_cell_ok d "lexicons" lx = true -> fk_cell_ok d "synsets" ss = true ->
    fk_cell_ok d "senses" s = true -> fks_valid d "definitions" [lx; ss; text; lang; s; m].
Proof. intros d lx ss text lang s m H1 H2 H3. fkv. Qed.
Lemma fkv_sense_examples : forall d lx s text lang m,
    fk_cell_ok d "lexicons" lx = true -> fk_cell_ok d "senses" s = true ->
    fks_valid d "sense_examples" [lx; s; text; lang; m].
Proof. intros d lx s text lang m H1 H2. fkv. Qed.
Lemma fkv_synset_examples : forall d lx s text lang m,
    fk_cell_ok d "lexicons" lx = true -> fk_cell_ok d "synsets" s = true ->
    fks_valid d "synset_examples" [lx; s; text; lang; m].
Proof. intros d lx s text lang m H1 H2. fkv. Qed.

(* the invariant: integrity, and the rowids of L are lexicons *)
Definition Inv (L : list Z) (d : db) : Prop :=
  fk_ok d = true /\ forall n, In n L -> In n (rowids (get_table d "lexicons")).

Lemma Inv_lex : forall L d n, Inv L d -> In n L -> fk_cell_ok d "lexicons" (CInt n) = true.
Proof. intros L d n [_ H] Hn. simpl. apply zmem_z_In. apply H. exact Hn. Qed.
Lemma Inv_insert : forall L d t vals d',
    Inv L d -> insert d t vals = Ok d' -> fks_valid d t vals -> Inv L d'.
Proof.
  intros L d t vals d' [Hok HL] H Hv. split; [eapply insert_fk_ok; eassumption|].
  intros n Hn. apply insert_inv in H. subst d'. apply rowids_snoc_mono. apply HL. exact Hn.
Qed.
Lemma Inv_ioi : forall L d t vals d',
    Inv L d -> insert_or_ignore d t vals = d' -> fks_valid d t vals -> Inv L d'.
Proof.
  intros L d t vals d' [Hok HL] <- Hv. split; [apply ioi_fk_ok; assumption|].
  intros n Hn. destruct (insert_or_ignore_inv d t vals) as [->| ->]; [apply HL; exact Hn|].
  apply rowids_snoc_mono. apply HL. exact Hn.
Qed.

Ltac fk_cell :=
  first [ apply ENTRY_QUERY_valid | apply SENSE_QUERY_valid | apply SYNSET_QUERY_valid
        | apply RELTYPE_QUERY_valid | apply ILISTAT_QUERY_valid | apply LEXFILE_QUERY_valid
        | apply LEXICON_QUERY_valid | apply FORM_QUERY_valid | apply select_rowid_valid
        | (eapply Inv_lex; [eassumption|simpl; auto])
        | reflexivity ].
Ltac fkv_solve :=
  first [ apply fkv_nofk; reflexivity
        | apply fkv_dependencies | apply fkv_extensions | apply fkv_ilis | apply fkv_synsets
        | apply fkv_proposed | apply fkv_entries | apply fkv_forms | apply fkv_pronunciations
        | apply fkv_tags | apply fkv_senses | apply fkv_adjpositions | apply fkv_counts
        | apply fkv_sbs | apply fkv_sbsenses | apply fkv_synset_relations
        | apply fkv_sense_relations | apply fkv_sense_synset_relations | apply fkv_definitions
        | apply fkv_sense_examples | apply fkv_synset_examples ];
  fk_cell.

Ltac mstep2 :=
  match goal with
  | H : WnError = Ok _ |- _ => discriminate H
  | H : OtherError = Ok _ |- _ => discriminate H
  | H : Ok (insert_or_ignore _ _ _) = Ok _ |- _ => injection H as H
  | H : Ok _ = Ok _ |- _ => injection H as H; try subst
  | H : bind _ _ = Ok _ |- _ =>
      let x := fresh "x" in let Hx := fresh "Hx" in
      apply bind_ok in H; destruct H as [x [Hx H]]
  | H : (if ?b then _ else _) = Ok _ |- _ => destruct b eqn:?
  | H : match ?x with _ => _ end = Ok _ |- _ => destruct x eqn:?
  end.

Ltac inv_fact :=
  match goal with
  | Hp : Inv ?L ?d, H : insert ?d ?t ?vals = Ok ?d' |- _ =>
      assert (Inv L d') by (eapply Inv_insert; [exact Hp|exact H|fkv_solve]); clear H
  | Hp : Inv ?L ?d, H : insert_or_ignore ?d ?t ?vals = ?d' |- _ =>
      assert (Inv L d') by (eapply Inv_ioi; [exact Hp|exact H|fkv_solve]); clear H
  | Hp : Inv ?L ?d, H : @foldM _ db _ _ ?d = Ok ?d' |- _ =>
      assert (Inv L d')
        by (revert H; apply foldM_inv; [|exact Hp]; clear;
            let s := fresh "s" in let x := fresh "x" in let s' := fresh "s'" in
            let Hp' := fresh "Hp" in let Hs := fresh "Hs" in
            intros s x s' Hp' Hs; cbv beta in Hs; inv_all);
      clear H
  end
with inv_all := repeat mstep2; repeat inv_fact; assumption.

Lemma inv_update_lookup_tables : forall L lexicon d d',
    Inv L d -> _update_lookup_tables lexicon d = Ok d' -> Inv L d'.
Proof. intros L lexicon d d' Hp H. unfold _update_lookup_tables in H. inv_all. Qed.
Lemma inv_insert_synsets : forall lexid synsets d d',
    Inv [lexid] d -> _insert_synsets synsets lexid d = Ok d' -> Inv [lexid] d'.
Proof. intros lexid synsets d d' Hp H. unfold _insert_synsets in H. inv_all. Qed.
Lemma inv_insert_synset_definitions : forall lexid synsets m d d',
    Inv [lexid] d -> _insert_synset_definitions synsets lexid m d = Ok d' -> Inv [lexid] d'.
Proof. intros lexid synsets m d d' Hp H. unfold _insert_synset_definitions in H. inv_all. Qed.
Lemma inv_insert_synset_relations : forall lexid synsets m d d',
    Inv [lexid] d -> _insert_synset_relations synsets lexid m d = Ok d' -> Inv [lexid] d'.
Proof. intros lexid synsets m d d' Hp H. unfold _insert_synset_relations in H. inv_all. Qed.
Lemma inv_insert_entries : forall lexid entries d d',
    Inv [lexid] d -> _insert_entries entries lexid d = Ok d' -> Inv [lexid] d'.
Proof. intros lexid entries d d' Hp H. unfold _insert_entries in H. inv_all. Qed.
Lemma inv_insert_forms : forall lexid nt entries m d d',
    Inv [lexid] d -> _insert_forms nt entries lexid m d = Ok d' -> Inv [lexid] d'.
Proof. intros lexid nt entries m d d' Hp H. unfold _insert_forms in H. inv_all. Qed.
Lemma inv_insert_pronunciations : forall lexid entries m d d',
    Inv [lexid] d -> _insert_pronunciations entries lexid m d = Ok d' -> Inv [lexid] d'.
Proof. intros lexid entries m d d' Hp H. unfold _insert_pronunciations, insert_pronunciation in H. inv_all. Qed.
Lemma inv_insert_tags : forall lexid entries m d d',
    Inv [lexid] d -> _insert_tags entries lexid m d = Ok d' -> Inv [lexid] d'.
Proof. intros lexid entries m d d' Hp H. unfold _insert_tags, insert_tag in H. inv_all. Qed.
Lemma inv_insert_senses : forall lexid entries synsets m d d',
    Inv [lexid] d -> _insert_senses entries synsets lexid m d = Ok d' -> Inv [lexid] d'.
Proof. intros lexid entries synsets m d d' Hp H. unfold _insert_senses in H. cbv zeta in H. inv_all. Qed.
Lemma inv_insert_adjpositions : forall lexid entries m d d',
    Inv [lexid] d -> _insert_adjpositions entries lexid m d = Ok d' -> Inv [lexid] d'.
Proof. intros lexid entries m d d' Hp H. unfold _insert_adjpositions in H. inv_all. Qed.
Lemma inv_insert_counts : forall lexid entries m d d',
    Inv [lexid] d -> _insert_counts entries lexid m d = Ok d' -> Inv [lexid] d'.
Proof. intros lexid entries m d d' Hp H. unfold _insert_counts in H. inv_all. Qed.
Lemma inv_insert_syntactic_behaviours : forall lexid sbs m d d',
    Inv [lexid] d -> _insert_syntactic_behaviours sbs lexid m d = Ok d' -> Inv [lexid] d'.
Proof. intros lexid sbs m d d' Hp H. unfold _insert_syntactic_behaviours in H. cbv zeta in H. inv_all. Qed.
Lemma inv_insert_sense_relations : forall lexid lexicon m d d',
    Inv [lexid] d -> _insert_sense_relations lexicon lexid m d = Ok d' -> Inv [lexid] d'.
Proof. intros lexid lexicon m d d' Hp H. unfold _insert_sense_relations in H. cbv zeta in H. inv_all. Qed.
Lemma inv_insert_sense_examples : forall lexid objs m d d',
    Inv [lexid] d -> _insert_examples objs lexid m "sense_examples" d = Ok d' -> Inv [lexid] d'.
Proof.
  intros lexid objs m d d' Hp H. unfold _insert_examples in H.
  change (String.eqb "sense_examples" "sense_examples") with true in H. cbv zeta iota in H. inv_all.
Qed.
Lemma inv_insert_synset_examples : forall lexid objs m d d',
    Inv [lexid] d -> _insert_examples objs lexid m "synset_examples" d = Ok d' -> Inv [lexid] d'.
Proof.
  intros lexid objs m d d' Hp H. unfold _insert_examples in H.
  change (String.eqb "synset_examples" "sense_examples") with false in H. cbv zeta iota in H. inv_all.
Qed.

(* the in-place update of lexicon_dependencies.provider_rowid *)
Lemma Forall2_in_r : forall {T} (R : T -> T -> Prop) l l' y,
    Forall2 R l l' -> In y l' -> exists x, In x l /\ R x y.
Proof.
  intros T R l l' y H. induction H as [|a b l l' Hab _ IH]; intros Hy; [destruct Hy|].
  destruct Hy as [<-|Hy]; [exists a; split; [left; reflexivity|exact Hab]|].
  destruct (IH Hy) as [x [Hx Hr]]. exists x. split; [right; exact Hx|exact Hr].
Qed.
Lemma cell_at_set_nth_cases : forall i c r,
    cell_at i (set_nth i c r) = c \/ cell_at i (set_nth i c r) = cell_at i r.
Proof.
  intros i c r. destruct (Nat.lt_ge_cases i (List.length r)) as [Hl|Hl].
  - left. apply cell_at_set_nth_same. exact Hl.
  - right. unfold cell_at. rewrite !nth_overflow; [reflexivity|exact Hl|rewrite length_set_nth; exact Hl].
Qed.
Lemma apply_sets_prov : forall c r,
    apply_sets "lexicon_dependencies" [("provider_rowid", c)] r = set_nth prov_idx (coerce "INTEGER" c) r.
Proof. reflexivity. Qed.
Lemma fk_cell_ok_coerce_int : forall d p c, fk_cell_ok d p c = true -> fk_cell_ok d p (coerce "INTEGER" c) = true.
Proof. intros d p c H. destruct c; exact H. Qed.

Lemma Inv_update_prov : forall L d p c d',
    Inv L d -> fk_cell_ok d "lexicons" c = true ->
    update d "lexicon_dependencies" p [("provider_rowid", c)] = Ok d' -> Inv L d'.
Proof.
  intros L d p c d' [Hok HL] Hc H. unfold update in H. apply bind_ok in H. destruct H as [rows' [Hu H]].
  injection H as <-. apply update_go_forall2 in Hu. destruct Hu as (rows'' & -> & F). simpl app in *.
  assert (forall r', In r' rows'' ->
            exists r, In r (get_table d "lexicon_dependencies")
                      /\ (r' = r \/ r' = set_nth prov_idx (coerce "INTEGER" c) r)) as Hrows.
  { intros r' Hr'. destruct (Forall2_in_r _ _ _ _ F Hr') as [r [Hr Hrr]]. exists r. split; [exact Hr|].
    destruct Hrr as [->| ->]; [left; reflexivity|right; apply apply_sets_prov]. }
  assert (forall t0 n, In n (rowids (get_table d t0)) ->
                       In n (rowids (get_table (set_table d "lexicon_dependencies" rows'') t0))) as Hmono.
  { intros t0 n Hn. destruct (string_dec "lexicon_dependencies" t0) as [<-|Hne];
      [|rewrite get_set_other by exact Hne; exact Hn].
    rewrite get_set_same. replace (rowids rows'') with (rowids (get_table d "lexicon_dependencies")); [exact Hn|].
    clear - F. induction F as [|a b l l' Hab _ IH]; [reflexivity|]. simpl. rewrite IH. f_equal.
    destruct Hab as [->| ->]; [reflexivity|]. rewrite apply_sets_prov. symmetry. apply rowid_of_set_nth.
    vm_compute. discriminate. }
  split; [|intros n Hn; apply Hmono; apply HL; exact Hn].
  rewrite fk_ok_iff in *. intros t' cols fks uqs Hin c0 p0 pc a Hfk r' Hr'.
  apply fk_cell_ok_mono with (d := d); [apply Hmono|].
  destruct (string_dec "lexicon_dependencies" t') as [<-|Hne];
    [|rewrite get_set_other in Hr' by exact Hne; eapply Hok; eassumption].
  rewrite get_set_same in Hr'. destruct (Hrows r' Hr') as [r [Hr [->| ->]]]; [eapply Hok; eassumption|].
  pose proof (Hok _ _ _ _ Hin _ _ _ _ Hfk r Hr) as Hold.
  rewrite <- (schema_find_in _ _ _ _ Hin) in Hfk. vm_compute in Hfk.
  destruct Hfk as [Hfk|[Hfk|[]]]; injection Hfk as <- <- <- <-; unfold col in *.
  - rewrite cell_at_set_nth_other; [exact Hold|vm_compute; discriminate].
  - change (col_index "lexicon_dependencies" "provider_rowid") with prov_idx in *.
    destruct (cell_at_set_nth_cases prov_idx (coerce "INTEGER" c) r) as [E|E]; rewrite E;
      [apply fk_cell_ok_coerce_int; exact Hc|exact Hold].
Qed.

Lemma inv_insert_lexicon_link_dep : forall L lexid d dep d',
    Inv L d -> In lexid L -> insert_lexicon_link d "lexicon_dependencies" lexid dep = Ok d' -> Inv L d'.
Proof. intros L lexid d dep d' Hp HL H. unfold insert_lexicon_link in H. inv_all. Qed.
Lemma inv_insert_lexicon_link_ext : forall L lexid d dep d',
    Inv L d -> In lexid L -> insert_lexicon_link d "lexicon_extensions" lexid dep = Ok d' -> Inv L d'.
Proof. intros L lexid d dep d' Hp HL H. unfold insert_lexicon_link in H. inv_all. Qed.

Lemma inv_insert_lexicon : forall lexicon d d' lexid extid,
    Inv [] d -> _insert_lexicon lexicon d = Ok (d', lexid, extid) -> Inv [lexid] d'.
Proof.
  intros lexicon d d' lexid extid [Hok _] H. unfold _insert_lexicon in H. cbv zeta in H.
  repeat match goal with
         | H : bind (preq _ _) _ = Ok _ |- _ =>
             let x := fresh "c" in let Hx := fresh "Hc" in apply bind_ok in H; destruct H as [x [Hx H]]
         | H : bind (param _) _ = Ok _ |- _ =>
             let x := fresh "c" in let Hx := fresh "Hc" in apply bind_ok in H; destruct H as [x [Hx H]]
         end.
  apply bind_ok in H. destruct H as [[d1 lexid1] [Hins H]]. cbv beta iota in H.
  assert (Inv [lexid1] d1) as Hp1.
  { split; [eapply insert_rowid_fk_ok; [exact Hok|exact Hins|apply fkv_nofk; reflexivity]|].
    intros n [<-|[]]. apply insert_rowid_inv in Hins. destruct Hins as [-> ->].
    rewrite get_set_same. unfold rowids. rewrite map_app. apply in_or_app. right. left. reflexivity. }
  apply bind_ok in H. destruct H as [d2 [Hupd H]].
  assert (Inv [lexid1] d2) as Hp2.
  { eapply Inv_update_prov; [exact Hp1| |exact Hupd]. eapply Inv_lex; [exact Hp1|left; reflexivity]. }
  apply bind_ok in H. destruct H as [d3 [Hdeps H]].
  assert (Inv [lexid1] d3) as Hp3.
  { revert Hdeps. apply foldM_inv; [|exact Hp2]. intros s x s' Hs Hstep.
    eapply inv_insert_lexicon_link_dep; [exact Hs|left; reflexivity|exact Hstep]. }
  destruct (vtruthy (vgetk lexicon "extends")).
  - apply bind_ok in H. destruct H as [d4 [Hext H]].
    assert (Inv [lexid1] d4) as Hp4
        by (eapply inv_insert_lexicon_link_ext; [exact Hp3|left; reflexivity|exact Hext]).
    repeat mstep2. exact Hp4.
  - injection H as <- <- <-. exact Hp3.
Qed.

Lemma inv_add_one_lexicon : forall nt lexicon d d',
    fk_ok d = true -> add_one_lexicon nt lexicon d = Ok d' -> fk_ok d' = true.
Proof.
  intros nt lexicon d d' Hok H. unfold add_one_lexicon in H. cbv zeta in H.
  assert (Inv [] d) as Hp by (split; [exact Hok|intros n []]).
  repeat mstep2.
  repeat match goal with
         | Hp : Inv ?L ?d, H : _update_lookup_tables _ ?d = Ok ?d' |- _ =>
             assert (Inv L d') by (eapply inv_update_lookup_tables; eassumption); clear H
         | Hp : Inv [] ?d, H : _insert_lexicon _ ?d = Ok (?d', ?l, _) |- _ =>
             assert (Inv [l] d') by (eapply inv_insert_lexicon; eassumption); clear H
         | Hp : Inv _ ?d, H : _insert_synsets _ _ ?d = Ok ?d' |- _ =>
             assert (Inv _ d') by (eapply inv_insert_synsets; eassumption); clear H
         | Hp : Inv _ ?d, H : _insert_entries _ _ ?d = Ok ?d' |- _ =>
             assert (Inv _ d') by (eapply inv_insert_entries; eassumption); clear H
         | Hp : Inv _ ?d, H : _insert_forms _ _ _ _ ?d = Ok ?d' |- _ =>
             assert (Inv _ d') by (eapply inv_insert_forms; eassumption); clear H
         | Hp : Inv _ ?d, H : _insert_pronunciations _ _ _ ?d = Ok ?d' |- _ =>
             assert (Inv _ d') by (eapply inv_insert_pronunciations; eassumption); clear H
         | Hp : Inv _ ?d, H : _insert_tags _ _ _ ?d = Ok ?d' |- _ =>
             assert (Inv _ d') by (eapply inv_insert_tags; eassumption); clear H
         | Hp : Inv _ ?d, H : _insert_senses _ _ _ _ ?d = Ok ?d' |- _ =>
             assert (Inv _ d') by (eapply inv_insert_senses; eassumption); clear H
         | Hp : Inv _ ?d, H : _insert_adjpositions _ _ _ ?d = Ok ?d' |- _ =>
             assert (Inv _ d') by (eapply inv_insert_adjpositions; eassumption); clear H
         | Hp : Inv _ ?d, H : _insert_counts _ _ _ ?d = Ok ?d' |- _ =>
             assert (Inv _ d') by (eapply inv_insert_counts; eassumption); clear H
         | Hp : Inv _ ?d, H : _insert_syntactic_behaviours _ _ _ ?d = Ok ?d' |- _ =>
             assert (Inv _ d') by (eapply inv_insert_syntactic_behaviours; eassumption); clear H
         | Hp : Inv _ ?d, H : _insert_synset_relations _ _ _ ?d = Ok ?d' |- _ =>
             assert (Inv _ d') by (eapply inv_insert_synset_relations; eassumption); clear H
         | Hp : Inv _ ?d, H : _insert_sense_relations _ _ _ ?d = Ok ?d' |- _ =>
             assert (Inv _ d') by (eapply inv_insert_sense_relations; eassumption); clear H
         | Hp : Inv _ ?d, H : _insert_synset_definitions _ _ _ ?d = Ok ?d' |- _ =>
             assert (Inv _ d') by (eapply inv_insert_synset_definitions; eassumption); clear H
         | Hp : Inv _ ?d, H : _insert_examples _ _ _ "sense_examples" ?d = Ok ?d' |- _ =>
             assert (Inv _ d') by (eapply inv_insert_sense_examples; eassumption); clear H
         | Hp : Inv _ ?d, H : _insert_examples _ _ _ "synset_examples" ?d = Ok ?d' |- _ =>
             assert (Inv _ d') by (eapply inv_insert_synset_examples; eassumption); clear H
         end.
  match goal with Hp : Inv _ d' |- _ => apply Hp end.
Qed.

(* (C2) *)
Theorem add_lexical_resource_fk_ok : forall d r nt d',
    fk_ok d = true -> add_lexical_resource d r nt = Ok d' -> fk_ok d' = true.
Proof.
  intros d r nt d' Hok H. unfold add_lexical_resource in H.
  repeat mstep; try exact Hok.
  unfold _add_lexical_resource in H. repeat mstep.
  revert H. apply foldM_inv with (P := fun x => fk_ok x = true); [|exact Hok].
  clear. intros s x s' Hs Hstep. cbv beta in Hstep. repeat mstep; try exact Hs.
  eapply inv_add_one_lexicon; eassumption.
Qed.

(* ====================================================================== *)
(* Summary: the theorems of the three stages                               *)
(* ====================================================================== *)
(* Stage A *)
Print Assumptions add_ili_touches_only_ili_tables.
Print Assumptions add_ili_listed.
Print Assumptions add_ili_unlisted.
Print Assumptions add_ili_idempotent.
Print Assumptions add_ili_statuses_grow.
Print Assumptions add_ili_ilis_ok.
Print Assumptions ilis_ok_unique.
(* Stage B *)
Print Assumptions delete_row_fk_ok.
Print Assumptions delete_seq_fk_ok.
Print Assumptions remove_one_spec.
Print Assumptions get_lexicon_extensions_spec.
Print Assumptions remove_owned_rows_gone.
Print Assumptions remove_frame.
Print Assumptions delete_seq_frame.
Print Assumptions delete_seq_doomed_gone.
Print Assumptions remove_single.
Print Assumptions remove_nothing_matches.
Print Assumptions remove_star_empty.
(* Stage C *)
Print Assumptions add_lexical_resource_monotone.
Print Assumptions add_keeps_rows.
Print Assumptions add_keeps_dependencies.
Print Assumptions add_lexical_resource_fk_ok.
Print Assumptions add_lexical_resource_skips.
Print Assumptions readd_is_noop.
Print Assumptions extensions_without_base_skipped.
Print Assumptions precheck_depends_on_spec_only.
