(* ExpandProofs.v — STAGE X (C12): expand lexicons.  X3: what Wordnet.__init__ selects; X2: without
   expand lexicons the synset relations are the local ones; X1: the expanded relations, declaratively. *)
From Coq Require Import ZArith List Bool Lia.
Import ListNotations.
Require Import WnV.Base.Sx WnV.Model.Spec WnV.Model.Tables WnV.Model.Query WnV.Model.Core.
Require Import WnV.Proofs.CoreLemmas WnV.Proofs.QueryFacts WnV.Proofs.ScopeProofs WnV.Proofs.SearchProofs WnV.Proofs.NavProofs
               WnV.Proofs.RelGeneric WnV.Proofs.RelProofs.
Local Open Scope Z_scope.

(* ================================================================== X3: Wordnet.__init__ *)
Section Init.
Variable d : db.

(* the declared dependencies (id, version, provider rowid) of the selected lexicons, in order *)
Definition selected_deps (lexs : list lexicon_row) : list (str * str * option Z) :=
  flat_map (fun lex => map (fun dep => match dep with (id, ver, _, _id) => (id, ver, _id) end)
                           (get_lexicon_dependencies d (lex_rowid lex))) lexs.
Definition dep_spec (dep : str * str * option Z) : str :=
  match dep with (id, ver, _) => format_lexicon_specifier id ver end.
Definition dep_installed (dep : str * str * option Z) : bool :=
  match dep with (_, _, Some _) => true | _ => false end.

(* the value of [expand] that is finally looked up *)
Definition effective_expand (lexicon lang expand : option str) (lexs : list lexicon_row) : str :=
  match expand with
  | Some e => e
  | None => if negb (truthy lexicon) && negb (truthy lang) then s_star
            else join_space (map dep_spec (filter dep_installed (selected_deps lexs)))
  end.

Theorem Wordnet_init_spec : forall lexicon lang expand nz nt lem saf w,
  Wordnet_init d lexicon lang expand nz nt lem saf = Ok w ->
  exists lexs expanded,
    find_lexicons d (match lexicon with Some (c :: s) => c :: s | _ => s_star end) lang = Ok lexs
    /\ wn_lexicon_ids w = map lex_rowid lexs
    (* default mode iff neither a lexicon nor a language was given *)
    /\ wn_default_mode w = negb (truthy lexicon) && negb (truthy lang)
    (* expand: "*" in default mode, otherwise the installed declared dependencies *)
    /\ (if nonempty (effective_expand lexicon lang expand lexs)
        then find_lexicons d (effective_expand lexicon lang expand lexs) None else Ok []) = Ok expanded
    /\ wn_expanded_ids w = map lex_rowid expanded
    (* the warning: only when expand is left to default outside default mode, and some declared
       dependency is not installed *)
    /\ wn_warned w = match expand with
                     | Some _ => false
                     | None => if negb (truthy lexicon) && negb (truthy lang) then false
                               else nonempty (join_space (map dep_spec
                                      (filter (fun dep => negb (dep_installed dep)) (selected_deps lexs))))
                     end
    /\ wn_normalizer w = nz /\ wn_norm_table w = nt /\ wn_lemmatizer w = lem /\ wn_search_all_forms w = saf.
Proof.
  intros lexicon lang expand nz nt lem saf w H. unfold Wordnet_init in H.
  apply bind_Ok in H. destruct H as [lexs [Hl H]]. apply bind_Ok in H. destruct H as [expanded [He H]].
  injection H as <-. exists lexs, expanded. simpl. split; [exact Hl|]. split; [reflexivity|]. split; [reflexivity|].
  unfold effective_expand. fold (selected_deps lexs).
  destruct expand as [e|].
  - simpl in He. repeat split; try reflexivity. exact He.
  - destruct (negb (truthy lexicon) && negb (truthy lang)); simpl in He; repeat split; try reflexivity; exact He.
Qed.

Lemma join_space_nonempty : forall l, l <> [] -> (forall x, In x l -> x <> []) -> join_space l <> [].
Proof.
  intros l Hne Hall. destruct l as [|x l]; [contradiction|].
  assert (Hx : x <> []) by (apply Hall; left; reflexivity).
  simpl. destruct l as [|y l]; [exact Hx|]. destruct x; [contradiction | discriminate].
Qed.

Lemma join_space_nil : join_space [] = [].
Proof. reflexivity. Qed.

(* warned iff some declared dependency of a selected lexicon has no provider rowid *)
Theorem Wordnet_init_warned : forall lexicon lang nz nt lem saf w,
  Wordnet_init d lexicon lang None nz nt lem saf = Ok w ->
  negb (truthy lexicon) && negb (truthy lang) = false ->
  (wn_warned w = true <->
   exists lex dep, In lex (t_lexicons d) /\ In (lex_rowid lex) (wn_lexicon_ids w)
     /\ In dep (t_lexicon_dependencies d) /\ ld_dependent_rowid dep = lex_rowid lex
     /\ ld_provider_rowid dep = None).
Proof.
  intros lexicon lang nz nt lem saf w H Hmode.
  destruct (Wordnet_init_spec _ _ _ _ _ _ _ _ H) as [lexs [expanded [Hl [Eids [_ [_ [_ [Ew _]]]]]]]].
  rewrite Ew, Hmode.
  assert (Hlexs : forall lex, In lex lexs -> In lex (t_lexicons d)).
  { intros lex Hin. unfold find_lexicons in Hl.
    destruct (Spec.find_lexicons (lexrows d) _ lang) as [rows|]; [|discriminate]. injection Hl as <-.
    apply somes_In in Hin. apply in_map_iff in Hin. destruct Hin as [r [E _]]. apply find_by_Some in E. tauto. }
  set (missing := filter (fun dep => negb (dep_installed dep)) (selected_deps lexs)).
  assert (Hmiss : forall dep, In dep missing <->
            exists lex row, In lex lexs /\ In row (t_lexicon_dependencies d) /\ ld_dependent_rowid row = lex_rowid lex
                            /\ ld_provider_rowid row = None /\ dep = (ld_provider_id row, ld_provider_version row, None)).
  { intro dep. unfold missing, selected_deps. rewrite filter_In, in_flat_map. split.
    - intros [[lex [Hlex Hdep]] Hni]. apply in_map_iff in Hdep. destruct Hdep as [[[[id ver] url] rid] [E Hrow]].
      unfold get_lexicon_dependencies in Hrow. apply in_map_iff in Hrow. destruct Hrow as [row [Er Hrow]].
      apply filter_In in Hrow. destruct Hrow as [Hrow Edep]. apply Z.eqb_eq in Edep.
      injection Er as <- <- <- <-. subst dep. simpl in Hni.
      destruct (ld_provider_rowid row) eqn:Ep; [discriminate|]. exists lex, row. tauto.
    - intros [lex [row [Hlex [Hrow [Edep [Ep ->]]]]]]. split; [|reflexivity]. exists lex. split; [exact Hlex|].
      apply in_map_iff. exists (ld_provider_id row, ld_provider_version row, ld_provider_url row, ld_provider_rowid row).
      split; [rewrite Ep; reflexivity|]. unfold get_lexicon_dependencies. apply in_map_iff. exists row.
      split; [reflexivity|]. apply filter_In. split; [exact Hrow | apply Z.eqb_eq; exact Edep]. }
  split.
  - intro Hne. destruct missing as [|dep0 rest] eqn:Em.
    + simpl in Hne. discriminate.
    + destruct (proj1 (Hmiss dep0) (or_introl eq_refl)) as [lex [row [Hlex [Hrow [Edep [Ep _]]]]]].
      exists lex, row. split; [apply Hlexs; exact Hlex|]. split; [rewrite Eids; apply in_map; exact Hlex | tauto].
  - intros [lex [row [Hlex [Hsel [Hrow [Edep Ep]]]]]]. apply nonempty_true. apply join_space_nonempty.
    + rewrite Eids in Hsel. apply in_map_iff in Hsel. destruct Hsel as [lex' [El' Hlex']].
      intro C. assert (Hin : In (ld_provider_id row, ld_provider_version row, @None Z) missing).
      { apply Hmiss. exists lex', row. rewrite El'. tauto. }
      apply (in_map dep_spec) in Hin. rewrite C in Hin. destruct Hin.
    + intros x Hx. apply in_map_iff in Hx. destruct Hx as [[[id ver] rid] [<- _]].
      unfold dep_spec, format_lexicon_specifier. destruct id; discriminate.
Qed.

(* X2: expand = '' disables expansion *)
Theorem Wordnet_init_no_expand : forall lexicon lang nz nt lem saf w,
  Wordnet_init d lexicon lang (Some []) nz nt lem saf = Ok w -> wn_expanded_ids w = [] /\ wn_warned w = false.
Proof.
  intros lexicon lang nz nt lem saf w H.
  destruct (Wordnet_init_spec _ _ _ _ _ _ _ _ H) as [lexs [expanded [_ [_ [_ [He [Ex [Ew _]]]]]]]].
  simpl in He. injection He as <-. split; [exact Ex | exact Ew].
Qed.
End Init.

(* ================================================================== X2: no expand lexicons *)
Theorem Synset_iter_relations_no_expand : forall d y args,
  wn_expanded_ids (ss_wordnet y) = [] ->
  Synset_iter_relations d y args =
  if negb (Z.eqb (ss__id y) NON_ROWID) then Synset_iter_local_relations d y args else Ok [].
Proof.
  intros d y args H. unfold Synset_iter_relations. rewrite H. simpl.
  assert (E : (match ss_ili y with Some _ => Ok [] | None => Ok [] end) = @Ok (list (Relation * Synset)) [])
    by (destruct (ss_ili y); reflexivity).
  rewrite E. destruct (negb (Z.eqb (ss__id y) NON_ROWID)); [|reflexivity].
  destruct (Synset_iter_local_relations d y args) as [loc| | |]; simpl; [rewrite app_nil_r|..]; reflexivity.
Qed.

(* a synset without ILI has no expanded relations either *)
Theorem Synset_iter_relations_no_ili : forall d y args,
  ss_ili y = None ->
  Synset_iter_relations d y args =
  if negb (Z.eqb (ss__id y) NON_ROWID) then Synset_iter_local_relations d y args else Ok [].
Proof.
  intros d y args H. unfold Synset_iter_relations. rewrite H.
  destruct (negb (Z.eqb (ss__id y) NON_ROWID)); [|reflexivity].
  destruct (Synset_iter_local_relations d y args) as [loc| | |]; simpl; [rewrite app_nil_r|..]; reflexivity.
Qed.

(* ================================================================== X1: local ++ expanded *)
Theorem Synset_iter_relations_split : forall d y args,
  Synset_iter_relations d y args =
  bind (if negb (Z.eqb (ss__id y) NON_ROWID) then Synset_iter_local_relations d y args else Ok []) (fun loc =>
  bind (match ss_ili y with
        | Some _ => if nonempty (wn_expanded_ids (ss_wordnet y))
                    then Synset_iter_expanded_relations d y args else Ok []
        | None => Ok []
        end) (fun exp => Ok (loc ++ exp))).
Proof. reflexivity. Qed.

Lemma NoDup_nodup_by : forall T (eqb : T -> T -> bool) l,
  (forall a b, eqb a b = true -> a = b) -> NoDup l -> nodup_by eqb l.
Proof.
  intros T eqb l He H. induction H as [|x l Hn Hd IH]; constructor; [|exact IH].
  intros y Hy. destruct (eqb y x) eqn:E; [|reflexivity]. apply He in E. subst. contradiction.
Qed.

Lemma NoDup_filter : forall T (p : T -> bool) l, NoDup l -> NoDup (filter p l).
Proof.
  intros T p l H. induction H as [|x l Hn Hd IH]; simpl; [constructor|].
  destruct (p x); [|exact IH]. constructor; [|exact IH]. intro C. apply filter_In in C. tauto.
Qed.

Lemma NoDup_map_filter : forall T U (f : T -> U) (p : T -> bool) l, NoDup (map f l) -> NoDup (map f (filter p l)).
Proof.
  intros T U f p l. induction l as [|x l IH]; intro H; simpl; [constructor|].
  inversion H as [|a b Hn Hd]. subst. destruct (p x); [|apply IH; exact Hd].
  simpl. constructor; [|apply IH; exact Hd]. intro C. apply Hn. apply in_map_iff in C.
  destruct C as [z [E Hz]]. apply filter_In in Hz. rewrite <- E. apply in_map. tauto.
Qed.

(* a dict built from pairs with distinct keys is the list of pairs *)
Lemma dict_set_fresh : forall V k (v : V) m, ~ In k (map fst m) -> dict_set Z.eqb k v m = m ++ [(k, v)].
Proof.
  intros V k v m. induction m as [|[k' v'] m IH]; intro H; simpl; [reflexivity|].
  destruct (Z.eqb k' k) eqn:E.
  - apply Z.eqb_eq in E. exfalso. apply H. left. exact E.
  - rewrite IH; [reflexivity|]. intro C. apply H. right. exact C.
Qed.

Lemma dict_of_nodup : forall V (pairs : list (Z * V)), NoDup (map fst pairs) -> dict_of Z.eqb pairs = pairs.
Proof.
  intros V pairs H. unfold dict_of.
  assert (G : forall m, NoDup (map fst (m ++ pairs)) ->
              fold_left (fun m0 kv => dict_set Z.eqb (fst kv) (snd kv) m0) pairs m = m ++ pairs).
  { clear H. induction pairs as [|[k v] pairs IH]; intros m Hm; simpl; [rewrite app_nil_r; reflexivity|].
    rewrite dict_set_fresh.
    - rewrite IH.
      + rewrite <- app_assoc. reflexivity.
      + rewrite <- app_assoc. exact Hm.
    - rewrite map_app in Hm. simpl in Hm. apply NoDup_remove_2 in Hm. intro C. apply Hm. apply in_or_app. left. exact C. }
  apply (G []). exact H.
Qed.

Lemma assoc_z_In : forall V (l : list (Z * V)) k v, NoDup (map fst l) -> In (k, v) l -> assoc_z k l = Some v.
Proof.
  intros V l k v H Hin. induction l as [|[k' v'] l IH]; [destruct Hin|]. simpl.
  inversion H as [|a b Hn Hd]. subst. destruct Hin as [E|Hin].
  - injection E as -> ->. rewrite Z.eqb_refl. reflexivity.
  - destruct (Z.eqb k' k) eqn:E.
    + apply Z.eqb_eq in E. subst. exfalso. apply Hn. apply (in_map fst) in Hin. exact Hin.
    + apply IH; assumption.
Qed.

Section X1.
Variable d : db.
Hypothesis Hok : db_ok d = true.

(* the synsets through which relations are expanded: the other synsets of the expand lexicons with
   the same ILI *)
Definition expansion_source (y : Synset) (i : str) (src : synset_row) : Prop :=
  In src (t_synsets d) /\ In (sy_lexicon_rowid src) (wn_expanded_ids (ss_wordnet y))
  /\ (exists irow, In irow (t_ilis d) /\ il_id irow = i /\ sy_ili_rowid src = Some (il_rowid irow))
  /\ sy_rowid src <> ss__id y /\ sy_rowid src <> NON_ROWID.

(* the local synsets carrying ILI [ili_t] *)
Definition local_with_ili (y : Synset) (ili_t : str) (loc : synset_row) : Prop :=
  In loc (t_synsets d) /\ In (sy_lexicon_rowid loc) (scope d (ss_wordnet y) (ss_lexid y))
  /\ exists irow, In irow (t_ilis d) /\ il_id irow = ili_t /\ sy_ili_rowid loc = Some (il_rowid irow).

Definition expanded_relation_row (y : Synset) (i : str) (args : list str) (r : Relation) (t : Synset) : Prop :=
  exists src srel ty lex tgt ili_t,
    expansion_source y i src
    /\ In srel (t_synset_relations d) /\ rl_source_rowid srel = sy_rowid src
    /\ In (rl_lexicon_rowid srel) (wn_expanded_ids (ss_wordnet y))
    /\ In ty (t_relation_types d) /\ rt_rowid ty = rl_type_rowid srel /\ type_requested args (rt_type ty)
    /\ In lex (t_lexicons d) /\ lex_rowid lex = rl_lexicon_rowid srel
    /\ In tgt (t_synsets d) /\ sy_rowid tgt = rl_target_rowid srel
    /\ In (sy_lexicon_rowid tgt) (wn_expanded_ids (ss_wordnet y))
    /\ ili_id_of d (sy_ili_rowid tgt) = Some ili_t              (* targets without ILI are dropped *)
    /\ r = {| rel_name := rt_type ty; rel_source_id := sy_id src; rel_target_id := sy_id tgt;
              rel_lexicon := lexicon_specifier lex; rel_metadata := rl_metadata srel |}
    /\ ((exists loc, local_with_ili y ili_t loc /\ t = mk_Synset (ss_wordnet y) (synset_columns d loc))
        \/ ((forall loc, ~ local_with_ili y ili_t loc)
            /\ t = Synset_empty _INFERRED_SYNSET (Some ili_t) (ss_lexid y) (ss_wordnet y))).

Lemma find_synsets_ili_iff : forall i expids q, i <> [] -> expids <> [] ->
  (In q (find_synsets d None [] None (Some i) expids false false) <->
   exists src, In src (t_synsets d) /\ In (sy_lexicon_rowid src) expids
     /\ (exists irow, In irow (t_ilis d) /\ il_id irow = i /\ sy_ili_rowid src = Some (il_rowid irow))
     /\ q = synset_columns d src).
Proof.
  intros i expids q Hi He. rewrite find_synsets_iff.
  assert (Hc : forall src, synset_conditions d None None (Some i) expids src = true <->
               In (sy_lexicon_rowid src) expids
               /\ exists irow, In irow (t_ilis d) /\ il_id irow = i /\ sy_ili_rowid src = Some (il_rowid irow)).
  { intro src. unfold synset_conditions. destruct i as [|c i']; [contradiction|]. simpl truthy. cbv iota.
    apply nonempty_true in He. rewrite He. simpl andb. rewrite andb_true_iff, oz_in_In, z_in_In. split.
    - intros [[z [Ez Hz]] Hl]. split; [exact Hl|]. apply in_map_iff in Hz. destruct Hz as [irow [<- Hir]].
      apply filter_In in Hir. destruct Hir as [Hir Eid]. simpl in Eid. apply str_eqb_eq in Eid. exists irow. tauto.
    - intros [Hl [irow [Hir [Eid Es]]]]. split; [|exact Hl]. exists (il_rowid irow). split; [exact Es|].
      apply in_map. apply filter_In. split; [exact Hir|]. simpl. apply str_eqb_eq. exact Eid. }
  split.
  - intros [src [Hs [-> [Hcond _]]]]. apply Hc in Hcond. exists src. tauto.
  - intros [src [Hs [Hl [Hir ->]]]]. exists src. split; [exact Hs|]. split; [reflexivity|].
    split; [apply Hc; tauto | intro C; contradiction].
Qed.

Lemma find_synsets_rowids_nodup : forall id pos ili ids,
  NoDup (map qy_rowid (find_synsets d id [] pos ili ids false false)).
Proof.
  intros id pos ili ids. unfold find_synsets. simpl nonempty. cbv iota.
  set (l := filter (synset_conditions d id pos ili ids) (t_synsets d)).
  assert (Hl : NoDup (map sy_rowid l)) by (apply NoDup_map_filter; exact (ok_synsets d Hok)).
  assert (Hm : NoDup (map qy_rowid (map (synset_columns d) l))) by (rewrite map_map; exact Hl).
  rewrite dedup_id; [exact Hm|].
  apply NoDup_nodup_by; [intros a b E; apply q_synset_eqb_eq; exact E|].
  apply (NoDup_map_inv qy_rowid). exact Hm.
Qed.

Theorem Synset_iter_expanded_relations_iff : forall y i args pairs r t,
  ss_ili y = Some i -> i <> [] -> wn_expanded_ids (ss_wordnet y) <> [] ->
  Synset_iter_expanded_relations d y args = Ok pairs ->
  (In (r, t) pairs <-> expanded_relation_row y i args r t).
Proof.
  intros y i args pairs r t Eili Hi Hexp H. unfold Synset_iter_expanded_relations in H.
  set (expids := wn_expanded_ids (ss_wordnet y)) in *.
  set (cands := filter (fun q => negb (Z.eqb (qy_rowid q) (ss__id y)) && negb (Z.eqb (qy_rowid q) NON_ROWID))
                       (find_synsets d None [] None (ss_ili y) expids false false)) in *.
  set (srcpairs := map (fun q => (qy_rowid q, qy_id q)) cands) in *.
  assert (Hnd : NoDup (map fst srcpairs)).
  { unfold srcpairs. rewrite map_map. simpl. unfold cands. apply NoDup_map_filter. apply find_synsets_rowids_nodup. }
  rewrite (dict_of_nodup _ srcpairs Hnd) in H.
  assert (Hsrc : forall k v, In (k, v) srcpairs <-> exists src, expansion_source y i src /\ k = sy_rowid src /\ v = sy_id src).
  { intros k v. unfold srcpairs, cands. rewrite in_map_iff. split.
    - intros [q [E Hq]]. injection E as <- <-. apply filter_In in Hq. destruct Hq as [Hq Hc].
      rewrite Eili in Hq. apply (find_synsets_ili_iff i expids q Hi Hexp) in Hq.
      destruct Hq as [src [Hs [Hl [Hir ->]]]]. simpl in Hc. apply andb_true_iff in Hc. destruct Hc as [C1 C2].
      apply negb_true_iff in C1. apply negb_true_iff in C2. apply Z.eqb_neq in C1. apply Z.eqb_neq in C2.
      exists src. unfold expansion_source. simpl. tauto.
    - intros [src [[Hs [Hl [Hir [N1 N2]]]] [-> ->]]]. exists (synset_columns d src). split; [reflexivity|].
      apply filter_In. split.
      + rewrite Eili. apply (find_synsets_ili_iff i expids _ Hi Hexp). exists src. tauto.
      + simpl. apply andb_true_iff. split; apply negb_true_iff; apply Z.eqb_neq; assumption. }
  apply bind_Ok in H. destruct H as [rows [Hrows H]]. injection H as <-.
  unfold get_synset_relations in Hrows.
  assert (Hlocal : forall ili_t row,
            In row (get_synsets_for_ilis d [ili_t] (_get_lexicon_ids d (ss_wordnet y) (ss_lexid y))) <->
            exists loc, local_with_ili y ili_t loc /\ row = synset_columns d loc).
  { intros ili_t row. rewrite get_synsets_for_ilis_iff. unfold local_with_ili, scope. split.
    - intros [loc [irow [Hloc [Hir [[Ei|[]] [Es [Hl ->]]]]]]]. exists loc. split.
      + split; [exact Hloc|]. split; [exact Hl|]. exists irow. split; [exact Hir | split; [symmetry; exact Ei | exact Es]].
      + unfold synset_columns, ili_id_of. rewrite Es. simpl.
        rewrite (find_by_unique _ il_rowid _ irow (ok_ilis d Hok) Hir). reflexivity.
    - intros [loc [[Hloc [Hl [irow [Hir [Ei Es]]]]] ->]]. exists loc, irow.
      split; [exact Hloc|]. split; [exact Hir|]. split; [left; symmetry; exact Ei|]. split; [exact Es|]. split; [exact Hl|].
      unfold synset_columns, ili_id_of. rewrite Es. simpl.
      rewrite (find_by_unique _ il_rowid _ irow (ok_ilis d Hok) Hir). reflexivity. }
  rewrite in_flat_map. unfold expanded_relation_row. split.
  - intros [q [Hq Hin]].
    apply (proj1 (synset_target_query_iff _ _ _ _ _ _ q Hrows)) in Hq.
    destruct Hq as [srel [ty [lex [tgt [Hs [Hsrcin [Hl [Ety [Elex [Etg [Hl2 ->]]]]]]]]]]]. simpl in Hin.
    apply in_map_iff in Hsrcin. destruct Hsrcin as [[k v] [Ek Hkv]]. simpl in Ek. subst k.
    pose proof (assoc_z_In _ srcpairs _ _ Hnd Hkv) as Eassoc. rewrite Eassoc in Hin.
    apply Hsrc in Hkv. destruct Hkv as [src [Hsource [Ekey ->]]].
    apply (find_by_rt d args _ ty (ok_relation_types d Hok)) in Ety. destruct Ety as [Hty [Ek Hreq]].
    apply find_by_Some in Elex. destruct Elex as [Hlex Eklex].
    apply find_by_Some in Etg. destruct Etg as [Htg Ektg].
    destruct (ili_id_of d (sy_ili_rowid tgt)) as [ili_t|] eqn:Et; [|destruct Hin].
    exists src, srel, ty, lex, tgt, ili_t.
    destruct (get_synsets_for_ilis d [ili_t] (_get_lexicon_ids d (ss_wordnet y) (ss_lexid y))) as [|row rows'] eqn:El.
    + destruct Hin as [E|[]]. injection E as <- <-.
      repeat match goal with |- _ /\ _ => split end; try assumption; try reflexivity.
      right. split; [|reflexivity]. intros loc Hloc.
      assert (In (synset_columns d loc) []) by (rewrite <- El; apply Hlocal; exists loc; tauto). destruct H.
    + assert (Hrow : exists row0, In row0 (row :: rows') /\ (r, t) =
                ({| rel_name := rt_type ty; rel_source_id := sy_id src; rel_target_id := sy_id tgt;
                    rel_lexicon := lexicon_specifier lex; rel_metadata := rl_metadata srel |},
                 mk_Synset (ss_wordnet y) row0)).
      { destruct Hin as [E|Hin]; [exists row; split; [left; reflexivity | symmetry; exact E]|].
        apply in_map_iff in Hin. destruct Hin as [row0 [E Hr0]]. exists row0. split; [right; exact Hr0 | symmetry; exact E]. }
      destruct Hrow as [row0 [Hr0 E]]. injection E as -> ->. rewrite <- El in Hr0. apply Hlocal in Hr0.
      destruct Hr0 as [loc [Hloc ->]].
      repeat match goal with |- _ /\ _ => split end; try assumption; try reflexivity.
      left. exists loc. tauto.
  - intros [src [srel [ty [lex [tgt [ili_t [Hsource [Hs [Esrc [Hl [Hty [Ek [Hreq [Hlex [Eklex [Htg [Ektg [Hl2 [Et [-> Ht]]]]]]]]]]]]]]]]]]]].
    exists {| qyr_name := rt_type ty; qyr_lexicon := lexicon_specifier lex; qyr_metadata := rl_metadata srel;
              qyr_src_rowid := rl_source_rowid srel; qyr_synset := synset_columns d tgt |}.
    assert (Hkv : In (sy_rowid src, sy_id src) srcpairs) by (apply Hsrc; exists src; tauto).
    split.
    + apply (proj2 (synset_target_query_iff _ _ _ _ _ _ _ Hrows)).
      exists srel, ty, lex, tgt. repeat match goal with |- _ /\ _ => split end; try assumption; try reflexivity.
      * rewrite Esrc. apply (in_map fst) in Hkv. exact Hkv.
      * apply (find_by_rt d args _ ty (ok_relation_types d Hok)). tauto.
      * rewrite <- Eklex. apply find_by_unique; [exact (ok_lexicons d Hok) | exact Hlex].
      * rewrite <- Ektg. apply find_by_unique; [exact (ok_synsets d Hok) | exact Htg].
    + simpl. rewrite Et. rewrite Esrc. rewrite (assoc_z_In _ srcpairs _ _ Hnd Hkv).
      destruct Ht as [[loc [Hloc ->]]|[Hnone ->]].
      * assert (Hin : In (synset_columns d loc) (get_synsets_for_ilis d [ili_t] (_get_lexicon_ids d (ss_wordnet y) (ss_lexid y))))
          by (apply Hlocal; exists loc; tauto).
        destruct (get_synsets_for_ilis d [ili_t] (_get_lexicon_ids d (ss_wordnet y) (ss_lexid y))) as [|row rows'] eqn:El; [destruct Hin|].
        destruct Hin as [E|Hin]; [left; rewrite E; reflexivity | right; apply in_map_iff; exists (synset_columns d loc); tauto].
      * destruct (get_synsets_for_ilis d [ili_t] (_get_lexicon_ids d (ss_wordnet y) (ss_lexid y))) as [|row rows'] eqn:El.
        -- left. reflexivity.
        -- exfalso. assert (Hin : In row (row :: rows')) by (left; reflexivity). rewrite <- El in Hin.
           apply Hlocal in Hin. destruct Hin as [loc [Hloc _]]. exact (Hnone loc Hloc).
Qed.

End X1.
