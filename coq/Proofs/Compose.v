(* Proofs/Compose.v — the capstone of property C01: the add model composed with the query model.

   "After add_lexical_resource, the query API reports exactly the document's content."

   Two developments are composed here:
     document -> rows : Model/Add.v over Model/Rel.v, with Proofs/AddContent.v  (names qualified: R., A., AC., AP.)
     rows -> API      : Model/Tables.v, Query.v, Core.v, with QueryFacts / NavProofs  (names imported)
   They use different database representations with encoders / decoders for the same wire format,
   so the bridge is  [conv d := Tables.db_of_sx (Rel.sx_of_db d)]  (a metadata cell reads as NULL).

   Setting of K2-K4: a resource r with ONE lexicon L, add_lexical_resource d r nt = Ok d', T := conv d',
   lexid := next_rowid (lexicons of d) (= the rowid of the new lexicon), and ANY Wordnet w with
   wn_lexicon_ids w = [lexid] (K4 also: wn_default_mode w = false); in the example of Part 5 such a w is
   obtained from the model's Wordnet_init.  Boolean hypotheses, each with Examples satisfying them:
     new_lexicon d L : (id, version) is not in d and L is not an extension (else _precheck skips L)
     wf_db d         : stored synsets / entries / senses refer to lexicon rowids below lexid, stored forms to
                       entry rowids below the next one; implied by AddProofs.fk_ok ([fk_ok_wf_db])
     wf_lex L        : (K3, K4 only) local entry / synset ids are non-empty strings, pairwise distinct; the
                       synset of every local sense of a local entry is a local synset; an external entry
                       carries no local form or sense.  None of the three can be dropped: [wf_db_needed],
                       [nonempty_ids_needed], [inert_external_needed].
   Main theorems (all in document order, as list statements — the queries scan in rowid order):
     K1_synsets K1_entries K1_forms K1_senses : the typed tables of conv d' = those of conv d ++ the typed
                       rows of the document's elements ([typed_*_fields]: the typed fields are the document's)
     K2_synsets / K2_synset_ids : Wordnet_synsets T w None None None vs the local Synset elements
     K3_words / K3_word_ids     : Wordnet_words T w None None vs the local LexicalEntry elements
                                  (id, pos of the Lemma, forms = lemma then local Forms: written form, id, script)
     K4_senses / K4_sense_ids   : Wordnet_senses T w None None vs the local Sense elements; Sense_word and
                                  Sense_synset of each are the listed word / synset of its entry / synset id

   Contents (section headings of the file)
     Part 1  the bridge: [conv] table by table ([conv_synsets] ...), cells ([conv_cell])
     Part 2  document accessors ([doc_text], [doc_otext], [written]); K1 for synsets
     Part 3  hypotheses [new_lexicon], [wf_db]          Part 4  K2: the synsets
     then    K1 for entries, forms, senses; generic list lemmas; find_entries on entries grouped with
             their forms; [wf_lex]; resolution of the sub-selects ENTRY_QUERY / SYNSET_QUERY; the rows of
             forms; Section Added (K3 and K4 for add_one_lexicon); the theorems from add_lexical_resource;
             wf_db from fk_ok
     Part 5  validation of conv on real data, a worked example, counterexamples, Print Assumptions
   (ComposeSamples.v checks the bridge and the theorems on recorded run_add cases.) *)
From Coq Require Import ZArith List Bool Lia String.
Import ListNotations.
Require Import WnV.Base.Sx WnV.Model.Spec WnV.Model.Val.
Require WnV.Model.Rel WnV.Model.Add WnV.Proofs.AddProofs WnV.Proofs.AddContent.
Require Import WnV.Model.Tables WnV.Model.Query WnV.Model.Core.
Require Import WnV.Proofs.CoreLemmas WnV.Proofs.QueryFacts WnV.Proofs.ScopeProofs WnV.Proofs.SearchProofs
        WnV.Proofs.NavProofs.
Module R := WnV.Model.Rel.
Module A := WnV.Model.Add.
Module AP := WnV.Proofs.AddProofs.
Module AC := WnV.Proofs.AddContent.
Local Open Scope Z_scope.
Local Open Scope string_scope.

(* ====================================================================== *)
(* Part 1 — the bridge                                                     *)
(* ====================================================================== *)
Definition conv (d : R.db) : Tables.db := Tables.db_of_sx (R.sx_of_db d).

(* what the Tables decoder reads from an encoded Rel cell: a metadata cell reads as NULL *)
Definition conv_cell (c : R.cell) : Tables.cell :=
  match c with
  | R.CNull => CNull
  | R.CInt n => CInt n
  | R.CText s => CText s
  | R.CMeta _ => CNull
  end.
Definition conv_row (r : R.row) : Tables.row := map conv_cell r.

Lemma map_sx_z_A : forall s : str, map sx_z (map A s) = s.
Proof. induction s as [|c s IH]; simpl; [reflexivity|]. rewrite IH. reflexivity. Qed.

Lemma cell_of_sx_of_cell : forall c, Tables.cell_of_sx (R.sx_of_cell c) = conv_cell c.
Proof.
  intros [|n|s|v]; simpl; try reflexivity.
  - unfold sx_of_str. rewrite map_sx_z_A. reflexivity.
  - destruct v; reflexivity.
Qed.

Lemma row_of_sx_of_row : forall r, Tables.row_of_sx (L (map R.sx_of_cell r)) = conv_row r.
Proof.
  intro r. unfold row_of_sx, conv_row. simpl sx_list. rewrite map_map.
  apply map_ext. apply cell_of_sx_of_cell.
Qed.

(* the rows that the Tables decoder finds for table [t] are the rows of the Rel table [t] *)
Lemma table_rows_conv : forall (t : string) (d : R.db),
    table_rows (S_ t) (sx_list (R.sx_of_db d)) = map conv_row (R.get_table d t).
Proof.
  intros t d. unfold R.sx_of_db. simpl sx_list. unfold R.get_table.
  induction d as [|[n rows] d IH]; simpl; [reflexivity|].
  unfold sx_str, sx_of_str. simpl sx_list. rewrite map_sx_z_A.
  change (R.tn t) with (S_ t) in *.
  destruct (str_eqb n (S_ t)).
  - simpl. rewrite map_map. apply map_ext. apply row_of_sx_of_row.
  - exact IH.
Qed.

Lemma conv_lexicons : forall d,
    t_lexicons (conv d) = map (fun r => lexicon_of_row (conv_row r)) (R.get_table d "lexicons").
Proof. intro d. unfold conv, db_of_sx. cbn [t_lexicons]. rewrite table_rows_conv, map_map. reflexivity. Qed.
Lemma conv_synsets : forall d,
    t_synsets (conv d) = map (fun r => synset_of_row (conv_row r)) (R.get_table d "synsets").
Proof. intro d. unfold conv, db_of_sx. cbn [t_synsets]. rewrite table_rows_conv, map_map. reflexivity. Qed.
Lemma conv_entries : forall d,
    t_entries (conv d) = map (fun r => entry_of_row (conv_row r)) (R.get_table d "entries").
Proof. intro d. unfold conv, db_of_sx. cbn [t_entries]. rewrite table_rows_conv, map_map. reflexivity. Qed.
Lemma conv_forms : forall d,
    t_forms (conv d) = map (fun r => form_of_row (conv_row r)) (R.get_table d "forms").
Proof. intro d. unfold conv, db_of_sx. cbn [t_forms]. rewrite table_rows_conv, map_map. reflexivity. Qed.
Lemma conv_senses : forall d,
    t_senses (conv d) = map (fun r => sense_of_row (conv_row r)) (R.get_table d "senses").
Proof. intro d. unfold conv, db_of_sx. cbn [t_senses]. rewrite table_rows_conv, map_map. reflexivity. Qed.

(* the typed rows *)
Definition typed_synset (r : R.row) : Tables.synset_row := synset_of_row (conv_row r).
Definition typed_entry (r : R.row) : Tables.entry_row := entry_of_row (conv_row r).
Definition typed_form (r : R.row) : Tables.form_row := form_of_row (conv_row r).
Definition typed_sense (r : R.row) : Tables.sense_row := sense_of_row (conv_row r).

(* a column of a converted row *)
Lemma col_conv_row : forall i r, Tables.col i (conv_row r) = conv_cell (R.cell_at i r).
Proof.
  intros i r. unfold Tables.col, conv_row, R.cell_at.
  change CNull with (conv_cell R.CNull) at 1. apply map_nth.
Qed.

(* ====================================================================== *)
(* Part 2 — document accessors, typed fields of the added rows (K1)        *)
(* ====================================================================== *)
(* the text stored in a TEXT column for a document value: strings as they are, integers and
   booleans (bound as 0/1) in decimal; anything else is not text (NULL or a metadata object) *)
Definition doc_otext (v : val) : option str :=
  match v with
  | VStr s => Some s
  | VInt n => Some (R.dec_of_Z n)
  | VBool b => Some (R.dec_of_Z (if b then 1 else 0))
  | _ => None
  end.
Definition doc_text (v : val) : str := match doc_otext v with Some s => s | None => [] end.
(* the written form of a Lemma / Form element *)
Definition written (x : val) : str := match A.vgetk x "writtenForm" with VStr s => s | _ => [] end.

Lemma vhas_false_vget : forall d key, vhas d key = false -> vget d key = VNone.
Proof.
  intros [| | | | |kvs] key H; try reflexivity. simpl in *.
  induction kvs as [|kv kvs IH]; simpl in *; [reflexivity|].
  destruct (str_eqb (fst kv) key); [discriminate|]. apply IH. exact H.
Qed.
Lemma vget_vhas : forall d key, vget d key <> VNone -> vhas d key = true.
Proof.
  intros d key H. destruct (vhas d key) eqn:E; [reflexivity|]. apply vhas_false_vget in E. contradiction.
Qed.
Lemma vreq_VStr : forall x key s, A.vgetk x key = VStr s -> A.vreq x key = R.Ok (VStr s).
Proof.
  intros x key s H. unfold A.vreq. unfold A.vgetk in H. rewrite vget_vhas by (rewrite H; discriminate).
  rewrite H. reflexivity.
Qed.
Lemma preq_VStr : forall x key s, A.vgetk x key = VStr s -> A.preq x key = R.Ok (R.CText s).
Proof. intros x key s H. unfold A.preq. rewrite (vreq_VStr _ _ _ H). reflexivity. Qed.

(* the cell bound for x[key], read back as text *)
Lemma otext_preq : forall x key,
    c_otext (conv_cell (R.coerce "TEXT" (AC.pcell (A.preq x key)))) = doc_otext (A.vgetk x key).
Proof.
  intros x key. unfold A.preq, A.vreq, A.vgetk. destruct (vhas x (A.k key)) eqn:E.
  - simpl R.bind. destruct (vget x (A.k key)) as [|b|n|s|l|kvs]; reflexivity.
  - rewrite (vhas_false_vget _ _ E). reflexivity.
Qed.
Lemma text_preq : forall x key,
    c_text (conv_cell (R.coerce "TEXT" (AC.pcell (A.preq x key)))) = doc_text (A.vgetk x key).
Proof.
  intros x key. unfold doc_text. rewrite <- otext_preq.
  destruct (conv_cell (R.coerce "TEXT" (AC.pcell (A.preq x key)))); reflexivity.
Qed.
Lemma otext_param : forall v,
    c_otext (conv_cell (R.coerce "TEXT" (AC.pcell (A.param v)))) = doc_otext v.
Proof. intros [|b|n|s|l|kvs]; reflexivity. Qed.

(* numbering rows = enumerating the elements they come from *)
Lemma number_from_map : forall {X} (f : X -> list R.cell) l n,
    AC.number_from n (map f l)
    = map (fun kx : Z * X => R.CInt (fst kx) :: f (snd kx)) (A.enumerate_from n l).
Proof.
  intros X f l. induction l as [|x l IH]; intro n; simpl; [reflexivity|]. rewrite IH. reflexivity.
Qed.
Lemma enumerate_snd : forall {X} (l : list X) n, map snd (A.enumerate_from n l) = l.
Proof. intros X l. induction l as [|x l IH]; intro n; simpl; [reflexivity|]. rewrite IH. reflexivity. Qed.
Lemma enumerate_fst_ge : forall {X} (l : list X) n kx, In kx (A.enumerate_from n l) -> n <= fst kx.
Proof.
  intros X l. induction l as [|x l IH]; intros n kx H; simpl in H; [destruct H|].
  destruct H as [<-|H]; [simpl; lia|]. apply IH in H. lia.
Qed.
Lemma enumerate_fst_NoDup : forall {X} (l : list X) n, NoDup (map fst (A.enumerate_from n l)).
Proof.
  intros X l. induction l as [|x l IH]; intro n; simpl; [constructor|]. constructor; [|apply IH].
  intro H. apply in_map_iff in H. destruct H as [kx [E Hin]]. apply enumerate_fst_ge in Hin. lia.
Qed.
Lemma enumerate_app : forall {X} (a b : list X) n,
    A.enumerate_from n (a ++ b)%list
    = (A.enumerate_from n a ++ A.enumerate_from (n + Z.of_nat (List.length a)) b)%list.
Proof.
  intros X a. induction a as [|x a IH]; intros b n; simpl.
  - rewrite Z.add_0_r. reflexivity.
  - rewrite IH. do 3 f_equal. lia.
Qed.

(* ---------- K1, synsets ---------- *)
(* table "synsets" of conv d' = that of conv d followed by the typed rows of the new Rel rows *)
Lemma K1_table : forall {T} (typed : R.row -> T) t d d' vss,
    AC.App t d d' vss ->
    map typed (R.get_table d' t)
    = (map typed (R.get_table d t) ++ map typed (AC.number_from (R.next_rowid (R.get_table d t)) vss))%list.
Proof. intros T typed t d d' vss H. unfold AC.App in H. rewrite H, map_app. reflexivity. Qed.

(* the fields of the typed row of a local Synset element [ss] of the document *)
Lemma synset_row_cells : forall d lexid ss,
    AC.synset_row d lexid ss
    = [R.coerce "TEXT" (AC.pcell (A.preq ss "id")); R.CInt lexid;
       R.coerce "INTEGER" (AC.ili_lookup d (AC.ilic_of ss));
       R.coerce "TEXT" (AC.pcell (A.preq ss "partOfSpeech"));
       R.coerce "BOOLEAN" (AC.pcell (A.param (A.vget_def ss "lexicalized" (VBool true))));
       R.coerce "INTEGER" (A.LEXFILE_QUERY d (AC.pcell (A.param (A.vgetk ss "lexfile"))));
       R.coerce "META" (AC.pcell (A.preq ss "meta"))].
Proof. reflexivity. Qed.

Lemma typed_synset_fields : forall d lexid ss k0,
    let y := typed_synset (R.CInt k0 :: AC.synset_row d lexid ss) in
    sy_rowid y = k0 /\ sy_id y = doc_text (A.vgetk ss "id") /\ sy_lexicon_rowid y = lexid
    /\ sy_pos y = doc_otext (A.vgetk ss "partOfSpeech").
Proof.
  intros d lexid ss k0. rewrite synset_row_cells. cbv zeta.
  unfold typed_synset, synset_of_row. cbn [sy_rowid sy_id sy_lexicon_rowid sy_pos].
  rewrite !col_conv_row. unfold R.cell_at. cbn [nth].
  rewrite text_preq, otext_preq. repeat split; reflexivity.
Qed.

(* K1 (synsets): the typed synsets of conv d' are those of conv d followed, in document order, by
   one row per local Synset element, with consecutive fresh rowids *)
Theorem K1_synsets : forall nt L d d',
    A.add_one_lexicon nt L d = R.Ok d' ->
    let lexid := R.next_rowid (R.get_table d "lexicons") in
    t_synsets (conv d')
    = (t_synsets (conv d)
       ++ map (fun kx : Z * val => typed_synset (R.CInt (fst kx) :: AC.synset_row d' lexid (snd kx)))
              (A.enumerate_from (R.next_rowid (R.get_table d "synsets")) (A._local_synsets (A._synsets L))))%list.
Proof.
  intros nt L d d' H lexid. destruct (AC.one_lexicon_synsets nt L d d' H) as [HA _]. fold lexid in HA.
  rewrite !conv_synsets. rewrite (K1_table _ _ _ _ _ HA). f_equal.
  rewrite number_from_map, map_map. reflexivity.
Qed.

(* ====================================================================== *)
(* Part 3 — hypotheses                                                     *)
(* ====================================================================== *)
(* ---------- the lexicon of the resource is new and is not an extension ----------
   (otherwise _precheck skips it and nothing is added) *)
Definition new_lexicon (d : R.db) (L : val) : bool :=
  match A.lexqry d L with R.Ok false => true | _ => false end
  && negb (vtruthy (A.vgetk L "extends")).

Lemma single_new_lexicon : forall d r nt d' L,
    A.add_lexical_resource d r nt = R.Ok d' -> A.vreq r "lexicons" = R.Ok (VList [L]) ->
    new_lexicon d L = true -> A.add_one_lexicon nt L d = R.Ok d'.
Proof.
  intros d r nt d' L H Hr Hn. destruct (AC.add_single_lexicon d r nt d' L H Hr) as [skipmap [Hp Hadd]].
  apply Hadd. clear Hadd H Hr.
  unfold new_lexicon in Hn. apply andb_true_iff in Hn. destruct Hn as [Hq Hext].
  apply negb_true_iff in Hext.
  destruct (A.lexqry d L) as [[|]| |] eqn:El; try discriminate. clear Hq.
  unfold A._precheck in Hp. cbn [R.foldM] in Hp.
  apply AP.bind_ok in Hp. destruct Hp as [s1 [H1 H2]]. injection H2 as <-.
  apply AP.bind_ok in H1. destruct H1 as [id [Hid H1]].
  apply AP.bind_ok in H1. destruct H1 as [ver [Hver H1]].
  cbv zeta in H1. rewrite El in H1. cbn [R.bind] in H1. rewrite Hext in H1. injection H1 as <-.
  unfold AC.not_skipped, AC.lexicon_spec. rewrite Hid, Hver. cbn [AC.pv].
  unfold A.dict_get. simpl. rewrite str_eqb_refl. reflexivity.
Qed.

(* ---------- the database to which the lexicon is added ----------
   the lexicon_rowid of every stored synset, entry and sense is below the next lexicon rowid, and
   the entry_rowid of every stored form is below the next entry rowid (both follow from the
   foreign keys: see [fk_ok_wf_db]) *)
Definition wf_db (d : R.db) : bool :=
  let T := conv d in
  let lexid := R.next_rowid (R.get_table d "lexicons") in
  forallb (fun y => Z.ltb (sy_lexicon_rowid y) lexid) (t_synsets T)
  && forallb (fun e => Z.ltb (en_lexicon_rowid e) lexid) (t_entries T)
  && forallb (fun s => Z.ltb (se_lexicon_rowid s) lexid) (t_senses T)
  && forallb (fun f => Z.ltb (fm_entry_rowid f) (R.next_rowid (R.get_table d "entries"))) (t_forms T).

Lemma wf_db_synsets : forall d y, wf_db d = true -> In y (t_synsets (conv d)) ->
    sy_lexicon_rowid y < R.next_rowid (R.get_table d "lexicons").
Proof.
  intros d y H Hy. unfold wf_db in H. cbv zeta in H. repeat (apply andb_true_iff in H; destruct H as [H ?]).
  rewrite forallb_forall in H. apply Z.ltb_lt. apply H. exact Hy.
Qed.
Lemma wf_db_entries : forall d e, wf_db d = true -> In e (t_entries (conv d)) ->
    en_lexicon_rowid e < R.next_rowid (R.get_table d "lexicons").
Proof.
  intros d e H He. unfold wf_db in H. cbv zeta in H. repeat (apply andb_true_iff in H; destruct H as [H ?]).
  match goal with H1 : forallb _ (t_entries _) = true |- _ => rewrite forallb_forall in H1; apply Z.ltb_lt; apply H1 end.
  exact He.
Qed.
Lemma wf_db_senses : forall d s, wf_db d = true -> In s (t_senses (conv d)) ->
    se_lexicon_rowid s < R.next_rowid (R.get_table d "lexicons").
Proof.
  intros d s H Hs. unfold wf_db in H. cbv zeta in H. repeat (apply andb_true_iff in H; destruct H as [H ?]).
  match goal with H1 : forallb _ (t_senses _) = true |- _ => rewrite forallb_forall in H1; apply Z.ltb_lt; apply H1 end.
  exact Hs.
Qed.
Lemma wf_db_forms : forall d f, wf_db d = true -> In f (t_forms (conv d)) ->
    fm_entry_rowid f < R.next_rowid (R.get_table d "entries").
Proof.
  intros d f H Hf. unfold wf_db in H. cbv zeta in H. repeat (apply andb_true_iff in H; destruct H as [H ?]).
  match goal with H1 : forallb _ (t_forms _) = true |- _ => rewrite forallb_forall in H1; apply Z.ltb_lt; apply H1 end.
  exact Hf.
Qed.

(* ---------- list helpers ---------- *)
Lemma filter_none_in : forall {X} (p : X -> bool) l, (forall x, In x l -> p x = false) -> filter p l = [].
Proof.
  intros X p l. induction l as [|a l IH]; intro H; simpl; [reflexivity|].
  rewrite (H a (or_introl eq_refl)). apply IH. intros x Hx. apply H. right. exact Hx.
Qed.
Lemma filter_all_in : forall {X} (p : X -> bool) l, (forall x, In x l -> p x = true) -> filter p l = l.
Proof.
  intros X p l. induction l as [|a l IH]; intro H; simpl; [reflexivity|].
  rewrite (H a (or_introl eq_refl)). f_equal. apply IH. intros x Hx. apply H. right. exact Hx.
Qed.
Lemma nodup_by_NoDup_key : forall {X} (eqb : X -> X -> bool) (key : X -> Z) l,
    (forall a b, eqb a b = true -> key a = key b) -> NoDup (map key l) -> nodup_by eqb l.
Proof.
  intros X eqb key l Hk. induction l as [|a l IH]; intro Hnd; [constructor|].
  simpl in Hnd. inversion Hnd as [|k ks Hnot Hnd']. subst. constructor; [|apply IH; exact Hnd'].
  intros y Hy. destruct (eqb y a) eqn:E; [|reflexivity]. apply Hk in E. exfalso. apply Hnot.
  rewrite <- E. apply in_map. exact Hy.
Qed.
Lemma Forall2_enum : forall {X Y} (P : Y -> X -> Prop) (f : Z * X -> Y) l n,
    (forall k0 x, In x l -> P (f (k0, x)) x) -> Forall2 P (map f (A.enumerate_from n l)) l.
Proof.
  intros X Y P f l. induction l as [|x l IH]; intros n H; simpl; constructor.
  - apply H. left. reflexivity.
  - apply IH. intros k0 y Hy. apply H. right. exact Hy.
Qed.

(* ====================================================================== *)
(* Part 4 — K2: the synsets                                                *)
(* ====================================================================== *)
Lemma find_synsets_all : forall T lexid saf,
    find_synsets T None [] None None [lexid] false saf
    = dedup q_synset_eqb
        (map (synset_columns T) (filter (fun y => Z.eqb (sy_lexicon_rowid y) lexid) (t_synsets T))).
Proof.
  intros T lexid saf. unfold find_synsets. cbn [nonempty]. f_equal. f_equal. apply filter_ext.
  intro y. unfold synset_conditions. simpl. rewrite orb_false_r. reflexivity.
Qed.

(* the Synset objects of the new lexicon: one per local Synset element, in document order *)
Definition doc_Synset (T : Tables.db) (w : Wordnet) (d' : R.db) (lexid : Z) (kx : Z * val) : Synset :=
  mk_Synset w (synset_columns T (typed_synset (R.CInt (fst kx) :: AC.synset_row d' lexid (snd kx)))).

Theorem K2_rows : forall nt L d d' w,
    A.add_one_lexicon nt L d = R.Ok d' -> wf_db d = true ->
    let lexid := R.next_rowid (R.get_table d "lexicons") in
    wn_lexicon_ids w = [lexid] ->
    Wordnet_synsets (conv d') w None None None
    = map (doc_Synset (conv d') w d' lexid)
          (A.enumerate_from (R.next_rowid (R.get_table d "synsets")) (A._local_synsets (A._synsets L))).
Proof.
  intros nt L d d' w H Hwf lexid Hw.
  unfold Wordnet_synsets, _find_helper. rewrite Hw, find_synsets_all.
  rewrite (K1_synsets nt L d d' H). fold lexid. rewrite filter_app.
  rewrite (filter_none_in _ (t_synsets (conv d))).
  2:{ intros y Hy. apply Z.eqb_neq. pose proof (wf_db_synsets d y Hwf Hy) as Hlt. fold lexid in Hlt. lia. }
  cbn [app]. rewrite filter_all_in.
  2:{ intros y Hy. apply in_map_iff in Hy. destruct Hy as [[k0 ss] [<- _]]. cbn [fst snd].
      destruct (typed_synset_fields d' lexid ss k0) as (_ & _ & E & _). rewrite E. apply Z.eqb_refl. }
  rewrite dedup_id.
  - rewrite map_map. rewrite map_map. reflexivity.
  - apply (nodup_by_NoDup_key _ qy_rowid).
    + intros a b E. apply q_synset_eqb_eq in E. subst. reflexivity.
    + rewrite !map_map.
      rewrite (map_ext _ (fun kx : Z * val => fst kx)); [apply enumerate_fst_NoDup|].
      intros [k0 ss]. cbn [fst snd]. destruct (typed_synset_fields d' lexid ss k0) as (E & _). exact E.
Qed.

(* (K2) the synsets that the API lists for the new lexicon are exactly the local Synset elements of
   the document, in document order, each with the document's id and part of speech *)
Theorem K2_synsets : forall d r nt d' L w,
    A.add_lexical_resource d r nt = R.Ok d' -> A.vreq r "lexicons" = R.Ok (VList [L]) ->
    new_lexicon d L = true -> wf_db d = true ->
    let lexid := R.next_rowid (R.get_table d "lexicons") in
    wn_lexicon_ids w = [lexid] ->
    Forall2 (fun (y : Synset) (ss : val) =>
               ss_id y = doc_text (A.vgetk ss "id")
               /\ ss_pos y = doc_otext (A.vgetk ss "partOfSpeech")
               /\ ss_lexid y = lexid /\ ss_wordnet y = w)
            (Wordnet_synsets (conv d') w None None None)
            (A._local_synsets (A._synsets L)).
Proof.
  intros d r nt d' L w H Hr Hn Hwf lexid Hw.
  pose proof (single_new_lexicon d r nt d' L H Hr Hn) as Hadd.
  rewrite (K2_rows nt L d d' w Hadd Hwf Hw). fold lexid.
  apply Forall2_enum. intros k0 ss _. unfold doc_Synset. cbn [fst snd mk_Synset ss_id ss_pos ss_lexid ss_wordnet].
  destruct (typed_synset_fields d' lexid ss k0) as (_ & E1 & E2 & E3).
  unfold synset_columns. cbn [qy_id qy_pos qy_lexid]. rewrite E1, E2, E3. repeat split; reflexivity.
Qed.

Corollary K2_synset_ids : forall d r nt d' L w,
    A.add_lexical_resource d r nt = R.Ok d' -> A.vreq r "lexicons" = R.Ok (VList [L]) ->
    new_lexicon d L = true -> wf_db d = true ->
    wn_lexicon_ids w = [R.next_rowid (R.get_table d "lexicons")] ->
    map ss_id (Wordnet_synsets (conv d') w None None None)
    = map (fun ss => doc_text (A.vgetk ss "id")) (A._local_synsets (A._synsets L))
    /\ map ss_pos (Wordnet_synsets (conv d') w None None None)
       = map (fun ss => doc_otext (A.vgetk ss "partOfSpeech")) (A._local_synsets (A._synsets L)).
Proof.
  intros d r nt d' L w H Hr Hn Hwf Hw.
  pose proof (K2_synsets d r nt d' L w H Hr Hn Hwf Hw) as HF. cbv zeta in HF.
  induction HF as [|y ss ys sss (E1 & E2 & _) HF [IH1 IH2]]; [split; reflexivity|].
  simpl. rewrite E1, E2, IH1, IH2. split; reflexivity.
Qed.

(* ====================================================================== *)
(* K1 — entries, forms, senses                                             *)
(* ====================================================================== *)
Lemma pv_vreq : forall x key, AC.pv (A.vreq x key) = A.vgetk x key.
Proof.
  intros x key. unfold A.vreq, A.vgetk. destruct (vhas x (A.k key)) eqn:E; [reflexivity|].
  rewrite (vhas_false_vget _ _ E). reflexivity.
Qed.

(* ---------- entries ---------- *)
(* the part of speech of a LexicalEntry element is that of its Lemma *)
Definition doc_pos (e : val) : str := doc_text (A.vgetk (A.vgetk e "lemma") "partOfSpeech").

Lemma entry_row_cells : forall lexid e,
    AC.entry_row lexid e
    = [R.coerce "TEXT" (AC.pcell (A.preq e "id")); R.CInt lexid;
       R.coerce "TEXT" (AC.pcell (R.bind (A.vreq e "lemma") (fun lemma => A.preq lemma "partOfSpeech")));
       R.coerce "META" (AC.pcell (A.preq e "meta"))].
Proof. reflexivity. Qed.

Lemma typed_entry_fields : forall lexid e k0,
    let x := typed_entry (R.CInt k0 :: AC.entry_row lexid e) in
    en_rowid x = k0 /\ en_id x = doc_text (A.vgetk e "id") /\ en_lexicon_rowid x = lexid
    /\ en_pos x = doc_pos e.
Proof.
  intros lexid e k0. rewrite entry_row_cells. cbv zeta.
  unfold typed_entry, entry_of_row. cbn [en_rowid en_id en_lexicon_rowid en_pos].
  rewrite !col_conv_row. unfold R.cell_at. cbn [nth]. rewrite text_preq.
  repeat split; try reflexivity.
  unfold doc_pos. unfold A.vreq at 1. fold (A.vgetk e "lemma"). destruct (vhas e (A.k "lemma")) eqn:E.
  - cbn [R.bind]. apply text_preq.
  - assert (A.vgetk e "lemma" = VNone) as -> by (unfold A.vgetk; apply vhas_false_vget; exact E).
    reflexivity.
Qed.

Theorem K1_entries : forall nt L d d',
    A.add_one_lexicon nt L d = R.Ok d' ->
    let lexid := R.next_rowid (R.get_table d "lexicons") in
    t_entries (conv d')
    = (t_entries (conv d)
       ++ map (fun kx : Z * val => typed_entry (R.CInt (fst kx) :: AC.entry_row lexid (snd kx)))
              (A.enumerate_from (R.next_rowid (R.get_table d "entries")) (A._local_entries (A._entries L))))%list.
Proof.
  intros nt L d d' H lexid. pose proof (AC.one_lexicon_entries nt L d d' H) as HA. fold lexid in HA.
  rewrite !conv_entries. rewrite (K1_table _ _ _ _ _ HA). f_equal.
  rewrite number_from_map, map_map. reflexivity.
Qed.

(* ---------- a lexicon that is not an extension has an empty lexidmap ---------- *)
Lemma not_extension_extid : forall L d d2 lexid extid,
    vtruthy (A.vgetk L "extends") = false ->
    A._insert_lexicon L d = R.Ok (d2, lexid, extid) -> extid = lexid.
Proof.
  intros L d d2 lexid extid Hext H. unfold A._insert_lexicon in H.
  repeat AP.mstep; congruence.
Qed.
Lemma not_extension_lexidmap : forall L d d2 lexid extid m,
    vtruthy (A.vgetk L "extends") = false ->
    A._insert_lexicon L d = R.Ok (d2, lexid, extid) -> A._build_lexid_map L lexid extid = R.Ok m -> m = [].
Proof.
  intros L d d2 lexid extid m Hext H Hm. rewrite (not_extension_extid _ _ _ _ _ Hext H) in Hm.
  unfold A._build_lexid_map in Hm. rewrite Z.eqb_refl in Hm. injection Hm as <-. reflexivity.
Qed.

(* the forms and senses tables, with the lexidmap made explicit *)
Lemma one_lexicon_forms_senses : forall nt L d d',
    A.add_one_lexicon nt L d = R.Ok d' -> vtruthy (A.vgetk L "extends") = false ->
    let lx := R.next_rowid (R.get_table d "lexicons") in
    AC.App "forms" d d' (flat_map (AC.entry_form_rows d' nt lx []) (A._entries L))
    /\ AC.App "senses" d d'
              (flat_map (AC.entry_sense_rows d' lx [] (AC.ssrank_of (A._synsets L))) (A._entries L)).
Proof.
  intros nt L d d' H Hext. AC.one_inv H.
  destruct (AC.app_insert_lexicon _ _ _ _ _ H2) as [_ Hlex].
  assert (m = []) as -> by (eapply not_extension_lexidmap; eassumption).
  destruct (AC.ins_insert_forms _ _ _ _ _ _ H5) as [HAf _].
  destruct (AC.ins_insert_senses _ _ _ _ _ _ H8) as [HAs _].
  AC.oc_facts.
  assert (lexid = R.next_rowid (R.get_table d "lexicons")) as <-.
  { rewrite Hlex. AC.tbl_eq "lexicons". reflexivity. }
  cbv zeta. split.
  - rewrite (flat_map_ext _ (AC.entry_form_rows d4 nt lexid [])).
    + unfold AC.App in *. AC.tbl_eq "forms". rewrite HAf. AC.tbl_eq "forms". reflexivity.
    + intro e. apply AC.entry_form_rows_ext. AC.tbl_eq "entries". reflexivity.
  - rewrite (flat_map_ext _ (AC.entry_sense_rows d7 lexid [] (AC.ssrank_of (A._synsets L)))).
    + unfold AC.App in *. AC.tbl_eq "senses". rewrite HAs. AC.tbl_eq "senses". reflexivity.
    + intro e. apply AC.entry_sense_rows_ext; [AC.tbl_eq "entries"|AC.tbl_eq "synsets"]; reflexivity.
Qed.

(* ====================================================================== *)
(* Generic list lemmas                                                     *)
(* ====================================================================== *)
Lemma NoDup_map_inj : forall {X Y} (f : X -> Y) l a b,
    NoDup (map f l) -> In a l -> In b l -> f a = f b -> a = b.
Proof.
  intros X Y f l. induction l as [|x l IH]; intros a b Hnd Ha Hb E; [destruct Ha|].
  simpl in Hnd. inversion Hnd as [|y ys Hnot Hnd']. subst.
  destruct Ha as [->|Ha]; destruct Hb as [->|Hb].
  - reflexivity.
  - exfalso. apply Hnot. rewrite E. apply in_map. exact Hb.
  - exfalso. apply Hnot. rewrite <- E. apply in_map. exact Ha.
  - apply IH; assumption.
Qed.

(* a scalar sub-select over  old rows ++ new rows : no old row matches, exactly one new row does *)
Lemma find_resolve : forall {X} (p : R.row -> bool) (mk : X -> R.row) old (l : list X) x,
    (forall r, In r old -> p r = false) -> In x l -> p (mk x) = true ->
    (forall x', In x' l -> p (mk x') = true -> x' = x) ->
    find p (old ++ map mk l)%list = Some (mk x).
Proof.
  intros X p mk old l x Hold Hin Hp Huniq.
  rewrite AC.find_app_none.
  2:{ clear - Hold. induction old as [|r old IH]; simpl; [reflexivity|].
      rewrite (Hold r (or_introl eq_refl)). apply IH. intros r' Hr'. apply Hold. right. exact Hr'. }
  clear Hold. induction l as [|y l IH]; [destruct Hin|]. simpl.
  destruct (p (mk y)) eqn:Ey.
  - rewrite (Huniq y (or_introl eq_refl) Ey). reflexivity.
  - destruct Hin as [->|Hin]; [congruence|]. apply IH; [exact Hin|].
    intros x' Hx' Hp'. apply Huniq; [right; exact Hx'|exact Hp'].
Qed.

Lemma find_by_app_none : forall {X} (key : X -> Z) k0 a b,
    (forall x, In x a -> key x <> k0) -> find_by key k0 (a ++ b)%list = find_by key k0 b.
Proof.
  intros X key k0 a b H. induction a as [|x a IH]; simpl; [reflexivity|].
  destruct (Z.eqb (key x) k0) eqn:E.
  - apply Z.eqb_eq in E. exfalso. apply (H x); [left; reflexivity|exact E].
  - apply IH. intros y Hy. apply H. right. exact Hy.
Qed.
Lemma find_by_map_enum : forall {X Y} (key : Y -> Z) (mk : Z * X -> Y) (l : list (Z * X)) kx,
    (forall kx', key (mk kx') = fst kx') -> NoDup (map fst l) -> In kx l ->
    find_by key (fst kx) (map mk l) = Some (mk kx).
Proof.
  intros X Y key mk l kx Hkey Hnd Hin. induction l as [|y l IH]; [destruct Hin|]. simpl.
  rewrite Hkey. destruct (Z.eqb (fst y) (fst kx)) eqn:E.
  - apply Z.eqb_eq in E. f_equal. f_equal.
    apply (NoDup_map_inj fst (y :: l)); [exact Hnd|left; reflexivity|exact Hin|exact E].
  - destruct Hin as [->|Hin]; [rewrite Z.eqb_refl in E; discriminate|].
    simpl in Hnd. inversion Hnd. apply IH; assumption.
Qed.

Lemma flat_map_filter_nil : forall {X Y} (f : X -> list Y) (p : X -> bool) l,
    (forall x, In x l -> p x = false -> f x = []) -> flat_map f l = flat_map f (filter p l).
Proof.
  intros X Y f p l H. induction l as [|x l IH]; simpl; [reflexivity|].
  rewrite IH by (intros y Hy; apply H; right; exact Hy).
  destruct (p x) eqn:E; [reflexivity|]. rewrite (H x (or_introl eq_refl) E). reflexivity.
Qed.
Lemma flat_map_map : forall {X Y Z0} (g : X -> Y) (f : Y -> list Z0) l,
    flat_map f (map g l) = flat_map (fun x => f (g x)) l.
Proof. intros X Y Z0 g f l. induction l as [|x l IH]; simpl; [reflexivity|]. rewrite IH. reflexivity. Qed.

(* ---------- an already sorted list is left alone by the stable sort ---------- *)
From Coq Require Import Sorting.Sorted.
Lemma stable_sort_sorted_id : forall {X} (le : X -> X -> bool) l,
    Sorted (fun a b => le a b = true) l -> stable_sort le l = l.
Proof.
  intros X le l H. induction H as [|a l Hs IH Hhd]; simpl; [reflexivity|].
  rewrite IH. destruct Hhd as [|b l' Hab]; simpl; [reflexivity|]. rewrite Hab. reflexivity.
Qed.
Lemma Sorted_app_cross : forall {X} (Rl : X -> X -> Prop) a b,
    Sorted Rl a -> Sorted Rl b -> (forall x y, In x a -> In y b -> Rl x y) -> Sorted Rl (a ++ b)%list.
Proof.
  intros X Rl a b Ha Hb Hx. induction Ha as [|x a Hs IH Hhd]; simpl; [exact Hb|].
  constructor.
  - apply IH. intros u v Hu Hv. apply Hx; [right; exact Hu|exact Hv].
  - destruct Hhd as [|y a' Hxy]; simpl.
    + destruct b as [|y b']; constructor. apply Hx; left; reflexivity.
    + constructor. exact Hxy.
Qed.
Lemma Sorted_map : forall {X Y} (Rl : Y -> Y -> Prop) (f : X -> Y) l,
    Sorted (fun a b => Rl (f a) (f b)) l -> Sorted Rl (map f l).
Proof.
  intros X Y Rl f l H. induction H as [|a l Hs IH Hhd]; simpl; constructor; [exact IH|].
  destruct Hhd as [|b l' Hab]; simpl; constructor. exact Hab.
Qed.

Lemma str_leb_refl : forall a, Tables.str_leb a a = true.
Proof. induction a as [|x a IH]; simpl; [reflexivity|]. rewrite Z.ltb_irrefl. exact IH. Qed.
Lemma str_ltb_irrefl : forall a, Tables.str_ltb a a = false.
Proof. intro a. unfold Tables.str_ltb. rewrite str_leb_refl. reflexivity. Qed.
Lemma Sorted_impl : forall {X} (P Q : X -> X -> Prop) l,
    (forall a b, P a b -> Q a b) -> Sorted P l -> Sorted Q l.
Proof.
  intros X P Q l H Hs. induction Hs as [|a l Hs IH Hhd]; constructor; [exact IH|].
  destruct Hhd as [|b l' Hab]; constructor. apply H. exact Hab.
Qed.

(* ====================================================================== *)
(* find_entries on entries grouped with their forms                        *)
(* ====================================================================== *)
(* an item: a typed entry with its typed forms *)
Definition item := (entry_row * list form_row)%type.
Definition item_key (it : item) : Z := en_rowid (fst it).
Definition block (it : item) : list (entry_row * form_row) := map (fun f => (fst it, f)) (snd it).
Definition word_of_item (it : item) : q_word :=
  {| qw_id := en_id (fst it); qw_pos := en_pos (fst it); qw_forms := map form_columns (snd it);
     qw_lexid := en_lexicon_rowid (fst it); qw_rowid := en_rowid (fst it) |}.
(* every form of an item refers to its entry *)
Definition owns (items : list item) : Prop :=
  forall it f, In it items -> In f (snd it) -> fm_entry_rowid f = item_key it.

Lemma filter_own_group : forall (items : list item) it,
    NoDup (map item_key items) -> owns items -> In it items ->
    filter (fun f => Z.eqb (fm_entry_rowid f) (item_key it)) (List.concat (map snd items)) = snd it.
Proof.
  induction items as [|it0 rest IH]; intros it Hnd Hown Hin; [destruct Hin|].
  simpl in Hnd. inversion Hnd as [|k0 ks Hnot Hnd']. subst.
  assert (owns rest) as Hown' by (intros i f Hi Hf; apply Hown; [right; exact Hi|exact Hf]).
  cbn [map List.concat]. rewrite filter_app. destruct Hin as [->|Hin].
  - rewrite filter_all_in.
    2:{ intros f Hf. apply Z.eqb_eq. apply Hown; [left; reflexivity|exact Hf]. }
    rewrite filter_none_in; [apply app_nil_r|].
    intros f Hf. apply in_concat in Hf. destruct Hf as [g [Hg Hf]]. apply in_map_iff in Hg.
    destruct Hg as [it' [<- Hit']]. apply Z.eqb_neq. rewrite (Hown' it' f Hit' Hf).
    intro E. apply Hnot. rewrite <- E. apply in_map. exact Hit'.
  - rewrite filter_none_in.
    2:{ intros f Hf. apply Z.eqb_neq. rewrite (Hown it0 f (or_introl eq_refl) Hf).
        intro E. apply Hnot. rewrite E. apply in_map. exact Hin. }
    cbn [app]. apply IH; assumption.
Qed.

Lemma entry_form_rows_items : forall (oldF : list form_row) (items : list item),
    NoDup (map item_key items) -> owns items ->
    (forall f it, In f oldF -> In it items -> fm_entry_rowid f <> item_key it) ->
    flat_map (fun e => map (fun f => (e, f))
                           (filter (fun f => Z.eqb (fm_entry_rowid f) (en_rowid e))
                                   (oldF ++ List.concat (map snd items))%list))
             (map fst items)
    = flat_map block items.
Proof.
  intros oldF items Hnd Hown Hold. rewrite flat_map_map. apply AC.flat_map_ext_in_eq.
  intros it Hit. unfold block. f_equal. rewrite filter_app.
  rewrite filter_none_in by (intros f Hf; apply Z.eqb_neq; apply Hold; assumption).
  cbn [app]. apply (filter_own_group items it Hnd Hown Hit).
Qed.

Lemma entry_form_le_same : forall e f f',
    entry_form_le (e, f) (e, f') = oz_leb (fm_rank f) (fm_rank f').
Proof. intros e f f'. unfold entry_form_le. rewrite Z.ltb_irrefl, str_ltb_irrefl. reflexivity. Qed.
Lemma entry_form_le_lt : forall e f e' f', en_rowid e < en_rowid e' -> entry_form_le (e, f) (e', f') = true.
Proof. intros e f e' f' H. unfold entry_form_le. apply Z.ltb_lt in H. rewrite H. reflexivity. Qed.

Lemma blocks_sorted : forall items : list item,
    StronglySorted (fun a b => item_key a < item_key b) items ->
    (forall it, In it items -> Sorted (fun f f' => oz_leb (fm_rank f) (fm_rank f') = true) (snd it)) ->
    Sorted (fun a b => entry_form_le a b = true) (flat_map block items).
Proof.
  intros items Hs. induction Hs as [|it rest Hs IH Hall]; intro Hrank; simpl; [constructor|].
  apply Sorted_app_cross.
  - unfold block. apply Sorted_map. cbn [fst snd].
    apply (Sorted_impl (fun f f' => oz_leb (fm_rank f) (fm_rank f') = true)); [|apply Hrank; left; reflexivity].
    intros a b Hab. rewrite entry_form_le_same. exact Hab.
  - apply IH. intros it' Hit'. apply Hrank. right. exact Hit'.
  - intros [e f] [e' f'] Hx Hy. unfold block in Hx. apply in_map_iff in Hx. destruct Hx as [f0 [E0 _]].
    injection E0 as <- <-. apply in_flat_map in Hy. destruct Hy as [it' [Hit' Hy]].
    unfold block in Hy. apply in_map_iff in Hy. destruct Hy as [f1 [E1 _]]. injection E1 as <- <-.
    apply entry_form_le_lt. rewrite Forall_forall in Hall. apply (Hall it' Hit').
Qed.

Lemma entry_key_eqb_refl : forall e, entry_key_eqb e e = true.
Proof. intro e. unfold entry_key_eqb. rewrite !Z.eqb_refl, !str_eqb_refl. reflexivity. Qed.
Lemma entry_key_eqb_rowid : forall e e', en_rowid e <> en_rowid e' -> entry_key_eqb e e' = false.
Proof.
  intros e e' H. unfold entry_key_eqb. apply Z.eqb_neq in H. rewrite H, andb_false_r. reflexivity.
Qed.

Lemma group_entries_blocks : forall items : list item,
    NoDup (map item_key items) -> (forall it, In it items -> snd it <> []) ->
    group_entries (flat_map block items) = map word_of_item items.
Proof.
  induction items as [|[E g] rest IH]; intros Hnd Hne; [reflexivity|].
  simpl in Hnd. inversion Hnd as [|k0 ks Hnot Hnd']. subst.
  assert (group_entries (flat_map block rest) = map word_of_item rest) as IHr.
  { apply IH; [exact Hnd'|]. intros it Hit. apply Hne. right. exact Hit. }
  clear IH. cbn [flat_map]. set (Rst := flat_map block rest) in *.
  assert (forall E' f', In (E', f') Rst -> entry_key_eqb E E' = false) as Hdiff.
  { intros E' f' Hin. unfold Rst in Hin. apply in_flat_map in Hin. destruct Hin as [it [Hit Hin]].
    unfold block in Hin. apply in_map_iff in Hin. destruct Hin as [f0 [E0 _]]. injection E0 as <- <-.
    apply entry_key_eqb_rowid. intro Eq. apply Hnot. change (item_key (E, g)) with (en_rowid E).
    rewrite Eq. change (en_rowid (fst it)) with (item_key it). apply in_map. exact Hit. }
  destruct g as [|f1 g']; [exfalso; apply (Hne (E, [])); [left; reflexivity|reflexivity]|].
  clear Hne Hnd Hnot. unfold block at 1. cbn [fst snd]. revert f1.
  induction g' as [|f2 g'' IHg]; intro f1.
  - cbn [map app]. rewrite group_entries_cons.
    assert (match hd_opt Rst, group_entries Rst with
            | Some (e', _), w :: ws =>
                if entry_key_eqb E e'
                then {| qw_id := qw_id w; qw_pos := qw_pos w; qw_forms := form_columns f1 :: qw_forms w;
                        qw_lexid := qw_lexid w; qw_rowid := qw_rowid w |} :: ws
                else new_group E f1 :: w :: ws
            | _, _ => new_group E f1 :: group_entries Rst
            end = new_group E f1 :: group_entries Rst) as ->.
    { destruct Rst as [|[E' f'] Rst']; [reflexivity|]. cbn [hd_opt].
      rewrite (Hdiff E' f' (or_introl eq_refl)).
      destruct (group_entries ((E', f') :: Rst')); reflexivity. }
    rewrite IHr. reflexivity.
  - cbn [map app]. rewrite group_entries_cons. cbn [hd_opt].
    specialize (IHg f2). cbn [map app] in IHg. rewrite IHg. rewrite entry_key_eqb_refl. reflexivity.
Qed.

Lemma find_entries_all : forall T lexid saf,
    find_entries T None [] None [lexid] false saf
    = group_entries
        (stable_sort entry_form_le
           (flat_map (fun e => map (fun f => (e, f))
                                   (filter (fun f => Z.eqb (fm_entry_rowid f) (en_rowid e)) (t_forms T)))
                     (filter (fun e => Z.eqb (en_lexicon_rowid e) lexid) (t_entries T)))).
Proof.
  intros T lexid saf. rewrite find_entries_unfold. do 3 f_equal. apply filter_ext.
  intro e. unfold entry_cond. simpl. rewrite orb_false_r. reflexivity.
Qed.

(* ====================================================================== *)
(* The lexicon: identifiers, declared synsets, external elements           *)
(* ====================================================================== *)
(* the id is a non-empty string *)
Definition is_sid (x : val) : bool := match A.vgetk x "id" with VStr (_ :: _) => true | _ => false end.
Definition sid (x : val) : str := doc_text (A.vgetk x "id").
Fixpoint nodup_strb (l : list str) : bool :=
  match l with
  | [] => true
  | x :: l' => negb (str_mem x l') && nodup_strb l'
  end.
(* an external LexicalEntry (only meaningful in an extension) carries no local form or sense *)
Definition inert_external (e : val) : bool :=
  negb (A._is_external e) || (forallb A._is_external (A._forms e) && forallb A._is_external (A._senses e)).
(* the synset of a sense is one of the local synsets *)
Definition synset_declared (lss : list val) (s : val) : bool :=
  match A.vgetk s "synset" with VStr y => str_mem y (map sid lss) | _ => false end.

Definition wf_lex (L : val) : bool :=
  let les := A._local_entries (A._entries L) in
  let lss := A._local_synsets (A._synsets L) in
  forallb is_sid les && nodup_strb (map sid les)
  && forallb is_sid lss && nodup_strb (map sid lss)
  && forallb (fun e => forallb (synset_declared lss) (A._local_senses (A._senses e))) les
  && forallb inert_external (A._entries L).

Lemma nodup_strb_NoDup : forall l, nodup_strb l = true -> NoDup l.
Proof.
  induction l as [|x l IH]; intro H; simpl in H; [constructor|].
  apply andb_true_iff in H. destruct H as [H1 H2]. constructor; [|apply IH; exact H2].
  intro Hin. apply str_mem_In in Hin. rewrite Hin in H1. discriminate.
Qed.
Lemma is_sid_spec : forall x, is_sid x = true -> A.vgetk x "id" = VStr (sid x) /\ sid x <> [].
Proof.
  intros x H. unfold is_sid in H. unfold sid. destruct (A.vgetk x "id") as [| | |s| |]; try discriminate.
  destruct s as [|c s]; [discriminate|]. split; [reflexivity|discriminate].
Qed.

Record wf_lex_facts (L : val) : Prop := {
  wl_entry_ids : forall e, In e (A._local_entries (A._entries L)) -> is_sid e = true;
  wl_entry_nodup : NoDup (map sid (A._local_entries (A._entries L)));
  wl_synset_ids : forall ss, In ss (A._local_synsets (A._synsets L)) -> is_sid ss = true;
  wl_synset_nodup : NoDup (map sid (A._local_synsets (A._synsets L)));
  wl_declared : forall e s, In e (A._local_entries (A._entries L)) -> In s (A._local_senses (A._senses e)) ->
                            exists ss, In ss (A._local_synsets (A._synsets L)) /\ A.vgetk s "synset" = VStr (sid ss);
  wl_inert : forall e, In e (A._entries L) -> A._is_external e = true ->
                       (forall f, In f (A._forms e) -> A._is_external f = true)
                       /\ (forall s, In s (A._senses e) -> A._is_external s = true)
}.
Lemma wf_lex_spec : forall L, wf_lex L = true -> wf_lex_facts L.
Proof.
  intros L H. unfold wf_lex in H. cbv zeta in H.
  apply andb_true_iff in H. destruct H as [H G6]. apply andb_true_iff in H. destruct H as [H G5].
  apply andb_true_iff in H. destruct H as [H G4]. apply andb_true_iff in H. destruct H as [H G3].
  apply andb_true_iff in H. destruct H as [G1 G2].
  rewrite forallb_forall in G1, G3, G5, G6. constructor.
  - exact G1.
  - apply nodup_strb_NoDup. exact G2.
  - exact G3.
  - apply nodup_strb_NoDup. exact G4.
  - intros e s He Hs. specialize (G5 e He). rewrite forallb_forall in G5. specialize (G5 s Hs).
    unfold synset_declared in G5. destruct (A.vgetk s "synset") as [| | |y| |]; try discriminate.
    apply str_mem_In in G5. apply in_map_iff in G5. destruct G5 as [ss [<- Hss]]. exists ss. split; [exact Hss|reflexivity].
  - intros e He Hx. specialize (G6 e He). unfold inert_external in G6. rewrite Hx in G6. simpl in G6.
    apply andb_true_iff in G6. destruct G6 as [Ga Gb]. rewrite forallb_forall in Ga, Gb. split; assumption.
Qed.

(* ====================================================================== *)
(* Resolution of the sub-selects ENTRY_QUERY / SYNSET_QUERY in d'           *)
(* ====================================================================== *)
Lemma sql_eq_int_false : forall c n, c_int (conv_cell c) <> n -> R.sql_eq c (R.CInt n) = false.
Proof. intros [|m|s|v] n H; simpl in *; try reflexivity. apply Z.eqb_neq. exact H. Qed.
Lemma ENTRY_QUERY_pred : forall d idc lexid,
    A.ENTRY_QUERY d idc (R.CInt lexid) = R.select_rowid d "entries" (AC.syn_pred idc lexid).
Proof. reflexivity. Qed.
Lemma lexidmap_get_nil : forall x lexid, A.lexidmap_get [] x lexid = R.CInt lexid.
Proof. reflexivity. Qed.

(* looking up, by (id, lexicon), one of the rows just added to a table whose rows carry the id at
   position 1 and the lexicon rowid at position 2 *)
Lemma id_lookup_resolve : forall (mk : val -> list R.cell) (old : R.table) (l : list val) n lexid k0 x,
    (forall r, In r old -> c_int (conv_cell (R.cell_at 2 r)) <> lexid) ->
    (forall y, R.cell_at 0 (mk y) = R.coerce "TEXT" (AC.pcell (A.preq y "id"))
               /\ R.cell_at 1 (mk y) = R.CInt lexid) ->
    (forall y, In y l -> is_sid y = true) -> NoDup (map sid l) ->
    In (k0, x) (A.enumerate_from n l) ->
    find (AC.syn_pred (R.CText (sid x)) lexid)
         (old ++ map (fun kx : Z * val => R.CInt (fst kx) :: mk (snd kx)) (A.enumerate_from n l))%list
    = Some (R.CInt k0 :: mk x).
Proof.
  intros mk old l n lexid k0 x Hold Hmk Hids Hnd Hin.
  assert (forall k1 y, In y l ->
            AC.syn_pred (R.CText (sid x)) lexid (R.CInt k1 :: mk y) = str_eqb (sid y) (sid x)) as Hp.
  { intros k1 y Hy. unfold AC.syn_pred. destruct (Hmk y) as [E1 E2].
    change (R.cell_at 1 (R.CInt k1 :: mk y)) with (R.cell_at 0 (mk y)).
    change (R.cell_at 2 (R.CInt k1 :: mk y)) with (R.cell_at 1 (mk y)). rewrite E1, E2.
    destruct (is_sid_spec y (Hids y Hy)) as [Ey _]. rewrite (preq_VStr _ _ _ Ey).
    simpl. rewrite Z.eqb_refl, andb_true_r. reflexivity. }
  assert (forall kx, In kx (A.enumerate_from n l) -> In (snd kx) l) as Hsnd.
  { intros kx Hkx. rewrite <- (enumerate_snd l n). apply in_map. exact Hkx. }
  apply (find_resolve _ (fun kx : Z * val => R.CInt (fst kx) :: mk (snd kx)) old _ (k0, x)).
  - intros r Hr. unfold AC.syn_pred. rewrite (sql_eq_int_false _ _ (Hold r Hr)). apply andb_false_r.
  - exact Hin.
  - cbn [fst snd]. rewrite Hp by (apply (Hsnd (k0, x) Hin)). apply str_eqb_refl.
  - intros [k1 y] Hin' Hp'. cbn [fst snd] in Hp'. rewrite Hp in Hp' by (apply (Hsnd (k1, y) Hin')).
    apply str_eqb_eq in Hp'.
    apply (NoDup_map_inj (fun kx : Z * val => sid (snd kx)) (A.enumerate_from n l)); try assumption.
    rewrite <- (map_map snd sid), enumerate_snd. exact Hnd.
Qed.

(* ====================================================================== *)
(* The rows of forms: fields read from the data cells                      *)
(* ====================================================================== *)
Lemma coerce_integer : forall c, R.coerce "INTEGER" c = c.
Proof. intros [|n|s|v]; reflexivity. Qed.

(* readers on the data cells of a forms row (the rowid left out) *)
Definition form_triple (r : list R.cell) : str * option str * option str :=
  (c_text (conv_cell (R.cell_at 3 r)), c_otext (conv_cell (R.cell_at 0 r)), c_otext (conv_cell (R.cell_at 5 r))).
Definition row_entry (r : list R.cell) : Z := c_int (conv_cell (R.cell_at 2 r)).
Definition row_rank (r : list R.cell) : option Z := c_oint (conv_cell (R.cell_at 6 r)).

Lemma typed_form_raw : forall k0 r,
    let f := typed_form (R.CInt k0 :: r) in
    fm_rowid f = k0 /\ (fm_form f, fm_id f, fm_script f) = form_triple r
    /\ fm_entry_rowid f = row_entry r /\ fm_rank f = row_rank r.
Proof.
  intros k0 r. cbv zeta. unfold typed_form, form_of_row, form_triple, row_entry, row_rank.
  cbn [fm_rowid fm_form fm_id fm_script fm_entry_rowid fm_rank]. rewrite !col_conv_row.
  repeat split; reflexivity.
Qed.

(* the forms of a LexicalEntry element as the API reports them: the lemma, then its local Form
   elements in document order; each as (written form, id, script) *)
Definition doc_form (f : val) : str * option str * option str :=
  (written f, doc_otext (A.vgetk f "id"), doc_otext (A.vgetk f "script")).
Definition doc_forms (e : val) : list (str * option str * option str) :=
  (written (A.vgetk e "lemma"), None, doc_otext (A.vgetk (A.vgetk e "lemma") "script"))
  :: map doc_form (filter (fun f => negb (A._is_external f)) (A._forms e)).

Lemma written_cell : forall nt x, c_text (conv_cell (R.coerce "TEXT" (AC.wf_cell nt x))) = written x.
Proof.
  intros nt x. unfold AC.wf_cell, A.form_cells, written, A.vreq, A.vgetk.
  destruct (vhas x (A.k "writtenForm")) eqn:E.
  - cbn [R.bind]. destruct (vget x (A.k "writtenForm")); reflexivity.
  - rewrite (vhas_false_vget _ _ E). reflexivity.
Qed.

Lemma lemma_form_row_facts : forall d nt lexid m e,
    let r := AC.lemma_form_row d nt lexid m e in
    form_triple r = (written (A.vgetk e "lemma"), None, doc_otext (A.vgetk (A.vgetk e "lemma") "script"))
    /\ row_entry r = c_int (conv_cell (AC.entry_ref d lexid m e)) /\ row_rank r = Some 0.
Proof.
  intros d nt lexid m e. cbv zeta. unfold AC.lemma_form_row. rewrite pv_vreq.
  unfold form_triple, row_entry, row_rank.
  change (R.coerce_all (R.data_columns "forms")
            [R.CNull; R.CInt lexid; AC.entry_ref d lexid m e; AC.wf_cell nt (A.vgetk e "lemma");
             AC.norm_cell nt (A.vgetk e "lemma"); AC.pcell (A.param (A.vgetk (A.vgetk e "lemma") "script"));
             R.CInt 0])
    with [R.CNull; R.CInt lexid; R.coerce "INTEGER" (AC.entry_ref d lexid m e);
          R.coerce "TEXT" (AC.wf_cell nt (A.vgetk e "lemma"));
          R.coerce "TEXT" (AC.norm_cell nt (A.vgetk e "lemma"));
          R.coerce "TEXT" (AC.pcell (A.param (A.vgetk (A.vgetk e "lemma") "script"))); R.CInt 0].
  unfold R.cell_at. cbn [nth]. rewrite written_cell, otext_param, coerce_integer. repeat split; reflexivity.
Qed.

Lemma other_form_row_facts : forall d nt lexid m e i f,
    let r := AC.other_form_row d nt lexid m e (i, f) in
    form_triple r = doc_form f
    /\ row_entry r = c_int (conv_cell (AC.entry_ref d lexid m e)) /\ row_rank r = Some i.
Proof.
  intros d nt lexid m e i f. cbv zeta. unfold AC.other_form_row. cbn [fst snd].
  unfold form_triple, row_entry, row_rank, doc_form.
  change (R.coerce_all (R.data_columns "forms")
            [AC.pcell (A.param (A.vgetk f "id")); R.CInt lexid; AC.entry_ref d lexid m e; AC.wf_cell nt f;
             AC.norm_cell nt f; AC.pcell (A.param (A.vgetk f "script")); R.CInt i])
    with [R.coerce "TEXT" (AC.pcell (A.param (A.vgetk f "id"))); R.CInt lexid;
          R.coerce "INTEGER" (AC.entry_ref d lexid m e); R.coerce "TEXT" (AC.wf_cell nt f);
          R.coerce "TEXT" (AC.norm_cell nt f); R.coerce "TEXT" (AC.pcell (A.param (A.vgetk f "script")));
          R.CInt i].
  unfold R.cell_at. cbn [nth]. rewrite written_cell, !otext_param, coerce_integer. repeat split; reflexivity.
Qed.

(* the rows of the further forms of an entry *)
Definition other_rows (d : R.db) (nt : A.normtable) (lexid : Z) (m : A.lexidmap_t) (e : val) (n : Z)
           (forms : list val) : list (list R.cell) :=
  flat_map (fun iform : Z * val =>
              if A._is_external (snd iform) then [] else [AC.other_form_row d nt lexid m e iform])
           (A.enumerate_from n forms).

Definition rank_le (a b : list R.cell) : Prop := oz_leb (row_rank a) (row_rank b) = true.

Lemma other_rows_facts : forall d nt lexid m e forms n,
    map form_triple (other_rows d nt lexid m e n forms)
    = map doc_form (filter (fun f => negb (A._is_external f)) forms)
    /\ Forall (fun r => row_entry r = c_int (conv_cell (AC.entry_ref d lexid m e))
                        /\ exists i, row_rank r = Some i /\ n <= i) (other_rows d nt lexid m e n forms)
    /\ StronglySorted rank_le (other_rows d nt lexid m e n forms).
Proof.
  intros d nt lexid m e forms. unfold other_rows.
  induction forms as [|f forms IH]; intro n; simpl.
  - split; [reflexivity|]. split; constructor.
  - destruct (IH (n + 1)) as (I1 & I2 & I3). destruct (A._is_external f) eqn:Ex; simpl.
    + split; [exact I1|]. split; [|exact I3].
      eapply Forall_impl; [|exact I2]. intros r [Hr [i [Hi Hle]]]. split; [exact Hr|]. exists i. split; [exact Hi|lia].
    + destruct (other_form_row_facts d nt lexid m e n f) as (F1 & F2 & F3). cbv zeta in F1, F2, F3.
      split; [rewrite F1, I1; reflexivity|]. split.
      * constructor; [split; [exact F2|exists n; split; [exact F3|lia]]|].
        eapply Forall_impl; [|exact I2]. intros r [Hr [i [Hi Hle]]]. split; [exact Hr|]. exists i. split; [exact Hi|lia].
      * constructor; [exact I3|]. eapply Forall_impl; [|exact I2].
        intros r [_ [i [Hi Hle]]]. unfold rank_le. rewrite F3, Hi. simpl. apply Z.leb_le. lia.
Qed.

(* the rows of a local entry: the lemma, then the local forms *)
Lemma entry_form_rows_local : forall d nt lexid m e,
    A._is_external e = false ->
    AC.entry_form_rows d nt lexid m e
    = AC.lemma_form_row d nt lexid m e :: other_rows d nt lexid m e 1 (A._forms e).
Proof. intros d nt lexid m e H. unfold AC.entry_form_rows. rewrite H. reflexivity. Qed.

Lemma entry_form_rows_facts : forall d nt lexid m e,
    A._is_external e = false ->
    let rows := AC.entry_form_rows d nt lexid m e in
    rows <> [] /\ map form_triple rows = doc_forms e
    /\ (forall r, In r rows -> row_entry r = c_int (conv_cell (AC.entry_ref d lexid m e)))
    /\ Sorted rank_le rows.
Proof.
  intros d nt lexid m e H. cbv zeta. rewrite (entry_form_rows_local _ _ _ _ _ H).
  destruct (lemma_form_row_facts d nt lexid m e) as (L1 & L2 & L3). cbv zeta in L1, L2, L3.
  destruct (other_rows_facts d nt lexid m e (A._forms e) 1) as (O1 & O2 & O3).
  split; [discriminate|]. split; [|split].
  - cbn [map]. rewrite L1, O1. reflexivity.
  - intros r [<-|Hr]; [exact L2|]. rewrite Forall_forall in O2. apply (O2 r Hr).
  - apply StronglySorted_Sorted. constructor; [exact O3|].
    eapply Forall_impl; [|exact O2]. intros r [_ [i [Hi Hle]]]. unfold rank_le. rewrite L3, Hi. simpl.
    apply Z.leb_le. lia.
Qed.

(* an external entry without local forms contributes no row *)
Lemma entry_form_rows_inert : forall d nt lexid m e,
    A._is_external e = true -> (forall f, In f (A._forms e) -> A._is_external f = true) ->
    AC.entry_form_rows d nt lexid m e = [].
Proof.
  intros d nt lexid m e H Hf. unfold AC.entry_form_rows. rewrite H. cbn [negb app].
  generalize 1 as n. induction (A._forms e) as [|f forms IH]; intro n; simpl; [reflexivity|].
  rewrite (Hf f (or_introl eq_refl)). cbn [app]. apply IH. intros g Hg. apply Hf. right. exact Hg.
Qed.

(* typed forms of numbered rows *)
Lemma Sorted_typed_forms : forall rows n,
    Sorted rank_le rows ->
    Sorted (fun f f' => oz_leb (fm_rank f) (fm_rank f') = true) (map typed_form (AC.number_from n rows)).
Proof.
  intros rows n H. revert n. induction H as [|a l Hs IH Hhd]; intro n; simpl; constructor; [apply IH|].
  destruct Hhd as [|b l' Hab]; simpl; constructor.
  destruct (typed_form_raw n a) as (_ & _ & _ & Ea). destruct (typed_form_raw (n + 1) b) as (_ & _ & _ & Eb).
  cbv zeta in Ea, Eb. rewrite Ea, Eb. exact Hab.
Qed.
Lemma typed_forms_triples : forall rows n,
    map (fun q => (qf_form q, qf_id q, qf_script q)) (map form_columns (map typed_form (AC.number_from n rows)))
    = map form_triple rows.
Proof.
  induction rows as [|r rows IH]; intro n; simpl; [reflexivity|]. rewrite IH. f_equal.
  destruct (typed_form_raw n r) as (_ & E & _). exact E.
Qed.
Lemma typed_forms_entry : forall rows n k0 f,
    (forall r, In r rows -> row_entry r = k0) -> In f (map typed_form (AC.number_from n rows)) ->
    fm_entry_rowid f = k0.
Proof.
  induction rows as [|r rows IH]; intros n k0 f H Hin; simpl in Hin; [destruct Hin|].
  destruct Hin as [<-|Hin].
  - destruct (typed_form_raw n r) as (_ & _ & E & _). cbv zeta in E. rewrite E. apply H. left. reflexivity.
  - apply (IH (n + 1) k0 f); [|exact Hin]. intros r' Hr'. apply H. right. exact Hr'.
Qed.

Lemma Forall2_map_l : forall {X Y Z0} (P : Y -> Z0 -> Prop) (f : X -> Y) l l',
    Forall2 (fun a b => P (f a) b) l l' -> Forall2 P (map f l) l'.
Proof. intros X Y Z0 P f l l' H. induction H; simpl; constructor; assumption. Qed.
Lemma enumerate_StronglySorted : forall {X} (l : list X) n,
    StronglySorted (fun a b : Z * X => fst a < fst b) (A.enumerate_from n l).
Proof.
  intros X l. induction l as [|x l IH]; intro n; simpl; constructor; [apply IH|].
  apply Forall_forall. intros kx Hkx. apply enumerate_fst_ge in Hkx. simpl. lia.
Qed.
Lemma StronglySorted_map : forall {X Y} (Rl : Y -> Y -> Prop) (f : X -> Y) l,
    StronglySorted (fun a b => Rl (f a) (f b)) l -> StronglySorted Rl (map f l).
Proof.
  intros X Y Rl f l H. induction H as [|a l Hs IH Hall]; simpl; constructor; [exact IH|].
  apply Forall_forall. intros y Hy. apply in_map_iff in Hy. destruct Hy as [x [<- Hx]].
  rewrite Forall_forall in Hall. apply Hall. exact Hx.
Qed.

(* ====================================================================== *)
(* One new, well-formed lexicon added to a well-formed database            *)
(* ====================================================================== *)
Section Added.
Variables (nt : A.normtable) (L : val) (d d' : R.db).
Hypothesis Hadd : A.add_one_lexicon nt L d = R.Ok d'.
Hypothesis Hext : vtruthy (A.vgetk L "extends") = false.
Hypothesis Hdb : wf_db d = true.
Hypothesis HL : wf_lex_facts L.

Local Notation lexid := (R.next_rowid (R.get_table d "lexicons")).
Local Notation les := (A._local_entries (A._entries L)).
Local Notation lss := (A._local_synsets (A._synsets L)).
Local Notation nE := (R.next_rowid (R.get_table d "entries")).
Local Notation nS := (R.next_rowid (R.get_table d "synsets")).
Local Notation nF := (R.next_rowid (R.get_table d "forms")).
Local Notation nN := (R.next_rowid (R.get_table d "senses")).
Local Notation T := (conv d').

Definition mkE (kx : Z * val) : entry_row := typed_entry (R.CInt (fst kx) :: AC.entry_row lexid (snd kx)).
Definition mkY (kx : Z * val) : Tables.synset_row :=
  typed_synset (R.CInt (fst kx) :: AC.synset_row d' lexid (snd kx)).

Lemma local_entry_not_external : forall e, In e les -> A._is_external e = false.
Proof. intros e H. unfold A._local_entries in H. apply filter_In in H. destruct H as [_ H]. apply negb_true_iff. exact H. Qed.
Lemma local_entry_in : forall e, In e les -> In e (A._entries L).
Proof. intros e H. unfold A._local_entries in H. apply filter_In in H. tauto. Qed.

(* ---------- the Rel tables of d' ---------- *)
Lemma entries_table :
  R.get_table d' "entries"
  = (R.get_table d "entries"
     ++ map (fun kx : Z * val => R.CInt (fst kx) :: AC.entry_row lexid (snd kx)) (A.enumerate_from nE les))%list.
Proof. rewrite (AC.one_lexicon_entries nt L d d' Hadd). rewrite number_from_map. reflexivity. Qed.
Lemma synsets_table :
  R.get_table d' "synsets"
  = (R.get_table d "synsets"
     ++ map (fun kx : Z * val => R.CInt (fst kx) :: AC.synset_row d' lexid (snd kx)) (A.enumerate_from nS lss))%list.
Proof.
  destruct (AC.one_lexicon_synsets nt L d d' Hadd) as [HA _]. cbv zeta in HA. rewrite HA.
  rewrite number_from_map. reflexivity.
Qed.

Lemma old_entry_lex : forall r, In r (R.get_table d "entries") -> c_int (conv_cell (R.cell_at 2 r)) <> lexid.
Proof.
  intros r Hr. assert (In (entry_of_row (conv_row r)) (t_entries (conv d))) as Hin.
  { rewrite conv_entries. apply (in_map (fun r => entry_of_row (conv_row r))). exact Hr. }
  pose proof (wf_db_entries d _ Hdb Hin) as Hlt. unfold entry_of_row in Hlt. cbn [en_lexicon_rowid] in Hlt.
  rewrite col_conv_row in Hlt. lia.
Qed.
Lemma old_synset_lex : forall r, In r (R.get_table d "synsets") -> c_int (conv_cell (R.cell_at 2 r)) <> lexid.
Proof.
  intros r Hr. assert (In (synset_of_row (conv_row r)) (t_synsets (conv d))) as Hin.
  { rewrite conv_synsets. apply (in_map (fun r => synset_of_row (conv_row r))). exact Hr. }
  pose proof (wf_db_synsets d _ Hdb Hin) as Hlt. unfold synset_of_row in Hlt. cbn [sy_lexicon_rowid] in Hlt.
  rewrite col_conv_row in Hlt. lia.
Qed.

(* ---------- the sub-selects resolve to the rows of the document's own elements ---------- *)
Lemma entry_ref_resolve : forall k0 e,
    In (k0, e) (A.enumerate_from nE les) -> AC.entry_ref d' lexid [] e = R.CInt k0.
Proof.
  intros k0 e Hin.
  assert (In e les) as He by (rewrite <- (enumerate_snd les nE); apply (in_map snd _ _ Hin)).
  destruct (is_sid_spec e (wl_entry_ids L HL e He)) as [Ee _].
  unfold AC.entry_ref. rewrite lexidmap_get_nil, (preq_VStr _ _ _ Ee). cbn [AC.pcell].
  rewrite ENTRY_QUERY_pred. unfold R.select_rowid. rewrite entries_table.
  rewrite (id_lookup_resolve (AC.entry_row lexid) _ les nE lexid k0 e); [reflexivity| | | | |exact Hin].
  - exact old_entry_lex.
  - intro y. split; reflexivity.
  - exact (wl_entry_ids L HL).
  - exact (wl_entry_nodup L HL).
Qed.
Lemma synset_query_resolve : forall k0 ss,
    In (k0, ss) (A.enumerate_from nS lss) -> A.SYNSET_QUERY d' (R.CText (sid ss)) (R.CInt lexid) = R.CInt k0.
Proof.
  intros k0 ss Hin.
  rewrite AC.SYNSET_QUERY_pred. unfold R.select_rowid. rewrite synsets_table.
  rewrite (id_lookup_resolve (AC.synset_row d' lexid) _ lss nS lexid k0 ss); [reflexivity| | | | |exact Hin].
  - exact old_synset_lex.
  - intro y. split; reflexivity.
  - exact (wl_synset_ids L HL).
  - exact (wl_synset_nodup L HL).
Qed.

(* ---------- the typed tables of conv d' ---------- *)
Lemma typed_entries : t_entries T = (t_entries (conv d) ++ map mkE (A.enumerate_from nE les))%list.
Proof. exact (K1_entries nt L d d' Hadd). Qed.
Lemma typed_synsets : t_synsets T = (t_synsets (conv d) ++ map mkY (A.enumerate_from nS lss))%list.
Proof. exact (K1_synsets nt L d d' Hadd). Qed.

Lemma mkE_rowid : forall kx, en_rowid (mkE kx) = fst kx.
Proof. intros [k0 e]. destruct (typed_entry_fields lexid e k0) as (E & _). exact E. Qed.
Lemma mkE_lex : forall kx, en_lexicon_rowid (mkE kx) = lexid.
Proof. intros [k0 e]. destruct (typed_entry_fields lexid e k0) as (_ & _ & E & _). exact E. Qed.
Lemma mkE_id : forall kx, en_id (mkE kx) = sid (snd kx).
Proof. intros [k0 e]. destruct (typed_entry_fields lexid e k0) as (_ & E & _). exact E. Qed.
Lemma mkE_pos : forall kx, en_pos (mkE kx) = doc_pos (snd kx).
Proof. intros [k0 e]. destruct (typed_entry_fields lexid e k0) as (_ & _ & _ & E). exact E. Qed.
Lemma mkY_rowid : forall kx, sy_rowid (mkY kx) = fst kx.
Proof. intros [k0 e]. destruct (typed_synset_fields d' lexid e k0) as (E & _). exact E. Qed.
Lemma mkY_lex : forall kx, sy_lexicon_rowid (mkY kx) = lexid.
Proof. intros [k0 e]. destruct (typed_synset_fields d' lexid e k0) as (_ & _ & E & _). exact E. Qed.
Lemma mkY_id : forall kx, sy_id (mkY kx) = sid (snd kx).
Proof. intros [k0 e]. destruct (typed_synset_fields d' lexid e k0) as (_ & E & _). exact E. Qed.
Lemma mkY_pos : forall kx, sy_pos (mkY kx) = doc_otext (A.vgetk (snd kx) "partOfSpeech").
Proof. intros [k0 e]. destruct (typed_synset_fields d' lexid e k0) as (_ & _ & _ & E). exact E. Qed.

(* the entries of the new lexicon *)
Lemma new_entries :
  filter (fun e => Z.eqb (en_lexicon_rowid e) lexid) (t_entries T) = map mkE (A.enumerate_from nE les).
Proof.
  rewrite typed_entries, filter_app. rewrite filter_none_in.
  2:{ intros e He. apply Z.eqb_neq. pose proof (wf_db_entries d e Hdb He). lia. }
  cbn [app]. apply filter_all_in. intros e He. apply in_map_iff in He. destruct He as [kx [<- _]].
  rewrite mkE_lex. apply Z.eqb_refl.
Qed.

(* ---------- the forms, entry by entry ---------- *)
Local Notation rowsOf := (AC.entry_form_rows d' nt lexid []).
Fixpoint mk_items (nf : Z) (kes : list (Z * val)) : list item :=
  match kes with
  | [] => []
  | kx :: rest =>
      (mkE kx, map typed_form (AC.number_from nf (rowsOf (snd kx))))
        :: mk_items (nf + Z.of_nat (List.length (rowsOf (snd kx)))) rest
  end.

Lemma items_fst : forall kes nf, map fst (mk_items nf kes) = map mkE kes.
Proof. induction kes as [|kx kes IH]; intro nf; simpl; [reflexivity|]. rewrite IH. reflexivity. Qed.
Lemma items_forms : forall kes nf,
    List.concat (map snd (mk_items nf kes))
    = map typed_form (AC.number_from nf (flat_map rowsOf (map snd kes))).
Proof.
  induction kes as [|kx kes IH]; intro nf; simpl; [reflexivity|].
  rewrite IH, AC.number_from_app, map_app. reflexivity.
Qed.
Lemma items_Forall : forall (P : item -> Prop) kes,
    (forall nf kx, In kx kes -> P (mkE kx, map typed_form (AC.number_from nf (rowsOf (snd kx))))) ->
    forall nf it, In it (mk_items nf kes) -> P it.
Proof.
  intros P kes. induction kes as [|kx kes IH]; intros H nf it Hin; simpl in Hin; [destruct Hin|].
  destruct Hin as [<-|Hin]; [apply H; left; reflexivity|].
  apply (IH (fun nf0 kx0 Hk => H nf0 kx0 (or_intror Hk)) _ it Hin).
Qed.
Lemma items_Forall2 : forall (Q : item -> val -> Prop) kes,
    (forall nf kx, In kx kes -> Q (mkE kx, map typed_form (AC.number_from nf (rowsOf (snd kx)))) (snd kx)) ->
    forall nf, Forall2 Q (mk_items nf kes) (map snd kes).
Proof.
  intros Q kes. induction kes as [|kx kes IH]; intros H nf; simpl; constructor.
  - apply H. left. reflexivity.
  - apply IH. intros nf0 kx0 Hk. apply H. right. exact Hk.
Qed.

Local Notation items := (mk_items nF (A.enumerate_from nE les)).

Lemma typed_forms : t_forms T = (t_forms (conv d) ++ List.concat (map snd items))%list.
Proof.
  destruct (one_lexicon_forms_senses nt L d d' Hadd Hext) as [HA _]. cbv zeta in HA.
  rewrite !conv_forms. rewrite (K1_table _ _ _ _ _ HA). f_equal.
  rewrite items_forms, enumerate_snd. do 2 f_equal.
  apply (flat_map_filter_nil _ (fun x => negb (A._is_external x))).
  intros e He Hx. apply negb_false_iff in Hx. apply entry_form_rows_inert; [exact Hx|].
  apply (wl_inert L HL e He Hx).
Qed.

Lemma enum_local : forall kx, In kx (A.enumerate_from nE les) -> In (snd kx) les.
Proof. intros kx H. rewrite <- (enumerate_snd les nE). apply in_map. exact H. Qed.

Lemma items_keys_gen : forall kes nf, map item_key (mk_items nf kes) = map fst kes.
Proof.
  induction kes as [|kx kes IH]; intro nf; [reflexivity|]. cbn [mk_items map]. rewrite IH. f_equal.
Qed.
Lemma items_keys : map item_key items = map fst (A.enumerate_from nE les).
Proof. apply items_keys_gen. Qed.
Lemma items_NoDup : NoDup (map item_key items).
Proof. rewrite items_keys. apply enumerate_fst_NoDup. Qed.
Lemma items_owns : owns items.
Proof.
  intros it f Hit. revert f. pattern it. revert it Hit. apply items_Forall.
  intros nf [k0 e] Hin f Hf. cbn [fst snd] in *. unfold item_key. cbn [fst]. rewrite mkE_rowid. cbn [fst].
  destruct (entry_form_rows_facts d' nt lexid [] e (local_entry_not_external e (enum_local _ Hin)))
    as (_ & _ & Hown & _).
  apply (typed_forms_entry (rowsOf e) nf k0 f); [|exact Hf].
  intros r Hr. rewrite (Hown r Hr), (entry_ref_resolve k0 e Hin). reflexivity.
Qed.
Lemma items_nonempty : forall it, In it items -> snd it <> [].
Proof.
  apply items_Forall. intros nf [k0 e] Hin. cbn [fst snd].
  destruct (entry_form_rows_facts d' nt lexid [] e (local_entry_not_external e (enum_local _ Hin)))
    as (Hne & _).
  destruct (rowsOf e) as [|r rows]; [contradiction|]. discriminate.
Qed.
Lemma items_ranked : forall it, In it items ->
    Sorted (fun f f' => oz_leb (fm_rank f) (fm_rank f') = true) (snd it).
Proof.
  apply items_Forall. intros nf [k0 e] Hin. cbn [fst snd]. apply Sorted_typed_forms.
  destruct (entry_form_rows_facts d' nt lexid [] e (local_entry_not_external e (enum_local _ Hin)))
    as (_ & _ & _ & Hs). exact Hs.
Qed.
Lemma items_sorted : StronglySorted (fun a b => item_key a < item_key b) items.
Proof.
  assert (forall kes nf, StronglySorted (fun a b : Z * val => fst a < fst b) kes ->
                         StronglySorted (fun a b => item_key a < item_key b) (mk_items nf kes)) as G.
  { induction kes as [|kx kes IH]; intros nf Hs; simpl; constructor.
    - apply IH. inversion Hs. assumption.
    - inversion Hs as [|a l Hs' Hall]. subst. apply Forall_forall. intros it Hit.
      assert (In (item_key it) (map fst kes)) as Hk.
      { rewrite <- (items_keys_gen kes (nf + Z.of_nat (List.length (rowsOf (snd kx))))).
        apply in_map. exact Hit. }
      apply in_map_iff in Hk. destruct Hk as [kx' [E Hkx']]. rewrite Forall_forall in Hall.
      unfold item_key at 1. cbn [fst]. rewrite mkE_rowid, <- E. apply Hall. exact Hkx'. }
  apply G. apply enumerate_StronglySorted.
Qed.
Lemma old_forms_foreign : forall f it, In f (t_forms (conv d)) -> In it items -> fm_entry_rowid f <> item_key it.
Proof.
  intros f it Hf Hit. pose proof (wf_db_forms d f Hdb Hf) as Hlt.
  assert (In (item_key it) (map item_key items)) as Hk by (apply in_map; exact Hit).
  rewrite items_keys in Hk. apply in_map_iff in Hk. destruct Hk as [kx [E Hkx]].
  apply enumerate_fst_ge in Hkx. lia.
Qed.

(* what find_entries returns for the new lexicon *)
Lemma find_entries_new : forall saf,
    find_entries T None [] None [lexid] false saf = map word_of_item items.
Proof.
  intro saf. rewrite find_entries_all, new_entries, <- (items_fst _ nF), typed_forms.
  rewrite (entry_form_rows_items _ items items_NoDup items_owns old_forms_foreign).
  rewrite (stable_sort_sorted_id _ _ (blocks_sorted items items_sorted items_ranked)).
  apply (group_entries_blocks items items_NoDup items_nonempty).
Qed.

(* (K3, rows) the Word objects of the new lexicon *)
Lemma K3_rows : forall w, wn_lexicon_ids w = [lexid] ->
    Wordnet_words T w None None = map (fun it => mk_Word w (word_of_item it)) items.
Proof.
  intros w Hw. unfold Wordnet_words, _find_helper. rewrite Hw, find_entries_new, map_map. reflexivity.
Qed.

Lemma K3_section : forall w, wn_lexicon_ids w = [lexid] ->
    Forall2 (fun (x : Word) (e : val) =>
               wd_id x = sid e /\ wd_pos x = doc_pos e /\ wd_lexid x = lexid /\ wd_wordnet x = w
               /\ map (fun q => (qf_form q, qf_id q, qf_script q)) (wd_forms x) = doc_forms e)
            (Wordnet_words T w None None) les.
Proof.
  intros w Hw. rewrite (K3_rows w Hw). apply Forall2_map_l.
  rewrite <- (enumerate_snd les nE) at 2. apply items_Forall2.
  intros nf [k0 e] Hin. cbn [fst snd mk_Word word_of_item wd_id wd_pos wd_lexid wd_wordnet wd_forms
                             qw_id qw_pos qw_lexid qw_forms].
  rewrite mkE_id, mkE_pos, mkE_lex. cbn [snd]. repeat split; try reflexivity.
  rewrite typed_forms_triples.
  destruct (entry_form_rows_facts d' nt lexid [] e (local_entry_not_external e (enum_local _ Hin)))
    as (_ & Ht & _). exact Ht.
Qed.
(* ---------------------------------------------------------------------- *)
(* K1 / K4 — senses                                                        *)
(* ---------------------------------------------------------------------- *)
Local Notation lsenses := (fun e : val => A._local_senses (A._senses e)).
Local Notation sr := (AC.ssrank_of (A._synsets L)).

(* the local Sense elements in document order, each with its entry (and the entry's rowid) and
   its position among the local senses of the entry *)
Definition sense_items_from (n : Z) (l : list val) : list ((Z * val) * (Z * val)) :=
  flat_map (fun ke : Z * val => map (fun js : Z * val => (ke, js)) (A.enumerate_from 0 (lsenses (snd ke))))
           (A.enumerate_from n l).
Local Notation sense_items := (sense_items_from nE les).
Definition rowS (x : (Z * val) * (Z * val)) : list R.cell :=
  AC.sense_row d' lexid [] sr (snd (fst x)) (snd x).
Definition mkS (kx : Z * ((Z * val) * (Z * val))) : sense_row := typed_sense (R.CInt (fst kx) :: rowS (snd kx)).

Lemma sense_rows_items : forall l n,
    flat_map (AC.entry_sense_rows d' lexid [] sr) l = map rowS (sense_items_from n l).
Proof.
  induction l as [|e l IH]; intro n; [reflexivity|].
  unfold sense_items_from. cbn [A.enumerate_from flat_map]. rewrite map_app.
  fold (sense_items_from (n + 1) l). rewrite <- IH. f_equal.
  unfold AC.entry_sense_rows. cbn [snd]. rewrite map_map. reflexivity.
Qed.
Lemma sense_items_doc : forall l n,
    map (fun x : (Z * val) * (Z * val) => (snd (fst x), snd (snd x))) (sense_items_from n l)
    = flat_map (fun e => map (fun s => (e, s)) (lsenses e)) l.
Proof.
  induction l as [|e l IH]; intro n; [reflexivity|].
  unfold sense_items_from. cbn [A.enumerate_from flat_map]. rewrite map_app.
  fold (sense_items_from (n + 1) l). rewrite IH. f_equal. cbn [snd]. rewrite map_map. cbn [fst snd].
  rewrite <- (enumerate_snd (lsenses e) 0) at 2. rewrite map_map. reflexivity.
Qed.
Lemma sense_items_In : forall l n x,
    In x (sense_items_from n l) ->
    In (fst x) (A.enumerate_from n l) /\ In (snd (snd x)) (lsenses (snd (fst x))).
Proof.
  intros l n x H. unfold sense_items_from in H. apply in_flat_map in H. destruct H as [ke [Hke H]].
  apply in_map_iff in H. destruct H as [js [<- Hjs]]. cbn [fst snd]. split; [exact Hke|].
  rewrite <- (enumerate_snd (lsenses (snd ke)) 0). apply in_map. exact Hjs.
Qed.

Lemma senses_table :
  R.get_table d' "senses"
  = (R.get_table d "senses"
     ++ map (fun kx : Z * ((Z * val) * (Z * val)) => R.CInt (fst kx) :: rowS (snd kx))
            (A.enumerate_from nN sense_items))%list.
Proof.
  destruct (one_lexicon_forms_senses nt L d d' Hadd Hext) as [_ HA]. cbv zeta in HA. rewrite HA. f_equal.
  rewrite (flat_map_filter_nil _ (fun x => negb (A._is_external x))).
  - fold les. rewrite (sense_rows_items les nE), number_from_map. reflexivity.
  - intros e He Hx. apply negb_false_iff in Hx. unfold AC.entry_sense_rows.
    assert (A._local_senses (A._senses e) = []) as ->; [|reflexivity].
    unfold A._local_senses. apply filter_none_in. intros s Hs.
    destruct (wl_inert L HL e He Hx) as [_ Hs']. rewrite (Hs' s Hs). reflexivity.
Qed.
(* K1 (senses) *)
Lemma typed_senses : t_senses T = (t_senses (conv d) ++ map mkS (A.enumerate_from nN sense_items))%list.
Proof. rewrite !conv_senses, senses_table, map_app, map_map. reflexivity. Qed.

Lemma sense_row_cells : forall d0 lx m sr0 e i s,
    AC.sense_row d0 lx m sr0 e (i, s)
    = [R.coerce "TEXT" (AC.pcell (A.preq s "id")); R.CInt lx; R.coerce "INTEGER" (AC.entry_ref d0 lx m e);
       R.CInt i;
       R.coerce "INTEGER" (A.SYNSET_QUERY d0 (AC.pcell (A.preq s "synset"))
                                          (A.lexidmap_get m (AC.pv (A.vreq s "synset")) lx));
       R.CInt (match A.dict_get sr0 (AC.pv (A.vreq s "id")) with Some r => r | None => Constants.DEFAULT_MEMBER_RANK end);
       R.coerce "BOOLEAN" (AC.pcell (A.param (A.vget_def s "lexicalized" (VBool true))));
       R.coerce "META" (AC.pcell (A.preq s "meta"))].
Proof. reflexivity. Qed.

Lemma enumerate_In_snd : forall {X} (l : list X) n x, In x l -> exists k0, In (k0, x) (A.enumerate_from n l).
Proof.
  intros X l. induction l as [|y l IH]; intros n x H; [destruct H|]. simpl. destruct H as [->|H].
  - exists n. left. reflexivity.
  - destruct (IH (n + 1) x H) as [k0 Hk]. exists k0. right. exact Hk.
Qed.

(* the synset element that a local sense refers to, with its rowid *)
Lemma sense_synset_resolves : forall x, In x sense_items ->
    exists ky, In ky (A.enumerate_from nS lss) /\ A.vgetk (snd (snd x)) "synset" = VStr (sid (snd ky)).
Proof.
  intros x Hx. destruct (sense_items_In _ _ _ Hx) as [Hke Hs].
  destruct (wl_declared L HL (snd (fst x)) (snd (snd x)) (enum_local _ Hke) Hs) as [ss [Hss Ey]].
  destruct (enumerate_In_snd lss nS ss Hss) as [k0 Hk]. exists (k0, ss). split; [exact Hk|exact Ey].
Qed.

Lemma mkS_fields : forall k0 x ky,
    In x sense_items -> In ky (A.enumerate_from nS lss) -> A.vgetk (snd (snd x)) "synset" = VStr (sid (snd ky)) ->
    let s := mkS (k0, x) in
    se_rowid s = k0 /\ se_id s = doc_text (A.vgetk (snd (snd x)) "id") /\ se_lexicon_rowid s = lexid
    /\ se_entry_rowid s = fst (fst x) /\ se_synset_rowid s = fst ky.
Proof.
  intros k0 [[ke e] [j s]] [ky ss] Hx Hky Ey. cbn [fst snd] in *.
  destruct (sense_items_In _ _ _ Hx) as [Hke _]. cbn [fst snd] in Hke.
  unfold mkS, rowS. cbn [fst snd]. rewrite sense_row_cells. cbv zeta.
  unfold typed_sense, sense_of_row. cbn [se_rowid se_id se_lexicon_rowid se_entry_rowid se_synset_rowid].
  rewrite !col_conv_row. unfold R.cell_at. cbn [nth]. rewrite text_preq, !coerce_integer.
  rewrite (entry_ref_resolve ke e Hke). rewrite lexidmap_get_nil, (preq_VStr _ _ _ Ey). cbn [AC.pcell].
  rewrite (synset_query_resolve ky ss Hky). repeat split; reflexivity.
Qed.

Lemma c_int_rowid : forall r, c_int (conv_cell (R.cell_at 0 r)) = R.rowid_of r.
Proof. intros [|[|n|s|v] r]; reflexivity. Qed.
Lemma old_entry_rowid : forall x, In x (t_entries (conv d)) -> en_rowid x < nE.
Proof.
  intros x H. rewrite conv_entries in H. apply in_map_iff in H. destruct H as [r [<- Hr]].
  unfold entry_of_row. cbn [en_rowid]. rewrite col_conv_row, c_int_rowid. apply AP.next_rowid_fresh. exact Hr.
Qed.
Lemma old_synset_rowid : forall x, In x (t_synsets (conv d)) -> sy_rowid x < nS.
Proof.
  intros x H. rewrite conv_synsets in H. apply in_map_iff in H. destruct H as [r [<- Hr]].
  unfold synset_of_row. cbn [sy_rowid]. rewrite col_conv_row, c_int_rowid. apply AP.next_rowid_fresh. exact Hr.
Qed.

Lemma find_new_entry : forall ke, In ke (A.enumerate_from nE les) ->
    find_by en_rowid (fst ke) (t_entries T) = Some (mkE ke).
Proof.
  intros ke Hke. rewrite typed_entries, find_by_app_none.
  - apply find_by_map_enum; [exact mkE_rowid|apply enumerate_fst_NoDup|exact Hke].
  - intros x Hx. pose proof (old_entry_rowid x Hx). apply enumerate_fst_ge in Hke. lia.
Qed.
Lemma find_new_synset : forall ky, In ky (A.enumerate_from nS lss) ->
    find_by sy_rowid (fst ky) (t_synsets T) = Some (mkY ky).
Proof.
  intros ky Hky. rewrite typed_synsets, find_by_app_none.
  - apply find_by_map_enum; [exact mkY_rowid|apply enumerate_fst_NoDup|exact Hky].
  - intros x Hx. pose proof (old_synset_rowid x Hx). apply enumerate_fst_ge in Hky. lia.
Qed.

(* the q_sense row of a local Sense element *)
Definition qOf (kx : Z * ((Z * val) * (Z * val))) : q_sense :=
  {| qs_id := doc_text (A.vgetk (snd (snd (snd kx))) "id");
     qs_entry_id := sid (snd (fst (snd kx)));
     qs_synset_id := doc_text (A.vgetk (snd (snd (snd kx))) "synset");
     qs_lexid := lexid; qs_rowid := fst kx |}.

Lemma sense_columns_new : forall kx, In (snd kx) sense_items ->
    exists ky, In ky (A.enumerate_from nS lss)
               /\ A.vgetk (snd (snd (snd kx))) "synset" = VStr (sid (snd ky))
               /\ sense_columns T (mkS kx) = Some (qOf kx, mkE (fst (snd kx)), mkY ky).
Proof.
  intros [k0 x] Hx. cbn [fst snd] in *. destruct (sense_synset_resolves x Hx) as [ky [Hky Ey]].
  exists ky. split; [exact Hky|]. split; [exact Ey|].
  destruct (mkS_fields k0 x ky Hx Hky Ey) as (F1 & F2 & F3 & F4 & F5). cbv zeta in *.
  destruct (sense_items_In _ _ _ Hx) as [Hke _].
  unfold sense_columns. rewrite F4, F5, (find_new_entry _ Hke), (find_new_synset _ Hky).
  unfold qOf. cbn [fst snd]. rewrite F1, F2, F3, mkE_id, mkY_id, Ey. reflexivity.
Qed.

Lemma flat_map_nil_in : forall {X Y} (f : X -> list Y) l, (forall x, In x l -> f x = []) -> flat_map f l = [].
Proof.
  intros X Y f l H. induction l as [|x l IH]; simpl; [reflexivity|].
  rewrite (H x (or_introl eq_refl)). apply IH. intros y Hy. apply H. right. exact Hy.
Qed.
Lemma flat_map_single_in : forall {X Y} (f : X -> list Y) (g : X -> Y) l,
    (forall x, In x l -> f x = [g x]) -> flat_map f l = map g l.
Proof.
  intros X Y f g l H. induction l as [|x l IH]; simpl; [reflexivity|].
  rewrite (H x (or_introl eq_refl)). cbn [app]. f_equal. apply IH. intros y Hy. apply H. right. exact Hy.
Qed.

Lemma enum_sense_items : forall kx, In kx (A.enumerate_from nN sense_items) -> In (snd kx) sense_items.
Proof. intros kx H. rewrite <- (enumerate_snd sense_items nN). apply in_map. exact H. Qed.

Lemma find_senses_new : forall saf,
    find_senses T None [] None [lexid] false saf = map qOf (A.enumerate_from nN sense_items).
Proof.
  intro saf. unfold find_senses. cbn [nonempty].
  rewrite (flat_map_ext _ (fun s => match sense_columns T s with
                                    | Some (q, _, _) => if Z.eqb (se_lexicon_rowid s) lexid then [q] else []
                                    | None => []
                                    end)).
  2:{ intro s. destruct (sense_columns T s) as [[[q e] y]|]; [|reflexivity]. simpl. rewrite orb_false_r. reflexivity. }
  rewrite typed_senses, flat_map_app. rewrite flat_map_nil_in.
  2:{ intros s Hs. destruct (sense_columns T s) as [[[q e] y]|]; [|reflexivity].
      pose proof (wf_db_senses d s Hdb Hs) as Hlt. apply Z.lt_neq in Hlt. apply Z.eqb_neq in Hlt. rewrite Hlt. reflexivity. }
  cbn [app]. rewrite flat_map_map. rewrite (flat_map_single_in _ qOf).
  2:{ intros kx Hkx. destruct (sense_columns_new kx (enum_sense_items kx Hkx)) as [ky [Hky [Ey Esc]]].
      rewrite Esc. destruct kx as [k0 x].
      destruct (mkS_fields k0 x ky (enum_sense_items _ Hkx) Hky Ey) as (_ & _ & F3 & _). cbv zeta in F3.
      rewrite F3, Z.eqb_refl. reflexivity. }
  apply dedup_id. apply (nodup_by_NoDup_key _ qs_rowid).
  - intros a b E. apply q_sense_eqb_eq in E. subst. reflexivity.
  - rewrite map_map. cbn [qOf qs_rowid]. apply enumerate_fst_NoDup.
Qed.

(* (K4, rows) the Sense objects of the new lexicon: one per local Sense element, in document order *)
Lemma K4_rows : forall w, wn_lexicon_ids w = [lexid] ->
    Wordnet_senses T w None None = map (fun kx => mk_Sense w (qOf kx)) (A.enumerate_from nN sense_items).
Proof.
  intros w Hw. unfold Wordnet_senses, _find_helper. rewrite Hw, find_senses_new, map_map. reflexivity.
Qed.

(* ---------- navigation ---------- *)
Lemma declaring_single : forall s lx,
    wn_default_mode (sn_wordnet s) = false -> wn_lexicon_ids (sn_wordnet s) = [lx] -> sn_lexid s = lx ->
    forall l, In l (Sense_get_declaring_lexicon_ids T s) <-> l = lx.
Proof.
  intros s lx Hm Hids Hl l. unfold Sense_get_declaring_lexicon_ids. rewrite Hm, Hids, Hl.
  assert (z_in lx [lx] = true) as Ez by (apply z_in_In; left; reflexivity).
  cbn [filter]. rewrite Ez. cbn [nonempty]. split.
  - intros [E|H]; [symmetry; exact E|]. apply filter_In in H. destruct H as [_ H].
    apply z_in_In in H. destruct H as [E|[]]. symmetry. exact E.
  - intros ->. left. reflexivity.
Qed.

Lemma new_entry_unique : forall ke E', In ke (A.enumerate_from nE les) ->
    In E' (t_entries T) -> en_id E' = en_id (mkE ke) -> en_lexicon_rowid E' = lexid -> E' = mkE ke.
Proof.
  intros ke E' Hke HE' Eid Elex. rewrite typed_entries in HE'. apply in_app_or in HE'. destruct HE' as [Hold|Hnew].
  - pose proof (wf_db_entries d E' Hdb Hold). lia.
  - apply in_map_iff in Hnew. destruct Hnew as [ke' [<- Hke']]. f_equal.
    rewrite !mkE_id in Eid.
    apply (NoDup_map_inj (fun kx : Z * val => sid (snd kx)) (A.enumerate_from nE les)); try assumption.
    rewrite <- (map_map snd sid), enumerate_snd. exact (wl_entry_nodup L HL).
Qed.
Lemma new_synset_unique : forall ky Y', In ky (A.enumerate_from nS lss) ->
    In Y' (t_synsets T) -> sy_id Y' = sy_id (mkY ky) -> sy_lexicon_rowid Y' = lexid -> Y' = mkY ky.
Proof.
  intros ky Y' Hky HY' Eid Elex. rewrite typed_synsets in HY'. apply in_app_or in HY'. destruct HY' as [Hold|Hnew].
  - pose proof (wf_db_synsets d Y' Hdb Hold). lia.
  - apply in_map_iff in Hnew. destruct Hnew as [ky' [<- Hky']]. f_equal.
    rewrite !mkY_id in Eid.
    apply (NoDup_map_inj (fun kx : Z * val => sid (snd kx)) (A.enumerate_from nS lss)); try assumption.
    rewrite <- (map_map snd sid), enumerate_snd. exact (wl_synset_nodup L HL).
Qed.

(* every new entry has a form (its lemma) *)
Lemma new_entry_has_form : forall ke, In ke (A.enumerate_from nE les) ->
    exists f, In f (t_forms T) /\ fm_entry_rowid f = en_rowid (mkE ke).
Proof.
  intros ke Hke. assert (In (mkE ke) (map fst items)) as Hin by (rewrite items_fst; apply in_map; exact Hke).
  apply in_map_iff in Hin. destruct Hin as [it [Eit Hit]].
  pose proof (items_nonempty it Hit) as Hne. destruct (snd it) as [|f g] eqn:Eg; [contradiction|].
  exists f. split.
  - rewrite typed_forms. apply in_or_app. right. apply in_concat. exists (snd it).
    split; [apply in_map; exact Hit|rewrite Eg; left; reflexivity].
  - rewrite (items_owns it f Hit) by (rewrite Eg; left; reflexivity). unfold item_key. rewrite Eit. reflexivity.
Qed.

Lemma K4_section : forall w, wn_lexicon_ids w = [lexid] -> wn_default_mode w = false ->
    Forall2 (fun (sn : Sense) (es : val * val) =>
               sn_id sn = doc_text (A.vgetk (snd es) "id") /\ sn_entry_id sn = sid (fst es)
               /\ sn_synset_id sn = doc_text (A.vgetk (snd es) "synset")
               /\ sn_lexid sn = lexid /\ sn_wordnet sn = w
               /\ (exists x, Sense_word T sn = Ok x /\ wd_id x = sid (fst es) /\ wd_pos x = doc_pos (fst es)
                             /\ wd_lexid x = lexid /\ wd_wordnet x = w
                             /\ exists x', In x' (Wordnet_words T w None None) /\ wd__id x' = wd__id x
                                           /\ wd_id x' = sid (fst es))
               /\ (exists y, Sense_synset T sn = Ok y /\ ss_id y = doc_text (A.vgetk (snd es) "synset")
                             /\ ss_lexid y = lexid /\ ss_wordnet y = w
                             /\ In y (Wordnet_synsets T w None None None)))
            (Wordnet_senses T w None None)
            (flat_map (fun e => map (fun s => (e, s)) (lsenses e)) les).
Proof.
  intros w Hw Hm. rewrite (K4_rows w Hw). rewrite <- (sense_items_doc les nE).
  assert (forall {X Y Z0} (P : Y -> Z0 -> Prop) (F : Z * X -> Y) (G : X -> Z0) l n,
             (forall kx, In kx (A.enumerate_from n l) -> P (F kx) (G (snd kx))) ->
             Forall2 P (map F (A.enumerate_from n l)) (map G l)) as F2.
  { intros X Y Z0 P F G l n H. rewrite <- (enumerate_snd l n) at 2. rewrite map_map.
    induction (A.enumerate_from n l) as [|kx kxs IH]; simpl; constructor.
    - apply H. left. reflexivity.
    - apply IH. intros kx' Hkx'. apply H. right. exact Hkx'. }
  apply F2. clear F2. intros kx Hkx.
  pose proof (enum_sense_items kx Hkx) as Hx.
  destruct (sense_columns_new kx Hx) as [ky [Hky [Ey Esc]]].
  destruct (sense_items_In _ _ _ Hx) as [Hke Hs].
  destruct kx as [k0 [[ke e] [j s]]]. cbn [fst snd] in *.
  set (sn := mk_Sense w (qOf (k0, ((ke, e), (j, s))))).
  assert (sense_entity T sn (mkS (k0, ((ke, e), (j, s)))) (mkE (ke, e)) (mkY ky)) as Hent.
  { apply sense_entity_of_columns; [|exact Esc].
    rewrite typed_senses. apply in_or_app. right. apply in_map. exact Hkx. }
  assert (forall l, In l (Sense_get_declaring_lexicon_ids T sn) <-> l = lexid) as Hdecl.
  { apply declaring_single; [exact Hm|exact Hw|reflexivity]. }
  destruct (is_sid_spec e (wl_entry_ids L HL e (enum_local _ Hke))) as [_ Hne_e].
  assert (In (snd ky) lss) as Hss by (rewrite <- (enumerate_snd lss nS); apply in_map; exact Hky).
  destruct (is_sid_spec (snd ky) (wl_synset_ids L HL _ Hss)) as [_ Hne_y].
  cbn [sn_id sn_entry_id sn_synset_id sn_lexid sn_wordnet mk_Sense qOf qs_id qs_entry_id qs_synset_id qs_lexid fst snd].
  repeat (split; [reflexivity|]). split.
  - (* Sense.word() *)
    destruct (Sense_word_is_entry T sn _ _ _ Hent) as [x (Hx1 & Hx2 & Hx3 & Hx4 & Hx5 & Hx6 & _)].
    + rewrite mkE_id. exact Hne_e.
    + apply Hdecl. apply mkE_lex.
    + intros E' HE' Eid Hl. apply Hdecl in Hl. apply (new_entry_unique (ke, e) E' Hke HE' Eid Hl).
    + apply (new_entry_has_form (ke, e) Hke).
    + exists x. split; [exact Hx1|]. rewrite Hx3, Hx4, Hx5, Hx6, mkE_id, mkE_pos, mkE_lex. cbn [snd].
      repeat (split; [reflexivity|]).
      assert (In (mkE (ke, e)) (map fst items)) as Hin by (rewrite items_fst; apply in_map; exact Hke).
      apply in_map_iff in Hin. destruct Hin as [it [Eit Hit]].
      exists (mk_Word w (word_of_item it)). split; [rewrite (K3_rows w Hw); apply (in_map (fun it0 => mk_Word w (word_of_item it0))); exact Hit|].
      cbn [mk_Word word_of_item wd__id wd_id qw_rowid qw_id]. rewrite Eit, Hx2, mkE_id. split; reflexivity.
  - (* Sense.synset() *)
    exists (mk_Synset w (synset_columns T (mkY ky))). split.
    + apply (Sense_synset_is_synset T sn _ _ _ Hent).
      * rewrite mkY_id. exact Hne_y.
      * apply Hdecl. apply mkY_lex.
      * intros Y' HY' Eid Hl. apply Hdecl in Hl. apply (new_synset_unique ky Y' Hky HY' Eid Hl).
    + cbn [mk_Synset ss_id ss_lexid ss_wordnet synset_columns qy_id qy_lexid]. rewrite mkY_id, mkY_lex, Ey.
      repeat (split; [reflexivity|]).
      rewrite (K2_rows nt L d d' w Hadd Hdb Hw). unfold doc_Synset. fold (mkY ky).
      apply (in_map (fun kx => mk_Synset w (synset_columns T (mkY kx)))). exact Hky.
Qed.
End Added.

(* ====================================================================== *)
(* The theorems, from add_lexical_resource                                 *)
(* ====================================================================== *)
(* K1 (forms, senses), restated: the typed forms / senses of conv d' are those of conv d followed
   by the typed rows of the document's elements ([mk_items]: entry by entry, the lemma then the
   local forms; [sense_items_from]: the local senses in document order) *)
Theorem K1_forms : forall nt L d d',
    A.add_one_lexicon nt L d = R.Ok d' -> vtruthy (A.vgetk L "extends") = false -> wf_lex L = true ->
    t_forms (conv d')
    = (t_forms (conv d)
       ++ List.concat (map snd (mk_items nt d d' (R.next_rowid (R.get_table d "forms"))
                                         (A.enumerate_from (R.next_rowid (R.get_table d "entries"))
                                                           (A._local_entries (A._entries L))))))%list.
Proof. intros nt L d d' H He Hl. apply (typed_forms nt L d d' H He (wf_lex_spec L Hl)). Qed.
Theorem K1_senses : forall nt L d d',
    A.add_one_lexicon nt L d = R.Ok d' -> vtruthy (A.vgetk L "extends") = false -> wf_lex L = true ->
    t_senses (conv d')
    = (t_senses (conv d)
       ++ map (mkS L d d')
              (A.enumerate_from (R.next_rowid (R.get_table d "senses"))
                                (sense_items_from (R.next_rowid (R.get_table d "entries"))
                                                  (A._local_entries (A._entries L)))))%list.
Proof. intros nt L d d' H He Hl. apply (typed_senses nt L d d' H He (wf_lex_spec L Hl)). Qed.

Lemma new_lexicon_not_extension : forall d L, new_lexicon d L = true -> vtruthy (A.vgetk L "extends") = false.
Proof.
  intros d L H. unfold new_lexicon in H. apply andb_true_iff in H. destruct H as [_ H].
  apply negb_true_iff. exact H.
Qed.

(* (K3) the words that the API lists for the new lexicon are exactly the local LexicalEntry elements of
   the document, in document order; each has the element's id, the part of speech of its Lemma, and as
   forms the lemma followed by the local Form elements in document order (written form, id, script) *)
Theorem K3_words : forall d r nt d' L w,
    A.add_lexical_resource d r nt = R.Ok d' -> A.vreq r "lexicons" = R.Ok (VList [L]) ->
    new_lexicon d L = true -> wf_db d = true -> wf_lex L = true ->
    let lexid := R.next_rowid (R.get_table d "lexicons") in
    wn_lexicon_ids w = [lexid] ->
    Forall2 (fun (x : Word) (e : val) =>
               wd_id x = sid e /\ wd_pos x = doc_pos e /\ wd_lexid x = lexid /\ wd_wordnet x = w
               /\ map (fun q => (qf_form q, qf_id q, qf_script q)) (wd_forms x) = doc_forms e)
            (Wordnet_words (conv d') w None None)
            (A._local_entries (A._entries L)).
Proof.
  intros d r nt d' L w H Hr Hn Hdb Hl lexid Hw.
  apply (K3_section nt L d d' (single_new_lexicon d r nt d' L H Hr Hn) (new_lexicon_not_extension d L Hn)
                    Hdb (wf_lex_spec L Hl) w Hw).
Qed.

(* the local Sense elements of the document with their entries, in document order *)
Definition doc_senses (L : val) : list (val * val) :=
  flat_map (fun e => map (fun s => (e, s)) (A._local_senses (A._senses e))) (A._local_entries (A._entries L)).

(* (K4) the senses that the API lists for the new lexicon are exactly the local Sense elements of the
   document, in document order, with the ids of their entry and synset; Sense.word() is the word of the
   entry (one of the listed words), Sense.synset() the synset referred to (one of the listed synsets) *)
Theorem K4_senses : forall d r nt d' L w,
    A.add_lexical_resource d r nt = R.Ok d' -> A.vreq r "lexicons" = R.Ok (VList [L]) ->
    new_lexicon d L = true -> wf_db d = true -> wf_lex L = true ->
    let lexid := R.next_rowid (R.get_table d "lexicons") in
    let T := conv d' in
    wn_lexicon_ids w = [lexid] -> wn_default_mode w = false ->
    Forall2 (fun (sn : Sense) (es : val * val) =>
               sn_id sn = doc_text (A.vgetk (snd es) "id") /\ sn_entry_id sn = sid (fst es)
               /\ sn_synset_id sn = doc_text (A.vgetk (snd es) "synset")
               /\ sn_lexid sn = lexid /\ sn_wordnet sn = w
               /\ (exists x, Sense_word T sn = Ok x /\ wd_id x = sid (fst es) /\ wd_pos x = doc_pos (fst es)
                             /\ wd_lexid x = lexid /\ wd_wordnet x = w
                             /\ exists x', In x' (Wordnet_words T w None None) /\ wd__id x' = wd__id x
                                           /\ wd_id x' = sid (fst es))
               /\ (exists y, Sense_synset T sn = Ok y /\ ss_id y = doc_text (A.vgetk (snd es) "synset")
                             /\ ss_lexid y = lexid /\ ss_wordnet y = w
                             /\ In y (Wordnet_synsets T w None None None)))
            (Wordnet_senses T w None None) (doc_senses L).
Proof.
  intros d r nt d' L w H Hr Hn Hdb Hl lexid T Hw Hm.
  apply (K4_section nt L d d' (single_new_lexicon d r nt d' L H Hr Hn) (new_lexicon_not_extension d L Hn)
                    Hdb (wf_lex_spec L Hl) w Hw Hm).
Qed.

(* the projections of K3 / K4 as list equalities *)
Corollary K3_word_ids : forall d r nt d' L w,
    A.add_lexical_resource d r nt = R.Ok d' -> A.vreq r "lexicons" = R.Ok (VList [L]) ->
    new_lexicon d L = true -> wf_db d = true -> wf_lex L = true ->
    wn_lexicon_ids w = [R.next_rowid (R.get_table d "lexicons")] ->
    map (fun x => (wd_id x, wd_pos x, map (fun q => (qf_form q, qf_id q, qf_script q)) (wd_forms x)))
        (Wordnet_words (conv d') w None None)
    = map (fun e => (sid e, doc_pos e, doc_forms e)) (A._local_entries (A._entries L)).
Proof.
  intros d r nt d' L w H Hr Hn Hdb Hl Hw.
  pose proof (K3_words d r nt d' L w H Hr Hn Hdb Hl Hw) as HF. cbv zeta in HF.
  induction HF as [|x e xs es (E1 & E2 & _ & _ & E3) HF IH]; [reflexivity|].
  simpl. rewrite E1, E2, E3, IH. reflexivity.
Qed.
Corollary K4_sense_ids : forall d r nt d' L w,
    A.add_lexical_resource d r nt = R.Ok d' -> A.vreq r "lexicons" = R.Ok (VList [L]) ->
    new_lexicon d L = true -> wf_db d = true -> wf_lex L = true ->
    wn_lexicon_ids w = [R.next_rowid (R.get_table d "lexicons")] -> wn_default_mode w = false ->
    map (fun sn => (sn_id sn, sn_entry_id sn, sn_synset_id sn)) (Wordnet_senses (conv d') w None None)
    = map (fun es : val * val => (doc_text (A.vgetk (snd es) "id"), sid (fst es),
                                  doc_text (A.vgetk (snd es) "synset"))) (doc_senses L).
Proof.
  intros d r nt d' L w H Hr Hn Hdb Hl Hw Hm.
  pose proof (K4_senses d r nt d' L w H Hr Hn Hdb Hl Hw Hm) as HF. cbv zeta in HF.
  induction HF as [|x e xs es (E1 & E2 & E3 & _) HF IH]; [reflexivity|].
  simpl. rewrite E1, E2, E3, IH. reflexivity.
Qed.

(* ====================================================================== *)
(* wf_db follows from referential integrity (AddProofs.fk_ok, preserved by add) *)
(* ====================================================================== *)
Definition has_fk (t c p : string) : bool :=
  existsb (fun e : string * R.columns_t * R.fkeys_t * R.uniques_t =>
             let '(t', _, fks, _) := e in
             String.eqb t' t
             && existsb (fun fk : string * string * string * string =>
                           let '(c', p', _, _) := fk in String.eqb c' c && String.eqb p' p) fks)
          Schema.schema.
Lemma fk_ok_col : forall d t c p,
    has_fk t c p = true -> AP.fk_ok d = true ->
    forall r, In r (R.get_table d t) -> AP.fk_cell_ok d p (R.col t c r) = true.
Proof.
  intros d t c p Hfk Hok r Hr. unfold has_fk in Hfk. apply existsb_exists in Hfk.
  destruct Hfk as [[[[t' cols] fks] uqs] [Hin H]]. apply andb_true_iff in H. destruct H as [Et H].
  apply String.eqb_eq in Et. subst t'. apply existsb_exists in H. destruct H as [[[[c' p'] pc] a] [Hfk H]].
  apply andb_true_iff in H. destruct H as [Ec Ep]. apply String.eqb_eq in Ec, Ep. subst c' p'.
  apply (proj1 (AP.fk_ok_iff d) Hok t cols fks uqs Hin c p pc a Hfk r Hr).
Qed.
Lemma next_rowid_pos : forall rows, 1 <= R.next_rowid rows.
Proof. intro rows. unfold R.next_rowid. destruct (AP.fold_max_ge rows 0) as [H _]. lia. Qed.
Lemma fk_cell_below : forall d p c,
    AP.fk_cell_ok d p c = true -> c_int (conv_cell c) < R.next_rowid (R.get_table d p).
Proof.
  intros d p [|n|s|v] H; simpl in *; try discriminate.
  - pose proof (next_rowid_pos (R.get_table d p)). lia.
  - apply AP.zmem_z_In in H. unfold AP.rowids in H. apply in_map_iff in H. destruct H as [r [<- Hr]].
    apply AP.next_rowid_fresh. exact Hr.
Qed.
Theorem fk_ok_wf_db : forall d, AP.fk_ok d = true -> wf_db d = true.
Proof.
  intros d Hok. unfold wf_db. cbv zeta. rewrite conv_synsets, conv_entries, conv_senses, conv_forms.
  repeat (apply andb_true_iff; split); apply forallb_forall; intros x Hx; apply in_map_iff in Hx;
    destruct Hx as [r [<- Hr]]; apply Z.ltb_lt.
  - unfold synset_of_row. cbn [sy_lexicon_rowid]. rewrite col_conv_row.
    apply (fk_cell_below d "lexicons"). apply (fk_ok_col d "synsets" "lexicon_rowid" "lexicons" eq_refl Hok r Hr).
  - unfold entry_of_row. cbn [en_lexicon_rowid]. rewrite col_conv_row.
    apply (fk_cell_below d "lexicons"). apply (fk_ok_col d "entries" "lexicon_rowid" "lexicons" eq_refl Hok r Hr).
  - unfold sense_of_row. cbn [se_lexicon_rowid]. rewrite col_conv_row.
    apply (fk_cell_below d "lexicons"). apply (fk_ok_col d "senses" "lexicon_rowid" "lexicons" eq_refl Hok r Hr).
  - unfold form_of_row. cbn [fm_entry_rowid]. rewrite col_conv_row.
    apply (fk_cell_below d "entries"). apply (fk_ok_col d "forms" "entry_rowid" "entries" eq_refl Hok r Hr).
Qed.

(* ====================================================================== *)
(* Part 5 — validation of [conv] on real data, a worked example, summary   *)
(* ====================================================================== *)
(* (a) on the database of a recorded core case (Samples/core_case_1_3: 8 entries, 9 synsets, 12 senses),
   reading it with the Rel decoder and bridging gives exactly what the Tables decoder reads *)
Require WnV.Samples.core_case_1_3.
Example conv_on_core_case_1_3 :
  let x := sx_nth 0 core_case_1_3.input_3 in
  conv (R.db_of_sx x) = Tables.db_of_sx x
  /\ (List.length (t_entries (conv (R.db_of_sx x))), List.length (t_synsets (conv (R.db_of_sx x))),
      List.length (t_senses (conv (R.db_of_sx x)))) = (8%nat, 9%nat, 12%nat)
  /\ db_ok (conv (R.db_of_sx x)) = true.
Proof. vm_compute. repeat split. Qed.
(* (the run_add cases of /verif/coq-wip/add/samples are checked in ComposeSamples.v) *)

(* (b) a worked example: to AddProofs.ex_db (four ILIs) with the lexicon ba:1 of AddProofs added, add the
   lexicon zz:2 below: two local entries (one with two local forms and an external one), an inert
   external entry, two local synsets and an external one, three senses *)
Definition ex_L : val :=
  AP.vd [("id", A.vs "zz"); ("label", A.vs "Zed"); ("language", A.vs "en"); ("email", A.vs "z@z.z");
      ("license", A.vs "CC"); ("version", A.vs "2"); ("meta", VNone);
      ("entries", VList [
         AP.vd [("id", A.vs "w1");
             ("lemma", AP.vd [("writtenForm", A.vs "cat"); ("partOfSpeech", A.vs "n"); ("script", A.vs "Latn")]);
             ("forms", VList [AP.vd [("writtenForm", A.vs "cats"); ("id", A.vs "w1-f1")];
                              AP.vd [("id", A.vs "w1-x"); ("external", VBool true)];
                              AP.vd [("writtenForm", A.vs "kats"); ("script", A.vs "Latn")]]);
             ("meta", VNone);
             ("senses", VList [AP.vd [("id", A.vs "w1-s1"); ("synset", A.vs "y1"); ("meta", VNone)];
                               AP.vd [("id", A.vs "w1-s2"); ("synset", A.vs "y2"); ("meta", VNone)]])];
         AP.vd [("id", A.vs "wx"); ("external", VBool true);
             ("forms", VList [AP.vd [("id", A.vs "wx-f"); ("external", VBool true)]])];
         AP.vd [("id", A.vs "w2");
             ("lemma", AP.vd [("writtenForm", A.vs "dog"); ("partOfSpeech", A.vs "v")]);
             ("meta", VNone);
             ("senses", VList [AP.vd [("id", A.vs "w2-s1"); ("synset", A.vs "y1"); ("meta", VNone)]])]]);
      ("synsets", VList [
         AP.vd [("id", A.vs "y1"); ("ili", A.vs "i1"); ("partOfSpeech", A.vs "n"); ("meta", VNone)];
         AP.vd [("id", A.vs "yx"); ("external", VBool true)];
         AP.vd [("id", A.vs "y2"); ("ili", A.vs ""); ("partOfSpeech", A.vs "v"); ("meta", VNone)]])].
Definition ex_d : R.db :=
  match A.add_lexical_resource AP.ex_db (AP.ex_resource [AP.ex_lexicon "ba" []]) [] with R.Ok d => d | _ => [] end.
Definition ex_r : val := AP.ex_resource [ex_L].
Definition ex_d' : R.db := match A.add_lexical_resource ex_d ex_r [] with R.Ok d => d | _ => [] end.
(* the Wordnet object restricted to the new lexicon, obtained from the model's Wordnet.__init__ *)
Definition ex_w : Wordnet :=
  match Wordnet_init (conv ex_d') (Some (S_ "zz:2")) None None false [] None true with
  | Ok w => w
  | _ => {| wn_lexicon_ids := []; wn_expanded_ids := []; wn_default_mode := true; wn_warned := false;
            wn_normalizer := false; wn_norm_table := []; wn_lemmatizer := None; wn_search_all_forms := false |}
  end.

(* the hypotheses of K2-K4 hold: they are not vacuous *)
Example ex_hypotheses :
  A.add_lexical_resource ex_d ex_r [] = R.Ok ex_d'
  /\ A.vreq ex_r "lexicons" = R.Ok (VList [ex_L])
  /\ new_lexicon ex_d ex_L = true /\ wf_db ex_d = true /\ wf_lex ex_L = true
  /\ AP.fk_ok ex_d = true
  /\ Wordnet_init (conv ex_d') (Some (S_ "zz:2")) None None false [] None true = Ok ex_w
  /\ wn_lexicon_ids ex_w = [R.next_rowid (R.get_table ex_d "lexicons")] /\ wn_default_mode ex_w = false
  /\ R.next_rowid (R.get_table ex_d "lexicons") = 2
  /\ db_ok (conv ex_d') = true.
Proof. vm_compute. repeat split. Qed.

(* what the theorems say on the example, obtained FROM the theorems *)
Example ex_by_theorems :
  map ss_id (Wordnet_synsets (conv ex_d') ex_w None None None) = [S_ "y1"; S_ "y2"]
  /\ map ss_pos (Wordnet_synsets (conv ex_d') ex_w None None None) = [Some (S_ "n"); Some (S_ "v")]
  /\ map (fun x => (wd_id x, wd_pos x, map (fun q => (qf_form q, qf_id q, qf_script q)) (wd_forms x)))
         (Wordnet_words (conv ex_d') ex_w None None)
     = [(S_ "w1", S_ "n", [(S_ "cat", None, Some (S_ "Latn")); (S_ "cats", Some (S_ "w1-f1"), None);
                           (S_ "kats", None, Some (S_ "Latn"))]);
        (S_ "w2", S_ "v", [(S_ "dog", None, None)])]
  /\ map (fun sn => (sn_id sn, sn_entry_id sn, sn_synset_id sn)) (Wordnet_senses (conv ex_d') ex_w None None)
     = [(S_ "w1-s1", S_ "w1", S_ "y1"); (S_ "w1-s2", S_ "w1", S_ "y2"); (S_ "w2-s1", S_ "w2", S_ "y1")].
Proof.
  destruct ex_hypotheses as (H & Hr & Hn & Hdb & Hl & _ & _ & Hw & Hm & _).
  destruct (K2_synset_ids ex_d ex_r [] ex_d' ex_L ex_w H Hr Hn Hdb Hw) as [E1 E2].
  pose proof (K3_word_ids ex_d ex_r [] ex_d' ex_L ex_w H Hr Hn Hdb Hl Hw) as E3.
  pose proof (K4_sense_ids ex_d ex_r [] ex_d' ex_L ex_w H Hr Hn Hdb Hl Hw Hm) as E4.
  rewrite E1, E2, E3, E4. vm_compute. repeat split.
Qed.
(* ... and the same by evaluating the query model (an independent check of the statements) *)
Example ex_by_evaluation :
  map ss_id (Wordnet_synsets (conv ex_d') ex_w None None None) = [S_ "y1"; S_ "y2"]
  /\ map (fun x => (wd_id x, map qf_form (wd_forms x))) (Wordnet_words (conv ex_d') ex_w None None)
     = [(S_ "w1", [S_ "cat"; S_ "cats"; S_ "kats"]); (S_ "w2", [S_ "dog"])]
  /\ map (fun sn => (sn_id sn, RES (Sense_word (conv ex_d') sn) (fun x => sx_of_str (wd_id x)),
                     RES (Sense_synset (conv ex_d') sn) (fun y => sx_of_str (ss_id y))))
         (Wordnet_senses (conv ex_d') ex_w None None)
     = [(S_ "w1-s1", sx_of_str (S_ "w1"), sx_of_str (S_ "y1"));
        (S_ "w1-s2", sx_of_str (S_ "w1"), sx_of_str (S_ "y2"));
        (S_ "w2-s1", sx_of_str (S_ "w2"), sx_of_str (S_ "y1"))].
Proof. vm_compute. repeat split. Qed.

(* (c) the hypotheses cannot be dropped: three witnesses (each resource is added successfully) *)
Definition cx_lex (entries synsets : list val) : val :=
  AP.vd [("id", A.vs "l"); ("label", A.vs "L"); ("language", A.vs "en"); ("email", A.vs "a@b.c");
         ("license", A.vs "CC"); ("version", A.vs "1"); ("meta", VNone);
         ("entries", VList entries); ("synsets", VList synsets)].
Definition cx_entry (id wf : string) (more : list (string * val)) : val :=
  AP.vd ([("id", A.vs id); ("lemma", AP.vd [("writtenForm", A.vs wf); ("partOfSpeech", A.vs "n")]);
          ("meta", VNone)] ++ more)%list.
Definition cx_synset (id : string) : val :=
  AP.vd [("id", A.vs id); ("ili", A.vs ""); ("partOfSpeech", A.vs "n"); ("meta", VNone)].
Definition cx_sense (id ss : string) : val := AP.vd [("id", A.vs id); ("synset", A.vs ss); ("meta", VNone)].
Definition cx_w : Wordnet :=        (* by hand: the new lexicon gets rowid 1 *)
  {| wn_lexicon_ids := [1]; wn_expanded_ids := []; wn_default_mode := false; wn_warned := false;
     wn_normalizer := false; wn_norm_table := []; wn_lemmatizer := None; wn_search_all_forms := true |}.
Definition cx_add (d : R.db) (L0 : val) : R.db :=
  match A.add_lexical_resource d (AP.ex_resource [L0]) [] with R.Ok d' => d' | _ => [] end.

(* without [wf_db]: a dangling synsets row of d (lexicon_rowid 1, no lexicon) is listed with the new lexicon *)
Definition cx_d : R.db :=
  [(R.tn "synsets", [[R.CInt 1; R.CText (A.k "ghost"); R.CInt 1; R.CNull; R.CText (A.k "n"); R.CInt 1;
                      R.CNull; R.CNull]])].
Example wf_db_needed :
  let L0 := cx_lex [] [cx_synset "y"] in
  A.add_lexical_resource cx_d (AP.ex_resource [L0]) [] = R.Ok (cx_add cx_d L0)
  /\ new_lexicon cx_d L0 = true /\ wf_lex L0 = true /\ wf_db cx_d = false
  /\ map ss_id (Wordnet_synsets (conv (cx_add cx_d L0)) cx_w None None None) = [S_ "ghost"; S_ "y"].
Proof. vm_compute. repeat split. Qed.
(* without "ids are not empty": Sense.word() of a sense of the entry with id "" is the word "a"
   (an empty id switches the id filter of find_entries off) *)
Example nonempty_ids_needed :
  let L0 := cx_lex [cx_entry "a" "cat" [("senses", VList [cx_sense "s1" "y"])];
                    cx_entry "" "dog" [("senses", VList [cx_sense "s2" "y"])]] [cx_synset "y"] in
  let T := conv (cx_add [] L0) in
  A.add_lexical_resource [] (AP.ex_resource [L0]) [] = R.Ok (cx_add [] L0)
  /\ new_lexicon [] L0 = true /\ wf_db [] = true /\ wf_lex L0 = false
  /\ map (fun sn => (sn_id sn, sn_entry_id sn, RES (Sense_word T sn) (fun x => sx_of_str (wd_id x))))
         (Wordnet_senses T cx_w None None)
     = [(S_ "s1", S_ "a", sx_of_str (S_ "a")); (S_ "s2", [], sx_of_str (S_ "a"))].
Proof. vm_compute. repeat split. Qed.
(* without [inert_external]: a local form of an external entry that shares its id with a local entry is
   attached to the local entry *)
Example inert_external_needed :
  let L0 := cx_lex [cx_entry "a" "cat" [];
                    AP.vd [("id", A.vs "a"); ("external", VBool true);
                           ("forms", VList [AP.vd [("writtenForm", A.vs "zzz")]])]] [] in
  A.add_lexical_resource [] (AP.ex_resource [L0]) [] = R.Ok (cx_add [] L0)
  /\ new_lexicon [] L0 = true /\ wf_db [] = true /\ wf_lex L0 = false
  /\ map (fun x => (wd_id x, map qf_form (wd_forms x))) (Wordnet_words (conv (cx_add [] L0)) cx_w None None)
     = [(S_ "a", [S_ "cat"; S_ "zzz"])]
  /\ map (fun e => map (fun t => fst (fst t)) (doc_forms e)) (A._local_entries (A._entries L0)) = [[S_ "cat"]].
Proof. vm_compute. repeat split. Qed.

(* ====================================================================== *)
Print Assumptions table_rows_conv.
Print Assumptions K1_synsets.
Print Assumptions K1_entries.
Print Assumptions K1_forms.
Print Assumptions K1_senses.
Print Assumptions single_new_lexicon.
Print Assumptions K2_rows.
Print Assumptions K2_synsets.
Print Assumptions K2_synset_ids.
Print Assumptions K3_rows.
Print Assumptions K3_words.
Print Assumptions K3_word_ids.
Print Assumptions K4_rows.
Print Assumptions K4_senses.
Print Assumptions K4_sense_ids.
Print Assumptions fk_ok_wf_db.
Print Assumptions ex_by_theorems.
