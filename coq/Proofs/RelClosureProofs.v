(* RelClosureProofs.v — STAGE R (C11), R2 and R3 for senses and synsets: the generic facts of
   RelGeneric.v instantiated with Sense_get_related / Synset_get_related and the model's fuel. *)
From Coq Require Import ZArith List Bool Lia.
Import ListNotations.
Require Import WnV.Base.Sx WnV.Model.Spec WnV.Model.Tables WnV.Model.Query WnV.Model.Core.
Require Import WnV.Proofs.CoreLemmas WnV.Proofs.QueryFacts WnV.Proofs.ScopeProofs WnV.Proofs.SearchProofs WnV.Proofs.NavProofs
               WnV.Proofs.RelGeneric WnV.Proofs.RelProofs.
Local Open Scope Z_scope.

Section Instances.
Variable d : db.
Hypothesis Hok : db_ok d = true.
Variable w : Wordnet.
(* the Wordnet can navigate: default mode, or a non-empty selection *)
Hypothesis Hscope : wn_default_mode w = true \/ wn_lexicon_ids w <> [].
Variable args : list str.

Lemma scope_nonempty : forall l, scope d w l <> [].
Proof.
  intro l. destruct Hscope as [H|H].
  - apply scope_default_nonempty. exact H.
  - destruct (wn_default_mode w) eqn:E; [apply scope_default_nonempty; exact E|].
    rewrite scope_nondefault by exact E. exact H.
Qed.

(* ================================================================== senses *)
Definition good_sense (s : Sense) : Prop := sn_wordnet s = w /\ exists sr e ss, sense_entity d s sr e ss.
Definition succ_sense (s : Sense) : list Sense :=
  match Sense_get_related d s args with Ok l => l | _ => [] end.

Lemma Sense_get_related_Ok : forall s, good_sense s -> Sense_get_related d s args = Ok (succ_sense s).
Proof.
  intros s [Ew _]. unfold succ_sense. rewrite Sense_get_related_def.
  destruct (Sense_iter_sense_relations_Ok d s args) as [pairs Hp]; [rewrite Ew; apply scope_nonempty|].
  rewrite Hp. reflexivity.
Qed.

Lemma good_sense_succ : forall s t, good_sense s -> In t (succ_sense s) -> good_sense t.
Proof.
  intros s t Hg Ht. pose proof (Sense_get_related_Ok s Hg) as Hgr. destruct Hg as [Ew _].
  destruct (Sense_get_related_iff d Hok s args _ Hgr) as [_ [H2 _]].
  destruct (H2 t Ht) as [r [srel [ty [lex [tsr [e [ss Hrow]]]]]]].
  decompose [and] Hrow. split; [congruence | exists tsr, e, ss; assumption].
Qed.

Lemma good_sense_id : forall s, good_sense s -> In (sn_id s) (map se_id (t_senses d)).
Proof.
  intros s [_ [sr [e [ss [Hsr [_ [_ [E _]]]]]]]]. rewrite E. apply in_map. exact Hsr.
Qed.

Lemma sense_fuel_enough : (length (map se_id (t_senses d)) <= sense_fuel d)%nat.
Proof. rewrite map_length. unfold sense_fuel. lia. Qed.

(* R2 for senses: with the model's fuel, closure() never runs out; it yields senses reachable in one
   or more get_related steps, no identifier twice, and its identifiers are closed under get_related *)
Theorem Sense_closure_ok : forall s, good_sense s ->
  exists result, Sense_closure d (sense_fuel d) s args = Ok result
    /\ NoDup (map sn_id result)
    /\ (forall r, In r result -> reach succ_sense (succ_sense s) r)
    /\ (forall y, In y (succ_sense s) -> In (sn_id y) (map sn_id result))
    /\ (forall r y, In r result -> In y (succ_sense r) -> In (sn_id y) (map sn_id result)).
Proof.
  intros s Hg. unfold Sense_closure.
  exact (closure_ok succ_sense (fun s0 => Sense_get_related d s0 args) sn_id good_sense
           Sense_get_related_Ok good_sense_succ (map se_id (t_senses d)) good_sense_id
           (sense_fuel d) s sense_fuel_enough Hg).
Qed.

(* ... and exactly the reachable senses, each once, when sense identifiers are unique among them *)
Theorem Sense_closure_exact : forall s result, good_sense s ->
  (forall a b, reach succ_sense (succ_sense s) a -> reach succ_sense (succ_sense s) b -> sn_id a = sn_id b -> a = b) ->
  Sense_closure d (sense_fuel d) s args = Ok result ->
  NoDup result /\ forall x, In x result <-> reach succ_sense (succ_sense s) x.
Proof.
  intros s result Hg Hinj H. unfold Sense_closure in H.
  exact (closure_exact succ_sense (fun s0 => Sense_get_related d s0 args) sn_id good_sense
           Sense_get_related_Ok good_sense_succ (map se_id (t_senses d)) good_sense_id
           (sense_fuel d) s result Hinj H sense_fuel_enough Hg).
Qed.

(* R3 for senses *)
Definition sense_universe : list Sense :=
  map (fun sr => {| sn_id := []; sn_entry_id := []; sn_synset_id := []; sn_lexid := 0;
                    sn__id := se_rowid sr; sn_wordnet := w |}) (t_senses d).

Lemma good_sense_key : forall s, good_sense s -> exists u, In u sense_universe /\ Sense_key_eqb u s = true.
Proof.
  intros s [_ [sr [e [ss [Hsr [_ [_ [_ [_ [_ [_ E]]]]]]]]]]].
  eexists. split; [unfold sense_universe; apply in_map; exact Hsr|].
  unfold Sense_key_eqb. simpl. rewrite E. apply Z.eqb_refl.
Qed.

Theorem Sense_relation_paths_ok : forall s, good_sense s ->
  exists ps, Sense_relation_paths d (sense_fuel d) s args = Ok ps
    /\ forall p, In p ps ->
         nodup_by Sense_key_eqb p /\ (forall t, In t p -> sn__id t <> sn__id s)
         /\ exists target ext, p = target :: ext /\ In target (succ_sense s) /\ chain succ_sense target ext.
Proof.
  intros s Hg. unfold Sense_relation_paths.
  destruct (relation_paths_total succ_sense (fun s0 => Sense_get_related d s0 args) sn_id sn__id Sense_key_eqb good_sense
              Sense_get_related_Ok good_sense_succ sense_universe
              (fun a b H => proj2 (Z.eqb_eq _ _) (eq_sym (proj1 (Z.eqb_eq _ _) H)))
              (fun a b c H1 H2 => proj2 (Z.eqb_eq _ _) (eq_trans (proj1 (Z.eqb_eq _ _) H1) (proj1 (Z.eqb_eq _ _) H2)))
              good_sense_key (sense_fuel d) s) as [ps Hps].
  - unfold sense_universe. rewrite map_length. unfold sense_fuel. lia.
  - exact Hg.
  - exists ps. split; [exact Hps|]. intros p Hp.
    destruct (relation_paths_simple succ_sense (fun s0 => Sense_get_related d s0 args) sn_id sn__id Sense_key_eqb good_sense
                Sense_get_related_Ok good_sense_succ (sense_fuel d) s ps p Hg
                (fun a b H => proj1 (Z.eqb_eq _ _) H) Hps Hp) as [H1 H2].
    split; [exact H1|]. split.
    + intros t Ht E. specialize (H2 t Ht). unfold Sense_key_eqb in H2. rewrite E, Z.eqb_refl in H2. discriminate.
    + destruct (relation_paths_sound succ_sense (fun s0 => Sense_get_related d s0 args) sn_id sn__id Sense_key_eqb good_sense
                  Sense_get_related_Ok good_sense_succ (sense_fuel d) s ps p Hg Hps Hp) as [target [ext H]].
      exists target, ext. tauto.
Qed.

(* ================================================================== synsets *)
(* the synsets that can show up: database rows, and inferred placeholders for an existing ILI with
   the lexicon rowid of some synset *)
Definition good_synset (y : Synset) : Prop :=
  (exists ss, In ss (t_synsets d) /\ y = mk_Synset w (synset_columns d ss))
  \/ (exists i l, In i (t_ilis d) /\ In l (map sy_lexicon_rowid (t_synsets d))
                  /\ y = Synset_empty _INFERRED_SYNSET (Some (il_id i)) l w).
Definition succ_synset (y : Synset) : list Synset :=
  match Synset_get_related d y args with Ok l => l | _ => [] end.

Lemma good_synset_wordnet : forall y, good_synset y -> ss_wordnet y = w.
Proof. intros y [[ss [_ ->]]|[i [l [_ [_ ->]]]]]; reflexivity. Qed.
Lemma good_synset_lexid : forall y, good_synset y -> In (ss_lexid y) (map sy_lexicon_rowid (t_synsets d)).
Proof. intros y [[ss [H ->]]|[i [l [_ [H ->]]]]]; simpl; [apply in_map; exact H | exact H]. Qed.

Lemma Synset_iter_expanded_relations_Ok : forall y,
  wn_expanded_ids (ss_wordnet y) <> [] -> exists pairs, Synset_iter_expanded_relations d y args = Ok pairs.
Proof.
  intros y H. unfold Synset_iter_expanded_relations, get_synset_relations, synset_target_query.
  apply nonempty_true in H. rewrite H. simpl. eexists. reflexivity.
Qed.

Lemma Synset_iter_relations_Ok : forall y, good_synset y -> exists pairs, Synset_iter_relations d y args = Ok pairs.
Proof.
  intros y Hg. pose proof (good_synset_wordnet y Hg) as Ew. unfold Synset_iter_relations.
  assert (H1 : exists loc, (if negb (Z.eqb (ss__id y) NON_ROWID) then Synset_iter_local_relations d y args else Ok []) = Ok loc).
  { destruct (negb (Z.eqb (ss__id y) NON_ROWID)); [|eexists; reflexivity].
    apply Synset_iter_local_relations_Ok. rewrite Ew. apply scope_nonempty. }
  assert (H2 : exists exp, (match ss_ili y with
                            | Some _ => if nonempty (wn_expanded_ids (ss_wordnet y))
                                        then Synset_iter_expanded_relations d y args else Ok []
                            | None => Ok [] end) = Ok exp).
  { destruct (ss_ili y); [|eexists; reflexivity].
    destruct (nonempty (wn_expanded_ids (ss_wordnet y))) eqn:E; [|eexists; reflexivity].
    apply Synset_iter_expanded_relations_Ok. apply nonempty_true. exact E. }
  destruct H1 as [loc H1]. destruct H2 as [exp H2]. rewrite H1. simpl. rewrite H2. simpl. eexists. reflexivity.
Qed.

Lemma Synset_get_related_Ok : forall y, good_synset y -> Synset_get_related d y args = Ok (succ_synset y).
Proof.
  intros y Hg. unfold succ_synset. rewrite Synset_get_related_def.
  destruct (Synset_iter_relations_Ok y Hg) as [pairs Hp]. rewrite Hp. reflexivity.
Qed.

Lemma ilis_row_columns : forall ss ili, In ili (t_ilis d) -> sy_ili_rowid ss = Some (il_rowid ili) ->
  {| qy_id := sy_id ss; qy_pos := sy_pos ss; qy_ili := Some (il_id ili);
     qy_lexid := sy_lexicon_rowid ss; qy_rowid := sy_rowid ss |} = synset_columns d ss.
Proof.
  intros ss ili Hi E. unfold synset_columns, ili_id_of. rewrite E. simpl.
  rewrite (find_by_unique _ il_rowid _ ili (ok_ilis d Hok) Hi). reflexivity.
Qed.

Lemma Synset_iter_relations_good : forall y pairs r t, good_synset y ->
  Synset_iter_relations d y args = Ok pairs -> In (r, t) pairs -> good_synset t.
Proof.
  intros y pairs r t Hg H Hin. pose proof (good_synset_wordnet y Hg) as Ew.
  unfold Synset_iter_relations in H.
  apply bind_Ok in H. destruct H as [loc [Hloc H]]. apply bind_Ok in H. destruct H as [exp [Hexp H]].
  injection H as <-. apply in_app_or in Hin. destruct Hin as [Hin|Hin].
  - destruct (negb (Z.eqb (ss__id y) NON_ROWID)); [|injection Hloc as <-; destruct Hin].
    apply (Synset_iter_local_relations_iff d Hok y args loc r t Hloc) in Hin.
    destruct Hin as [srel [ty [lex [tgt Hrow]]]]. decompose [and] Hrow.
    left. exists tgt. split; [assumption | rewrite <- Ew; assumption].
  - destruct (ss_ili y) as [i0|]; [|injection Hexp as <-; destruct Hin].
    destruct (nonempty (wn_expanded_ids (ss_wordnet y))); [|injection Hexp as <-; destruct Hin].
    unfold Synset_iter_expanded_relations in Hexp. apply bind_Ok in Hexp. destruct Hexp as [rows [Hrows Hexp]].
    injection Hexp as <-. apply in_flat_map in Hin. destruct Hin as [q [Hq Hin]].
    unfold get_synset_relations in Hrows.
    apply (proj1 (synset_target_query_iff _ _ _ _ _ _ q Hrows)) in Hq.
    destruct Hq as [srel [ty [lex [tgt [_ [_ [_ [_ [_ [Etg [_ ->]]]]]]]]]]]. simpl in Hin.
    destruct (ili_id_of d (sy_ili_rowid tgt)) as [ili|] eqn:Eili; [|destruct Hin].
    assert (Hi : exists i, In i (t_ilis d) /\ ili = il_id i).
    { unfold ili_id_of in Eili. destruct (ofind_by il_rowid (sy_ili_rowid tgt) (t_ilis d)) as [i|] eqn:Ei; [|discriminate].
      injection Eili as <-. apply ofind_by_Some in Ei. exists i. tauto. }
    destruct (get_synsets_for_ilis d [ili] (_get_lexicon_ids d (ss_wordnet y) (ss_lexid y))) as [|row rows'] eqn:El.
    + destruct Hin as [E|[]]. injection E as _ <-. destruct Hi as [i [Hi ->]].
      right. exists i, (ss_lexid y). split; [exact Hi|]. split; [exact (good_synset_lexid y Hg)|]. rewrite Ew. reflexivity.
    + assert (Hall : forall row0, In row0 (row :: rows') -> good_synset (mk_Synset (ss_wordnet y) row0)).
      { intros row0 Hrow. rewrite <- El in Hrow. apply get_synsets_for_ilis_iff in Hrow.
        destruct Hrow as [ss0 [ili0 [Hss0 [Hili0 [_ [Eili0 [_ ->]]]]]]].
        left. exists ss0. split; [exact Hss0|]. rewrite (ilis_row_columns ss0 ili0 Hili0 Eili0), Ew. reflexivity. }
      destruct Hin as [E|Hin].
      * injection E as _ <-. apply Hall. left. reflexivity.
      * apply in_map_iff in Hin. destruct Hin as [row0 [E Hrow]]. injection E as _ <-. apply Hall. right. exact Hrow.
Qed.

Lemma good_synset_succ : forall y t, good_synset y -> In t (succ_synset y) -> good_synset t.
Proof.
  intros y t Hg Ht. pose proof (Synset_get_related_Ok y Hg) as Hgr. rewrite Synset_get_related_def in Hgr.
  apply bind_Ok in Hgr. destruct Hgr as [pairs [Hp Hgr]]. injection Hgr as E. rewrite <- E in Ht.
  apply dedup_In in Ht. apply in_map_iff in Ht. destruct Ht as [[r t0] [E0 Hin]]. simpl in E0. subst t0.
  exact (Synset_iter_relations_good y pairs r t Hg Hp Hin).
Qed.

Definition synset_ids : list str := _INFERRED_SYNSET :: map sy_id (t_synsets d).

Lemma good_synset_id : forall y, good_synset y -> In (ss_id y) synset_ids.
Proof.
  intros y [[ss [H ->]]|[i [l [_ [_ ->]]]]]; unfold synset_ids; simpl.
  - right. apply in_map. exact H.
  - left. reflexivity.
Qed.

Lemma synset_fuel_enough : (length synset_ids <= synset_fuel d)%nat.
Proof. unfold synset_ids. simpl. rewrite map_length. unfold synset_fuel. lia. Qed.

(* R2 for synsets (local and expanded relations together) *)
Theorem Synset_closure_ok : forall y, good_synset y ->
  exists result, Synset_closure d (synset_fuel d) y args = Ok result
    /\ NoDup (map ss_id result)
    /\ (forall r, In r result -> reach succ_synset (succ_synset y) r)
    /\ (forall t, In t (succ_synset y) -> In (ss_id t) (map ss_id result))
    /\ (forall r t, In r result -> In t (succ_synset r) -> In (ss_id t) (map ss_id result)).
Proof.
  intros y Hg. unfold Synset_closure.
  exact (closure_ok succ_synset (fun s0 => Synset_get_related d s0 args) ss_id good_synset
           Synset_get_related_Ok good_synset_succ synset_ids good_synset_id
           (synset_fuel d) y synset_fuel_enough Hg).
Qed.

(* All inferred placeholders share the identifier *INFERRED*, so at most one of them is yielded and
   expanded; when no placeholder is reachable and synset identifiers are unique among the reachable
   synsets, closure() is exactly the set of reachable synsets. *)
Theorem Synset_closure_exact : forall y result, good_synset y ->
  (forall a b, reach succ_synset (succ_synset y) a -> reach succ_synset (succ_synset y) b -> ss_id a = ss_id b -> a = b) ->
  Synset_closure d (synset_fuel d) y args = Ok result ->
  NoDup result /\ forall x, In x result <-> reach succ_synset (succ_synset y) x.
Proof.
  intros y result Hg Hinj H. unfold Synset_closure in H.
  exact (closure_exact succ_synset (fun s0 => Synset_get_related d s0 args) ss_id good_synset
           Synset_get_related_Ok good_synset_succ synset_ids good_synset_id
           (synset_fuel d) y result Hinj H synset_fuel_enough Hg).
Qed.

(* R3 for synsets: soundness for any fuel ... *)
Lemma Synset_key_rowid : forall a b, Synset_key_eqb a b = true -> ss__id a = ss__id b.
Proof. intros a b H. apply Synset_key_eqb_iff in H. tauto. Qed.

Theorem Synset_relation_paths_sound : forall fuel y ps p, good_synset y ->
  Synset_relation_paths d fuel y args = Ok ps -> In p ps ->
  nodup_by Synset_key_eqb p /\ (forall t, In t p -> Synset_key_eqb t y = false)
  /\ exists target ext, p = target :: ext /\ In target (succ_synset y) /\ ss__id target <> ss__id y
                        /\ chain succ_synset target ext.
Proof.
  intros fuel y ps p Hg Hps Hp. unfold Synset_relation_paths in Hps.
  destruct (relation_paths_simple succ_synset (fun s0 => Synset_get_related d s0 args) ss_id ss__id Synset_key_eqb good_synset
              Synset_get_related_Ok good_synset_succ fuel y ps p Hg Synset_key_rowid Hps Hp) as [H1 H2].
  split; [exact H1|]. split; [exact H2|].
  destruct (relation_paths_sound succ_synset (fun s0 => Synset_get_related d s0 args) ss_id ss__id Synset_key_eqb good_synset
              Synset_get_related_Ok good_synset_succ fuel y ps p Hg Hps Hp) as [target [ext H]].
  exists target, ext. tauto.
Qed.

(* ... and termination when the fuel exceeds the number of set keys: database synsets, plus one
   placeholder per (ILI, synset lexicon) pair *)
Definition synset_universe : list Synset :=
  map (fun ss => mk_Synset w (synset_columns d ss)) (t_synsets d)
  ++ flat_map (fun i => map (fun l => Synset_empty _INFERRED_SYNSET (Some (il_id i)) l w)
                            (map sy_lexicon_rowid (t_synsets d))) (t_ilis d).

Lemma good_synset_key : forall y, good_synset y -> exists u, In u synset_universe /\ Synset_key_eqb u y = true.
Proof.
  intros y Hg. exists y. split; [|apply Synset_key_eqb_refl]. unfold synset_universe. apply in_or_app.
  destruct Hg as [[ss [H ->]]|[i [l [Hi [Hl ->]]]]].
  - left. apply in_map_iff. exists ss. tauto.
  - right. apply in_flat_map. exists i. split; [exact Hi|]. apply in_map_iff. exists l. tauto.
Qed.

Lemma Synset_key_eqb_sym : forall a b, Synset_key_eqb a b = true -> Synset_key_eqb b a = true.
Proof. intros a b H. apply Synset_key_eqb_iff in H. apply Synset_key_eqb_iff. intuition congruence. Qed.
Lemma Synset_key_eqb_trans : forall a b c,
  Synset_key_eqb a b = true -> Synset_key_eqb b c = true -> Synset_key_eqb a c = true.
Proof.
  intros a b c H1 H2. apply Synset_key_eqb_iff in H1. apply Synset_key_eqb_iff in H2.
  apply Synset_key_eqb_iff. intuition congruence.
Qed.

Theorem Synset_relation_paths_total : forall fuel y, good_synset y ->
  (length (t_synsets d) + length (t_ilis d) * length (t_synsets d) < fuel)%nat ->
  exists ps, Synset_relation_paths d fuel y args = Ok ps.
Proof.
  intros fuel y Hg Hf. unfold Synset_relation_paths.
  apply (relation_paths_total succ_synset (fun s0 => Synset_get_related d s0 args) ss_id ss__id Synset_key_eqb good_synset
           Synset_get_related_Ok good_synset_succ synset_universe
           Synset_key_eqb_sym Synset_key_eqb_trans good_synset_key fuel y); [|exact Hg].
  unfold synset_universe. rewrite app_length, map_length.
  assert (E : forall (f : ili_row -> list Synset) n l, (forall i, length (f i) = n) -> length (flat_map f l) = (length l * n)%nat).
  { intros f n l Hn. induction l as [|a l IH]; simpl; [reflexivity | rewrite app_length, Hn, IH; reflexivity]. }
  rewrite (E _ (length (t_synsets d))); [exact Hf|]. intro i. rewrite !map_length. reflexivity.
Qed.

(* the model's own fuel for synset relation_paths, S (S (#synsets + #ilis)), is enough whenever no
   inferred placeholder can occur (no expand lexicons), the keys then being the database synsets *)
End Instances.
