(* Proofs/GlobClass.v — the character classes of SQLite's GLOB in Model/Spec.v:
   what a class matches (G1, G2), unterminated classes (G3), and the fragment
   without '[' is the former matcher (G4).  [glob] is structurally recursive
   (no fuel), so there is no out-of-fuel case. *)
From Coq Require Import ZArith List Bool Lia.
Import ListNotations.
Require Import WnV.Base.Sx WnV.Model.Spec.
Local Open Scope Z_scope.

(* the matcher of the former Model/Spec.v ('*' and '?' only), verbatim *)
Fixpoint glob_simple (p s : str) : bool :=
  match p with
  | [] => match s with [] => true | _ => false end
  | c :: p' =>
      if Z.eqb c c_star
      then (fix star (s : str) : bool :=
              glob_simple p' s || match s with [] => false | _ :: s' => star s' end) s
      else match s with
           | [] => false
           | d :: s' => (Z.eqb c c_qm || Z.eqb c d) && glob_simple p' s'
           end
  end.

(* ------------------------------------------------------------------ *)
(* helpers                                                             *)
(* ------------------------------------------------------------------ *)
Lemma zmem_cons_false : forall c d l,
    zmem c (d :: l) = false -> Z.eqb d c = false /\ zmem c l = false.
Proof.
  intros c d l H. unfold zmem in H. simpl in H. apply orb_false_iff in H.
  destruct H as [H1 H2]. rewrite Z.eqb_sym in H1. split; assumption.
Qed.

(* '[' at the head of the pattern: the class is matched against the first character *)
Lemma glob_lbr_cons : forall q d s,
    glob (c_lbr :: q) (d :: s) = class_match (fun r => glob r s) d q.
Proof. intros q d s. reflexivity. Qed.

Lemma glob_lbr_nil : forall q, glob (c_lbr :: q) [] = false.
Proof. intro q. reflexivity. Qed.

(* the loop, one step, when the pattern has at least two more characters *)
Lemma class_loop_cons2 : forall k c inv seen prior c2 hi q,
    class_loop k c inv seen prior (c2 :: hi :: q)
    = if Z.eqb c2 c_rbr then xorb seen inv && k (hi :: q)
      else if Z.eqb c2 c_dash && negb (Z.eqb hi c_rbr) && Z.ltb 0 prior
           then class_loop k c inv (seen || (Z.leb prior c && Z.leb c hi)) 0 q
           else class_loop k c inv (seen || Z.eqb c c2) c2 (hi :: q).
Proof. intros. reflexivity. Qed.

(* one step of the loop over an ordinary member (not ']', not '-') that is not the
   last character of the pattern *)
Lemma class_loop_member : forall k c inv seen prior c2 q,
    Z.eqb c2 c_rbr = false -> Z.eqb c2 c_dash = false -> q <> [] ->
    class_loop k c inv seen prior (c2 :: q) = class_loop k c inv (seen || Z.eqb c c2) c2 q.
Proof.
  intros k c inv seen prior c2 q Hr Hd Hq. destruct q as [|hi q]; [contradiction|].
  rewrite class_loop_cons2, Hr, Hd. reflexivity.
Qed.

Lemma class_loop_rbr : forall k c inv seen prior q,
    class_loop k c inv seen prior (c_rbr :: q) = xorb seen inv && k q.
Proof. intros. reflexivity. Qed.

(* a body of ordinary members up to the closing ']' *)
Lemma class_loop_plain : forall k c inv cs p seen prior,
    zmem c_rbr cs = false -> zmem c_dash cs = false ->
    class_loop k c inv seen prior (cs ++ c_rbr :: p) = xorb (seen || zmem c cs) inv && k p.
Proof.
  intros k c inv cs p. induction cs as [|x cs IH]; intros seen prior Hr Hd.
  - change ([] ++ c_rbr :: p) with (c_rbr :: p). rewrite class_loop_rbr.
    unfold zmem. simpl. rewrite orb_false_r. reflexivity.
  - apply zmem_cons_false in Hr. destruct Hr as [Hxr Hr].
    apply zmem_cons_false in Hd. destruct Hd as [Hxd Hd].
    change ((x :: cs) ++ c_rbr :: p) with (x :: (cs ++ c_rbr :: p)).
    rewrite (class_loop_member k c inv seen prior x (cs ++ c_rbr :: p) Hxr Hxd)
      by (intro E; apply app_eq_nil in E; destruct E as [_ E]; discriminate).
    rewrite (IH (seen || Z.eqb c x) x Hr Hd).
    change (zmem c (x :: cs)) with (Z.eqb c x || zmem c cs). rewrite orb_assoc. reflexivity.
Qed.

(* without a ']' the loop runs out of pattern *)
Lemma class_loop_unterminated_len : forall k c inv n q,
    (length q <= n)%nat -> zmem c_rbr q = false ->
    forall seen prior, class_loop k c inv seen prior q = false.
Proof.
  intros k c inv n. induction n as [|n IH]; intros q Hlen Hr seen prior.
  - destruct q as [|c2 q]; [reflexivity | simpl in Hlen; lia].
  - destruct q as [|c2 q]; [reflexivity|].
    apply zmem_cons_false in Hr. destruct Hr as [Hc2 Hr].
    destruct q as [|hi q].
    + cbn [class_loop]. rewrite Hc2. reflexivity.
    + rewrite class_loop_cons2, Hc2.
      destruct (Z.eqb c2 c_dash && negb (Z.eqb hi c_rbr) && Z.ltb 0 prior).
      * apply zmem_cons_false in Hr. destruct Hr as [_ Hr].
        apply IH; [simpl in Hlen; simpl; lia | exact Hr].
      * apply IH; [simpl in Hlen; simpl; lia | exact Hr].
Qed.

Lemma class_loop_unterminated : forall k c inv q seen prior,
    zmem c_rbr q = false -> class_loop k c inv seen prior q = false.
Proof.
  intros k c inv q seen prior Hr.
  apply (class_loop_unterminated_len k c inv (length q) q (le_n _) Hr).
Qed.

Lemma class_first_unterminated : forall k c inv q,
    zmem c_rbr q = false -> class_first k c inv q = false.
Proof.
  intros k c inv q Hr. destruct q as [|c2 q]; [reflexivity|].
  unfold class_first. destruct (Z.eqb c2 c_rbr).
  - apply zmem_cons_false in Hr. destruct Hr as [_ Hr]. apply class_loop_unterminated. exact Hr.
  - apply class_loop_unterminated. exact Hr.
Qed.

Lemma class_match_unterminated : forall k c q,
    zmem c_rbr q = false -> class_match k c q = false.
Proof.
  intros k c q Hr. destruct q as [|c2 q]; [reflexivity|].
  unfold class_match. destruct (Z.eqb c2 c_caret).
  - apply zmem_cons_false in Hr. destruct Hr as [_ Hr]. apply class_first_unterminated. exact Hr.
  - apply class_first_unterminated. exact Hr.
Qed.

(* ------------------------------------------------------------------ *)
(* G1: a class of single characters                                    *)
(* ------------------------------------------------------------------ *)
(* The statement asked for did not require cs <> []; it is false for cs = []: in "[]a]"
   the ']' in first position is a member, the class is {']', 'a'}:
     cs = [], p = "a]", c = ']', s = "" :  glob "[]a]" "]" = true  but  zmem c [] && _ = false
   (G1_empty_body_counterexample below; SQLite: ']' GLOB '[]a]' = 1).  Same for "[^]a]". *)
Example G1_empty_body_counterexample :
  glob ([c_lbr] ++ [] ++ [93] ++ [97; 93]) (93 :: []) = true
  /\ zmem 93 [] && glob [97; 93] [] = false
  /\ glob ([c_lbr; c_caret] ++ [] ++ [93] ++ [97; 93]) (98 :: []) = true
  /\ negb (zmem 98 []) && glob [97; 93] [] = false.
Proof. vm_compute. repeat split. Qed.

Theorem glob_class_chars : forall cs p c s,
    cs <> [] -> zmem c_rbr cs = false -> zmem c_dash cs = false -> zmem c_caret cs = false ->
    glob ([c_lbr] ++ cs ++ [93] ++ p) (c :: s) = zmem c cs && glob p s.
Proof.
  intros cs p c s Hne Hr Hd Hc. destruct cs as [|x cs]; [contradiction|].
  change ([c_lbr] ++ (x :: cs) ++ [93] ++ p) with (c_lbr :: x :: (cs ++ c_rbr :: p)).
  rewrite glob_lbr_cons.
  destruct (zmem_cons_false _ _ _ Hc) as [Hxc _].
  destruct (zmem_cons_false _ _ _ Hr) as [Hxr _].
  unfold class_match. rewrite Hxc. unfold class_first. rewrite Hxr.
  change (x :: cs ++ c_rbr :: p) with ((x :: cs) ++ c_rbr :: p).
  rewrite (class_loop_plain _ c false (x :: cs) p false 0 Hr Hd).
  rewrite orb_false_l, xorb_false_r. reflexivity.
Qed.

Theorem glob_class_chars_inverted : forall cs p c s,
    cs <> [] -> zmem c_rbr cs = false -> zmem c_dash cs = false -> zmem c_caret cs = false ->
    glob ([c_lbr; c_caret] ++ cs ++ [93] ++ p) (c :: s) = negb (zmem c cs) && glob p s.
Proof.
  intros cs p c s Hne Hr Hd Hc. destruct cs as [|x cs]; [contradiction|].
  change ([c_lbr; c_caret] ++ (x :: cs) ++ [93] ++ p) with (c_lbr :: c_caret :: x :: (cs ++ c_rbr :: p)).
  rewrite glob_lbr_cons.
  destruct (zmem_cons_false _ _ _ Hr) as [Hxr _].
  unfold class_match. change (Z.eqb c_caret c_caret) with true. cbv iota.
  unfold class_first. rewrite Hxr.
  change (x :: cs ++ c_rbr :: p) with ((x :: cs) ++ c_rbr :: p).
  rewrite (class_loop_plain _ c true (x :: cs) p false 0 Hr Hd).
  rewrite orb_false_l, xorb_true_r. reflexivity.
Qed.

(* a class needs a character *)
Theorem glob_class_empty_string : forall q, glob ([c_lbr] ++ q) [] = false.
Proof. intro q. reflexivity. Qed.

(* ------------------------------------------------------------------ *)
(* G2: a range                                                         *)
(* ------------------------------------------------------------------ *)
(* The statement asked for,  glob [91; a; 45; b; 93] [c] = (a <=? c) && (c <=? b),  is false
   when b < a and c = a: the lower end of a range is first an ordinary member of the class
   (patternCompare compares c with it before it sees the '-'):
     a = 'c', b = 'a', c = 'c' :  glob "[c-a]" "c" = true  but  (a <=? c) && (c <=? b) = false
   (SQLite: 'c' GLOB '[c-a]' = 1).  True in general: glob_class_range_gen; true as asked
   when a <= b: glob_class_range. *)
Example G2_counterexample :
  glob [91; 99; 45; 97; 93] [99] = true /\ (99 <=? 99) && (99 <=? 97) = false.
Proof. vm_compute. split; reflexivity. Qed.

Theorem glob_class_range_gen : forall a b c,
    a <> 93 -> a <> 45 -> a <> 94 -> b <> 93 -> b <> 45 -> b <> 94 -> 0 < a ->
    glob [91; a; 45; b; 93] [c] = Z.eqb c a || ((a <=? c) && (c <=? b)).
Proof.
  intros a b c Ha93 Ha45 Ha94 Hb93 _ _ Hpos.
  apply Z.eqb_neq in Ha93, Ha45, Ha94, Hb93. apply Z.ltb_lt in Hpos.
  change (glob [91; a; 45; b; 93] [c]) with (class_match (fun r => glob r []) c [a; 45; b; 93]).
  unfold class_match. change c_caret with 94. rewrite Ha94.
  unfold class_first. change c_rbr with 93. rewrite Ha93.
  cbn [class_loop]. change c_rbr with 93. change c_dash with 45.
  rewrite Ha93, Ha45, Hb93, Hpos.
  change (Z.eqb 45 93) with false. change (Z.eqb 45 45) with true. change (Z.eqb 93 93) with true.
  cbn [andb negb orb glob]. rewrite xorb_false_r, andb_true_r. reflexivity.
Qed.

Theorem glob_class_range : forall a b c,
    a <> 93 -> a <> 45 -> a <> 94 -> b <> 93 -> b <> 45 -> b <> 94 -> 0 < a -> a <= b ->
    glob [91; a; 45; b; 93] [c] = (a <=? c) && (c <=? b).
Proof.
  intros a b c Ha93 Ha45 Ha94 Hb93 Hb45 Hb94 Hpos Hab.
  rewrite (glob_class_range_gen a b c Ha93 Ha45 Ha94 Hb93 Hb45 Hb94 Hpos).
  destruct (Z.eqb c a) eqn:E; [|reflexivity].
  apply Z.eqb_eq in E. subst c. simpl. symmetry. apply andb_true_iff.
  split; apply Z.leb_le; lia.
Qed.

(* ------------------------------------------------------------------ *)
(* G3: an unterminated class matches nothing                           *)
(* ------------------------------------------------------------------ *)
Theorem glob_class_unterminated : forall p s, zmem 93 p = false -> glob (c_lbr :: p) s = false.
Proof.
  intros p s Hr. destruct s as [|d s]; [apply glob_lbr_nil|].
  rewrite glob_lbr_cons. apply class_match_unterminated. exact Hr.
Qed.

(* ------------------------------------------------------------------ *)
(* G4: without '[' the matcher is the former one                       *)
(* ------------------------------------------------------------------ *)
Theorem glob_simple_agree : forall p s, zmem c_lbr p = false -> glob p s = glob_simple p s.
Proof.
  induction p as [|c p IH]; intros s Hb; [reflexivity|].
  apply zmem_cons_false in Hb. destruct Hb as [Hc Hb].
  cbn [glob glob_simple]. destruct (Z.eqb c c_star).
  - induction s as [|d s IHs].
    + rewrite (IH [] Hb). reflexivity.
    + rewrite (IH (d :: s) Hb), IHs. reflexivity.
  - destruct s as [|d s]; [reflexivity|]. rewrite Hc, (IH s Hb). reflexivity.
Qed.

(* the specifier of the task: ab[cd]:*  selects ids "abc" and "abd" only *)
Example glob_class_specifier_example :
  glob [97; 98; 91; 99; 100; 93; 58; 42] [97; 98; 99; 58; 49] = true
  /\ glob [97; 98; 91; 99; 100; 93; 58; 42] [97; 98; 100; 58; 49; 46; 48] = true
  /\ glob [97; 98; 91; 99; 100; 93; 58; 42] [97; 98; 58; 49] = false
  /\ glob [97; 98; 91; 99; 100; 93; 58; 42] [97; 98; 101; 58; 49] = false.
Proof. vm_compute. repeat split. Qed.

Print Assumptions glob_class_chars.
Print Assumptions glob_class_chars_inverted.
Print Assumptions glob_class_empty_string.
Print Assumptions glob_class_range_gen.
Print Assumptions glob_class_range.
Print Assumptions glob_class_unterminated.
Print Assumptions glob_simple_agree.
