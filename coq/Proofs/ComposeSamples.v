(* ComposeSamples.v — the bridge [conv] and the theorems of Compose.v on recorded run_add cases
   (copies of /verif/coq-wip/add/samples/case_11_0.v and case_12_10.v: input = L [db; resource; normtable],
   expected = L [A 1; db'] as produced by the real implementation).
     case_11_0  : a lexicon (3 entries, 6 forms, 3 synsets, 6 senses) added to the empty database
     case_12_10 : a lexicon added to a database that already holds four lexicons
   For each case: the model's add agrees with the implementation; conv of the implementation's db' has the
   expected numbers of rows and satisfies db_ok; the hypotheses of K2-K4 hold on the real input; and the
   conclusions of K2-K4 hold on the implementation's own db', both by evaluation and through the theorems. *)
From Coq Require Import ZArith List Bool String.
Import ListNotations.
Require Import WnV.Base.Sx WnV.Model.Val WnV.Model.Tables WnV.Model.Query WnV.Model.Core WnV.Proofs.QueryFacts.
Require Import WnV.Proofs.Compose.
Require WnV.Samples.add_case_11_0 WnV.Samples.add_case_12_10.
Local Open Scope Z_scope.
Local Open Scope string_scope.

Definition case_db (inp : sx) : R.db := R.db_of_sx (sx_nth 0 inp).
Definition case_resource (inp : sx) : val := val_of_sx (sx_nth 1 inp).
Definition case_nt (inp : sx) : A.normtable := A.normtable_of_sx (sx_nth 2 inp).
Definition case_db' (exp : sx) : R.db := R.db_of_sx (sx_nth 1 exp).        (* the implementation's result *)
Definition case_lexicon (inp : sx) : val :=
  match A.vreq (case_resource inp) "lexicons" with R.Ok (VList [L0]) => L0 | _ => VNone end.
(* the Wordnet restricted to the new lexicon (built by hand: rowid of the next lexicon, non-default mode) *)
Definition case_w (inp : sx) : Wordnet :=
  {| wn_lexicon_ids := [R.next_rowid (R.get_table (case_db inp) "lexicons")]; wn_expanded_ids := [];
     wn_default_mode := false; wn_warned := false; wn_normalizer := false; wn_norm_table := [];
     wn_lemmatizer := None; wn_search_all_forms := true |}.
Definition counts (T : Tables.db) : nat * nat * nat * nat * nat :=
  (List.length (t_lexicons T), List.length (t_entries T), List.length (t_forms T),
   List.length (t_synsets T), List.length (t_senses T)).

(* the statements of K2-K4 as one proposition about a database T *)
Definition K_statement (T : Tables.db) (w : Wordnet) (L0 : val) : Prop :=
  map ss_id (Wordnet_synsets T w None None None)
  = map (fun ss => doc_text (A.vgetk ss "id")) (A._local_synsets (A._synsets L0))
  /\ map ss_pos (Wordnet_synsets T w None None None)
     = map (fun ss => doc_otext (A.vgetk ss "partOfSpeech")) (A._local_synsets (A._synsets L0))
  /\ map (fun x => (wd_id x, wd_pos x, map (fun q => (qf_form q, qf_id q, qf_script q)) (wd_forms x)))
         (Wordnet_words T w None None)
     = map (fun e => (sid e, doc_pos e, doc_forms e)) (A._local_entries (A._entries L0))
  /\ map (fun sn => (sn_id sn, sn_entry_id sn, sn_synset_id sn)) (Wordnet_senses T w None None)
     = map (fun es : val * val => (doc_text (A.vgetk (snd es) "id"), sid (fst es),
                                   doc_text (A.vgetk (snd es) "synset"))) (doc_senses L0).

Lemma K_statement_from_theorems : forall inp d',
    let d := case_db inp in let r := case_resource inp in let L0 := case_lexicon inp in
    A.add_lexical_resource d r (case_nt inp) = R.Ok d' -> A.vreq r "lexicons" = R.Ok (VList [L0]) ->
    new_lexicon d L0 = true -> wf_db d = true -> wf_lex L0 = true ->
    K_statement (conv d') (case_w inp) L0.
Proof.
  intros inp d' d r L0 H Hr Hn Hdb Hl.
  assert (wn_lexicon_ids (case_w inp) = [R.next_rowid (R.get_table d "lexicons")]) as Hw by reflexivity.
  destruct (K2_synset_ids d r (case_nt inp) d' L0 (case_w inp) H Hr Hn Hdb Hw) as [E1 E2].
  split; [exact E1|]. split; [exact E2|]. split.
  - apply (K3_word_ids d r (case_nt inp) d' L0 (case_w inp) H Hr Hn Hdb Hl Hw).
  - apply (K4_sense_ids d r (case_nt inp) d' L0 (case_w inp) H Hr Hn Hdb Hl Hw eq_refl).
Qed.

(* ---------------------------------------------------------------- case_11_0 *)
Example case_11_0_model_agrees :
  sx_agree_default (A.run_add add_case_11_0.input_0) add_case_11_0.expected_0 = true
  /\ A.add_lexical_resource (case_db add_case_11_0.input_0) (case_resource add_case_11_0.input_0)
                            (case_nt add_case_11_0.input_0)
     = R.Ok (case_db' add_case_11_0.expected_0).
Proof. vm_compute. split; reflexivity. Qed.
Example case_11_0_conv :
  counts (conv (case_db add_case_11_0.input_0)) = (0, 0, 0, 0, 0)%nat
  /\ counts (conv (case_db' add_case_11_0.expected_0)) = (1, 3, 6, 3, 6)%nat
  /\ db_ok (conv (case_db' add_case_11_0.expected_0)) = true.
Proof. vm_compute. repeat split. Qed.
Example case_11_0_hypotheses :
  let inp := add_case_11_0.input_0 in
  A.vreq (case_resource inp) "lexicons" = R.Ok (VList [case_lexicon inp])
  /\ new_lexicon (case_db inp) (case_lexicon inp) = true /\ wf_db (case_db inp) = true
  /\ wf_lex (case_lexicon inp) = true /\ AP.fk_ok (case_db inp) = true.
Proof. vm_compute. repeat split. Qed.
(* the conclusions, evaluated on the implementation's db' *)
Example case_11_0_K_by_evaluation :
  K_statement (conv (case_db' add_case_11_0.expected_0)) (case_w add_case_11_0.input_0)
              (case_lexicon add_case_11_0.input_0).
Proof. vm_compute. repeat split. Qed.
(* ... and through the theorems *)
Example case_11_0_K_by_theorems :
  K_statement (conv (case_db' add_case_11_0.expected_0)) (case_w add_case_11_0.input_0)
              (case_lexicon add_case_11_0.input_0).
Proof.
  destruct case_11_0_model_agrees as [_ H]. destruct case_11_0_hypotheses as (Hr & Hn & Hdb & Hl & _).
  exact (K_statement_from_theorems add_case_11_0.input_0 _ H Hr Hn Hdb Hl).
Qed.

(* ---------------------------------------------------------------- case_12_10 *)
Example case_12_10_model_agrees :
  sx_agree_default (A.run_add add_case_12_10.input_10) add_case_12_10.expected_10 = true
  /\ A.add_lexical_resource (case_db add_case_12_10.input_10) (case_resource add_case_12_10.input_10)
                            (case_nt add_case_12_10.input_10)
     = R.Ok (case_db' add_case_12_10.expected_10).
Proof. vm_compute. split; reflexivity. Qed.
Example case_12_10_conv :
  counts (conv (case_db add_case_12_10.input_10)) = (4, 10, 16, 6, 19)%nat
  /\ counts (conv (case_db' add_case_12_10.expected_10)) = (5, 12, 18, 8, 23)%nat
  /\ db_ok (conv (case_db' add_case_12_10.expected_10)) = true.
Proof. vm_compute. repeat split. Qed.
Example case_12_10_hypotheses :
  let inp := add_case_12_10.input_10 in
  A.vreq (case_resource inp) "lexicons" = R.Ok (VList [case_lexicon inp])
  /\ new_lexicon (case_db inp) (case_lexicon inp) = true /\ wf_db (case_db inp) = true
  /\ wf_lex (case_lexicon inp) = true /\ AP.fk_ok (case_db inp) = true.
Proof. vm_compute. repeat split. Qed.
Example case_12_10_K_by_evaluation :
  K_statement (conv (case_db' add_case_12_10.expected_10)) (case_w add_case_12_10.input_10)
              (case_lexicon add_case_12_10.input_10).
Proof. vm_compute. repeat split. Qed.
Example case_12_10_K_by_theorems :
  K_statement (conv (case_db' add_case_12_10.expected_10)) (case_w add_case_12_10.input_10)
              (case_lexicon add_case_12_10.input_10).
Proof.
  destruct case_12_10_model_agrees as [_ H]. destruct case_12_10_hypotheses as (Hr & Hn & Hdb & Hl & _).
  exact (K_statement_from_theorems add_case_12_10.input_10 _ H Hr Hn Hdb Hl).
Qed.
(* what the API lists for case_12_10 (the new lexicon has rowid 5) *)
Eval vm_compute in
  (R.next_rowid (R.get_table (case_db add_case_12_10.input_10) "lexicons"),
   map ss_id (Wordnet_synsets (conv (case_db' add_case_12_10.expected_10)) (case_w add_case_12_10.input_10) None None None),
   map (fun x => (wd_id x, map qf_form (wd_forms x)))
       (Wordnet_words (conv (case_db' add_case_12_10.expected_10)) (case_w add_case_12_10.input_10) None None),
   map (fun sn => (sn_id sn, sn_entry_id sn, sn_synset_id sn))
       (Wordnet_senses (conv (case_db' add_case_12_10.expected_10)) (case_w add_case_12_10.input_10) None None)).

Print Assumptions case_11_0_K_by_theorems.
Print Assumptions case_12_10_K_by_theorems.
Print Assumptions case_12_10_K_by_evaluation.
