(* LmfRequired.v — C20, "omits a required identifying attribute": a complete account of
   what the _validate* functions of wn/lmf.py (Model/Lmf.v) require of a document.

   For every assert / conversion of _validate, _validate_lexicon, _validate_entries,
   _validate_forms, _validate_senses, _validate_frames and _validate_synsets there is
   either a rejection theorem
       fault t = true -> exists e, load_tree version t = Err e
   (fault : boolean predicate on the expat tree, at exactly the positions the
   validators visit), or an Example showing that the document loads.

   REJECTED (theorem; AssertionError unless something else fails before)
     _validate          assert 'id' in ext, 'version' in ext .......... r4 (Extends with some attribute)
     _validate_lexicon  id, version, label, language, email, license .. r1
                        requires: id, version ......................... r4
     _validate_entries  assert 'id' in elem ........................... LmfProofs.missing_id
                        not extension -> not external ................. r6_external
                        not external -> lemma is not None ............. r2
                        lemma not external -> 'partOfSpeech' in lemma . r2
                        form external -> form.get('id') ............... r6_xform
     _validate_forms    not extension -> not external ................. r6_external
                        not external -> 'writtenForm' in elem ......... r2 (Lemma and Form)
                        tags: 'category' in tag ....................... r4
     _validate_senses   assert 'id' in elem ........................... LmfProofs.missing_id
                        not extension -> not external ................. r6_external
                        not external -> 'synset' in elem .............. r3
                        relations: target, relType .................... r4
                        counts: int(text) (ValueError) ................ r5
     _validate_frames   'subcategorizationFrame' in elem .............. r4 (in a lexicon and in an entry)
     _validate_synsets  assert 'id' in elem ........................... LmfProofs.missing_id
                        not extension -> not external ................. r6_external
                        not external -> 'ili' in elem ................. r3
                        relations: target, relType .................... r4
     load               root['lexical-resource'] (KeyError) ........... root_not_lexical_resource_rejected
   All of these together: required_fault (+ r6_external_fault, the root, missing_id) = any_fault.

   ACCEPTED (Examples a_*, section 7; each checked against the real wn.lmf.load)
     Synset without partOfSpeech (never asserted); the values of the six Lexicon
     attributes, of target / relType / synset / ili (only presence is asserted; nothing is
     resolved); lexicalized / phonemic other than "true" / "false" (anything but "false" is
     True); Count text that int() accepts (" +1_0 "); Definition / Example / ILIDefinition /
     Pronunciation / Tag without text; confidenceScore that is not a number
     (_validate_metadata is never called); a LexiconExtension without Extends, or with an
     <Extends/> that has no attribute (validated as a plain Lexicon); a Lexicon with an
     Extends child (validated as an extension: External* elements allowed); an
     ExternalLexicalEntry without lemma, or with a plain Lemma.
     "assert 'text' in cnt" can never fail: the start handler gives every Count a text.

   Not covered by a predicate (see the x_* Examples): a Count under xml:space="preserve"
   (int() of the raw text); attributes named like a child key (lemma="w", extends="...").  *)
From Coq Require Import String.
From Coq Require Import ZArith List Bool Lia.
Import ListNotations.
Require Import WnV.Base.Sx WnV.Gen.LmfTables WnV.Model.Val WnV.Model.XmlText WnV.Model.Lmf.
Require Import WnV.Proofs.XmlTextProofs WnV.Proofs.LmfProofs.
Local Open Scope Z_scope.

Local Notation s_ := str_of_string.

(* ====================================================================== *)
(* 1. Generic facts                                                       *)
(* ====================================================================== *)

Definition fails {T} (r : result T) : Prop := exists e, r = Err e.

Lemma fails_err : forall {T} (e : err), fails (@Err T e).
Proof. intros T e. exists e. reflexivity. Qed.

Lemma fails_bind : forall {T U} (a : result T) (f : T -> result U),
  (forall x, a = Ok x -> fails (f x)) -> fails (bind a f).
Proof. intros T U a f H. apply bind_err. exact H. Qed.

Lemma fails_bind_l : forall {T U} (a : result T) (f : T -> result U), fails a -> fails (bind a f).
Proof. intros T U a f [e He]. rewrite He. exists e. reflexivity. Qed.

Lemma forM_fails : forall {T} (f : T -> result unit) l x, In x l -> fails (f x) -> fails (forM f l).
Proof.
  intros T f l x. induction l as [|y r IH]; intros Hin Hx; [contradiction|].
  cbn [forM]. destruct Hin as [->|Hin].
  - apply fails_bind_l. exact Hx.
  - apply fails_bind. intros _ _. apply IH; assumption.
Qed.

Lemma mapM_fails : forall {T U} (f : T -> result U) l x, In x l -> fails (f x) -> fails (mapM f l).
Proof. intros T U f l x Hin Hx. apply (mapM_err f l x Hin Hx). Qed.

Lemma vhas_true_truthy : forall d k, is_dict d = true -> vhas d k = true -> vtruthy d = true.
Proof.
  intros d k Hd H. apply is_dict_inv in Hd. destruct Hd as [l ->]. destruct l; [discriminate | reflexivity].
Qed.

Lemma py_get_dict' : forall d k, is_dict d = true -> py_get d k = Ok (vget d k).
Proof. intros d k H. apply is_dict_inv in H. destruct H as [l ->]. reflexivity. Qed.

Lemma assert_in_fails : forall k d, is_dict d = true -> vhas d k = false -> fails (assert_in k d).
Proof. intros k d Hd H. rewrite (assert_in_missing k d Hd H). apply fails_err. Qed.

(* F(d.get(k, [])) fails when F fails on the list stored under k *)
Lemma upd_list_fails : forall d k F l, is_dict d = true -> vget d k = VList l -> fails (F l) ->
  fails (upd_list d k F).
Proof. intros d k F l Hd Hg Hf. apply (upd_list_err d k F l Hd Hg Hf). Qed.

(* the "if external: ... else: assert ...; setdefault('meta')" step keeps the other keys *)
Lemma ext_step_same : forall (c : bool) (A : result unit) d d' k,
  (if c then Ok d else do_ A; setdefault d (s_ "meta") VNone) = Ok d' ->
  is_dict d = true -> str_eqb (s_ "meta") k = false -> same_at k d d'.
Proof.
  intros c A d d' k H Hd Hk. destruct c.
  - injection H as <-. apply same_at_refl. exact Hd.
  - apply bind_ok in H. destruct H as [u [_ H]].
    apply (same_at_setdefault _ _ _ _ _ _ H); [apply same_at_refl; exact Hd | exact Hk].
Qed.

Lemma same_at_trans_upd : forall k d d' d'' k' F, same_at k d d' -> upd_list d' k' F = Ok d'' ->
  str_eqb k' k = false -> same_at k d d''.
Proof. intros k d d' d'' k' F S H Hk. apply (same_at_upd_list k d d' d'' k' F H S Hk). Qed.

(* ====================================================================== *)
(* 2. What the validators reject, at the level of the loaded dictionaries *)
(* ====================================================================== *)

(* ---- relations, tags, counts, frames ---- *)
Lemma relation_fails : forall r, is_dict r = true ->
  (vhas r (s_ "target") = false \/ vhas r (s_ "relType") = false) -> fails (validate_relation r).
Proof.
  intros r Hd [H|H]; unfold validate_relation.
  - apply fails_bind_l. apply assert_in_fails; assumption.
  - apply fails_bind. intros _ _. apply fails_bind_l. apply assert_in_fails; assumption.
Qed.

Lemma frame_fails : forall p, is_dict p = true -> vhas p (s_ "subcategorizationFrame") = false ->
  fails (_validate_frame p).
Proof. intros p Hd H. unfold _validate_frame. apply fails_bind_l. apply assert_in_fails; assumption. Qed.

(* the text of a Count is not an integer: int() raises ValueError *)
Lemma count_fails : forall c s, is_dict c = true -> vget c (s_ "text") = VStr s -> parse_int s = None ->
  validate_count c = Err EOther.
Proof.
  intros c s Hd Hg Hp. apply is_dict_inv in Hd. destruct Hd as [l ->]. unfold validate_count.
  assert (Hh : vhas (VDict l) (s_ "text") = true).
  { destruct (vhas (VDict l) (s_ "text")) eqn:E; [reflexivity|].
    rewrite (vhas_false_vget _ _ E) in Hg. discriminate. }
  cbv beta iota delta [assert_in py_in bind]. rewrite Hh. cbn [assert]. unfold py_item. rewrite Hh. rewrite Hg.
  cbn [py_int]. rewrite Hp. reflexivity.
Qed.

Lemma tag_fails : forall tg, is_dict tg = true -> vhas tg (s_ "category") = false ->
  fails (do tag <- setdefault tg (s_ "text") (VStr []); do_ assert_in (s_ "category") tag; Ok tag).
Proof.
  intros tg Hd H. apply is_dict_inv in Hd. destruct Hd as [l ->]. unfold setdefault.
  cbn [bind]. apply fails_bind_l. destruct (vhas (VDict l) (s_ "text")).
  - apply assert_in_fails; [reflexivity | exact H].
  - apply assert_in_fails; [reflexivity|]. rewrite vhas_vset. rewrite H. reflexivity.
Qed.

(* ---- forms (Lemma, ExternalLemma, Form, ExternalForm) ---- *)
Lemma form_external_plain : forall p, is_dict p = true ->
  vtruthy (vget p (s_ "external")) = true -> fails (_validate_form false p).
Proof.
  intros p Hd H. unfold _validate_form. rewrite (py_get_dict' p _ Hd). cbn [bind]. rewrite H. apply fails_err.
Qed.

Lemma form_no_written_form : forall ext p, is_dict p = true ->
  vtruthy (vget p (s_ "external")) = false -> vhas p (s_ "writtenForm") = false ->
  fails (_validate_form ext p).
Proof.
  intros ext p Hd He H. unfold _validate_form. rewrite (py_get_dict' p _ Hd). cbn [bind]. rewrite He.
  apply fails_bind. intros _ _. cbn [negb]. apply fails_bind_l. apply assert_in_fails; assumption.
Qed.

Lemma form_bad_tag : forall ext p l tg, is_dict p = true -> vget p (s_ "tags") = VList l -> In tg l ->
  is_dict tg = true -> vhas tg (s_ "category") = false -> fails (_validate_form ext p).
Proof.
  intros ext p l tg Hd Hg Hin Ht Hc. unfold _validate_form.
  apply fails_bind; intros e _. apply fails_bind; intros u1 _. apply fails_bind; intros u2 _.
  apply fails_bind; intros p1 H1.
  assert (S : same_at (s_ "tags") p p1).
  { apply (same_at_trans_upd _ _ _ _ _ _ (same_at_refl _ p Hd) H1). reflexivity. }
  apply (upd_list_fails p1 _ _ l (proj1 S)); [rewrite (proj2 S); exact Hg|].
  unfold each. apply (mapM_fails _ l tg Hin). apply tag_fails; assumption.
Qed.

(* ---- senses ---- *)
Lemma sense_external_plain : forall p, is_dict p = true ->
  vtruthy (vget p (s_ "external")) = true -> fails (_validate_sense false p).
Proof.
  intros p Hd H. unfold _validate_sense. apply fails_bind; intros u _.
  rewrite (py_get_dict' p _ Hd). cbn [bind]. rewrite H. apply fails_err.
Qed.

Lemma sense_no_synset : forall ext p, is_dict p = true ->
  vtruthy (vget p (s_ "external")) = false -> vhas p (s_ "synset") = false -> fails (_validate_sense ext p).
Proof.
  intros ext p Hd He H. unfold _validate_sense. apply fails_bind; intros u _.
  rewrite (py_get_dict' p _ Hd). cbn [bind]. rewrite He. apply fails_bind; intros u2 _.
  apply fails_bind_l. cbn [negb]. apply fails_bind_l. apply assert_in_fails; assumption.
Qed.

Lemma sense_bad_relation : forall ext p l r, is_dict p = true -> vget p (s_ "relations") = VList l ->
  In r l -> fails (validate_relation r) -> fails (_validate_sense ext p).
Proof.
  intros ext p l r Hd Hg Hin Hr. unfold _validate_sense.
  apply fails_bind; intros u _. apply fails_bind; intros e _. apply fails_bind; intros u2 _.
  apply fails_bind; intros p1 H1.
  pose proof (ext_step_same _ _ _ _ (s_ "relations") H1 Hd eq_refl) as S.
  apply fails_bind_l. apply (upd_list_fails p1 _ _ l (proj1 S)); [rewrite (proj2 S); exact Hg|].
  unfold each. apply (mapM_fails _ l r Hin Hr).
Qed.

Lemma sense_bad_count : forall ext p l c, is_dict p = true -> vget p (s_ "counts") = VList l ->
  In c l -> fails (validate_count c) -> fails (_validate_sense ext p).
Proof.
  intros ext p l c Hd Hg Hin Hc. unfold _validate_sense.
  apply fails_bind; intros u _. apply fails_bind; intros e _. apply fails_bind; intros u2 _.
  apply fails_bind; intros p1 H1.
  pose proof (ext_step_same _ _ _ _ (s_ "counts") H1 Hd eq_refl) as S1.
  apply fails_bind; intros p2 H2.
  pose proof (same_at_trans_upd _ _ _ _ _ _ S1 H2 eq_refl) as S2.
  apply fails_bind; intros p3 H3.
  pose proof (same_at_trans_upd _ _ _ _ _ _ S2 H3 eq_refl) as S3.
  apply fails_bind_l. apply (upd_list_fails p3 _ _ l (proj1 S3)); [rewrite (proj2 S3); exact Hg|].
  unfold each. apply (mapM_fails _ l c Hin Hc).
Qed.

(* ---- synsets ---- *)
Lemma synset_external_plain : forall p, is_dict p = true ->
  vtruthy (vget p (s_ "external")) = true -> fails (_validate_synset false p).
Proof.
  intros p Hd H. unfold _validate_synset. apply fails_bind; intros u _.
  rewrite (py_get_dict' p _ Hd). cbn [bind]. rewrite H. apply fails_err.
Qed.

Lemma synset_no_ili : forall ext p, is_dict p = true ->
  vtruthy (vget p (s_ "external")) = false -> vhas p (s_ "ili") = false -> fails (_validate_synset ext p).
Proof.
  intros ext p Hd He H. unfold _validate_synset. apply fails_bind; intros u _.
  rewrite (py_get_dict' p _ Hd). cbn [bind]. rewrite He. apply fails_bind; intros u2 _.
  apply fails_bind_l. cbn [negb]. apply fails_bind_l. apply assert_in_fails; assumption.
Qed.

Lemma synset_bad_relation : forall ext p l r, is_dict p = true -> vget p (s_ "relations") = VList l ->
  In r l -> fails (validate_relation r) -> fails (_validate_synset ext p).
Proof.
  intros ext p l r Hd Hg Hin Hr. unfold _validate_synset.
  apply fails_bind; intros u _. apply fails_bind; intros e _. apply fails_bind; intros u2 _.
  apply fails_bind; intros p1 H1.
  pose proof (ext_step_same _ _ _ _ (s_ "relations") H1 Hd eq_refl) as S1.
  apply fails_bind; intros p2 H2.
  pose proof (same_at_trans_upd _ _ _ _ _ _ S1 H2 eq_refl) as S2.
  apply fails_bind_l. apply (upd_list_fails p2 _ _ l (proj1 S2)); [rewrite (proj2 S2); exact Hg|].
  unfold each. apply (mapM_fails _ l r Hin Hr).
Qed.

(* ---- entries ---- *)
Lemma entry_external_plain : forall p, is_dict p = true ->
  vtruthy (vget p (s_ "external")) = true -> fails (_validate_entry false p).
Proof.
  intros p Hd H. unfold _validate_entry. apply fails_bind; intros u _.
  rewrite (py_get_dict' p _ Hd). cbn [bind]. rewrite H. apply fails_err.
Qed.

Lemma entry_no_lemma : forall ext p, is_dict p = true ->
  vtruthy (vget p (s_ "external")) = false -> vget p (s_ "lemma") = VNone -> fails (_validate_entry ext p).
Proof.
  intros ext p Hd He Hl. unfold _validate_entry. apply fails_bind; intros u _.
  rewrite !(py_get_dict' p _ Hd). cbn [bind]. rewrite He. apply fails_bind; intros u2 _.
  rewrite Hl. cbn [bind is_none negb assert]. apply fails_err.
Qed.

Lemma entry_lemma_no_pos : forall ext p lem, is_dict p = true -> vget p (s_ "lemma") = lem ->
  is_dict lem = true -> vtruthy (vget lem (s_ "external")) = false ->
  vhas lem (s_ "partOfSpeech") = false -> fails (_validate_entry ext p).
Proof.
  intros ext p lem Hd Hl Hld Hle Hp. unfold _validate_entry. apply fails_bind; intros u _.
  apply fails_bind; intros e _. apply fails_bind; intros u2 _.
  rewrite (py_get_dict' p (s_ "lemma") Hd). cbn [bind]. rewrite Hl.
  apply fails_bind; intros p1 _. apply fails_bind_l.
  assert (Hn : is_none lem = false) by (destruct lem; try discriminate; reflexivity).
  rewrite Hn. rewrite (py_get_dict' lem _ Hld). cbn [bind]. rewrite Hle.
  apply assert_in_fails; assumption.
Qed.

(* the state of the entry when the forms are read *)
Lemma entry_forms_read : forall (c : bool) (A : result unit) p p1 l,
  (if c then Ok p else do_ A; setdefault p (s_ "meta") VNone) = Ok p1 ->
  is_dict p = true -> vget p (s_ "forms") = VList l ->
  py_get_d p1 (s_ "forms") (VList []) = Ok (VList l).
Proof.
  intros c A p p1 l H Hd Hg. destruct (ext_step_same _ _ _ _ (s_ "forms") H Hd eq_refl) as [S1 S2].
  apply is_dict_inv in S1. destruct S1 as [kv ->]. unfold py_get_d. rewrite Hg in S2.
  rewrite (vget_list_vhas _ _ _ S2). rewrite S2. reflexivity.
Qed.

Lemma entry_xform_no_id : forall ext p l f, is_dict p = true -> vget p (s_ "forms") = VList l -> In f l ->
  is_dict f = true -> vtruthy (vget f (s_ "external")) = true -> vtruthy (vget f (s_ "id")) = false ->
  fails (_validate_entry ext p).
Proof.
  intros ext p l f Hd Hg Hin Hf He Hi. unfold _validate_entry. apply fails_bind; intros u _.
  apply fails_bind; intros e _. apply fails_bind; intros u2 _. apply fails_bind; intros lemma _.
  apply fails_bind; intros p1 H1. apply fails_bind; intros u3 _.
  rewrite (entry_forms_read _ _ _ _ _ H1 Hd Hg). cbn [bind py_iter]. apply fails_bind_l.
  apply (forM_fails _ l f Hin). rewrite !(py_get_dict' f _ Hf). cbn [bind]. rewrite He, Hi. apply fails_err.
Qed.

Lemma entry_bad_form : forall ext p l f, is_dict p = true -> vget p (s_ "forms") = VList l -> In f l ->
  fails (_validate_form ext f) -> fails (_validate_entry ext p).
Proof.
  intros ext p l f Hd Hg Hin Hf. unfold _validate_entry. apply fails_bind; intros u _.
  apply fails_bind; intros e _. apply fails_bind; intros u2 _. apply fails_bind; intros lemma _.
  apply fails_bind; intros p1 H1. apply fails_bind; intros u3 _.
  rewrite (entry_forms_read _ _ _ _ _ H1 Hd Hg). cbn [bind py_iter].
  apply fails_bind; intros u4 _. cbn [bind]. cbv zeta. apply fails_bind_l.
  unfold _validate_forms. apply (mapM_fails _ _ f); [|exact Hf]. apply in_or_app. right. exact Hin.
Qed.

Lemma entry_bad_lemma_form : forall ext p lem, is_dict p = true -> vget p (s_ "lemma") = lem ->
  vtruthy lem = true -> fails (_validate_form ext lem) -> fails (_validate_entry ext p).
Proof.
  intros ext p lem Hd Hl Ht Hf. unfold _validate_entry. apply fails_bind; intros u _.
  apply fails_bind; intros e _. apply fails_bind; intros u2 _.
  rewrite (py_get_dict' p (s_ "lemma") Hd). cbn [bind]. rewrite Hl.
  apply fails_bind; intros p1 _. apply fails_bind; intros u3 _. apply fails_bind; intros formsv _.
  apply fails_bind; intros forms _. apply fails_bind; intros u4 _. apply fails_bind; intros u5 _.
  cbv zeta. rewrite Ht. apply fails_bind_l. unfold _validate_forms.
  apply (mapM_fails _ _ lem); [left; reflexivity | exact Hf].
Qed.

(* what the entry looks like when its senses / frames are validated *)
Lemma entry_late_same : forall k (c : bool) (A : result unit) p p1 (lem all' : list val),
  (if c then Ok p else do_ A; setdefault p (s_ "meta") VNone) = Ok p1 -> is_dict p = true ->
  str_eqb (s_ "meta") k = false -> str_eqb (s_ "lemma") k = false -> str_eqb (s_ "forms") k = false ->
  same_at k p
    (let elem := match lem, all' with
                 | _ :: _, lemma' :: _ => vset p1 (s_ "lemma") lemma'
                 | _, _ => p1
                 end in
     if vhas elem (s_ "forms") then vset elem (s_ "forms") (VList (skipn (length lem) all')) else elem).
Proof.
  intros k c A p p1 lem all' H Hd K1 K2 K3. pose proof (ext_step_same _ _ _ _ k H Hd K1) as S.
  cbv zeta. destruct lem; destruct all';
    repeat first [ exact S
                 | apply same_at_vset; [|assumption]
                 | match goal with |- same_at _ _ (if ?c then _ else _) => destruct c end ].
Qed.

Lemma entry_bad_sense : forall ext p l s, is_dict p = true -> vget p (s_ "senses") = VList l -> In s l ->
  fails (_validate_sense ext s) -> fails (_validate_entry ext p).
Proof.
  intros ext p l s Hd Hg Hin Hs. unfold _validate_entry. apply fails_bind; intros u _.
  apply fails_bind; intros e _. apply fails_bind; intros u2 _. apply fails_bind; intros lemma _.
  apply fails_bind; intros p1 H1. apply fails_bind; intros u3 _. apply fails_bind; intros formsv _.
  apply fails_bind; intros forms _. apply fails_bind; intros u4 _. apply fails_bind; intros u5 _.
  apply fails_bind; intros all' _.
  pose proof (entry_late_same (s_ "senses") _ _ p p1 (if vtruthy lemma then [lemma] else []) all'
                H1 Hd eq_refl eq_refl eq_refl) as S.
  cbv zeta in S |- *. apply fails_bind_l.
  apply (upd_list_fails _ _ _ l (proj1 S)); [rewrite (proj2 S); exact Hg|].
  unfold _validate_senses. apply (mapM_fails _ l s Hin Hs).
Qed.

Lemma entry_bad_frame : forall ext p l fr, is_dict p = true -> vget p (s_ "frames") = VList l -> In fr l ->
  fails (_validate_frame fr) -> fails (_validate_entry ext p).
Proof.
  intros ext p l fr Hd Hg Hin Hf. unfold _validate_entry. apply fails_bind; intros u _.
  apply fails_bind; intros e _. apply fails_bind; intros u2 _. apply fails_bind; intros lemma _.
  apply fails_bind; intros p1 H1. apply fails_bind; intros u3 _. apply fails_bind; intros formsv _.
  apply fails_bind; intros forms _. apply fails_bind; intros u4 _. apply fails_bind; intros u5 _.
  apply fails_bind; intros all' _.
  pose proof (entry_late_same (s_ "frames") _ _ p p1 (if vtruthy lemma then [lemma] else []) all'
                H1 Hd eq_refl eq_refl eq_refl) as S.
  cbv zeta in S |- *. apply fails_bind; intros p2 H2.
  pose proof (same_at_trans_upd _ _ _ _ _ _ S H2 eq_refl) as S2.
  apply (upd_list_fails p2 _ _ l (proj1 S2)); [rewrite (proj2 S2); exact Hg|].
  unfold _validate_frames. apply (mapM_fails _ l fr Hin Hf).
Qed.

(* ---- lexicons ---- *)
Definition lexicon_required : list str := map s_ ["id"; "version"; "label"; "language"; "email"; "license"]%string.

Lemma lex_missing_attr : forall b p k, is_dict p = true -> In k lexicon_required -> vhas p k = false ->
  fails (_validate_lexicon p b).
Proof.
  intros b p k Hd Hin H. unfold _validate_lexicon. apply fails_bind_l.
  apply (forM_fails _ _ k Hin). apply assert_in_fails; assumption.
Qed.

Definition dep_bad (r : val) : Prop :=
  is_dict r = true /\ (vhas r (s_ "id") = false \/ vhas r (s_ "version") = false).

Lemma lex_bad_requires : forall b p l r, is_dict p = true -> vget p (s_ "requires") = VList l -> In r l ->
  dep_bad r -> fails (_validate_lexicon p b).
Proof.
  intros b p l r Hd Hg Hin [Hr Hbad]. unfold _validate_lexicon. apply fails_bind; intros u _.
  rewrite (for_get_list p _ l Hd Hg). cbn [bind]. apply fails_bind_l. apply (forM_fails _ l r Hin).
  destruct Hbad as [H|H].
  - apply fails_bind_l. apply assert_in_fails; assumption.
  - apply fails_bind; intros _ _. apply assert_in_fails; assumption.
Qed.

Lemma lex_bad_entry : forall b p l e, is_dict p = true -> vget p (s_ "entries") = VList l -> In e l ->
  fails (_validate_entry b e) -> fails (_validate_lexicon p b).
Proof.
  intros b p l e Hd Hg Hin He. unfold _validate_lexicon. apply fails_bind; intros u _.
  apply fails_bind; intros reqs _. apply fails_bind; intros u2 _. apply fails_bind_l.
  apply (upd_list_fails p _ _ l Hd Hg). unfold _validate_entries. apply (mapM_fails _ l e Hin He).
Qed.

Lemma lex_bad_synset : forall b p l s, is_dict p = true -> vget p (s_ "synsets") = VList l -> In s l ->
  fails (_validate_synset b s) -> fails (_validate_lexicon p b).
Proof.
  intros b p l s Hd Hg Hin Hs. unfold _validate_lexicon. apply fails_bind; intros u _.
  apply fails_bind; intros reqs _. apply fails_bind; intros u2 _. apply fails_bind; intros p1 H1.
  pose proof (same_at_trans_upd _ _ _ _ _ _ (same_at_refl (s_ "synsets") p Hd) H1 eq_refl) as S.
  apply fails_bind_l. apply (upd_list_fails p1 _ _ l (proj1 S)); [rewrite (proj2 S); exact Hg|].
  unfold _validate_synsets. apply (mapM_fails _ l s Hin Hs).
Qed.

Lemma lex_bad_frame : forall b p l fr, is_dict p = true -> vget p (s_ "frames") = VList l -> In fr l ->
  fails (_validate_frame fr) -> fails (_validate_lexicon p b).
Proof.
  intros b p l fr Hd Hg Hin Hf. unfold _validate_lexicon. apply fails_bind; intros u _.
  apply fails_bind; intros reqs _. apply fails_bind; intros u2 _. apply fails_bind; intros p1 H1.
  pose proof (same_at_trans_upd _ _ _ _ _ _ (same_at_refl (s_ "frames") p Hd) H1 eq_refl) as S1.
  apply fails_bind; intros p2 H2.
  pose proof (same_at_trans_upd _ _ _ _ _ _ S1 H2 eq_refl) as S2.
  apply (upd_list_fails p2 _ _ l (proj1 S2)); [rewrite (proj2 S2); exact Hg|].
  unfold _validate_frames. apply (mapM_fails _ l fr Hin Hf).
Qed.

(* ---- _validate ---- *)
Lemma validate_plain : forall p, is_dict p = true -> vget p (s_ "extends") = VNone ->
  _validate p = _validate_lexicon p false.
Proof. intros p Hd H. unfold _validate. rewrite (py_get_dict' p _ Hd). cbn [bind]. rewrite H. reflexivity. Qed.

Lemma validate_all : forall p, (forall b, fails (_validate_lexicon p b)) -> fails (_validate p).
Proof. intros p H. apply validate_bad. exact H. Qed.

Lemma validate_bad_extends : forall p e, is_dict p = true -> vget p (s_ "extends") = e ->
  vtruthy e = true -> dep_bad e -> fails (_validate p).
Proof.
  intros p e Hd Hg Ht [He Hbad]. unfold _validate. rewrite (py_get_dict' p _ Hd). cbn [bind]. rewrite Hg, Ht.
  destruct Hbad as [H|H].
  - apply fails_bind_l. apply assert_in_fails; assumption.
  - apply fails_bind; intros _ _. apply fails_bind_l. apply assert_in_fails; assumption.
Qed.

(* ====================================================================== *)
(* 3. What the handlers build: keys present or absent in a loaded element *)
(* ====================================================================== *)
Definition has_attr (k : str) (t : xtree) : bool := existsb (fun kv => str_eqb (fst kv) k) (xattrs t).
(* the element names stored under key k *)
Definition names_of (k : str) : list str :=
  map fst (filter (fun p => str_eqb (snd p) k) all_pairs).
Definition no_child_key (k : str) (t : xtree) : bool :=
  forallb (fun c => negb (str_mem (xname c) (names_of k))) (xchildren t).

Lemma names_of_spec : forall version n k, assoc n (elems_of version) = Some k -> str_mem n (names_of k) = true.
Proof.
  intros version n k H. apply elems_of_pairs in H. apply str_mem_In. unfold names_of.
  apply in_map_iff. exists (n, k). split; [reflexivity|]. apply filter_In. split; [exact H|].
  simpl. apply str_eqb_refl.
Qed.

(* k is not the key of any element: no child can be stored under it *)
Lemma no_child_key_free : forall k t, names_of k = [] -> no_child_key k t = true.
Proof.
  intros k t H. unfold no_child_key. rewrite H. induction (xchildren t) as [|c r IH]; [reflexivity | exact IH].
Qed.

Lemma has_key_vset_list_ge : forall d k' v k, has_key k d = true -> has_key k (vset_list d k' v) = true.
Proof. intros d k' v k H. rewrite has_key_vset_list. rewrite H. reflexivity. Qed.

Lemma start_attrs_no_key : forall version name attrs k,
  str_eqb (s_ "meta") k = false -> str_eqb (s_ "text") k = false ->
  (str_eqb (s_ "external") k = false \/ prefixb (s_ "External") name = false) ->
  existsb (fun kv => str_eqb (fst kv) k) attrs = false ->
  vhas (start_attrs version name attrs) k = false.
Proof.
  intros version name attrs k Km Kt Ke H. unfold start_attrs. cbv zeta.
  change (vhas (VDict ?x) ?k) with (has_key k x).
  assert (H0 : has_key k (map (fun kv : str * str => (fst kv, VStr (snd kv))) attrs) = false).
  { unfold has_key. rewrite existsb_map. exact H. }
  assert (H1 : forall x k', str_eqb k' k = false -> has_key k x = false ->
                            forall v, has_key k (vset_list x k' v) = false).
  { intros x k' Hk Hx v. rewrite has_key_vset_list. rewrite Hx, Hk. reflexivity. }
  destruct (prefixb (s_ "External") name) eqn:Ep.
  - destruct Ke as [Ke|Ke]; [|discriminate]. apply H1; [exact Ke|].
    destruct (is_cdata_elem version name); destruct (str_mem name meta_elems);
      repeat (apply H1; [assumption|]); try apply has_key_filter; exact H0.
  - destruct (is_cdata_elem version name); destruct (str_mem name meta_elems);
      repeat (apply H1; [assumption|]); try apply has_key_filter; exact H0.
Qed.

(* an attribute of an element without metadata stays a key *)
Lemma start_attrs_has_key : forall version name attrs k,
  str_mem name meta_elems = false -> existsb (fun kv => str_eqb (fst kv) k) attrs = true ->
  vhas (start_attrs version name attrs) k = true.
Proof.
  intros version name attrs k Hm H. unfold start_attrs. cbv zeta. rewrite Hm.
  change (vhas (VDict ?x) ?k) with (has_key k x).
  assert (H0 : has_key k (map (fun kv : str * str => (fst kv, VStr (snd kv))) attrs) = true).
  { unfold has_key. rewrite existsb_map. exact H. }
  destruct (prefixb (s_ "External") name); destruct (is_cdata_elem version name);
    repeat apply has_key_vset_list_ge; exact H0.
Qed.

(* children only add (or extend) the keys of their own kind *)
Lemma attach_other : forall version parent name child k,
  is_dict parent = true -> str_mem name (names_of k) = false ->
  vget (attach version parent name child) k = vget parent k
  /\ vhas (attach version parent name child) k = vhas parent k.
Proof.
  intros version parent name child k Hd Hn. apply is_dict_inv in Hd. destruct Hd as [d ->].
  unfold attach. destruct (assoc name (elems_of version)) as [k'|] eqn:Hk; [|auto].
  assert (E : str_eqb k' k = false).
  { destruct (str_eqb k' k) eqn:E; [|reflexivity]. apply str_eqb_true in E. subst k'.
    rewrite (names_of_spec version name k Hk) in Hn. discriminate. }
  destruct (is_list_elem version name).
  - destruct (vget (VDict d) k'); rewrite vget_vset_other by exact E; rewrite vhas_vset; rewrite E;
      rewrite orb_false_r; auto.
  - rewrite vget_vset_other by exact E. rewrite vhas_vset. rewrite E. rewrite orb_false_r. auto.
Qed.

(* (stated for an arbitrary f: unfolding forallb on the concrete predicate would make the
   kernel evaluate names_of) *)
Lemma forallb_cons_inv : forall {A} (f : A -> bool) x l, forallb f (x :: l) = true ->
  f x = true /\ forallb f l = true.
Proof. intros A f x l H. cbn [forallb] in H. apply andb_true_iff in H. exact H. Qed.

Lemma parse_kids_other : forall version cs parent d k,
  parse_kids version cs parent = Ok d -> is_dict parent = true ->
  forallb (fun c => negb (str_mem (xname c) (names_of k))) cs = true ->
  vget d k = vget parent k /\ vhas d k = vhas parent k.
Proof.
  intros version cs. induction cs as [|c r IH]; intros parent d k H Hd Hn; cbn [parse_kids] in H.
  - injection H as <-. auto.
  - apply bind_ok in H. destruct H as [u [_ H]]. apply bind_ok in H. destruct H as [cd [_ H]].
    destruct (forallb_cons_inv _ _ _ Hn) as [Hc Hr]. apply negb_true_iff in Hc.
    destruct (IH _ _ k H (attach_is_dict _ _ _ _ Hd) Hr) as [I1 I2].
    destruct (attach_other version parent (xname c) cd k Hd Hc) as [A1 A2].
    rewrite I1, I2, A1, A2. auto.
Qed.

Lemma parse_elem_is_dict : forall version t cd, parse_elem version t = Ok cd -> is_dict cd = true.
Proof.
  intros version t cd H. apply parse_elem_ok in H. destruct H as [d0 [Hk ->]].
  assert (Hd : is_dict d0 = true) by (apply (parse_kids_is_dict _ _ _ _ Hk); reflexivity).
  apply (finish_other d0 (xtext t) (s_ "id") Hd eq_refl).
Qed.

(* key k of the loaded element, when no child is stored under k: it is what the start
   handler made of the attributes *)
Lemma parse_key_from_attrs : forall version t cd k,
  parse_elem version t = Ok cd -> str_eqb (s_ "text") k = false -> no_child_key k t = true ->
  vget cd k = vget (start_attrs version (xname t) (xattrs t)) k
  /\ vhas cd k = vhas (start_attrs version (xname t) (xattrs t)) k.
Proof.
  intros version t cd k H Kt Hn. apply parse_elem_ok in H. destruct H as [d0 [Hk ->]].
  assert (Hd : is_dict d0 = true) by (apply (parse_kids_is_dict _ _ _ _ Hk); reflexivity).
  destruct (finish_other d0 (xtext t) k Hd Kt) as [F1 [F2 _]].
  destruct (parse_kids_other version _ _ _ k Hk eq_refl Hn) as [P1 P2].
  rewrite F1, F2, P1, P2. auto.
Qed.

(* no attribute and no child for k: no key k *)
Lemma parse_absent : forall version t cd k,
  parse_elem version t = Ok cd ->
  str_eqb (s_ "meta") k = false -> str_eqb (s_ "text") k = false ->
  (str_eqb (s_ "external") k = false \/ prefixb (s_ "External") (xname t) = false) ->
  has_attr k t = false -> no_child_key k t = true ->
  vhas cd k = false /\ vget cd k = VNone.
Proof.
  intros version t cd k H Km Kt Ke Ha Hn.
  destruct (parse_key_from_attrs version t cd k H Kt Hn) as [_ P2].
  assert (E : vhas cd k = false).
  { rewrite P2. apply start_attrs_no_key; assumption. }
  split; [exact E | apply vhas_false_vget; exact E].
Qed.

(* an attribute of an element without metadata gives a key *)
Lemma parse_present : forall version t cd k,
  parse_elem version t = Ok cd -> str_eqb (s_ "text") k = false -> no_child_key k t = true ->
  str_mem (xname t) meta_elems = false -> has_attr k t = true -> vhas cd k = true.
Proof.
  intros version t cd k H Kt Hn Hm Ha. destruct (parse_key_from_attrs version t cd k H Kt Hn) as [_ P2].
  rewrite P2. apply start_attrs_has_key; assumption.
Qed.

(* an External* element carries external = True *)
Lemma parse_external_true : forall version t cd,
  parse_elem version t = Ok cd -> prefixb (s_ "External") (xname t) = true ->
  vget cd (s_ "external") = VBool true.
Proof.
  intros version t cd H Hp.
  destruct (parse_key_from_attrs version t cd (s_ "external") H eq_refl) as [P1 _];
    [apply no_child_key_free; vm_compute; reflexivity|].
  rewrite P1. unfold start_attrs. cbv zeta. rewrite Hp.
  match goal with |- vget (VDict (vset_list ?a ?k ?v)) ?k = _ =>
    change (VDict (vset_list a k v)) with (vset (VDict a) k v) end.
  apply vget_vset_same.
Qed.

(* an element that is not External* and has no attribute named external *)
Definition not_external (t : xtree) : bool :=
  negb (prefixb (s_ "External") (xname t)) && negb (has_attr (s_ "external") t).
Lemma parse_not_external : forall version t cd,
  parse_elem version t = Ok cd -> not_external t = true -> vtruthy (vget cd (s_ "external")) = false.
Proof.
  intros version t cd H Hn. unfold not_external in Hn. apply andb_true_iff in Hn. destruct Hn as [H1 H2].
  apply negb_true_iff in H1. apply negb_true_iff in H2.
  destruct (parse_absent version t cd (s_ "external") H eq_refl eq_refl (or_intror H1) H2) as [_ E];
    [apply no_child_key_free; vm_compute; reflexivity|].
  rewrite E. reflexivity.
Qed.

(* ---- a single (non-list) child is stored under its key ---- *)
Lemma attach_keeps_single : forall version parent name child k v u,
  is_dict parent = true -> attach_check version parent name = Ok u ->
  vget parent k = v -> is_dict v = true -> vget (attach version parent name child) k = v.
Proof.
  intros version parent name child k v u Hd Hc Hg Hv. apply is_dict_inv in Hd. destruct Hd as [d ->].
  unfold attach. destruct (assoc name (elems_of version)) as [k'|] eqn:Hk; [|exact Hg].
  destruct (str_eqb k' k) eqn:E.
  - apply str_eqb_true in E. subst k'. exfalso.
    assert (Hh : vhas (VDict d) k = true).
    { destruct (vhas (VDict d) k) eqn:E; [reflexivity|]. rewrite (vhas_false_vget _ _ E) in Hg.
      subst v. discriminate. }
    unfold attach_check in Hc. rewrite Hk in Hc. destruct (is_list_elem version name).
    + rewrite Hh in Hc. rewrite Hg in Hc. destruct v; discriminate.
    + rewrite Hh in Hc. discriminate.
  - destruct (is_list_elem version name).
    + destruct (vget (VDict d) k'); rewrite vget_vset_other by exact E; exact Hg.
    + rewrite vget_vset_other by exact E. exact Hg.
Qed.

Lemma parse_kids_keeps_single : forall version r parent d k v,
  parse_kids version r parent = Ok d -> is_dict parent = true -> vget parent k = v -> is_dict v = true ->
  vget d k = v.
Proof.
  intros version r. induction r as [|c r IH]; intros parent d k v H Hd Hg Hv; simpl in H.
  - injection H as <-. exact Hg.
  - apply bind_ok in H. destruct H as [u [Hc H]]. apply bind_ok in H. destruct H as [cd [_ H]].
    apply (IH _ _ k v H (attach_is_dict _ _ _ _ Hd)); [|exact Hv].
    apply (attach_keeps_single _ _ _ _ _ _ u); assumption.
Qed.

Lemma parse_kids_single_member : forall version cs parent d c k,
  parse_kids version cs parent = Ok d -> is_dict parent = true -> In c cs ->
  is_list_elem version (xname c) = false -> assoc (xname c) (elems_of version) = Some k ->
  exists cd, parse_elem version c = Ok cd /\ vget d k = cd.
Proof.
  intros version cs. induction cs as [|c0 r IH]; intros parent d c k H Hd Hin Hl Hk; [contradiction|].
  simpl in H. apply bind_ok in H. destruct H as [u [Hc H]]. apply bind_ok in H. destruct H as [cd [Hp H]].
  destruct Hin as [->|Hin].
  - exists cd. split; [exact Hp|].
    apply (parse_kids_keeps_single _ _ _ _ k cd H (attach_is_dict _ _ _ _ Hd)).
    + apply is_dict_inv in Hd. destruct Hd as [l ->]. unfold attach. rewrite Hk, Hl. apply vget_vset_same.
    + apply (parse_elem_is_dict _ _ _ Hp).
  - apply (IH _ _ _ _ H (attach_is_dict _ _ _ _ Hd) Hin Hl Hk).
Qed.

Lemma child_in_elems : forall version t cd c, parse_elem version t = Ok cd -> In c (xchildren t) ->
  in_elems version (xname c) = true.
Proof.
  intros version t cd c H Hin. apply parse_elem_ok in H. destruct H as [d0 [Hk _]].
  apply (parse_kids_ok_in_elems _ _ _ _ _ Hk Hin).
Qed.

Lemma single_child : forall version t cd c names key,
  parse_elem version t = Ok cd -> In c (xchildren t) -> str_mem (xname c) names = true ->
  forallb (fun n => negb (str_mem n list_elems) && pair_mem (n, key) all_pairs) names = true ->
  str_eqb (s_ "text") key = false ->
  exists ccd, vget cd key = ccd /\ parse_elem version c = Ok ccd /\ is_dict ccd = true.
Proof.
  intros version t cd c names key H Hin Hn Hnames Ht.
  pose proof (child_in_elems version t cd c H Hin) as Hie.
  apply parse_elem_ok in H. destruct H as [d0 [Hk ->]].
  assert (Hd : is_dict d0 = true) by (apply (parse_kids_is_dict _ _ _ _ Hk); reflexivity).
  destruct (finish_other d0 (xtext t) key Hd Ht) as [H1 _].
  apply str_mem_In in Hn. rewrite forallb_forall in Hnames. specialize (Hnames _ Hn).
  apply andb_true_iff in Hnames. destruct Hnames as [Hle Hpm]. apply negb_true_iff in Hle.
  apply pair_mem_In in Hpm.
  unfold in_elems in Hie. destruct (assoc (xname c) (elems_of version)) as [k|] eqn:Hak; [|discriminate].
  assert (k = key) by (apply (elems_key version (xname c)); assumption). subst k.
  assert (Hl : is_list_elem version (xname c) = false) by (unfold is_list_elem; rewrite Hle; reflexivity).
  destruct (parse_kids_single_member _ _ _ _ _ _ Hk eq_refl Hin Hl Hak) as [ccd [Hp Hg]].
  exists ccd. rewrite H1. split; [exact Hg|]. split; [exact Hp | apply (parse_elem_is_dict _ _ _ Hp)].
Qed.

(* ---- one of the list children of an element fails ---- *)
Lemma list_child : forall version t cd names key (Q : xtree -> bool),
  parse_elem version t = Ok cd ->
  existsb (fun c => str_mem (xname c) names && Q c) (xchildren t) = true ->
  forallb (fun n => str_mem n list_elems && pair_mem (n, key) all_pairs) names = true ->
  str_eqb (s_ "text") key = false ->
  is_dict cd = true
  /\ exists c l ccd, In c (xchildren t) /\ Q c = true /\ vget cd key = VList l /\ In ccd l
                     /\ parse_elem version c = Ok ccd /\ is_dict ccd = true.
Proof.
  intros version t cd names key Q H Hex Hnames Ht. apply existsb_exists in Hex.
  destruct Hex as [c [Hin Hc]]. apply andb_true_iff in Hc. destruct Hc as [Hn Hq].
  destruct (child_member version t cd c names key H Hin Hn Hnames Ht) as [Hd [l [ccd [Hg [Hl Hp]]]]].
  split; [exact Hd|]. exists c, l, ccd. repeat split; try assumption. apply (parse_elem_is_dict _ _ _ Hp).
Qed.

Lemma vget_list_vhas' : forall d k v, vget d k = VStr v -> vhas d k = true.
Proof.
  intros d k v H. destruct (vhas d k) eqn:E; [reflexivity|]. rewrite (vhas_false_vget _ _ E) in H. discriminate.
Qed.

(* ====================================================================== *)
(* 4. From attributes of the tree to keys of the loaded dictionaries      *)
(* ====================================================================== *)
Ltac vmr := vm_compute; reflexivity.

(* the attribute names the validators ask for: none of them is the key of a child
   element, nor one of the keys the start handler adds *)
Definition plain_keys : list str :=
  map s_ ["id"; "version"; "label"; "language"; "email"; "license"; "target"; "relType"; "synset";
          "ili"; "writtenForm"; "partOfSpeech"; "subcategorizationFrame"; "category"]%string.

Definition is_nil {A} (l : list A) : bool := match l with [] => true | _ => false end.
Lemma is_nil_inv : forall {A} (l : list A), is_nil l = true -> l = [].
Proof. intros A [|x l] H; [reflexivity | discriminate]. Qed.

(* (four separate tables: splitting a conjunction of booleans would make the kernel
   evaluate names_of) *)
Lemma plain_keys_ok1 : forallb (fun k => is_nil (names_of k)) plain_keys = true.
Proof. vmr. Qed.
Lemma plain_keys_ok2 : forallb (fun k => negb (str_eqb (s_ "meta") k)) plain_keys = true.
Proof. vmr. Qed.
Lemma plain_keys_ok3 : forallb (fun k => negb (str_eqb (s_ "text") k)) plain_keys = true.
Proof. vmr. Qed.
Lemma plain_keys_ok4 : forallb (fun k => negb (str_eqb (s_ "external") k)) plain_keys = true.
Proof. vmr. Qed.

Lemma plain_key_spec : forall k, str_mem k plain_keys = true ->
  names_of k = [] /\ str_eqb (s_ "meta") k = false /\ str_eqb (s_ "text") k = false
  /\ str_eqb (s_ "external") k = false.
Proof.
  intros k H. apply str_mem_In in H.
  pose proof (proj1 (forallb_forall _ _) plain_keys_ok1 k H) as F1.
  pose proof (proj1 (forallb_forall _ _) plain_keys_ok2 k H) as F2.
  pose proof (proj1 (forallb_forall _ _) plain_keys_ok3 k H) as F3.
  pose proof (proj1 (forallb_forall _ _) plain_keys_ok4 k H) as F4.
  cbv beta in F1, F2, F3, F4.
  apply negb_true_iff in F2. apply negb_true_iff in F3. apply negb_true_iff in F4.
  apply is_nil_inv in F1. auto.
Qed.

(* the element was written without attribute k: the loaded dictionary has no key k *)
Lemma absent_attr : forall version t cd k,
  parse_elem version t = Ok cd -> str_mem k plain_keys = true -> has_attr k t = false ->
  is_dict cd = true /\ vhas cd k = false /\ vget cd k = VNone.
Proof.
  intros version t cd k H Hk Ha. destruct (plain_key_spec k Hk) as [N [Km [Kt Ke]]].
  split; [apply (parse_elem_is_dict _ _ _ H)|].
  apply (parse_absent version t cd k H Km Kt (or_introl Ke) Ha). apply no_child_key_free. exact N.
Qed.

Lemma negb_has_attr : forall k t, negb (has_attr k t) = true -> has_attr k t = false.
Proof. intros k t H. apply negb_true_iff. exact H. Qed.

(* the children named in [names] that satisfy Q *)
Definition kids_where (names : list string) (Q : xtree -> bool) (t : xtree) : bool :=
  existsb (fun c => named names c && Q c) (xchildren t).
Definition no_child (names : list string) (t : xtree) : bool :=
  forallb (fun c => negb (named names c)) (xchildren t).

Lemma kids_where_mono : forall names (Q Q' : xtree -> bool) t,
  (forall c, Q c = true -> Q' c = true) -> kids_where names Q t = true -> kids_where names Q' t = true.
Proof.
  intros names Q Q' t H Hk. unfold kids_where in *. apply existsb_exists in Hk. destruct Hk as [c [Hin Hc]].
  apply existsb_exists. exists c. split; [exact Hin|]. apply andb_true_iff in Hc. destruct Hc as [H1 H2].
  rewrite H1. rewrite (H c H2). reflexivity.
Qed.

(* no child with one of these names, and every element stored under k has one of them *)
Lemma no_child_no_key : forall names k t,
  forallb (fun n => str_mem n (map s_ names)) (names_of k) = true ->
  no_child names t = true -> no_child_key k t = true.
Proof.
  intros names k t Hn H. unfold no_child in H. unfold no_child_key. rewrite forallb_forall in *.
  intros c Hin. specialize (H c Hin). apply negb_true_iff in H. apply negb_true_iff.
  destruct (str_mem (xname c) (names_of k)) eqn:E; [|reflexivity].
  apply str_mem_In in E. specialize (Hn _ E). unfold named in H. rewrite Hn in H. discriminate.
Qed.

(* membership tests on the element tables, computed once *)
Definition list_names_ok (names : list string) (key : string) : bool :=
  forallb (fun n => str_mem n list_elems && pair_mem (n, s_ key) all_pairs) (map s_ names).
Definition single_names_ok (names : list string) (key : string) : bool :=
  forallb (fun n => negb (str_mem n list_elems) && pair_mem (n, s_ key) all_pairs) (map s_ names).

(* one of the list children named in [names] satisfies Q: its dictionary is an item of
   the list under [key] *)
Lemma kids_where_list : forall version t cd names key (Q : xtree -> bool),
  parse_elem version t = Ok cd -> kids_where names Q t = true ->
  list_names_ok names key = true -> str_eqb (s_ "text") (s_ key) = false ->
  is_dict cd = true
  /\ exists c l ccd, In c (xchildren t) /\ named names c = true /\ Q c = true
                     /\ vget cd (s_ key) = VList l /\ In ccd l
                     /\ parse_elem version c = Ok ccd /\ is_dict ccd = true
                     /\ in_elems version (xname c) = true.
Proof.
  intros version t cd names key Q H Hex Hnames Ht. unfold kids_where in Hex.
  apply existsb_exists in Hex. destruct Hex as [c [Hin Hc]]. apply andb_true_iff in Hc.
  destruct Hc as [Hn Hq].
  destruct (child_member version t cd c (map s_ names) (s_ key) H Hin Hn Hnames Ht)
    as [Hd [l [ccd [Hg [Hl Hp]]]]].
  split; [exact Hd|]. exists c, l, ccd. repeat split; try assumption.
  - apply (parse_elem_is_dict _ _ _ Hp).
  - apply (child_in_elems version t cd c H Hin).
Qed.

(* the same for a single (non-list) child: its dictionary is the value under [key] *)
Lemma kids_where_single : forall version t cd names key (Q : xtree -> bool),
  parse_elem version t = Ok cd -> kids_where names Q t = true ->
  single_names_ok names key = true -> str_eqb (s_ "text") (s_ key) = false ->
  exists c ccd, In c (xchildren t) /\ named names c = true /\ Q c = true
                /\ vget cd (s_ key) = ccd /\ parse_elem version c = Ok ccd /\ is_dict ccd = true.
Proof.
  intros version t cd names key Q H Hex Hnames Ht. unfold kids_where in Hex.
  apply existsb_exists in Hex. destruct Hex as [c [Hin Hc]]. apply andb_true_iff in Hc.
  destruct Hc as [Hn Hq].
  destruct (single_child version t cd c (map s_ names) (s_ key) H Hin Hn Hnames Ht) as [ccd [Hg [Hp Hd]]].
  exists c, ccd. repeat split; assumption.
Qed.

(* an element named in [names] is not a metadata element *)
Lemma named_not_meta : forall names c,
  forallb (fun n => negb (str_mem n meta_elems)) (map s_ names) = true ->
  named names c = true -> str_mem (xname c) meta_elems = false.
Proof.
  intros names c F H. unfold named in H. apply str_mem_In in H. rewrite forallb_forall in F.
  specialize (F _ H). apply negb_true_iff. exact F.
Qed.

(* (no_child_key_free with no_child_key unfolded: the kernel is slow to unfold it at a
   concrete key) *)
Lemma no_child_key_free' : forall k t, names_of k = [] ->
  forallb (fun c => negb (str_mem (xname c) (names_of k))) (xchildren t) = true.
Proof.
  intros k t H. rewrite H. induction (xchildren t) as [|c r IH]; [reflexivity | exact IH].
Qed.

(* ---- the text of a Count (whatever its attributes other than xml:space and its children) ---- *)
Lemma count_text : forall version c cd,
  parse_elem version c = Ok cd -> xname c = s_ "Count" -> in_elems version (s_ "Count") = true ->
  has_attr xmlspaceattr c = false ->
  is_dict cd = true /\ vget cd (s_ "text") = VStr (norm_ws (xtext c)).
Proof.
  intros version c cd H Hn Hie Hx. split; [apply (parse_elem_is_dict _ _ _ H)|].
  apply parse_elem_ok in H. destruct H as [d0 [Hk ->]]. rewrite Hn in Hk.
  assert (Hd : is_dict d0 = true) by (apply (parse_kids_is_dict _ _ _ _ Hk); reflexivity).
  assert (N1 : names_of (s_ "text") = []) by vmr.
  assert (N2 : names_of xmlspaceattr = []) by vmr.
  destruct (parse_kids_other version _ _ _ (s_ "text") Hk eq_refl (no_child_key_free' _ c N1)) as [T1 T2].
  destruct (parse_kids_other version _ _ _ xmlspaceattr Hk eq_refl (no_child_key_free' _ c N2)) as [_ X2].
  assert (S1 : vget (start_attrs version (s_ "Count") (xattrs c)) (s_ "text") = VStr []).
  { unfold start_attrs. cbv zeta. unfold is_cdata_elem. rewrite Hie.
    replace (str_mem (s_ "Count") cdata_elems) with true by vmr.
    replace (prefixb (s_ "External") (s_ "Count")) with false by vmr.
    cbn [andb].
    match goal with |- vget (VDict (vset_list ?l ?k ?v)) ?k = _ =>
      change (VDict (vset_list l k v)) with (vset (VDict l) k v) end.
    apply vget_vset_same. }
  assert (S2 : vhas (start_attrs version (s_ "Count") (xattrs c)) xmlspaceattr = false).
  { apply start_attrs_no_key; [vmr | vmr | left; vmr | exact Hx]. }
  rewrite S1 in T1. rewrite S2 in X2.
  assert (Hh : vhas d0 (s_ "text") = true) by (apply (vget_list_vhas' _ _ _ T1)).
  unfold finish. rewrite Hh, T1, X2. cbv zeta.
  replace (val_eqb (VStr []) (VStr (s_ "preserve"))) with false by vmr.
  apply is_dict_inv in Hd. destruct Hd as [kv ->]. rewrite vget_vset_same. reflexivity.
Qed.

(* ====================================================================== *)
(* 5. The faults, element by element                                      *)
(* ====================================================================== *)
(* from here on string literals are element and attribute names *)
Local Open Scope string_scope.

Definition attr_missing (k : string) (t : xtree) : bool := negb (has_attr (s_ k) t).

Lemma attr_missing_absent : forall version t cd k,
  parse_elem version t = Ok cd -> str_mem (s_ k) plain_keys = true -> attr_missing k t = true ->
  is_dict cd = true /\ vhas cd (s_ k) = false /\ vget cd (s_ k) = VNone.
Proof.
  intros version t cd k H Hk Ha. apply (absent_attr version t cd (s_ k) H Hk).
  apply negb_has_attr. exact Ha.
Qed.

(* the tables used below *)
Lemma ok_tags : list_names_ok ["Tag"] "tags" = true. Proof. vmr. Qed.
Lemma ok_relations : list_names_ok ["SenseRelation"; "SynsetRelation"] "relations" = true. Proof. vmr. Qed.
Lemma ok_counts : list_names_ok ["Count"] "counts" = true. Proof. vmr. Qed.
Lemma ok_forms : list_names_ok ["Form"; "ExternalForm"] "forms" = true. Proof. vmr. Qed.
Lemma ok_senses : list_names_ok ["Sense"; "ExternalSense"] "senses" = true. Proof. vmr. Qed.
Lemma ok_frames : list_names_ok ["SyntacticBehaviour"] "frames" = true. Proof. vmr. Qed.
Lemma ok_entries : list_names_ok ["LexicalEntry"; "ExternalLexicalEntry"] "entries" = true. Proof. vmr. Qed.
Lemma ok_synsets : list_names_ok ["Synset"; "ExternalSynset"] "synsets" = true. Proof. vmr. Qed.
Lemma ok_requires : list_names_ok ["Requires"] "requires" = true. Proof. vmr. Qed.
Lemma ok_lexicons : list_names_ok ["Lexicon"; "LexiconExtension"] "lexicons" = true. Proof. vmr. Qed.
Lemma ok_lemma : single_names_ok ["Lemma"; "ExternalLemma"] "lemma" = true. Proof. vmr. Qed.
Lemma ok_extends : single_names_ok ["Extends"] "extends" = true. Proof. vmr. Qed.

(* ---- SenseRelation / SynsetRelation: target, relType ---- *)
Definition rel_fault (r : xtree) : bool := attr_missing "target" r || attr_missing "relType" r.

Lemma rel_fault_fails : forall version r rd,
  rel_fault r = true -> parse_elem version r = Ok rd -> fails (validate_relation rd).
Proof.
  intros version r rd Hf Hp. unfold rel_fault in Hf. apply orb_true_iff in Hf. destruct Hf as [Hf|Hf].
  - destruct (attr_missing_absent version r rd "target" Hp ltac:(vmr) Hf) as [Hd [Hh _]].
    apply relation_fails; [exact Hd | left; exact Hh].
  - destruct (attr_missing_absent version r rd "relType" Hp ltac:(vmr) Hf) as [Hd [Hh _]].
    apply relation_fails; [exact Hd | right; exact Hh].
Qed.

(* ---- Count: the text must be an integer for int() ---- *)
Definition opt_none {A} (o : option A) : bool := match o with None => true | Some _ => false end.
Definition count_fault (c : xtree) : bool :=
  negb (has_attr xmlspaceattr c) && opt_none (parse_int (norm_ws (xtext c))).

Lemma count_fault_fails : forall version c cd,
  count_fault c = true -> named ["Count"] c = true -> in_elems version (xname c) = true ->
  parse_elem version c = Ok cd -> fails (validate_count cd).
Proof.
  intros version c cd Hf Hn Hie Hp. unfold count_fault in Hf. apply andb_true_iff in Hf.
  destruct Hf as [Hx Hi]. apply negb_true_iff in Hx.
  assert (Hname : xname c = s_ "Count").
  { unfold named in Hn. cbn [map str_mem existsb] in Hn. rewrite orb_false_r in Hn.
    apply str_eqb_true in Hn. exact Hn. }
  rewrite Hname in Hie. destruct (count_text version c cd Hp Hname Hie Hx) as [Hd Hg].
  destruct (parse_int (norm_ws (xtext c))) eqn:E; [discriminate|].
  rewrite (count_fails cd _ Hd Hg E). apply fails_err.
Qed.

(* ---- Tag: category ---- *)
Definition tag_fault (tg : xtree) : bool := attr_missing "category" tg.

(* ---- Lemma / ExternalLemma / Form / ExternalForm, as forms ---- *)
Definition form_fault (f : xtree) : bool :=
  (not_external f && attr_missing "writtenForm" f) || kids_where ["Tag"] tag_fault f.

Lemma form_fault_fails : forall version f fd ext,
  form_fault f = true -> parse_elem version f = Ok fd -> fails (_validate_form ext fd).
Proof.
  intros version f fd ext Hf Hp. unfold form_fault in Hf. apply orb_true_iff in Hf. destruct Hf as [Hf|Hf].
  - apply andb_true_iff in Hf. destruct Hf as [Hne Hw].
    destruct (attr_missing_absent version f fd "writtenForm" Hp ltac:(vmr) Hw) as [Hd [Hh _]].
    apply form_no_written_form; [exact Hd | apply (parse_not_external version f fd Hp Hne) | exact Hh].
  - destruct (kids_where_list version f fd _ _ _ Hp Hf ok_tags eq_refl)
      as [Hd [c [l [tgd [Hin [Hn [Hq [Hg [Hl [Hpc [Hdc _]]]]]]]]]]].
    unfold tag_fault in Hq.
    destruct (attr_missing_absent version c tgd "category" Hpc ltac:(vmr) Hq) as [_ [Hh _]].
    apply (form_bad_tag ext fd l tgd); assumption.
Qed.

(* a form with a Tag child is a non-empty dictionary *)
Lemma form_fault_truthy_or : forall version f fd,
  kids_where ["Tag"] tag_fault f = true -> parse_elem version f = Ok fd -> vtruthy fd = true.
Proof.
  intros version f fd Hf Hp.
  destruct (kids_where_list version f fd _ _ _ Hp Hf ok_tags eq_refl)
    as [Hd [c [l [tgd [Hin [Hn [Hq [Hg _]]]]]]]].
  apply (vhas_true_truthy fd (s_ "tags") Hd). apply (vget_list_vhas _ _ _ Hg).
Qed.

(* ---- SyntacticBehaviour: subcategorizationFrame ---- *)
Definition frame_fault (fr : xtree) : bool := attr_missing "subcategorizationFrame" fr.

Lemma frame_fault_fails : forall version fr frd,
  frame_fault fr = true -> parse_elem version fr = Ok frd -> fails (_validate_frame frd).
Proof.
  intros version fr frd Hf Hp. unfold frame_fault in Hf.
  destruct (attr_missing_absent version fr frd "subcategorizationFrame" Hp ltac:(vmr) Hf) as [Hd [Hh _]].
  apply frame_fails; assumption.
Qed.

(* ---- Sense / ExternalSense ---- *)
Definition sense_fault (s : xtree) : bool :=
  (not_external s && attr_missing "synset" s)
  || kids_where ["SenseRelation"; "SynsetRelation"] rel_fault s
  || kids_where ["Count"] count_fault s.

Lemma sense_fault_fails : forall version s sd ext,
  sense_fault s = true -> parse_elem version s = Ok sd -> fails (_validate_sense ext sd).
Proof.
  intros version s sd ext Hf Hp. unfold sense_fault in Hf.
  apply orb_true_iff in Hf. destruct Hf as [Hf|Hf]; [apply orb_true_iff in Hf; destruct Hf as [Hf|Hf]|].
  - apply andb_true_iff in Hf. destruct Hf as [Hne Hw].
    destruct (attr_missing_absent version s sd "synset" Hp ltac:(vmr) Hw) as [Hd [Hh _]].
    apply sense_no_synset; [exact Hd | apply (parse_not_external version s sd Hp Hne) | exact Hh].
  - destruct (kids_where_list version s sd _ _ _ Hp Hf ok_relations eq_refl)
      as [Hd [c [l [rd [Hin [Hn [Hq [Hg [Hl [Hpc _]]]]]]]]]].
    apply (sense_bad_relation ext sd l rd Hd Hg Hl). apply (rel_fault_fails version c rd Hq Hpc).
  - destruct (kids_where_list version s sd _ _ _ Hp Hf ok_counts eq_refl)
      as [Hd [c [l [cd [Hin [Hn [Hq [Hg [Hl [Hpc [_ Hie]]]]]]]]]]].
    apply (sense_bad_count ext sd l cd Hd Hg Hl). apply (count_fault_fails version c cd Hq Hn Hie Hpc).
Qed.

(* ---- Synset / ExternalSynset ---- *)
Definition synset_fault (ss : xtree) : bool :=
  (not_external ss && attr_missing "ili" ss)
  || kids_where ["SenseRelation"; "SynsetRelation"] rel_fault ss.

Lemma synset_fault_fails : forall version ss sd ext,
  synset_fault ss = true -> parse_elem version ss = Ok sd -> fails (_validate_synset ext sd).
Proof.
  intros version ss sd ext Hf Hp. unfold synset_fault in Hf.
  apply orb_true_iff in Hf. destruct Hf as [Hf|Hf].
  - apply andb_true_iff in Hf. destruct Hf as [Hne Hw].
    destruct (attr_missing_absent version ss sd "ili" Hp ltac:(vmr) Hw) as [Hd [Hh _]].
    apply synset_no_ili; [exact Hd | apply (parse_not_external version ss sd Hp Hne) | exact Hh].
  - destruct (kids_where_list version ss sd _ _ _ Hp Hf ok_relations eq_refl)
      as [Hd [c [l [rd [Hin [Hn [Hq [Hg [Hl [Hpc _]]]]]]]]]].
    apply (synset_bad_relation ext sd l rd Hd Hg Hl). apply (rel_fault_fails version c rd Hq Hpc).
Qed.

(* ---- an attribute of an element without metadata is a key, whatever the children ---- *)
Lemma parse_kids_vhas : forall version cs parent d k,
  parse_kids version cs parent = Ok d -> is_dict parent = true -> vhas parent k = true -> vhas d k = true.
Proof.
  intros version cs. induction cs as [|c r IH]; intros parent d k H Hd Hh; cbn [parse_kids] in H.
  - injection H as <-. exact Hh.
  - apply bind_ok in H. destruct H as [u [_ H]]. apply bind_ok in H. destruct H as [cd [_ H]].
    apply (IH _ _ k H (attach_is_dict _ _ _ _ Hd)). apply attach_vhas; assumption.
Qed.

Lemma finish_vhas : forall d text k, is_dict d = true -> vhas d k = true -> vhas (finish d text) k = true.
Proof.
  intros d text k Hd Hh. apply is_dict_inv in Hd. destruct Hd as [kv ->]. unfold finish.
  destruct (vhas (VDict kv) (s_ "text")); [|exact Hh].
  cbv zeta. destruct (val_eqb _ _); rewrite vhas_vset; rewrite Hh; reflexivity.
Qed.

Lemma parse_attr_vhas : forall version t cd k,
  parse_elem version t = Ok cd -> str_mem (xname t) meta_elems = false -> has_attr k t = true ->
  vhas cd k = true.
Proof.
  intros version t cd k H Hm Ha. apply parse_elem_ok in H. destruct H as [d0 [Hk ->]].
  assert (Hd : is_dict d0 = true) by (apply (parse_kids_is_dict _ _ _ _ Hk); reflexivity).
  apply (finish_vhas _ _ _ Hd). apply (parse_kids_vhas _ _ _ _ _ Hk eq_refl).
  apply start_attrs_has_key; assumption.
Qed.

Lemma vget_bool_vhas : forall d k b, vget d k = VBool b -> vhas d k = true.
Proof.
  intros d k b H. destruct (vhas d k) eqn:E; [reflexivity|]. rewrite (vhas_false_vget _ _ E) in H. discriminate.
Qed.

Definition is_external (t : xtree) : bool := prefixb (s_ "External") (xname t).

Lemma parse_is_external : forall version t cd, parse_elem version t = Ok cd -> is_external t = true ->
  is_dict cd = true /\ vtruthy (vget cd (s_ "external")) = true /\ vtruthy cd = true.
Proof.
  intros version t cd H Hx. pose proof (parse_elem_is_dict _ _ _ H) as Hd.
  pose proof (parse_external_true version t cd H Hx) as He.
  split; [exact Hd|]. split; [rewrite He; reflexivity|].
  apply (vhas_true_truthy cd (s_ "external") Hd). apply (vget_bool_vhas _ _ _ He).
Qed.

(* H : a1 || ... || a(n+1) = true, split in its n+1 cases (and no further) *)
Ltac split_or H n :=
  match n with
  | O => idtac
  | S ?m => apply orb_true_iff in H; destruct H as [H|H]; [split_or H m|]
  end.

(* ---- LexicalEntry / ExternalLexicalEntry ---- *)
Definition lemma_fault (lm : xtree) : bool :=
  (not_external lm && attr_missing "partOfSpeech" lm) || form_fault lm.
Definition entry_lacks_lemma (e : xtree) : bool :=
  not_external e && negb (has_attr (s_ "lemma") e) && no_child ["Lemma"; "ExternalLemma"] e.
Definition form_item_fault (f : xtree) : bool :=
  form_fault f || (is_external f && attr_missing "id" f).
Definition entry_fault (e : xtree) : bool :=
  entry_lacks_lemma e
  || kids_where ["Lemma"; "ExternalLemma"] lemma_fault e
  || kids_where ["Form"; "ExternalForm"] form_item_fault e
  || kids_where ["Sense"; "ExternalSense"] sense_fault e
  || kids_where ["SyntacticBehaviour"] frame_fault e.

Lemma no_lemma_key : forall t, no_child ["Lemma"; "ExternalLemma"] t = true -> no_child_key (s_ "lemma") t = true.
Proof. intro t. apply no_child_no_key. vmr. Qed.

Lemma lemma_not_meta : forall c, named ["Lemma"; "ExternalLemma"] c = true -> str_mem (xname c) meta_elems = false.
Proof. intro c. apply named_not_meta. vmr. Qed.

Lemma lemma_child_fails : forall version e ed c lcd ext,
  parse_elem version e = Ok ed -> vget ed (s_ "lemma") = lcd -> parse_elem version c = Ok lcd ->
  named ["Lemma"; "ExternalLemma"] c = true -> lemma_fault c = true -> fails (_validate_entry ext ed).
Proof.
  intros version e ed c lcd ext Hp Hg Hpc Hn Hf.
  pose proof (parse_elem_is_dict _ _ _ Hp) as Hd. pose proof (parse_elem_is_dict _ _ _ Hpc) as Hdl.
  assert (NoPos : not_external c = true -> attr_missing "partOfSpeech" c = true -> fails (_validate_entry ext ed)).
  { intros Hne Hw.
    destruct (attr_missing_absent version c lcd "partOfSpeech" Hpc ltac:(vmr) Hw) as [_ [Hh _]].
    apply (entry_lemma_no_pos ext ed lcd Hd Hg Hdl (parse_not_external version c lcd Hpc Hne) Hh). }
  unfold lemma_fault in Hf. apply orb_true_iff in Hf. destruct Hf as [Hf|Hf].
  - apply andb_true_iff in Hf. destruct Hf as [Hne Hw]. apply NoPos; assumption.
  - assert (Truthy : vtruthy lcd = true -> fails (_validate_entry ext ed)).
    { intro Ht. apply (entry_bad_lemma_form ext ed lcd Hd Hg Ht).
      apply (form_fault_fails version c lcd ext Hf Hpc). }
    pose proof Hf as Hf'. unfold form_fault in Hf'. apply orb_true_iff in Hf'. destruct Hf' as [Hw|Ht].
    + apply andb_true_iff in Hw. destruct Hw as [Hne _].
      destruct (has_attr (s_ "partOfSpeech") c) eqn:Ha.
      * apply Truthy. apply (vhas_true_truthy lcd (s_ "partOfSpeech") Hdl).
        apply (parse_attr_vhas version c lcd _ Hpc (lemma_not_meta c Hn) Ha).
      * apply NoPos; [exact Hne|]. unfold attr_missing. rewrite Ha. reflexivity.
    + apply Truthy. apply (form_fault_truthy_or version c lcd Ht Hpc).
Qed.

Lemma entry_fault_fails : forall version e ed ext,
  entry_fault e = true -> parse_elem version e = Ok ed -> fails (_validate_entry ext ed).
Proof.
  intros version e ed ext Hf Hp. pose proof (parse_elem_is_dict _ _ _ Hp) as Hd.
  unfold entry_fault in Hf. split_or Hf 4%nat.
  - unfold entry_lacks_lemma in Hf. apply andb_true_iff in Hf. destruct Hf as [Hf Hnc].
    apply andb_true_iff in Hf. destruct Hf as [Hne Ha]. apply negb_true_iff in Ha.
    assert (Hne' : prefixb (s_ "External") (xname e) = false).
    { unfold not_external in Hne. apply andb_true_iff in Hne. destruct Hne as [Hne _].
      apply negb_true_iff in Hne. exact Hne. }
    destruct (parse_absent version e ed (s_ "lemma") Hp ltac:(vmr) ltac:(vmr) (or_intror Hne') Ha
                (no_lemma_key e Hnc)) as [_ Hl].
    apply (entry_no_lemma ext ed Hd (parse_not_external version e ed Hp Hne) Hl).
  - destruct (kids_where_single version e ed _ _ _ Hp Hf ok_lemma eq_refl)
      as [c [lcd [Hin [Hn [Hq [Hg [Hpc Hdl]]]]]]].
    apply (lemma_child_fails version e ed c lcd ext Hp Hg Hpc Hn Hq).
  - destruct (kids_where_list version e ed _ _ _ Hp Hf ok_forms eq_refl)
      as [_ [c [l [fd [Hin [Hn [Hq [Hg [Hl [Hpc [Hdf _]]]]]]]]]]].
    unfold form_item_fault in Hq. apply orb_true_iff in Hq. destruct Hq as [Hq|Hq].
    + apply (entry_bad_form ext ed l fd Hd Hg Hl). apply (form_fault_fails version c fd ext Hq Hpc).
    + apply andb_true_iff in Hq. destruct Hq as [Hx Hi].
      destruct (parse_is_external version c fd Hpc Hx) as [_ [He _]].
      destruct (attr_missing_absent version c fd "id" Hpc ltac:(vmr) Hi) as [_ [_ Hv]].
      apply (entry_xform_no_id ext ed l fd Hd Hg Hl Hdf He). rewrite Hv. reflexivity.
  - destruct (kids_where_list version e ed _ _ _ Hp Hf ok_senses eq_refl)
      as [_ [c [l [sd [Hin [Hn [Hq [Hg [Hl [Hpc _]]]]]]]]]].
    apply (entry_bad_sense ext ed l sd Hd Hg Hl). apply (sense_fault_fails version c sd ext Hq Hpc).
  - destruct (kids_where_list version e ed _ _ _ Hp Hf ok_frames eq_refl)
      as [_ [c [l [frd [Hin [Hn [Hq [Hg [Hl [Hpc _]]]]]]]]]].
    apply (entry_bad_frame ext ed l frd Hd Hg Hl). apply (frame_fault_fails version c frd Hq Hpc).
Qed.

(* ---- Lexicon / LexiconExtension ---- *)
Definition dep_fault (d : xtree) : bool := attr_missing "id" d || attr_missing "version" d.
Definition lexicon_attrs : list string := ["id"; "version"; "label"; "language"; "email"; "license"].
(* an Extends element without any attribute is an empty dictionary: "if ext:" is false *)
Definition extends_fault (x : xtree) : bool := negb (is_nil (xattrs x)) && dep_fault x.
Definition lexicon_fault (lex : xtree) : bool :=
  existsb (fun k => attr_missing k lex) lexicon_attrs
  || kids_where ["Requires"] dep_fault lex
  || kids_where ["Extends"] extends_fault lex
  || kids_where ["LexicalEntry"; "ExternalLexicalEntry"] entry_fault lex
  || kids_where ["Synset"; "ExternalSynset"] synset_fault lex
  || kids_where ["SyntacticBehaviour"] frame_fault lex.

Lemma dep_fault_bad : forall version d dd, dep_fault d = true -> parse_elem version d = Ok dd -> dep_bad dd.
Proof.
  intros version d dd Hf Hp. unfold dep_fault in Hf. apply orb_true_iff in Hf. destruct Hf as [Hf|Hf].
  - destruct (attr_missing_absent version d dd "id" Hp ltac:(vmr) Hf) as [Hd [Hh _]]. split; auto.
  - destruct (attr_missing_absent version d dd "version" Hp ltac:(vmr) Hf) as [Hd [Hh _]]. split; auto.
Qed.

Lemma lexicon_attrs_plain : forallb (fun k => str_mem (s_ k) plain_keys) lexicon_attrs = true.
Proof. vmr. Qed.

Lemma extends_not_meta : forall c, named ["Extends"] c = true -> str_mem (xname c) meta_elems = false.
Proof. intro c. apply named_not_meta. vmr. Qed.

Lemma lexicon_fault_fails : forall version lex cd,
  lexicon_fault lex = true -> parse_elem version lex = Ok cd -> fails (_validate cd).
Proof.
  intros version lex cd Hf Hp. pose proof (parse_elem_is_dict _ _ _ Hp) as Hd.
  unfold lexicon_fault in Hf. split_or Hf 5%nat.
  - apply validate_all. intro b. apply existsb_exists in Hf. destruct Hf as [k [Hin Hk]].
    pose proof (proj1 (forallb_forall _ _) lexicon_attrs_plain k Hin) as Hpk. cbv beta in Hpk.
    destruct (attr_missing_absent version lex cd k Hp Hpk Hk) as [_ [Hh _]].
    apply (lex_missing_attr b cd (s_ k) Hd); [|exact Hh]. apply (in_map s_). exact Hin.
  - apply validate_all. intro b.
    destruct (kids_where_list version lex cd _ _ _ Hp Hf ok_requires eq_refl)
      as [_ [c [l [rd [Hin [Hn [Hq [Hg [Hl [Hpc _]]]]]]]]]].
    apply (lex_bad_requires b cd l rd Hd Hg Hl). apply (dep_fault_bad version c rd Hq Hpc).
  - destruct (kids_where_single version lex cd _ _ _ Hp Hf ok_extends eq_refl)
      as [c [xd [Hin [Hn [Hq [Hg [Hpc Hdx]]]]]]].
    unfold extends_fault in Hq. apply andb_true_iff in Hq. destruct Hq as [Hne Hq].
    apply (validate_bad_extends cd xd Hd Hg); [|apply (dep_fault_bad version c xd Hq Hpc)].
    destruct (xattrs c) as [|[k0 v0] rest] eqn:Ea; [discriminate|].
    apply (vhas_true_truthy xd k0 Hdx).
    apply (parse_attr_vhas version c xd k0 Hpc (extends_not_meta c Hn)).
    unfold has_attr. rewrite Ea. cbn [existsb fst]. rewrite str_eqb_refl. reflexivity.
  - apply validate_all. intro b.
    destruct (kids_where_list version lex cd _ _ _ Hp Hf ok_entries eq_refl)
      as [_ [c [l [ed [Hin [Hn [Hq [Hg [Hl [Hpc _]]]]]]]]]].
    apply (lex_bad_entry b cd l ed Hd Hg Hl). apply (entry_fault_fails version c ed b Hq Hpc).
  - apply validate_all. intro b.
    destruct (kids_where_list version lex cd _ _ _ Hp Hf ok_synsets eq_refl)
      as [_ [c [l [sd [Hin [Hn [Hq [Hg [Hl [Hpc _]]]]]]]]]].
    apply (lex_bad_synset b cd l sd Hd Hg Hl). apply (synset_fault_fails version c sd b Hq Hpc).
  - apply validate_all. intro b.
    destruct (kids_where_list version lex cd _ _ _ Hp Hf ok_frames eq_refl)
      as [_ [c [l [frd [Hin [Hn [Hq [Hg [Hl [Hpc _]]]]]]]]]].
    apply (lex_bad_frame b cd l frd Hd Hg Hl). apply (frame_fault_fails version c frd Hq Hpc).
Qed.

(* ---- the document ---- *)
Lemma load_bad_lexicon : forall version t (Q : xtree -> bool),
  (forall lex cd, Q lex = true -> parse_elem version lex = Ok cd -> fails (_validate cd)) ->
  kids_where ["Lexicon"; "LexiconExtension"] Q t = true -> fails (load_tree version t).
Proof.
  intros version t Q HQ H. unfold load_tree. apply fails_bind; intros root Hroot.
  rewrite parse_doc_eq in Hroot. apply bind_ok in Hroot. destruct Hroot as [u [Hc Hroot]].
  apply bind_ok in Hroot. destruct Hroot as [d [Hp Hroot]]. injection Hroot as <-.
  destruct (kids_where_list version t d _ _ _ Hp H ok_lexicons eq_refl)
    as [Hd [lex [l [cd [Hin [Hn [Hq [Hg [Hl [Hpl _]]]]]]]]]].
  apply fails_bind; intros lr Hlr. apply fails_bind; intros lexs Hlexs.
  assert (Hlr' : lr = d \/ lr = VList [d]).
  { unfold attach in Hlr. destruct (assoc (xname t) (elems_of version)) as [k|] eqn:Hk.
    - destruct (is_list_elem version (xname t)).
      + right. apply (py_item_singleton k _ _ _ Hlr).
      + left. apply (py_item_singleton k _ _ _ Hlr).
    - discriminate. }
  destruct Hlr' as [-> | ->]; [|discriminate].
  rewrite (for_get_list d (s_ "lexicons") l Hd Hg) in Hlexs. injection Hlexs as <-.
  apply fails_bind_l. apply (mapM_fails _validate l cd Hl). apply (HQ lex cd Hq Hpl).
Qed.

(* ====================================================================== *)
(* 6. The theorems                                                        *)
(* ====================================================================== *)

(* ---- everything _validate asserts, whatever the version and whether or not the
        lexicon is an extension ---- *)
Definition required_fault (t : xtree) : bool := kids_where ["Lexicon"; "LexiconExtension"] lexicon_fault t.

Theorem required_rejected : forall version t,
  required_fault t = true -> exists e, load_tree version t = Err e.
Proof.
  intros version t H. apply (load_bad_lexicon version t lexicon_fault); [|exact H].
  intros lex cd Hq Hp. apply (lexicon_fault_fails version lex cd Hq Hp).
Qed.

(* ---- the parts of required_fault, requirement by requirement ---- *)
Definition in_lexicon (Q : xtree -> bool) (t : xtree) : bool := kids_where ["Lexicon"; "LexiconExtension"] Q t.
Definition in_entry (Q : xtree -> bool) (lex : xtree) : bool :=
  kids_where ["LexicalEntry"; "ExternalLexicalEntry"] Q lex.
Definition in_synset (Q : xtree -> bool) (lex : xtree) : bool := kids_where ["Synset"; "ExternalSynset"] Q lex.
Definition in_sense (Q : xtree -> bool) (e : xtree) : bool := kids_where ["Sense"; "ExternalSense"] Q e.
Definition in_lemma (Q : xtree -> bool) (e : xtree) : bool := kids_where ["Lemma"; "ExternalLemma"] Q e.
Definition in_form (Q : xtree -> bool) (e : xtree) : bool := kids_where ["Form"; "ExternalForm"] Q e.

Lemma lexicon_in_doc : forall (Q : xtree -> bool) t,
  (forall lex, Q lex = true -> lexicon_fault lex = true) -> in_lexicon Q t = true -> required_fault t = true.
Proof. intros Q t H. apply kids_where_mono. exact H. Qed.

Lemma entry_in_lexicon : forall (Q : xtree -> bool) lex,
  (forall e, Q e = true -> entry_fault e = true) -> in_entry Q lex = true -> lexicon_fault lex = true.
Proof.
  intros Q lex H Hin. unfold lexicon_fault.
  rewrite (kids_where_mono _ Q entry_fault lex H Hin), ?orb_true_r. reflexivity.
Qed.

Lemma synset_in_lexicon : forall (Q : xtree -> bool) lex,
  (forall ss, Q ss = true -> synset_fault ss = true) -> in_synset Q lex = true -> lexicon_fault lex = true.
Proof.
  intros Q lex H Hin. unfold lexicon_fault.
  rewrite (kids_where_mono _ Q synset_fault lex H Hin), ?orb_true_r. reflexivity.
Qed.

Lemma sense_in_entry : forall (Q : xtree -> bool) e,
  (forall s, Q s = true -> sense_fault s = true) -> in_sense Q e = true -> entry_fault e = true.
Proof.
  intros Q e H Hin. unfold entry_fault.
  rewrite (kids_where_mono _ Q sense_fault e H Hin), ?orb_true_r. reflexivity.
Qed.

Lemma lemma_in_entry : forall (Q : xtree -> bool) e,
  (forall lm, Q lm = true -> lemma_fault lm = true) -> in_lemma Q e = true -> entry_fault e = true.
Proof.
  intros Q e H Hin. unfold entry_fault.
  rewrite (kids_where_mono _ Q lemma_fault e H Hin), ?orb_true_r. reflexivity.
Qed.

Lemma form_in_entry : forall (Q : xtree -> bool) e,
  (forall f, Q f = true -> form_item_fault f = true) -> in_form Q e = true -> entry_fault e = true.
Proof.
  intros Q e H Hin. unfold entry_fault.
  rewrite (kids_where_mono _ Q form_item_fault e H Hin), ?orb_true_r. reflexivity.
Qed.

(* (R2) a LexicalEntry without Lemma; a Lemma without writtenForm or partOfSpeech;
        a Form without writtenForm *)
Definition lemma_lacks_attr (lm : xtree) : bool :=
  not_external lm && (attr_missing "writtenForm" lm || attr_missing "partOfSpeech" lm).
Definition form_lacks_written_form (f : xtree) : bool := not_external f && attr_missing "writtenForm" f.
Definition r2_entry (e : xtree) : bool :=
  entry_lacks_lemma e || in_lemma lemma_lacks_attr e || in_form form_lacks_written_form e.
Definition r2_fault (t : xtree) : bool := in_lexicon (in_entry r2_entry) t.

Lemma r2_entry_fault : forall e, r2_entry e = true -> entry_fault e = true.
Proof.
  intros e H. unfold r2_entry in H. split_or H 2%nat.
  - unfold entry_fault. rewrite H. reflexivity.
  - apply (lemma_in_entry _ e) in H; [exact H|]. intros lm Hl. unfold lemma_lacks_attr in Hl.
    apply andb_true_iff in Hl. destruct Hl as [Hne Hl]. unfold lemma_fault, form_fault. rewrite Hne.
    apply orb_true_iff in Hl. destruct Hl as [Hl|Hl]; rewrite Hl; cbn [andb orb]; rewrite ?orb_true_r; reflexivity.
  - apply (form_in_entry _ e) in H; [exact H|]. intros f Hl. unfold form_lacks_written_form in Hl.
    unfold form_item_fault, form_fault. rewrite Hl. reflexivity.
Qed.

Theorem r2_rejected : forall version t, r2_fault t = true -> exists e, load_tree version t = Err e.
Proof.
  intros version t H. apply required_rejected. apply (lexicon_in_doc _ t) in H; [exact H|].
  intros lex Hl. apply (entry_in_lexicon _ lex) in Hl; [exact Hl|]. apply r2_entry_fault.
Qed.

(* (R3) a Sense without synset; a Synset without ili *)
Definition sense_lacks_synset (s : xtree) : bool := not_external s && attr_missing "synset" s.
Definition synset_lacks_ili (ss : xtree) : bool := not_external ss && attr_missing "ili" ss.
Definition r3_lexicon (lex : xtree) : bool :=
  in_entry (in_sense sense_lacks_synset) lex || in_synset synset_lacks_ili lex.
Definition r3_fault (t : xtree) : bool := in_lexicon r3_lexicon t.

Theorem r3_rejected : forall version t, r3_fault t = true -> exists e, load_tree version t = Err e.
Proof.
  intros version t H. apply required_rejected. apply (lexicon_in_doc _ t) in H; [exact H|].
  intros lex Hl. unfold r3_lexicon in Hl. split_or Hl 1%nat.
  - apply (entry_in_lexicon _ lex) in Hl; [exact Hl|]. intros e He.
    apply (sense_in_entry _ e) in He; [exact He|]. intros s Hs. unfold sense_lacks_synset in Hs.
    unfold sense_fault. rewrite Hs. reflexivity.
  - apply (synset_in_lexicon _ lex) in Hl; [exact Hl|]. intros ss Hs. unfold synset_lacks_ili in Hs.
    unfold synset_fault. rewrite Hs. reflexivity.
Qed.

(* (R4) relations without target or relType; Requires / Extends without id or version;
        SyntacticBehaviour without subcategorizationFrame; Tag without category *)
Definition has_bad_relation (x : xtree) : bool := kids_where ["SenseRelation"; "SynsetRelation"] rel_fault x.
Definition has_bad_tag (f : xtree) : bool := kids_where ["Tag"] tag_fault f.
Definition has_bad_frame (x : xtree) : bool := kids_where ["SyntacticBehaviour"] frame_fault x.
Definition r4_entry (e : xtree) : bool :=
  in_sense has_bad_relation e || has_bad_frame e || in_lemma has_bad_tag e || in_form has_bad_tag e.
Definition r4_lexicon (lex : xtree) : bool :=
  in_entry r4_entry lex || in_synset has_bad_relation lex
  || kids_where ["Requires"] dep_fault lex || kids_where ["Extends"] extends_fault lex
  || has_bad_frame lex.
Definition r4_fault (t : xtree) : bool := in_lexicon r4_lexicon t.

Lemma r4_entry_fault : forall e, r4_entry e = true -> entry_fault e = true.
Proof.
  intros e H. unfold r4_entry in H. split_or H 3%nat.
  - apply (sense_in_entry _ e) in H; [exact H|]. intros s Hs. unfold has_bad_relation in Hs.
    unfold sense_fault. rewrite Hs, ?orb_true_r. reflexivity.
  - unfold has_bad_frame in H. unfold entry_fault. rewrite H, ?orb_true_r. reflexivity.
  - apply (lemma_in_entry _ e) in H; [exact H|]. intros lm Hl. unfold has_bad_tag in Hl.
    unfold lemma_fault, form_fault. rewrite Hl, ?orb_true_r. reflexivity.
  - apply (form_in_entry _ e) in H; [exact H|]. intros f Hl. unfold has_bad_tag in Hl.
    unfold form_item_fault, form_fault. rewrite Hl, ?orb_true_r. reflexivity.
Qed.

Theorem r4_rejected : forall version t, r4_fault t = true -> exists e, load_tree version t = Err e.
Proof.
  intros version t H. apply required_rejected. apply (lexicon_in_doc _ t) in H; [exact H|].
  intros lex Hl. unfold r4_lexicon in Hl. split_or Hl 4%nat.
  - apply (entry_in_lexicon _ lex) in Hl; [exact Hl|]. apply r4_entry_fault.
  - apply (synset_in_lexicon _ lex) in Hl; [exact Hl|]. intros ss Hs. unfold has_bad_relation in Hs.
    unfold synset_fault. rewrite Hs, ?orb_true_r. reflexivity.
  - unfold lexicon_fault. rewrite Hl, ?orb_true_r. reflexivity.
  - unfold lexicon_fault. rewrite Hl, ?orb_true_r. reflexivity.
  - unfold has_bad_frame in Hl. unfold lexicon_fault. rewrite Hl, ?orb_true_r. reflexivity.
Qed.

(* (R1) a Lexicon / LexiconExtension without id, version, label, language, email or license *)
Definition lexicon_lacks_attr (lex : xtree) : bool := existsb (fun k => attr_missing k lex) lexicon_attrs.
Definition r1_fault (t : xtree) : bool := in_lexicon lexicon_lacks_attr t.

Theorem r1_rejected : forall version t, r1_fault t = true -> exists e, load_tree version t = Err e.
Proof.
  intros version t H. apply required_rejected. apply (lexicon_in_doc _ t) in H; [exact H|].
  intros lex Hl. unfold lexicon_lacks_attr in Hl. unfold lexicon_fault. rewrite Hl. reflexivity.
Qed.

(* (R5) a Count whose text int() refuses *)
Definition has_bad_count (s : xtree) : bool := kids_where ["Count"] count_fault s.
Definition r5_fault (t : xtree) : bool := in_lexicon (in_entry (in_sense has_bad_count)) t.

Theorem r5_rejected : forall version t, r5_fault t = true -> exists e, load_tree version t = Err e.
Proof.
  intros version t H. apply required_rejected. apply (lexicon_in_doc _ t) in H; [exact H|].
  intros lex Hl. apply (entry_in_lexicon _ lex) in Hl; [exact Hl|]. intros e He.
  apply (sense_in_entry _ e) in He; [exact He|]. intros s Hs. unfold has_bad_count in Hs.
  unfold sense_fault. rewrite Hs, ?orb_true_r. reflexivity.
Qed.

(* (R6a) an ExternalForm without id (in an extension; outside, it is refused as external) *)
Definition xform_lacks_id (f : xtree) : bool := is_external f && attr_missing "id" f.
Definition r6_xform_fault (t : xtree) : bool := in_lexicon (in_entry (in_form xform_lacks_id)) t.

Theorem r6_xform_rejected : forall version t, r6_xform_fault t = true -> exists e, load_tree version t = Err e.
Proof.
  intros version t H. apply required_rejected. apply (lexicon_in_doc _ t) in H; [exact H|].
  intros lex Hl. apply (entry_in_lexicon _ lex) in Hl; [exact Hl|]. intros e He.
  apply (form_in_entry _ e) in He; [exact He|]. intros f Hf. unfold xform_lacks_id in Hf.
  unfold form_item_fault. rewrite Hf, ?orb_true_r. reflexivity.
Qed.

(* (R6b) External* elements in a lexicon that is not an extension: no Extends child (and
         no attribute called extends) *)
Definition plain_lexicon (lex : xtree) : bool := negb (has_attr (s_ "extends") lex) && no_child ["Extends"] lex.
Definition entry_has_external (e : xtree) : bool :=
  is_external e || in_lemma is_external e || in_form is_external e || in_sense is_external e.
Definition external_in_plain (lex : xtree) : bool :=
  plain_lexicon lex && (in_entry entry_has_external lex || in_synset is_external lex).
Definition r6_external_fault (t : xtree) : bool := in_lexicon external_in_plain t.

Lemma no_extends_key : forall t, no_child ["Extends"] t = true -> no_child_key (s_ "extends") t = true.
Proof. intro t. apply no_child_no_key. vmr. Qed.

Lemma entry_has_external_fails : forall version e ed,
  entry_has_external e = true -> parse_elem version e = Ok ed -> fails (_validate_entry false ed).
Proof.
  intros version e ed Hf Hp. pose proof (parse_elem_is_dict _ _ _ Hp) as Hd.
  unfold entry_has_external in Hf. split_or Hf 3%nat.
  - destruct (parse_is_external version e ed Hp Hf) as [_ [He _]]. apply (entry_external_plain ed Hd He).
  - destruct (kids_where_single version e ed _ _ _ Hp Hf ok_lemma eq_refl)
      as [c [lcd [Hin [Hn [Hq [Hg [Hpc Hdl]]]]]]].
    destruct (parse_is_external version c lcd Hpc Hq) as [_ [He Ht]].
    apply (entry_bad_lemma_form false ed lcd Hd Hg Ht). apply (form_external_plain lcd Hdl He).
  - destruct (kids_where_list version e ed _ _ _ Hp Hf ok_forms eq_refl)
      as [_ [c [l [fd [Hin [Hn [Hq [Hg [Hl [Hpc [Hdf _]]]]]]]]]]].
    destruct (parse_is_external version c fd Hpc Hq) as [_ [He _]].
    apply (entry_bad_form false ed l fd Hd Hg Hl). apply (form_external_plain fd Hdf He).
  - destruct (kids_where_list version e ed _ _ _ Hp Hf ok_senses eq_refl)
      as [_ [c [l [sd [Hin [Hn [Hq [Hg [Hl [Hpc [Hds _]]]]]]]]]]].
    destruct (parse_is_external version c sd Hpc Hq) as [_ [He _]].
    apply (entry_bad_sense false ed l sd Hd Hg Hl). apply (sense_external_plain sd Hds He).
Qed.

Lemma external_in_plain_fails : forall version lex cd,
  external_in_plain lex = true -> parse_elem version lex = Ok cd -> fails (_validate cd).
Proof.
  intros version lex cd Hf Hp. pose proof (parse_elem_is_dict _ _ _ Hp) as Hd.
  unfold external_in_plain in Hf. apply andb_true_iff in Hf. destruct Hf as [Hpl Hf].
  unfold plain_lexicon in Hpl. apply andb_true_iff in Hpl. destruct Hpl as [Ha Hnc].
  apply negb_true_iff in Ha.
  assert (Ke : str_eqb (s_ "external") (s_ "extends") = false) by vmr.
  destruct (parse_absent version lex cd (s_ "extends") Hp ltac:(vmr) ltac:(vmr)
              (or_introl Ke) Ha (no_extends_key lex Hnc)) as [_ Hx].
  rewrite (validate_plain cd Hd Hx). split_or Hf 1%nat.
  - destruct (kids_where_list version lex cd _ _ _ Hp Hf ok_entries eq_refl)
      as [_ [c [l [ed [Hin [Hn [Hq [Hg [Hl [Hpc _]]]]]]]]]].
    apply (lex_bad_entry false cd l ed Hd Hg Hl). apply (entry_has_external_fails version c ed Hq Hpc).
  - destruct (kids_where_list version lex cd _ _ _ Hp Hf ok_synsets eq_refl)
      as [_ [c [l [sd [Hin [Hn [Hq [Hg [Hl [Hpc [Hds _]]]]]]]]]]].
    destruct (parse_is_external version c sd Hpc Hq) as [_ [He _]].
    apply (lex_bad_synset false cd l sd Hd Hg Hl). apply (synset_external_plain sd Hds He).
Qed.

Theorem r6_external_rejected : forall version t,
  r6_external_fault t = true -> exists e, load_tree version t = Err e.
Proof.
  intros version t H. apply (load_bad_lexicon version t external_in_plain); [|exact H].
  intros lex cd Hq Hp. apply (external_in_plain_fails version lex cd Hq Hp).
Qed.

(* (R6c) the document element must be LexicalResource: root['lexical-resource'] *)
Lemma lexical_resource_key :
  forallb (fun p => implb (str_eqb (snd p) (s_ "lexical-resource")) (str_eqb (fst p) (s_ "LexicalResource")))
          all_pairs = true.
Proof. vmr. Qed.

Theorem root_not_lexical_resource_rejected : forall version t,
  str_eqb (xname t) (s_ "LexicalResource") = false -> exists e, load_tree version t = Err e.
Proof.
  intros version t Hn. unfold load_tree. apply fails_bind; intros root Hroot.
  rewrite parse_doc_eq in Hroot. apply bind_ok in Hroot. destruct Hroot as [u [_ Hroot]].
  apply bind_ok in Hroot. destruct Hroot as [d [_ Hroot]]. injection Hroot as <-.
  apply fails_bind_l. unfold attach.
  destruct (assoc (xname t) (elems_of version)) as [k|] eqn:Hk; [|apply fails_err].
  assert (E : str_eqb k (s_ "lexical-resource") = false).
  { destruct (str_eqb k (s_ "lexical-resource")) eqn:E; [|reflexivity].
    apply elems_of_pairs in Hk.
    pose proof (proj1 (forallb_forall _ _) lexical_resource_key _ Hk) as F. cbv beta in F.
    cbn [fst snd] in F. rewrite E, Hn in F. discriminate. }
  assert (R : forall x, py_item (vset (VDict []) k x) (s_ "lexical-resource") = Err EKey).
  { intro x. unfold py_item. rewrite vhas_vset. rewrite E. reflexivity. }
  destruct (is_list_elem version (xname t)).
  - cbn [vget find]. rewrite R. apply fails_err.
  - rewrite R. apply fails_err.
Qed.

(* ---- at the level of load: whatever the header says ---- *)
Definition any_fault (t : xtree) : bool :=
  required_fault t || r6_external_fault t || negb (str_eqb (xname t) (s_ "LexicalResource"))
  || missing_id t.

Theorem any_fault_rejected : forall version t, any_fault t = true -> exists e, load_tree version t = Err e.
Proof.
  intros version t H. unfold any_fault in H. split_or H 3%nat.
  - apply required_rejected. exact H.
  - apply r6_external_rejected. exact H.
  - apply root_not_lexical_resource_rejected. apply negb_true_iff. exact H.
  - apply missing_id_rejected. exact H.
Qed.

Theorem load_rejects_any_fault : forall l1 l2 t, any_fault t = true -> exists e, load l1 l2 t = Err e.
Proof. intros l1 l2 t H. apply load_rejects. intro v. apply any_fault_rejected. exact H. Qed.

Theorem load_rejects_required_for_version : forall l1 l2 t version,
  read_header l1 l2 = Ok version ->
  (r2_fault t = true \/ r3_fault t = true \/ r4_fault t = true \/ r1_fault t = true \/ r5_fault t = true
   \/ r6_xform_fault t = true \/ r6_external_fault t = true
   \/ str_eqb (xname t) (s_ "LexicalResource") = false) ->
  exists e, load l1 l2 t = Err e.
Proof.
  intros l1 l2 t version Hh H. unfold load. rewrite Hh. cbn [bind].
  destruct H as [H|[H|[H|[H|[H|[H|[H|H]]]]]]].
  - apply r2_rejected; exact H.
  - apply r3_rejected; exact H.
  - apply r4_rejected; exact H.
  - apply r1_rejected; exact H.
  - apply r5_rejected; exact H.
  - apply r6_xform_rejected; exact H.
  - apply r6_external_rejected; exact H.
  - apply root_not_lexical_resource_rejected; exact H.
Qed.

(* ====================================================================== *)
(* 7. Examples: the verdict of the model on minimal documents             *)
(* ====================================================================== *)
(* Generated by gen_examples.py, which also writes each document as a WN-LMF file,
   loads it with the real wn.lmf.load and records the outcome (quoted before each
   Example): 0 = loaded, -6 = AssertionError, -1 = LMFError, -3 = KeyError,
   -4 = any other exception.  The model gives the same verdict in every case.
   The names: rN_* rejected by requirement RN (with the fault predicate that holds),
   x_* rejected for a reason outside the predicates, a_* accepted. *)
Definition verdict (version : str) (t : xtree) : Z :=
  match load_tree version t with Ok _ => 0 | Err e => err_code e end.

Definition r2_entry_no_lemma : xtree :=
  XNode (s_ "LexicalResource") [] (s_ "") [
     XNode (s_ "Lexicon") [((s_ "id"), (s_ "x")); ((s_ "label"), (s_ "L")); ((s_ "language"), (s_ "en")); ((s_ "email"), (s_ "a@b")); ((s_ "license"), (s_ "lic")); ((s_ "version"), (s_ "1"))] (s_ "") [
        XNode (s_ "LexicalEntry") [((s_ "id"), (s_ "e1"))] (s_ "") []]].
(* wn.lmf.load: AssertionError *)
Example r2_entry_no_lemma_verdict : verdict (s_ "1.1") r2_entry_no_lemma = -6.
Proof. vmr. Qed.
Example r2_entry_no_lemma_fault : r2_fault r2_entry_no_lemma = true.
Proof. vmr. Qed.

Definition r2_lemma_no_written_form : xtree :=
  XNode (s_ "LexicalResource") [] (s_ "") [
     XNode (s_ "Lexicon") [((s_ "id"), (s_ "x")); ((s_ "label"), (s_ "L")); ((s_ "language"), (s_ "en")); ((s_ "email"), (s_ "a@b")); ((s_ "license"), (s_ "lic")); ((s_ "version"), (s_ "1"))] (s_ "") [
        XNode (s_ "LexicalEntry") [((s_ "id"), (s_ "e1"))] (s_ "") [
           XNode (s_ "Lemma") [((s_ "partOfSpeech"), (s_ "n"))] (s_ "") []]]].
(* wn.lmf.load: AssertionError *)
Example r2_lemma_no_written_form_verdict : verdict (s_ "1.1") r2_lemma_no_written_form = -6.
Proof. vmr. Qed.
Example r2_lemma_no_written_form_fault : r2_fault r2_lemma_no_written_form = true.
Proof. vmr. Qed.

Definition r2_lemma_no_pos : xtree :=
  XNode (s_ "LexicalResource") [] (s_ "") [
     XNode (s_ "Lexicon") [((s_ "id"), (s_ "x")); ((s_ "label"), (s_ "L")); ((s_ "language"), (s_ "en")); ((s_ "email"), (s_ "a@b")); ((s_ "license"), (s_ "lic")); ((s_ "version"), (s_ "1"))] (s_ "") [
        XNode (s_ "LexicalEntry") [((s_ "id"), (s_ "e1"))] (s_ "") [
           XNode (s_ "Lemma") [((s_ "writtenForm"), (s_ "w"))] (s_ "") []]]].
(* wn.lmf.load: AssertionError *)
Example r2_lemma_no_pos_verdict : verdict (s_ "1.1") r2_lemma_no_pos = -6.
Proof. vmr. Qed.
Example r2_lemma_no_pos_fault : r2_fault r2_lemma_no_pos = true.
Proof. vmr. Qed.

Definition r2_lemma_no_attrs : xtree :=
  XNode (s_ "LexicalResource") [] (s_ "") [
     XNode (s_ "Lexicon") [((s_ "id"), (s_ "x")); ((s_ "label"), (s_ "L")); ((s_ "language"), (s_ "en")); ((s_ "email"), (s_ "a@b")); ((s_ "license"), (s_ "lic")); ((s_ "version"), (s_ "1"))] (s_ "") [
        XNode (s_ "LexicalEntry") [((s_ "id"), (s_ "e1"))] (s_ "") [
           XNode (s_ "Lemma") [] (s_ "") []]]].
(* wn.lmf.load: AssertionError *)
Example r2_lemma_no_attrs_verdict : verdict (s_ "1.1") r2_lemma_no_attrs = -6.
Proof. vmr. Qed.
Example r2_lemma_no_attrs_fault : r2_fault r2_lemma_no_attrs = true.
Proof. vmr. Qed.

Definition r2_form_no_written_form : xtree :=
  XNode (s_ "LexicalResource") [] (s_ "") [
     XNode (s_ "Lexicon") [((s_ "id"), (s_ "x")); ((s_ "label"), (s_ "L")); ((s_ "language"), (s_ "en")); ((s_ "email"), (s_ "a@b")); ((s_ "license"), (s_ "lic")); ((s_ "version"), (s_ "1"))] (s_ "") [
        XNode (s_ "LexicalEntry") [((s_ "id"), (s_ "e1"))] (s_ "") [
           XNode (s_ "Lemma") [((s_ "writtenForm"), (s_ "w")); ((s_ "partOfSpeech"), (s_ "n"))] (s_ "") [];
           XNode (s_ "Form") [((s_ "id"), (s_ "f1"))] (s_ "") []]]].
(* wn.lmf.load: AssertionError *)
Example r2_form_no_written_form_verdict : verdict (s_ "1.1") r2_form_no_written_form = -6.
Proof. vmr. Qed.
Example r2_form_no_written_form_fault : r2_fault r2_form_no_written_form = true.
Proof. vmr. Qed.

Definition r3_sense_no_synset : xtree :=
  XNode (s_ "LexicalResource") [] (s_ "") [
     XNode (s_ "Lexicon") [((s_ "id"), (s_ "x")); ((s_ "label"), (s_ "L")); ((s_ "language"), (s_ "en")); ((s_ "email"), (s_ "a@b")); ((s_ "license"), (s_ "lic")); ((s_ "version"), (s_ "1"))] (s_ "") [
        XNode (s_ "LexicalEntry") [((s_ "id"), (s_ "e1"))] (s_ "") [
           XNode (s_ "Lemma") [((s_ "writtenForm"), (s_ "w")); ((s_ "partOfSpeech"), (s_ "n"))] (s_ "") [];
           XNode (s_ "Sense") [((s_ "id"), (s_ "s1"))] (s_ "") []]]].
(* wn.lmf.load: AssertionError *)
Example r3_sense_no_synset_verdict : verdict (s_ "1.1") r3_sense_no_synset = -6.
Proof. vmr. Qed.
Example r3_sense_no_synset_fault : r3_fault r3_sense_no_synset = true.
Proof. vmr. Qed.

Definition r3_synset_no_ili : xtree :=
  XNode (s_ "LexicalResource") [] (s_ "") [
     XNode (s_ "Lexicon") [((s_ "id"), (s_ "x")); ((s_ "label"), (s_ "L")); ((s_ "language"), (s_ "en")); ((s_ "email"), (s_ "a@b")); ((s_ "license"), (s_ "lic")); ((s_ "version"), (s_ "1"))] (s_ "") [
        XNode (s_ "Synset") [((s_ "id"), (s_ "ss1")); ((s_ "partOfSpeech"), (s_ "n"))] (s_ "") []]].
(* wn.lmf.load: AssertionError *)
Example r3_synset_no_ili_verdict : verdict (s_ "1.1") r3_synset_no_ili = -6.
Proof. vmr. Qed.
Example r3_synset_no_ili_fault : r3_fault r3_synset_no_ili = true.
Proof. vmr. Qed.

Definition r4_sense_relation_no_target : xtree :=
  XNode (s_ "LexicalResource") [] (s_ "") [
     XNode (s_ "Lexicon") [((s_ "id"), (s_ "x")); ((s_ "label"), (s_ "L")); ((s_ "language"), (s_ "en")); ((s_ "email"), (s_ "a@b")); ((s_ "license"), (s_ "lic")); ((s_ "version"), (s_ "1"))] (s_ "") [
        XNode (s_ "LexicalEntry") [((s_ "id"), (s_ "e1"))] (s_ "") [
           XNode (s_ "Lemma") [((s_ "writtenForm"), (s_ "w")); ((s_ "partOfSpeech"), (s_ "n"))] (s_ "") [];
           XNode (s_ "Sense") [((s_ "id"), (s_ "s1")); ((s_ "synset"), (s_ "ss1"))] (s_ "") [
              XNode (s_ "SenseRelation") [((s_ "relType"), (s_ "antonym"))] (s_ "") []]]]].
(* wn.lmf.load: AssertionError *)
Example r4_sense_relation_no_target_verdict : verdict (s_ "1.1") r4_sense_relation_no_target = -6.
Proof. vmr. Qed.
Example r4_sense_relation_no_target_fault : r4_fault r4_sense_relation_no_target = true.
Proof. vmr. Qed.

Definition r4_sense_relation_no_reltype : xtree :=
  XNode (s_ "LexicalResource") [] (s_ "") [
     XNode (s_ "Lexicon") [((s_ "id"), (s_ "x")); ((s_ "label"), (s_ "L")); ((s_ "language"), (s_ "en")); ((s_ "email"), (s_ "a@b")); ((s_ "license"), (s_ "lic")); ((s_ "version"), (s_ "1"))] (s_ "") [
        XNode (s_ "LexicalEntry") [((s_ "id"), (s_ "e1"))] (s_ "") [
           XNode (s_ "Lemma") [((s_ "writtenForm"), (s_ "w")); ((s_ "partOfSpeech"), (s_ "n"))] (s_ "") [];
           XNode (s_ "Sense") [((s_ "id"), (s_ "s1")); ((s_ "synset"), (s_ "ss1"))] (s_ "") [
              XNode (s_ "SenseRelation") [((s_ "target"), (s_ "s2"))] (s_ "") []]]]].
(* wn.lmf.load: AssertionError *)
Example r4_sense_relation_no_reltype_verdict : verdict (s_ "1.1") r4_sense_relation_no_reltype = -6.
Proof. vmr. Qed.
Example r4_sense_relation_no_reltype_fault : r4_fault r4_sense_relation_no_reltype = true.
Proof. vmr. Qed.

Definition r4_synset_relation_no_target : xtree :=
  XNode (s_ "LexicalResource") [] (s_ "") [
     XNode (s_ "Lexicon") [((s_ "id"), (s_ "x")); ((s_ "label"), (s_ "L")); ((s_ "language"), (s_ "en")); ((s_ "email"), (s_ "a@b")); ((s_ "license"), (s_ "lic")); ((s_ "version"), (s_ "1"))] (s_ "") [
        XNode (s_ "Synset") [((s_ "id"), (s_ "ss1")); ((s_ "ili"), (s_ "i1"))] (s_ "") [
           XNode (s_ "SynsetRelation") [((s_ "relType"), (s_ "hypernym"))] (s_ "") []]]].
(* wn.lmf.load: AssertionError *)
Example r4_synset_relation_no_target_verdict : verdict (s_ "1.1") r4_synset_relation_no_target = -6.
Proof. vmr. Qed.
Example r4_synset_relation_no_target_fault : r4_fault r4_synset_relation_no_target = true.
Proof. vmr. Qed.

Definition r4_synset_relation_no_reltype : xtree :=
  XNode (s_ "LexicalResource") [] (s_ "") [
     XNode (s_ "Lexicon") [((s_ "id"), (s_ "x")); ((s_ "label"), (s_ "L")); ((s_ "language"), (s_ "en")); ((s_ "email"), (s_ "a@b")); ((s_ "license"), (s_ "lic")); ((s_ "version"), (s_ "1"))] (s_ "") [
        XNode (s_ "Synset") [((s_ "id"), (s_ "ss1")); ((s_ "ili"), (s_ "i1"))] (s_ "") [
           XNode (s_ "SynsetRelation") [((s_ "target"), (s_ "ss2"))] (s_ "") []]]].
(* wn.lmf.load: AssertionError *)
Example r4_synset_relation_no_reltype_verdict : verdict (s_ "1.1") r4_synset_relation_no_reltype = -6.
Proof. vmr. Qed.
Example r4_synset_relation_no_reltype_fault : r4_fault r4_synset_relation_no_reltype = true.
Proof. vmr. Qed.

Definition r4_requires_no_version : xtree :=
  XNode (s_ "LexicalResource") [] (s_ "") [
     XNode (s_ "Lexicon") [((s_ "id"), (s_ "x")); ((s_ "label"), (s_ "L")); ((s_ "language"), (s_ "en")); ((s_ "email"), (s_ "a@b")); ((s_ "license"), (s_ "lic")); ((s_ "version"), (s_ "1"))] (s_ "") [
        XNode (s_ "Requires") [((s_ "id"), (s_ "base"))] (s_ "") []]].
(* wn.lmf.load: AssertionError *)
Example r4_requires_no_version_verdict : verdict (s_ "1.1") r4_requires_no_version = -6.
Proof. vmr. Qed.
Example r4_requires_no_version_fault : r4_fault r4_requires_no_version = true.
Proof. vmr. Qed.

Definition r4_requires_no_id : xtree :=
  XNode (s_ "LexicalResource") [] (s_ "") [
     XNode (s_ "Lexicon") [((s_ "id"), (s_ "x")); ((s_ "label"), (s_ "L")); ((s_ "language"), (s_ "en")); ((s_ "email"), (s_ "a@b")); ((s_ "license"), (s_ "lic")); ((s_ "version"), (s_ "1"))] (s_ "") [
        XNode (s_ "Requires") [((s_ "version"), (s_ "1"))] (s_ "") []]].
(* wn.lmf.load: AssertionError *)
Example r4_requires_no_id_verdict : verdict (s_ "1.1") r4_requires_no_id = -6.
Proof. vmr. Qed.
Example r4_requires_no_id_fault : r4_fault r4_requires_no_id = true.
Proof. vmr. Qed.

Definition r4_extends_no_version : xtree :=
  XNode (s_ "LexicalResource") [] (s_ "") [
     XNode (s_ "LexiconExtension") [((s_ "id"), (s_ "x")); ((s_ "label"), (s_ "L")); ((s_ "language"), (s_ "en")); ((s_ "email"), (s_ "a@b")); ((s_ "license"), (s_ "lic")); ((s_ "version"), (s_ "1"))] (s_ "") [
        XNode (s_ "Extends") [((s_ "id"), (s_ "base"))] (s_ "") []]].
(* wn.lmf.load: AssertionError *)
Example r4_extends_no_version_verdict : verdict (s_ "1.1") r4_extends_no_version = -6.
Proof. vmr. Qed.
Example r4_extends_no_version_fault : r4_fault r4_extends_no_version = true.
Proof. vmr. Qed.

Definition r4_extends_no_id : xtree :=
  XNode (s_ "LexicalResource") [] (s_ "") [
     XNode (s_ "LexiconExtension") [((s_ "id"), (s_ "x")); ((s_ "label"), (s_ "L")); ((s_ "language"), (s_ "en")); ((s_ "email"), (s_ "a@b")); ((s_ "license"), (s_ "lic")); ((s_ "version"), (s_ "1"))] (s_ "") [
        XNode (s_ "Extends") [((s_ "version"), (s_ "1"))] (s_ "") []]].
(* wn.lmf.load: AssertionError *)
Example r4_extends_no_id_verdict : verdict (s_ "1.1") r4_extends_no_id = -6.
Proof. vmr. Qed.
Example r4_extends_no_id_fault : r4_fault r4_extends_no_id = true.
Proof. vmr. Qed.

Definition r4_extends_only_url : xtree :=
  XNode (s_ "LexicalResource") [] (s_ "") [
     XNode (s_ "LexiconExtension") [((s_ "id"), (s_ "x")); ((s_ "label"), (s_ "L")); ((s_ "language"), (s_ "en")); ((s_ "email"), (s_ "a@b")); ((s_ "license"), (s_ "lic")); ((s_ "version"), (s_ "1"))] (s_ "") [
        XNode (s_ "Extends") [((s_ "url"), (s_ "u"))] (s_ "") []]].
(* wn.lmf.load: AssertionError *)
Example r4_extends_only_url_verdict : verdict (s_ "1.1") r4_extends_only_url = -6.
Proof. vmr. Qed.
Example r4_extends_only_url_fault : r4_fault r4_extends_only_url = true.
Proof. vmr. Qed.

Definition r4_frame_no_scf : xtree :=
  XNode (s_ "LexicalResource") [] (s_ "") [
     XNode (s_ "Lexicon") [((s_ "id"), (s_ "x")); ((s_ "label"), (s_ "L")); ((s_ "language"), (s_ "en")); ((s_ "email"), (s_ "a@b")); ((s_ "license"), (s_ "lic")); ((s_ "version"), (s_ "1"))] (s_ "") [
        XNode (s_ "SyntacticBehaviour") [((s_ "id"), (s_ "fr1"))] (s_ "") []]].
(* wn.lmf.load: AssertionError *)
Example r4_frame_no_scf_verdict : verdict (s_ "1.1") r4_frame_no_scf = -6.
Proof. vmr. Qed.
Example r4_frame_no_scf_fault : r4_fault r4_frame_no_scf = true.
Proof. vmr. Qed.

Definition r4_frame_no_scf_in_entry_10 : xtree :=
  XNode (s_ "LexicalResource") [] (s_ "") [
     XNode (s_ "Lexicon") [((s_ "id"), (s_ "x")); ((s_ "label"), (s_ "L")); ((s_ "language"), (s_ "en")); ((s_ "email"), (s_ "a@b")); ((s_ "license"), (s_ "lic")); ((s_ "version"), (s_ "1"))] (s_ "") [
        XNode (s_ "LexicalEntry") [((s_ "id"), (s_ "e1"))] (s_ "") [
           XNode (s_ "Lemma") [((s_ "writtenForm"), (s_ "w")); ((s_ "partOfSpeech"), (s_ "n"))] (s_ "") [];
           XNode (s_ "SyntacticBehaviour") [((s_ "senses"), (s_ "s1"))] (s_ "") []]]].
(* wn.lmf.load: AssertionError *)
Example r4_frame_no_scf_in_entry_10_verdict : verdict (s_ "1.0") r4_frame_no_scf_in_entry_10 = -6.
Proof. vmr. Qed.
Example r4_frame_no_scf_in_entry_10_fault : r4_fault r4_frame_no_scf_in_entry_10 = true.
Proof. vmr. Qed.

Definition r4_lemma_tag_no_category : xtree :=
  XNode (s_ "LexicalResource") [] (s_ "") [
     XNode (s_ "Lexicon") [((s_ "id"), (s_ "x")); ((s_ "label"), (s_ "L")); ((s_ "language"), (s_ "en")); ((s_ "email"), (s_ "a@b")); ((s_ "license"), (s_ "lic")); ((s_ "version"), (s_ "1"))] (s_ "") [
        XNode (s_ "LexicalEntry") [((s_ "id"), (s_ "e1"))] (s_ "") [
           XNode (s_ "Lemma") [((s_ "writtenForm"), (s_ "w")); ((s_ "partOfSpeech"), (s_ "n"))] (s_ "") [
              XNode (s_ "Tag") [] (s_ "t") []]]]].
(* wn.lmf.load: AssertionError *)
Example r4_lemma_tag_no_category_verdict : verdict (s_ "1.1") r4_lemma_tag_no_category = -6.
Proof. vmr. Qed.
Example r4_lemma_tag_no_category_fault : r4_fault r4_lemma_tag_no_category = true.
Proof. vmr. Qed.

Definition r4_form_tag_no_category : xtree :=
  XNode (s_ "LexicalResource") [] (s_ "") [
     XNode (s_ "Lexicon") [((s_ "id"), (s_ "x")); ((s_ "label"), (s_ "L")); ((s_ "language"), (s_ "en")); ((s_ "email"), (s_ "a@b")); ((s_ "license"), (s_ "lic")); ((s_ "version"), (s_ "1"))] (s_ "") [
        XNode (s_ "LexicalEntry") [((s_ "id"), (s_ "e1"))] (s_ "") [
           XNode (s_ "Lemma") [((s_ "writtenForm"), (s_ "w")); ((s_ "partOfSpeech"), (s_ "n"))] (s_ "") [];
           XNode (s_ "Form") [((s_ "writtenForm"), (s_ "v"))] (s_ "") [
              XNode (s_ "Tag") [] (s_ "t") []]]]].
(* wn.lmf.load: AssertionError *)
Example r4_form_tag_no_category_verdict : verdict (s_ "1.1") r4_form_tag_no_category = -6.
Proof. vmr. Qed.
Example r4_form_tag_no_category_fault : r4_fault r4_form_tag_no_category = true.
Proof. vmr. Qed.

Definition r1_lexicon_no_id : xtree :=
  XNode (s_ "LexicalResource") [] (s_ "") [
     XNode (s_ "Lexicon") [((s_ "label"), (s_ "L")); ((s_ "language"), (s_ "en")); ((s_ "email"), (s_ "a@b")); ((s_ "license"), (s_ "lic")); ((s_ "version"), (s_ "1"))] (s_ "") []].
(* wn.lmf.load: AssertionError *)
Example r1_lexicon_no_id_verdict : verdict (s_ "1.1") r1_lexicon_no_id = -6.
Proof. vmr. Qed.
Example r1_lexicon_no_id_fault : r1_fault r1_lexicon_no_id = true.
Proof. vmr. Qed.

Definition r1_lexicon_no_version : xtree :=
  XNode (s_ "LexicalResource") [] (s_ "") [
     XNode (s_ "Lexicon") [((s_ "id"), (s_ "x")); ((s_ "label"), (s_ "L")); ((s_ "language"), (s_ "en")); ((s_ "email"), (s_ "a@b")); ((s_ "license"), (s_ "lic"))] (s_ "") []].
(* wn.lmf.load: AssertionError *)
Example r1_lexicon_no_version_verdict : verdict (s_ "1.1") r1_lexicon_no_version = -6.
Proof. vmr. Qed.
Example r1_lexicon_no_version_fault : r1_fault r1_lexicon_no_version = true.
Proof. vmr. Qed.

Definition r1_lexicon_no_label : xtree :=
  XNode (s_ "LexicalResource") [] (s_ "") [
     XNode (s_ "Lexicon") [((s_ "id"), (s_ "x")); ((s_ "language"), (s_ "en")); ((s_ "email"), (s_ "a@b")); ((s_ "license"), (s_ "lic")); ((s_ "version"), (s_ "1"))] (s_ "") []].
(* wn.lmf.load: AssertionError *)
Example r1_lexicon_no_label_verdict : verdict (s_ "1.1") r1_lexicon_no_label = -6.
Proof. vmr. Qed.
Example r1_lexicon_no_label_fault : r1_fault r1_lexicon_no_label = true.
Proof. vmr. Qed.

Definition r1_lexicon_no_language : xtree :=
  XNode (s_ "LexicalResource") [] (s_ "") [
     XNode (s_ "Lexicon") [((s_ "id"), (s_ "x")); ((s_ "label"), (s_ "L")); ((s_ "email"), (s_ "a@b")); ((s_ "license"), (s_ "lic")); ((s_ "version"), (s_ "1"))] (s_ "") []].
(* wn.lmf.load: AssertionError *)
Example r1_lexicon_no_language_verdict : verdict (s_ "1.1") r1_lexicon_no_language = -6.
Proof. vmr. Qed.
Example r1_lexicon_no_language_fault : r1_fault r1_lexicon_no_language = true.
Proof. vmr. Qed.

Definition r1_lexicon_no_email : xtree :=
  XNode (s_ "LexicalResource") [] (s_ "") [
     XNode (s_ "Lexicon") [((s_ "id"), (s_ "x")); ((s_ "label"), (s_ "L")); ((s_ "language"), (s_ "en")); ((s_ "license"), (s_ "lic")); ((s_ "version"), (s_ "1"))] (s_ "") []].
(* wn.lmf.load: AssertionError *)
Example r1_lexicon_no_email_verdict : verdict (s_ "1.1") r1_lexicon_no_email = -6.
Proof. vmr. Qed.
Example r1_lexicon_no_email_fault : r1_fault r1_lexicon_no_email = true.
Proof. vmr. Qed.

Definition r1_lexicon_no_license : xtree :=
  XNode (s_ "LexicalResource") [] (s_ "") [
     XNode (s_ "Lexicon") [((s_ "id"), (s_ "x")); ((s_ "label"), (s_ "L")); ((s_ "language"), (s_ "en")); ((s_ "email"), (s_ "a@b")); ((s_ "version"), (s_ "1"))] (s_ "") []].
(* wn.lmf.load: AssertionError *)
Example r1_lexicon_no_license_verdict : verdict (s_ "1.1") r1_lexicon_no_license = -6.
Proof. vmr. Qed.
Example r1_lexicon_no_license_fault : r1_fault r1_lexicon_no_license = true.
Proof. vmr. Qed.

Definition r1_extension_no_label : xtree :=
  XNode (s_ "LexicalResource") [] (s_ "") [
     XNode (s_ "LexiconExtension") [((s_ "id"), (s_ "x")); ((s_ "language"), (s_ "en")); ((s_ "email"), (s_ "a@b")); ((s_ "license"), (s_ "lic")); ((s_ "version"), (s_ "1"))] (s_ "") [
        XNode (s_ "Extends") [((s_ "id"), (s_ "base")); ((s_ "version"), (s_ "1"))] (s_ "") []]].
(* wn.lmf.load: AssertionError *)
Example r1_extension_no_label_verdict : verdict (s_ "1.1") r1_extension_no_label = -6.
Proof. vmr. Qed.
Example r1_extension_no_label_fault : r1_fault r1_extension_no_label = true.
Proof. vmr. Qed.

Definition r5_count_word : xtree :=
  XNode (s_ "LexicalResource") [] (s_ "") [
     XNode (s_ "Lexicon") [((s_ "id"), (s_ "x")); ((s_ "label"), (s_ "L")); ((s_ "language"), (s_ "en")); ((s_ "email"), (s_ "a@b")); ((s_ "license"), (s_ "lic")); ((s_ "version"), (s_ "1"))] (s_ "") [
        XNode (s_ "LexicalEntry") [((s_ "id"), (s_ "e1"))] (s_ "") [
           XNode (s_ "Lemma") [((s_ "writtenForm"), (s_ "w")); ((s_ "partOfSpeech"), (s_ "n"))] (s_ "") [];
           XNode (s_ "Sense") [((s_ "id"), (s_ "s1")); ((s_ "synset"), (s_ "ss1"))] (s_ "") [
              XNode (s_ "Count") [] (s_ "abc") []]]]].
(* wn.lmf.load: ValueError: invalid literal for int() with base 10: 'abc' *)
Example r5_count_word_verdict : verdict (s_ "1.1") r5_count_word = -4.
Proof. vmr. Qed.
Example r5_count_word_fault : r5_fault r5_count_word = true.
Proof. vmr. Qed.

Definition r5_count_empty : xtree :=
  XNode (s_ "LexicalResource") [] (s_ "") [
     XNode (s_ "Lexicon") [((s_ "id"), (s_ "x")); ((s_ "label"), (s_ "L")); ((s_ "language"), (s_ "en")); ((s_ "email"), (s_ "a@b")); ((s_ "license"), (s_ "lic")); ((s_ "version"), (s_ "1"))] (s_ "") [
        XNode (s_ "LexicalEntry") [((s_ "id"), (s_ "e1"))] (s_ "") [
           XNode (s_ "Lemma") [((s_ "writtenForm"), (s_ "w")); ((s_ "partOfSpeech"), (s_ "n"))] (s_ "") [];
           XNode (s_ "Sense") [((s_ "id"), (s_ "s1")); ((s_ "synset"), (s_ "ss1"))] (s_ "") [
              XNode (s_ "Count") [] (s_ "") []]]]].
(* wn.lmf.load: ValueError: invalid literal for int() with base 10: '' *)
Example r5_count_empty_verdict : verdict (s_ "1.1") r5_count_empty = -4.
Proof. vmr. Qed.
Example r5_count_empty_fault : r5_fault r5_count_empty = true.
Proof. vmr. Qed.

Definition r5_count_decimal : xtree :=
  XNode (s_ "LexicalResource") [] (s_ "") [
     XNode (s_ "Lexicon") [((s_ "id"), (s_ "x")); ((s_ "label"), (s_ "L")); ((s_ "language"), (s_ "en")); ((s_ "email"), (s_ "a@b")); ((s_ "license"), (s_ "lic")); ((s_ "version"), (s_ "1"))] (s_ "") [
        XNode (s_ "LexicalEntry") [((s_ "id"), (s_ "e1"))] (s_ "") [
           XNode (s_ "Lemma") [((s_ "writtenForm"), (s_ "w")); ((s_ "partOfSpeech"), (s_ "n"))] (s_ "") [];
           XNode (s_ "Sense") [((s_ "id"), (s_ "s1")); ((s_ "synset"), (s_ "ss1"))] (s_ "") [
              XNode (s_ "Count") [] (s_ "1.5") []]]]].
(* wn.lmf.load: ValueError: invalid literal for int() with base 10: '1.5' *)
Example r5_count_decimal_verdict : verdict (s_ "1.1") r5_count_decimal = -4.
Proof. vmr. Qed.
Example r5_count_decimal_fault : r5_fault r5_count_decimal = true.
Proof. vmr. Qed.

Definition r5_count_two : xtree :=
  XNode (s_ "LexicalResource") [] (s_ "") [
     XNode (s_ "Lexicon") [((s_ "id"), (s_ "x")); ((s_ "label"), (s_ "L")); ((s_ "language"), (s_ "en")); ((s_ "email"), (s_ "a@b")); ((s_ "license"), (s_ "lic")); ((s_ "version"), (s_ "1"))] (s_ "") [
        XNode (s_ "LexicalEntry") [((s_ "id"), (s_ "e1"))] (s_ "") [
           XNode (s_ "Lemma") [((s_ "writtenForm"), (s_ "w")); ((s_ "partOfSpeech"), (s_ "n"))] (s_ "") [];
           XNode (s_ "Sense") [((s_ "id"), (s_ "s1")); ((s_ "synset"), (s_ "ss1"))] (s_ "") [
              XNode (s_ "Count") [] (s_ "1 2") []]]]].
(* wn.lmf.load: ValueError: invalid literal for int() with base 10: '1 2' *)
Example r5_count_two_verdict : verdict (s_ "1.1") r5_count_two = -4.
Proof. vmr. Qed.
Example r5_count_two_fault : r5_fault r5_count_two = true.
Proof. vmr. Qed.

Definition r6_external_entry_in_lexicon : xtree :=
  XNode (s_ "LexicalResource") [] (s_ "") [
     XNode (s_ "Lexicon") [((s_ "id"), (s_ "x")); ((s_ "label"), (s_ "L")); ((s_ "language"), (s_ "en")); ((s_ "email"), (s_ "a@b")); ((s_ "license"), (s_ "lic")); ((s_ "version"), (s_ "1"))] (s_ "") [
        XNode (s_ "ExternalLexicalEntry") [((s_ "id"), (s_ "e1"))] (s_ "") []]].
(* wn.lmf.load: AssertionError *)
Example r6_external_entry_in_lexicon_verdict : verdict (s_ "1.1") r6_external_entry_in_lexicon = -6.
Proof. vmr. Qed.
Example r6_external_entry_in_lexicon_fault : r6_external_fault r6_external_entry_in_lexicon = true.
Proof. vmr. Qed.

Definition r6_external_synset_in_lexicon : xtree :=
  XNode (s_ "LexicalResource") [] (s_ "") [
     XNode (s_ "Lexicon") [((s_ "id"), (s_ "x")); ((s_ "label"), (s_ "L")); ((s_ "language"), (s_ "en")); ((s_ "email"), (s_ "a@b")); ((s_ "license"), (s_ "lic")); ((s_ "version"), (s_ "1"))] (s_ "") [
        XNode (s_ "ExternalSynset") [((s_ "id"), (s_ "ss1"))] (s_ "") []]].
(* wn.lmf.load: AssertionError *)
Example r6_external_synset_in_lexicon_verdict : verdict (s_ "1.1") r6_external_synset_in_lexicon = -6.
Proof. vmr. Qed.
Example r6_external_synset_in_lexicon_fault : r6_external_fault r6_external_synset_in_lexicon = true.
Proof. vmr. Qed.

Definition r6_external_sense_in_lexicon : xtree :=
  XNode (s_ "LexicalResource") [] (s_ "") [
     XNode (s_ "Lexicon") [((s_ "id"), (s_ "x")); ((s_ "label"), (s_ "L")); ((s_ "language"), (s_ "en")); ((s_ "email"), (s_ "a@b")); ((s_ "license"), (s_ "lic")); ((s_ "version"), (s_ "1"))] (s_ "") [
        XNode (s_ "LexicalEntry") [((s_ "id"), (s_ "e1"))] (s_ "") [
           XNode (s_ "Lemma") [((s_ "writtenForm"), (s_ "w")); ((s_ "partOfSpeech"), (s_ "n"))] (s_ "") [];
           XNode (s_ "ExternalSense") [((s_ "id"), (s_ "s1"))] (s_ "") []]]].
(* wn.lmf.load: AssertionError *)
Example r6_external_sense_in_lexicon_verdict : verdict (s_ "1.1") r6_external_sense_in_lexicon = -6.
Proof. vmr. Qed.
Example r6_external_sense_in_lexicon_fault : r6_external_fault r6_external_sense_in_lexicon = true.
Proof. vmr. Qed.

Definition r6_external_form_in_lexicon : xtree :=
  XNode (s_ "LexicalResource") [] (s_ "") [
     XNode (s_ "Lexicon") [((s_ "id"), (s_ "x")); ((s_ "label"), (s_ "L")); ((s_ "language"), (s_ "en")); ((s_ "email"), (s_ "a@b")); ((s_ "license"), (s_ "lic")); ((s_ "version"), (s_ "1"))] (s_ "") [
        XNode (s_ "LexicalEntry") [((s_ "id"), (s_ "e1"))] (s_ "") [
           XNode (s_ "Lemma") [((s_ "writtenForm"), (s_ "w")); ((s_ "partOfSpeech"), (s_ "n"))] (s_ "") [];
           XNode (s_ "ExternalForm") [((s_ "id"), (s_ "f1"))] (s_ "") []]]].
(* wn.lmf.load: AssertionError *)
Example r6_external_form_in_lexicon_verdict : verdict (s_ "1.1") r6_external_form_in_lexicon = -6.
Proof. vmr. Qed.
Example r6_external_form_in_lexicon_fault : r6_external_fault r6_external_form_in_lexicon = true.
Proof. vmr. Qed.

Definition r6_external_lemma_in_lexicon : xtree :=
  XNode (s_ "LexicalResource") [] (s_ "") [
     XNode (s_ "Lexicon") [((s_ "id"), (s_ "x")); ((s_ "label"), (s_ "L")); ((s_ "language"), (s_ "en")); ((s_ "email"), (s_ "a@b")); ((s_ "license"), (s_ "lic")); ((s_ "version"), (s_ "1"))] (s_ "") [
        XNode (s_ "LexicalEntry") [((s_ "id"), (s_ "e1"))] (s_ "") [
           XNode (s_ "ExternalLemma") [] (s_ "") []]]].
(* wn.lmf.load: AssertionError *)
Example r6_external_lemma_in_lexicon_verdict : verdict (s_ "1.1") r6_external_lemma_in_lexicon = -6.
Proof. vmr. Qed.
Example r6_external_lemma_in_lexicon_fault : r6_external_fault r6_external_lemma_in_lexicon = true.
Proof. vmr. Qed.

Definition r6_external_in_extension_without_extends : xtree :=
  XNode (s_ "LexicalResource") [] (s_ "") [
     XNode (s_ "LexiconExtension") [((s_ "id"), (s_ "x")); ((s_ "label"), (s_ "L")); ((s_ "language"), (s_ "en")); ((s_ "email"), (s_ "a@b")); ((s_ "license"), (s_ "lic")); ((s_ "version"), (s_ "1"))] (s_ "") [
        XNode (s_ "ExternalSynset") [((s_ "id"), (s_ "ss1"))] (s_ "") []]].
(* wn.lmf.load: AssertionError *)
Example r6_external_in_extension_without_extends_verdict : verdict (s_ "1.1") r6_external_in_extension_without_extends = -6.
Proof. vmr. Qed.
Example r6_external_in_extension_without_extends_fault : r6_external_fault r6_external_in_extension_without_extends = true.
Proof. vmr. Qed.

Definition r6_external_form_no_id : xtree :=
  XNode (s_ "LexicalResource") [] (s_ "") [
     XNode (s_ "LexiconExtension") [((s_ "id"), (s_ "x")); ((s_ "label"), (s_ "L")); ((s_ "language"), (s_ "en")); ((s_ "email"), (s_ "a@b")); ((s_ "license"), (s_ "lic")); ((s_ "version"), (s_ "1"))] (s_ "") [
        XNode (s_ "Extends") [((s_ "id"), (s_ "base")); ((s_ "version"), (s_ "1"))] (s_ "") [];
        XNode (s_ "ExternalLexicalEntry") [((s_ "id"), (s_ "e1"))] (s_ "") [
           XNode (s_ "ExternalForm") [] (s_ "") []]]].
(* wn.lmf.load: AssertionError *)
Example r6_external_form_no_id_verdict : verdict (s_ "1.1") r6_external_form_no_id = -6.
Proof. vmr. Qed.
Example r6_external_form_no_id_fault : r6_xform_fault r6_external_form_no_id = true.
Proof. vmr. Qed.

(* the document element is not LexicalResource *)
Definition r6_root_is_lexicon : xtree :=
  XNode (s_ "Lexicon") [((s_ "id"), (s_ "x")); ((s_ "label"), (s_ "L")); ((s_ "language"), (s_ "en")); ((s_ "email"), (s_ "a@b")); ((s_ "license"), (s_ "lic")); ((s_ "version"), (s_ "1"))] (s_ "") [].
(* wn.lmf.load: KeyError: 'lexical-resource' *)
Example r6_root_is_lexicon_verdict : verdict (s_ "1.1") r6_root_is_lexicon = -3.
Proof. vmr. Qed.

(* <Extends/> without attributes is falsy: the lexicon is validated as a plain one *)
Definition x_external_after_empty_extends : xtree :=
  XNode (s_ "LexicalResource") [] (s_ "") [
     XNode (s_ "LexiconExtension") [((s_ "id"), (s_ "x")); ((s_ "label"), (s_ "L")); ((s_ "language"), (s_ "en")); ((s_ "email"), (s_ "a@b")); ((s_ "license"), (s_ "lic")); ((s_ "version"), (s_ "1"))] (s_ "") [
        XNode (s_ "Extends") [] (s_ "") [];
        XNode (s_ "ExternalSynset") [((s_ "id"), (s_ "ss1"))] (s_ "") []]].
(* wn.lmf.load: AssertionError *)
Example x_external_after_empty_extends_verdict : verdict (s_ "1.1") x_external_after_empty_extends = -6.
Proof. vmr. Qed.

(* an attribute called lemma is not a Lemma: 'w'.get raises AttributeError *)
Definition x_entry_lemma_attribute : xtree :=
  XNode (s_ "LexicalResource") [] (s_ "") [
     XNode (s_ "Lexicon") [((s_ "id"), (s_ "x")); ((s_ "label"), (s_ "L")); ((s_ "language"), (s_ "en")); ((s_ "email"), (s_ "a@b")); ((s_ "license"), (s_ "lic")); ((s_ "version"), (s_ "1"))] (s_ "") [
        XNode (s_ "LexicalEntry") [((s_ "id"), (s_ "e1")); ((s_ "lemma"), (s_ "w"))] (s_ "") []]].
(* wn.lmf.load: AttributeError: 'str' object has no attribute 'get' *)
Example x_entry_lemma_attribute_verdict : verdict (s_ "1.1") x_entry_lemma_attribute = -4.
Proof. vmr. Qed.

Definition x_count_preserve_word : xtree :=
  XNode (s_ "LexicalResource") [] (s_ "") [
     XNode (s_ "Lexicon") [((s_ "id"), (s_ "x")); ((s_ "label"), (s_ "L")); ((s_ "language"), (s_ "en")); ((s_ "email"), (s_ "a@b")); ((s_ "license"), (s_ "lic")); ((s_ "version"), (s_ "1"))] (s_ "") [
        XNode (s_ "LexicalEntry") [((s_ "id"), (s_ "e1"))] (s_ "") [
           XNode (s_ "Lemma") [((s_ "writtenForm"), (s_ "w")); ((s_ "partOfSpeech"), (s_ "n"))] (s_ "") [];
           XNode (s_ "Sense") [((s_ "id"), (s_ "s1")); ((s_ "synset"), (s_ "ss1"))] (s_ "") [
              XNode (s_ "Count") [((s_ "http://www.w3.org/XML/1998/namespace space"), (s_ "preserve"))] (s_ " abc ") []]]]].
(* wn.lmf.load: ValueError: invalid literal for int() with base 10: ' abc ' *)
Example x_count_preserve_word_verdict : verdict (s_ "1.1") x_count_preserve_word = -4.
Proof. vmr. Qed.

Definition a_empty_resource : xtree :=
  XNode (s_ "LexicalResource") [] (s_ "") [].
(* wn.lmf.load: loaded *)
Example a_empty_resource_verdict : verdict (s_ "1.1") a_empty_resource = 0.
Proof. vmr. Qed.

Definition a_lexicon_only : xtree :=
  XNode (s_ "LexicalResource") [] (s_ "") [
     XNode (s_ "Lexicon") [((s_ "id"), (s_ "x")); ((s_ "label"), (s_ "L")); ((s_ "language"), (s_ "en")); ((s_ "email"), (s_ "a@b")); ((s_ "license"), (s_ "lic")); ((s_ "version"), (s_ "1"))] (s_ "") []].
(* wn.lmf.load: loaded *)
Example a_lexicon_only_verdict : verdict (s_ "1.1") a_lexicon_only = 0.
Proof. vmr. Qed.

Definition a_minimal : xtree :=
  XNode (s_ "LexicalResource") [] (s_ "") [
     XNode (s_ "Lexicon") [((s_ "id"), (s_ "x")); ((s_ "label"), (s_ "L")); ((s_ "language"), (s_ "en")); ((s_ "email"), (s_ "a@b")); ((s_ "license"), (s_ "lic")); ((s_ "version"), (s_ "1"))] (s_ "") [
        XNode (s_ "LexicalEntry") [((s_ "id"), (s_ "e1"))] (s_ "") [
           XNode (s_ "Lemma") [((s_ "writtenForm"), (s_ "w")); ((s_ "partOfSpeech"), (s_ "n"))] (s_ "") [];
           XNode (s_ "Sense") [((s_ "id"), (s_ "s1")); ((s_ "synset"), (s_ "ss1"))] (s_ "") []];
        XNode (s_ "Synset") [((s_ "id"), (s_ "ss1")); ((s_ "ili"), (s_ "i1"))] (s_ "") []]].
(* wn.lmf.load: loaded *)
Example a_minimal_verdict : verdict (s_ "1.1") a_minimal = 0.
Proof. vmr. Qed.

Definition a_synset_no_part_of_speech : xtree :=
  XNode (s_ "LexicalResource") [] (s_ "") [
     XNode (s_ "Lexicon") [((s_ "id"), (s_ "x")); ((s_ "label"), (s_ "L")); ((s_ "language"), (s_ "en")); ((s_ "email"), (s_ "a@b")); ((s_ "license"), (s_ "lic")); ((s_ "version"), (s_ "1"))] (s_ "") [
        XNode (s_ "Synset") [((s_ "id"), (s_ "ss1")); ((s_ "ili"), (s_ "i1"))] (s_ "") []]].
(* wn.lmf.load: loaded *)
Example a_synset_no_part_of_speech_verdict : verdict (s_ "1.1") a_synset_no_part_of_speech = 0.
Proof. vmr. Qed.

(* the attributes must be present, not non-empty *)
Definition a_lexicon_empty_values : xtree :=
  XNode (s_ "LexicalResource") [] (s_ "") [
     XNode (s_ "Lexicon") [((s_ "id"), (s_ "")); ((s_ "label"), (s_ "")); ((s_ "language"), (s_ "")); ((s_ "email"), (s_ "")); ((s_ "license"), (s_ "")); ((s_ "version"), (s_ ""))] (s_ "") []].
(* wn.lmf.load: loaded *)
Example a_lexicon_empty_values_verdict : verdict (s_ "1.1") a_lexicon_empty_values = 0.
Proof. vmr. Qed.

(* anything but "false" becomes True *)
Definition a_lexicalized_not_boolean : xtree :=
  XNode (s_ "LexicalResource") [] (s_ "") [
     XNode (s_ "Lexicon") [((s_ "id"), (s_ "x")); ((s_ "label"), (s_ "L")); ((s_ "language"), (s_ "en")); ((s_ "email"), (s_ "a@b")); ((s_ "license"), (s_ "lic")); ((s_ "version"), (s_ "1"))] (s_ "") [
        XNode (s_ "LexicalEntry") [((s_ "id"), (s_ "e1"))] (s_ "") [
           XNode (s_ "Lemma") [((s_ "writtenForm"), (s_ "w")); ((s_ "partOfSpeech"), (s_ "n"))] (s_ "") [];
           XNode (s_ "Sense") [((s_ "id"), (s_ "s1")); ((s_ "synset"), (s_ "ss1")); ((s_ "lexicalized"), (s_ "maybe"))] (s_ "") []];
        XNode (s_ "Synset") [((s_ "id"), (s_ "ss1")); ((s_ "ili"), (s_ "i1")); ((s_ "lexicalized"), (s_ "maybe"))] (s_ "") []]].
(* wn.lmf.load: loaded *)
Example a_lexicalized_not_boolean_verdict : verdict (s_ "1.1") a_lexicalized_not_boolean = 0.
Proof. vmr. Qed.

Definition a_phonemic_not_boolean : xtree :=
  XNode (s_ "LexicalResource") [] (s_ "") [
     XNode (s_ "Lexicon") [((s_ "id"), (s_ "x")); ((s_ "label"), (s_ "L")); ((s_ "language"), (s_ "en")); ((s_ "email"), (s_ "a@b")); ((s_ "license"), (s_ "lic")); ((s_ "version"), (s_ "1"))] (s_ "") [
        XNode (s_ "LexicalEntry") [((s_ "id"), (s_ "e1"))] (s_ "") [
           XNode (s_ "Lemma") [((s_ "writtenForm"), (s_ "w")); ((s_ "partOfSpeech"), (s_ "n"))] (s_ "") [
              XNode (s_ "Pronunciation") [((s_ "phonemic"), (s_ "maybe"))] (s_ "p") []]]]].
(* wn.lmf.load: loaded *)
Example a_phonemic_not_boolean_verdict : verdict (s_ "1.1") a_phonemic_not_boolean = 0.
Proof. vmr. Qed.

Definition a_pronunciation_bare : xtree :=
  XNode (s_ "LexicalResource") [] (s_ "") [
     XNode (s_ "Lexicon") [((s_ "id"), (s_ "x")); ((s_ "label"), (s_ "L")); ((s_ "language"), (s_ "en")); ((s_ "email"), (s_ "a@b")); ((s_ "license"), (s_ "lic")); ((s_ "version"), (s_ "1"))] (s_ "") [
        XNode (s_ "LexicalEntry") [((s_ "id"), (s_ "e1"))] (s_ "") [
           XNode (s_ "Lemma") [((s_ "writtenForm"), (s_ "w")); ((s_ "partOfSpeech"), (s_ "n"))] (s_ "") [
              XNode (s_ "Pronunciation") [] (s_ "") []]]]].
(* wn.lmf.load: loaded *)
Example a_pronunciation_bare_verdict : verdict (s_ "1.1") a_pronunciation_bare = 0.
Proof. vmr. Qed.

Definition a_tag_no_text : xtree :=
  XNode (s_ "LexicalResource") [] (s_ "") [
     XNode (s_ "Lexicon") [((s_ "id"), (s_ "x")); ((s_ "label"), (s_ "L")); ((s_ "language"), (s_ "en")); ((s_ "email"), (s_ "a@b")); ((s_ "license"), (s_ "lic")); ((s_ "version"), (s_ "1"))] (s_ "") [
        XNode (s_ "LexicalEntry") [((s_ "id"), (s_ "e1"))] (s_ "") [
           XNode (s_ "Lemma") [((s_ "writtenForm"), (s_ "w")); ((s_ "partOfSpeech"), (s_ "n"))] (s_ "") [
              XNode (s_ "Tag") [((s_ "category"), (s_ "c"))] (s_ "") []]]]].
(* wn.lmf.load: loaded *)
Example a_tag_no_text_verdict : verdict (s_ "1.1") a_tag_no_text = 0.
Proof. vmr. Qed.

(* validated as a plain lexicon *)
Definition a_extension_without_extends : xtree :=
  XNode (s_ "LexicalResource") [] (s_ "") [
     XNode (s_ "LexiconExtension") [((s_ "id"), (s_ "x")); ((s_ "label"), (s_ "L")); ((s_ "language"), (s_ "en")); ((s_ "email"), (s_ "a@b")); ((s_ "license"), (s_ "lic")); ((s_ "version"), (s_ "1"))] (s_ "") [
        XNode (s_ "LexicalEntry") [((s_ "id"), (s_ "e1"))] (s_ "") [
           XNode (s_ "Lemma") [((s_ "writtenForm"), (s_ "w")); ((s_ "partOfSpeech"), (s_ "n"))] (s_ "") [];
           XNode (s_ "Sense") [((s_ "id"), (s_ "s1")); ((s_ "synset"), (s_ "ss1"))] (s_ "") []];
        XNode (s_ "Synset") [((s_ "id"), (s_ "ss1")); ((s_ "ili"), (s_ "i1"))] (s_ "") []]].
(* wn.lmf.load: loaded *)
Example a_extension_without_extends_verdict : verdict (s_ "1.1") a_extension_without_extends = 0.
Proof. vmr. Qed.

(* <Extends/> is an empty dictionary, hence falsy *)
Definition a_extension_empty_extends : xtree :=
  XNode (s_ "LexicalResource") [] (s_ "") [
     XNode (s_ "LexiconExtension") [((s_ "id"), (s_ "x")); ((s_ "label"), (s_ "L")); ((s_ "language"), (s_ "en")); ((s_ "email"), (s_ "a@b")); ((s_ "license"), (s_ "lic")); ((s_ "version"), (s_ "1"))] (s_ "") [
        XNode (s_ "Extends") [] (s_ "") [];
        XNode (s_ "Synset") [((s_ "id"), (s_ "ss1")); ((s_ "ili"), (s_ "i1"))] (s_ "") []]].
(* wn.lmf.load: loaded *)
Example a_extension_empty_extends_verdict : verdict (s_ "1.1") a_extension_empty_extends = 0.
Proof. vmr. Qed.

(* what makes an extension is the Extends child, not the element name *)
Definition a_lexicon_with_extends : xtree :=
  XNode (s_ "LexicalResource") [] (s_ "") [
     XNode (s_ "Lexicon") [((s_ "id"), (s_ "x")); ((s_ "label"), (s_ "L")); ((s_ "language"), (s_ "en")); ((s_ "email"), (s_ "a@b")); ((s_ "license"), (s_ "lic")); ((s_ "version"), (s_ "1"))] (s_ "") [
        XNode (s_ "Extends") [((s_ "id"), (s_ "base")); ((s_ "version"), (s_ "1"))] (s_ "") [];
        XNode (s_ "ExternalLexicalEntry") [((s_ "id"), (s_ "e1"))] (s_ "") [
           XNode (s_ "ExternalLemma") [] (s_ "") [];
           XNode (s_ "ExternalForm") [((s_ "id"), (s_ "f1"))] (s_ "") [];
           XNode (s_ "ExternalSense") [((s_ "id"), (s_ "s1"))] (s_ "") []];
        XNode (s_ "ExternalSynset") [((s_ "id"), (s_ "ss1"))] (s_ "") []]].
(* wn.lmf.load: loaded *)
Example a_lexicon_with_extends_verdict : verdict (s_ "1.1") a_lexicon_with_extends = 0.
Proof. vmr. Qed.

Definition a_external_entry_without_lemma : xtree :=
  XNode (s_ "LexicalResource") [] (s_ "") [
     XNode (s_ "LexiconExtension") [((s_ "id"), (s_ "x")); ((s_ "label"), (s_ "L")); ((s_ "language"), (s_ "en")); ((s_ "email"), (s_ "a@b")); ((s_ "license"), (s_ "lic")); ((s_ "version"), (s_ "1"))] (s_ "") [
        XNode (s_ "Extends") [((s_ "id"), (s_ "base")); ((s_ "version"), (s_ "1"))] (s_ "") [];
        XNode (s_ "ExternalLexicalEntry") [((s_ "id"), (s_ "e1"))] (s_ "") []]].
(* wn.lmf.load: loaded *)
Example a_external_entry_without_lemma_verdict : verdict (s_ "1.1") a_external_entry_without_lemma = 0.
Proof. vmr. Qed.

Definition a_external_entry_plain_lemma : xtree :=
  XNode (s_ "LexicalResource") [] (s_ "") [
     XNode (s_ "LexiconExtension") [((s_ "id"), (s_ "x")); ((s_ "label"), (s_ "L")); ((s_ "language"), (s_ "en")); ((s_ "email"), (s_ "a@b")); ((s_ "license"), (s_ "lic")); ((s_ "version"), (s_ "1"))] (s_ "") [
        XNode (s_ "Extends") [((s_ "id"), (s_ "base")); ((s_ "version"), (s_ "1"))] (s_ "") [];
        XNode (s_ "ExternalLexicalEntry") [((s_ "id"), (s_ "e1"))] (s_ "") [
           XNode (s_ "Lemma") [((s_ "writtenForm"), (s_ "w")); ((s_ "partOfSpeech"), (s_ "n"))] (s_ "") []]]].
(* wn.lmf.load: loaded *)
Example a_external_entry_plain_lemma_verdict : verdict (s_ "1.1") a_external_entry_plain_lemma = 0.
Proof. vmr. Qed.

(* int() accepts surrounding space, a sign and underscores *)
Definition a_count_lenient : xtree :=
  XNode (s_ "LexicalResource") [] (s_ "") [
     XNode (s_ "Lexicon") [((s_ "id"), (s_ "x")); ((s_ "label"), (s_ "L")); ((s_ "language"), (s_ "en")); ((s_ "email"), (s_ "a@b")); ((s_ "license"), (s_ "lic")); ((s_ "version"), (s_ "1"))] (s_ "") [
        XNode (s_ "LexicalEntry") [((s_ "id"), (s_ "e1"))] (s_ "") [
           XNode (s_ "Lemma") [((s_ "writtenForm"), (s_ "w")); ((s_ "partOfSpeech"), (s_ "n"))] (s_ "") [];
           XNode (s_ "Sense") [((s_ "id"), (s_ "s1")); ((s_ "synset"), (s_ "ss1"))] (s_ "") [
              XNode (s_ "Count") [] (s_ "  +1_0 ") []]]]].
(* wn.lmf.load: loaded *)
Example a_count_lenient_verdict : verdict (s_ "1.1") a_count_lenient = 0.
Proof. vmr. Qed.

Definition a_count_preserve : xtree :=
  XNode (s_ "LexicalResource") [] (s_ "") [
     XNode (s_ "Lexicon") [((s_ "id"), (s_ "x")); ((s_ "label"), (s_ "L")); ((s_ "language"), (s_ "en")); ((s_ "email"), (s_ "a@b")); ((s_ "license"), (s_ "lic")); ((s_ "version"), (s_ "1"))] (s_ "") [
        XNode (s_ "LexicalEntry") [((s_ "id"), (s_ "e1"))] (s_ "") [
           XNode (s_ "Lemma") [((s_ "writtenForm"), (s_ "w")); ((s_ "partOfSpeech"), (s_ "n"))] (s_ "") [];
           XNode (s_ "Sense") [((s_ "id"), (s_ "s1")); ((s_ "synset"), (s_ "ss1"))] (s_ "") [
              XNode (s_ "Count") [((s_ "http://www.w3.org/XML/1998/namespace space"), (s_ "preserve"))] (s_ " 12 ") []]]]].
(* wn.lmf.load: loaded *)
Example a_count_preserve_verdict : verdict (s_ "1.1") a_count_preserve = 0.
Proof. vmr. Qed.

(* only the presence of target and relType is asserted *)
Definition a_relation_unchecked_values : xtree :=
  XNode (s_ "LexicalResource") [] (s_ "") [
     XNode (s_ "Lexicon") [((s_ "id"), (s_ "x")); ((s_ "label"), (s_ "L")); ((s_ "language"), (s_ "en")); ((s_ "email"), (s_ "a@b")); ((s_ "license"), (s_ "lic")); ((s_ "version"), (s_ "1"))] (s_ "") [
        XNode (s_ "LexicalEntry") [((s_ "id"), (s_ "e1"))] (s_ "") [
           XNode (s_ "Lemma") [((s_ "writtenForm"), (s_ "w")); ((s_ "partOfSpeech"), (s_ "n"))] (s_ "") [];
           XNode (s_ "Sense") [((s_ "id"), (s_ "s1")); ((s_ "synset"), (s_ "ss1"))] (s_ "") [
              XNode (s_ "SenseRelation") [((s_ "relType"), (s_ "bogus")); ((s_ "target"), (s_ "nowhere"))] (s_ "") []]];
        XNode (s_ "Synset") [((s_ "id"), (s_ "ss1")); ((s_ "ili"), (s_ "i1"))] (s_ "") [
           XNode (s_ "SynsetRelation") [((s_ "relType"), (s_ "")); ((s_ "target"), (s_ ""))] (s_ "") []]]].
(* wn.lmf.load: loaded *)
Example a_relation_unchecked_values_verdict : verdict (s_ "1.1") a_relation_unchecked_values = 0.
Proof. vmr. Qed.

Definition a_texts_missing : xtree :=
  XNode (s_ "LexicalResource") [] (s_ "") [
     XNode (s_ "Lexicon") [((s_ "id"), (s_ "x")); ((s_ "label"), (s_ "L")); ((s_ "language"), (s_ "en")); ((s_ "email"), (s_ "a@b")); ((s_ "license"), (s_ "lic")); ((s_ "version"), (s_ "1"))] (s_ "") [
        XNode (s_ "LexicalEntry") [((s_ "id"), (s_ "e1"))] (s_ "") [
           XNode (s_ "Lemma") [((s_ "writtenForm"), (s_ "w")); ((s_ "partOfSpeech"), (s_ "n"))] (s_ "") [];
           XNode (s_ "Sense") [((s_ "id"), (s_ "s1")); ((s_ "synset"), (s_ "ss1"))] (s_ "") [
              XNode (s_ "Example") [] (s_ "") []]];
        XNode (s_ "Synset") [((s_ "id"), (s_ "ss1")); ((s_ "ili"), (s_ "i1"))] (s_ "") [
           XNode (s_ "Definition") [] (s_ "") [];
           XNode (s_ "ILIDefinition") [] (s_ "") [];
           XNode (s_ "Example") [] (s_ "") []]]].
(* wn.lmf.load: loaded *)
Example a_texts_missing_verdict : verdict (s_ "1.1") a_texts_missing = 0.
Proof. vmr. Qed.

(* _validate_metadata is never called *)
Definition a_confidence_score_not_number : xtree :=
  XNode (s_ "LexicalResource") [] (s_ "") [
     XNode (s_ "Lexicon") [((s_ "id"), (s_ "x")); ((s_ "label"), (s_ "L")); ((s_ "language"), (s_ "en")); ((s_ "email"), (s_ "a@b")); ((s_ "license"), (s_ "lic")); ((s_ "version"), (s_ "1"))] (s_ "") [
        XNode (s_ "LexicalEntry") [((s_ "id"), (s_ "e1"))] (s_ "") [
           XNode (s_ "Lemma") [((s_ "writtenForm"), (s_ "w")); ((s_ "partOfSpeech"), (s_ "n"))] (s_ "") [];
           XNode (s_ "Sense") [((s_ "id"), (s_ "s1")); ((s_ "synset"), (s_ "ss1")); ((s_ "confidenceScore"), (s_ "abc"))] (s_ "") []]]].
(* wn.lmf.load: loaded *)
Example a_confidence_score_not_number_verdict : verdict (s_ "1.1") a_confidence_score_not_number = 0.
Proof. vmr. Qed.

Definition a_form_and_frame_minimal : xtree :=
  XNode (s_ "LexicalResource") [] (s_ "") [
     XNode (s_ "Lexicon") [((s_ "id"), (s_ "x")); ((s_ "label"), (s_ "L")); ((s_ "language"), (s_ "en")); ((s_ "email"), (s_ "a@b")); ((s_ "license"), (s_ "lic")); ((s_ "version"), (s_ "1"))] (s_ "") [
        XNode (s_ "LexicalEntry") [((s_ "id"), (s_ "e1"))] (s_ "") [
           XNode (s_ "Lemma") [((s_ "writtenForm"), (s_ "w")); ((s_ "partOfSpeech"), (s_ "n"))] (s_ "") [];
           XNode (s_ "Form") [((s_ "writtenForm"), (s_ "v"))] (s_ "") []];
        XNode (s_ "SyntacticBehaviour") [((s_ "subcategorizationFrame"), (s_ "f"))] (s_ "") []]].
(* wn.lmf.load: loaded *)
Example a_form_and_frame_minimal_verdict : verdict (s_ "1.1") a_form_and_frame_minimal = 0.
Proof. vmr. Qed.

Definition a_requires_without_url : xtree :=
  XNode (s_ "LexicalResource") [] (s_ "") [
     XNode (s_ "Lexicon") [((s_ "id"), (s_ "x")); ((s_ "label"), (s_ "L")); ((s_ "language"), (s_ "en")); ((s_ "email"), (s_ "a@b")); ((s_ "license"), (s_ "lic")); ((s_ "version"), (s_ "1"))] (s_ "") [
        XNode (s_ "Requires") [((s_ "id"), (s_ "base")); ((s_ "version"), (s_ "1"))] (s_ "") []]].
(* wn.lmf.load: loaded *)
Example a_requires_without_url_verdict : verdict (s_ "1.1") a_requires_without_url = 0.
Proof. vmr. Qed.

(* identifiers are not resolved by load() *)
Definition a_dangling_references : xtree :=
  XNode (s_ "LexicalResource") [] (s_ "") [
     XNode (s_ "Lexicon") [((s_ "id"), (s_ "x")); ((s_ "label"), (s_ "L")); ((s_ "language"), (s_ "en")); ((s_ "email"), (s_ "a@b")); ((s_ "license"), (s_ "lic")); ((s_ "version"), (s_ "1"))] (s_ "") [
        XNode (s_ "LexicalEntry") [((s_ "id"), (s_ "e1"))] (s_ "") [
           XNode (s_ "Lemma") [((s_ "writtenForm"), (s_ "w")); ((s_ "partOfSpeech"), (s_ "n"))] (s_ "") [];
           XNode (s_ "Sense") [((s_ "id"), (s_ "s1")); ((s_ "synset"), (s_ "missing"))] (s_ "") []]]].
(* wn.lmf.load: loaded *)
Example a_dangling_references_verdict : verdict (s_ "1.1") a_dangling_references = 0.
Proof. vmr. Qed.

Print Assumptions required_rejected.
Print Assumptions r2_rejected.
Print Assumptions r3_rejected.
Print Assumptions r4_rejected.
Print Assumptions r1_rejected.
Print Assumptions r5_rejected.
Print Assumptions r6_xform_rejected.
Print Assumptions r6_external_rejected.
Print Assumptions root_not_lexical_resource_rejected.
Print Assumptions any_fault_rejected.
Print Assumptions load_rejects_any_fault.
Print Assumptions load_rejects_required_for_version.
