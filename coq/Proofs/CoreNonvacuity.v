(* Proofs/CoreNonvacuity.v — the well-formedness predicate [db_ok] used by the query-layer theorems
   holds on databases decoded from real dumps (Samples/: two databases built by wn.add from generated
   documents, one adversarial table-level database), and the fuel bound of Model/Core.v is enough on the
   database that refuted the earlier bound (Samples/core_fuel_900000_0.v). *)
From Coq Require Import ZArith List Bool String.
Import ListNotations.
Require Import WnV.Base.Sx WnV.Model.Spec WnV.Model.Tables WnV.Model.Query WnV.Model.Core.
Require Import WnV.Proofs.CoreLemmas WnV.Proofs.QueryFacts.
Require WnV.Samples.core_case_1_3 WnV.Samples.core_case_2_7 WnV.Samples.core_fuzz_400001_0 WnV.Samples.core_fuel_900000_0.
Local Open Scope Z_scope.

Definition sample_db_1 : db := db_of_sx (sx_nth 0 WnV.Samples.core_case_1_3.input_3).
Definition sample_db_2 : db := db_of_sx (sx_nth 0 WnV.Samples.core_case_2_7.input_7).
Definition sample_db_fuzz : db := db_of_sx (sx_nth 0 WnV.Samples.core_fuzz_400001_0.input_0).
Example db_ok_sample_1 : db_ok sample_db_1 = true.
Proof. vm_compute. reflexivity. Qed.
Example db_ok_sample_2 : db_ok sample_db_2 = true.
Proof. vm_compute. reflexivity. Qed.
Example db_ok_fuzz : db_ok sample_db_fuzz = true.
Proof. vm_compute. reflexivity. Qed.

Definition fdb : db := db_of_sx (sx_nth 0 WnV.Samples.core_fuel_900000_0.input_0).
Definition fw : res Wordnet := Wordnet_init fdb None None None true [] None true.
Definition fy : res Synset := bind fw (fun w => Wordnet_synset fdb w (S_ "ba-y"%string)).
Definition fpaths (fuel : nat) : res (list (list Synset)) :=
  bind fy (fun y => Synset_relation_paths fdb fuel y SYNSET_PATHS_ARGS).
(* the earlier bound S (S (#synsets + #ilis)) = 18 is refuted by this database: a simple path of 19 synsets *)
Example old_fuel_bound_refuted : fpaths (S (S (List.length (t_synsets fdb) + List.length (t_ilis fdb)))) = OutOfFuel.
Proof. vm_compute. reflexivity. Qed.
Example model_fuel_suffices :
  match fpaths (synset_fuel fdb) with
  | Ok ps => (List.length ps, fold_right Nat.max 0%nat (map (@List.length Synset) ps))
  | _ => (0%nat, 0%nat)
  end = (6%nat, 19%nat).
Proof. vm_compute. reflexivity. Qed.
Example run_core_agrees_on_fuel_case :
  sx_agree_default (run_core WnV.Samples.core_fuel_900000_0.input_0) WnV.Samples.core_fuel_900000_0.expected_0 = true.
Proof. vm_compute. reflexivity. Qed.
