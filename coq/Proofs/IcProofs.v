(* Proofs/IcProofs.v — what wn.ic.compute computes (model: Model/Ic.v):
   the agenda loop visits exactly the synset and its hypernym ancestors, each
   once, and terminates on every finite graph; every synset weight is the
   smoothing value plus one credit per (corpus word, word synset) that reaches
   it; class totals; monotonicity, bounds, probability in (0,1] and the
   consequences for the information content. *)
From Coq Require Import ZArith QArith List Bool Lia Lqa.
Import ListNotations.
Require Import WnV.Base.Sx WnV.Model.Taxonomy WnV.Model.Ic WnV.Proofs.TaxSpec.

(* ---------- generic helpers ---------- *)

Lemma nmem_In' : forall t vis, nmem t vis = true <-> In t vis.
Proof.
  intros t vis. unfold nmem. rewrite existsb_exists. split.
  - intros [y [Hy He]]. apply Z.eqb_eq in He. subst; auto.
  - intros H. exists t. split; auto. apply Z.eqb_refl.
Qed.

Lemma nmem_false : forall t vis, nmem t vis = false <-> ~ In t vis.
Proof.
  intros t vis. rewrite <- nmem_In'. destruct (nmem t vis); split; intros H; auto.
  - discriminate.
  - exfalso. apply H. reflexivity.
Qed.

Lemma last_cons' : forall (p : list node) t x, last (t :: p) x = last p t.
Proof.
  induction p as [|a p IH]; intros t x.
  - reflexivity.
  - change (last (t :: a :: p) x) with (last (a :: p) x).
    rewrite IH. symmetry. apply IH.
Qed.

Section IcProofs.
  Variable hyp : node -> list node.
  Variable cls : node -> Z.

  (* ------------------------------------------------------------------ *)
  (* reachability                                                        *)

  Lemma reach_refl : forall x, reach hyp x x.
  Proof. intros x. exists []. split; [constructor | reflexivity]. Qed.

  Lemma reach_step_l : forall x t y, In t (hyp x) -> reach hyp t y -> reach hyp x y.
  Proof.
    intros x t y Ht [p [Hp Hl]]. exists (t :: p). split.
    - constructor; assumption.
    - rewrite last_cons'. assumption.
  Qed.

  Lemma chain_snoc : forall p x u,
      chain hyp x p -> In u (hyp (last p x)) -> chain hyp x (p ++ [u]).
  Proof.
    induction p as [|a p IH]; intros x u Hc Hu.
    - simpl in *. constructor; [assumption | constructor].
    - inversion Hc as [|x' t' p' Ht Hc']; subst.
      rewrite last_cons' in Hu. simpl. constructor; [assumption|].
      apply IH; assumption.
  Qed.

  Lemma last_snoc : forall (p : list node) u x, last (p ++ [u]) x = u.
  Proof.
    induction p as [|a p IH]; intros u x.
    - reflexivity.
    - change ((a :: p) ++ [u]) with (a :: (p ++ [u])). rewrite last_cons'. apply IH.
  Qed.

  Lemma reach_step_r : forall x t u, reach hyp x t -> In u (hyp t) -> reach hyp x u.
  Proof.
    intros x t u [p [Hp Hl]] Hu. exists (p ++ [u]). split.
    - apply chain_snoc; [assumption|]. rewrite Hl. assumption.
    - apply last_snoc.
  Qed.

  (* a set containing y and closed under hyp contains everything reachable from y *)
  Lemma closed_reach : forall (l : list node),
      (forall y z, In y l -> In z (hyp y) -> In z l) ->
      forall p y, In y l -> chain hyp y p -> In (last p y) l.
  Proof.
    intros l Hcl. induction p as [|a p IH]; intros y Hy Hc.
    - assumption.
    - inversion Hc as [|x' t' p' Ht Hc']; subst.
      rewrite last_cons'. apply IH; [|assumption].
      apply (Hcl y a); assumption.
  Qed.

  (* ------------------------------------------------------------------ *)
  (* the agenda loop                                                     *)

  Lemma visit_inv : forall fuel agenda seen l,
      visit hyp fuel agenda seen = Some l ->
      (NoDup seen -> NoDup l)
      /\ incl seen l
      /\ incl agenda l
      /\ (forall y, In y l -> In y seen \/ exists a, In a agenda /\ reach hyp a y)
      /\ (forall y, In y l -> ~ In y seen -> forall z, In z (hyp y) -> In z l).
  Proof.
    induction fuel as [|f IH]; intros agenda seen l Hv.
    - discriminate.
    - simpl in Hv. destruct agenda as [|ss rest].
      + injection Hv as Hv. subst l. repeat split.
        * auto.
        * apply incl_refl.
        * intros y [].
        * intros y Hy. left. assumption.
        * intros y Hy Hn. contradiction.
      + destruct (nmem ss seen) eqn:Hm.
        * apply nmem_In' in Hm.
          destruct (IH _ _ _ Hv) as [H1 [H2 [H3 [H4 H5]]]].
          split; [assumption|]. split; [assumption|]. split; [|split].
          -- intros y [Hy|Hy]; [subst y; apply H2; assumption | apply H3; assumption].
          -- intros y Hy. destruct (H4 y Hy) as [Hs|[a [Ha Hr]]].
             ++ left; assumption.
             ++ right. exists a. split; [right; assumption | assumption].
          -- assumption.
        * apply nmem_false in Hm.
          destruct (IH _ _ _ Hv) as [H1 [H2 [H3 [H4 H5]]]].
          split; [|split; [|split; [|split]]].
          -- intros Hnd. apply H1. constructor; assumption.
          -- intros y Hy. apply H2. right. assumption.
          -- intros y [Hy|Hy].
             ++ subst y. apply H2. left. reflexivity.
             ++ apply H3. apply in_or_app. right. assumption.
          -- intros y Hy. destruct (H4 y Hy) as [[Hs|Hs]|[a [Ha Hr]]].
             ++ subst y. right. exists ss. split; [left; reflexivity | apply reach_refl].
             ++ left. assumption.
             ++ apply in_app_or in Ha. destruct Ha as [Ha|Ha].
                ** apply in_rev in Ha. right. exists ss. split; [left; reflexivity|].
                   apply reach_step_l with a; assumption.
                ** right. exists a. split; [right; assumption | assumption].
          -- intros y Hy Hn z Hz.
             destruct (Z.eq_dec y ss) as [He|He].
             ++ subst y. apply H3. apply in_or_app. left. apply -> in_rev. assumption.
             ++ apply (H5 y Hy); [|assumption].
                intros [Hc|Hc]; [apply He; symmetry; assumption | apply Hn; assumption].
  Qed.

  (* fuel bound: one unit per agenda element ever pushed, plus one *)
  Definition pending (V seen : list node) : nat :=
    length (concat (map hyp (filter (fun v => negb (nmem v seen)) V))).

  Lemma nmem_cons : forall v ss seen, nmem v (ss :: seen) = (Z.eqb v ss || nmem v seen)%bool.
  Proof. reflexivity. Qed.

  Lemma pending_cons : forall v V seen,
      pending (v :: V) seen
      = if nmem v seen then pending V seen else (length (hyp v) + pending V seen)%nat.
  Proof.
    intros v V seen. unfold pending. cbn [filter].
    destruct (nmem v seen); cbn [negb map concat].
    - reflexivity.
    - rewrite app_length. reflexivity.
  Qed.

  Lemma pending_notin : forall V seen ss,
      ~ In ss V -> pending V (ss :: seen) = pending V seen.
  Proof.
    induction V as [|v V IH]; intros seen ss Hn.
    - reflexivity.
    - assert (Hv : v <> ss) by (intros He; apply Hn; left; assumption).
      assert (Hn' : ~ In ss V) by (intros Hi; apply Hn; right; assumption).
      rewrite !pending_cons, nmem_cons. apply Z.eqb_neq in Hv. rewrite Hv.
      cbn [orb]. rewrite (IH seen ss Hn'). reflexivity.
  Qed.

  Lemma pending_step : forall V seen ss,
      NoDup V -> In ss V -> ~ In ss seen ->
      pending V seen = (length (hyp ss) + pending V (ss :: seen))%nat.
  Proof.
    induction V as [|v V IH]; intros seen ss Hnd Hin Hns.
    - destruct Hin.
    - inversion Hnd as [|v' V' Hnv HndV]; subst.
      rewrite !pending_cons, nmem_cons.
      destruct (Z.eq_dec v ss) as [He|He].
      + subst v. rewrite Z.eqb_refl. cbn [orb].
        apply nmem_false in Hns. rewrite Hns.
        rewrite (pending_notin V seen ss Hnv). reflexivity.
      + destruct Hin as [Hin|Hin]; [contradiction|].
        apply Z.eqb_neq in He. rewrite He. cbn [orb].
        rewrite (IH seen ss HndV Hin Hns).
        destruct (nmem v seen); lia.
  Qed.

  Lemma pending_nil : forall V, pending V [] = length (concat (map hyp V)).
  Proof.
    induction V as [|v V IH].
    - reflexivity.
    - rewrite pending_cons. cbn [nmem existsb map concat]. rewrite app_length, IH. reflexivity.
  Qed.

  Lemma visit_terminates : forall V, closed hyp V -> NoDup V ->
      forall fuel agenda seen,
        (forall a, In a agenda -> In a V) ->
        (length agenda + pending V seen < fuel)%nat ->
        visit hyp fuel agenda seen <> None.
  Proof.
    intros V Hcl Hnd. induction fuel as [|f IH]; intros agenda seen Hag Hlt.
    - lia.
    - simpl. destruct agenda as [|ss rest].
      + discriminate.
      + destruct (nmem ss seen) eqn:Hm.
        * apply IH.
          -- intros a Ha. apply Hag. right. assumption.
          -- simpl in Hlt. lia.
        * apply nmem_false in Hm. apply IH.
          -- intros a Ha. apply in_app_or in Ha. destruct Ha as [Ha|Ha].
             ++ apply in_rev in Ha. apply (Hcl ss a). assumption.
             ++ apply Hag. right. assumption.
          -- assert (Hss : In ss V) by (apply Hag; left; reflexivity).
             rewrite (pending_step V seen ss Hnd Hss Hm) in Hlt.
             rewrite app_length, rev_length. simpl in Hlt. lia.
  Qed.

  (* ------------------------------------------------------------------ *)
  (* requested theorems 1-3                                              *)

  (* 1. the agenda loop visits exactly the synset and its hypernym ancestors, each once *)
  Theorem ancestors_spec : forall fuel x l,
      ancestors hyp fuel x = Some l ->
      NoDup l /\ (forall t, In t l <-> reach hyp x t).
  Proof.
    intros fuel x l Ha. unfold ancestors in Ha.
    destruct (visit_inv _ _ _ _ Ha) as [H1 [H2 [H3 [H4 H5]]]].
    split.
    - apply H1. constructor.
    - intros t. split.
      + intros Ht. destruct (H4 t Ht) as [[]|[a [Hin Hr]]].
        destruct Hin as [Hin|[]]. subst a. assumption.
      + intros [p [Hp Hl]]. subst t. apply closed_reach.
        * intros y z Hy Hz. apply (H5 y Hy); [|assumption]. intros [].
        * apply H3. left. reflexivity.
        * assumption.
  Qed.

  (* 2. it terminates on every finite graph, cycles and self-loops included *)
  Theorem ancestors_terminates : forall V x,
      closed hyp V -> NoDup V -> In x V ->
      ancestors hyp (S (S (length (concat (map hyp V))))) x <> None.
  Proof.
    intros V x Hcl Hnd Hx. unfold ancestors.
    apply (visit_terminates V Hcl Hnd).
    - intros a [Ha|[]]. subst a. assumption.
    - rewrite pending_nil. simpl. lia.
  Qed.

  (* the credit synset t receives from word synset s *)
  Definition credit (fuel : nat) (t s : node) (wt : Q) : Q :=
    match ancestors hyp fuel s with
    | Some anc => if nmem t anc then wt else 0
    | None => 0
    end.

  (* 3. credit is the weight exactly when t is s or one of its ancestors *)
  Theorem credit_spec : forall fuel t s wt anc,
      ancestors hyp fuel s = Some anc ->
      (reach hyp s t /\ credit fuel t s wt = wt) \/ (~ reach hyp s t /\ credit fuel t s wt = 0).
  Proof.
    intros fuel t s wt anc Ha. unfold credit. rewrite Ha.
    destruct (ancestors_spec _ _ _ Ha) as [_ Hr].
    destruct (nmem t anc) eqn:Hm.
    - left. split; [|reflexivity]. apply Hr. apply nmem_In'. assumption.
    - right. split; [|reflexivity]. intros Hc. apply Hr in Hc.
      apply nmem_false in Hm. contradiction.
  Qed.

  (* ------------------------------------------------------------------ *)
  (* sums of rationals                                                   *)

  Lemma sumQ_cons : forall x l, sumQ (x :: l) = x + sumQ l.
  Proof. reflexivity. Qed.

  Lemma sumQ_app : forall a b, sumQ (a ++ b) == sumQ a + sumQ b.
  Proof.
    induction a as [|x a IH]; intros b.
    - cbn [app]. unfold sumQ at 2. cbn [fold_right]. ring.
    - cbn [app]. rewrite !sumQ_cons. rewrite IH. ring.
  Qed.

  Lemma sumQ_nonneg : forall l, (forall q, In q l -> 0 <= q) -> 0 <= sumQ l.
  Proof.
    induction l as [|x l IH]; intros H.
    - apply Qle_refl.
    - rewrite sumQ_cons.
      assert (H1 : 0 <= x) by (apply H; left; reflexivity).
      assert (H2 : 0 <= sumQ l) by (apply IH; intros q Hq; apply H; right; assumption).
      generalize dependent (sumQ l). intros y _ H2. lra.
  Qed.

  Lemma sumQ_map_le : forall (f g : node -> Q) l,
      (forall s, In s l -> f s <= g s) -> sumQ (map f l) <= sumQ (map g l).
  Proof.
    intros f g. induction l as [|x l IH]; intros H.
    - apply Qle_refl.
    - cbn [map]. rewrite !sumQ_cons. apply Qplus_le_compat.
      + apply H. left. reflexivity.
      + apply IH. intros s Hs. apply H. right. assumption.
  Qed.

  Lemma sumQ_flat_map_le : forall (f g : cword -> node -> Q) corpus,
      (forall w s, In w corpus -> In s (cw_synsets w) -> f w s <= g w s) ->
      sumQ (flat_map (fun w => map (f w) (cw_synsets w)) corpus)
      <= sumQ (flat_map (fun w => map (g w) (cw_synsets w)) corpus).
  Proof.
    intros f g. induction corpus as [|w corpus IH]; intros H.
    - apply Qle_refl.
    - cbn [flat_map]. rewrite !sumQ_app. apply Qplus_le_compat.
      + apply sumQ_map_le. intros s Hs. apply H; [left; reflexivity | assumption].
      + apply IH. intros w' s Hw Hs. apply H; [right; assumption | assumption].
  Qed.

  (* ------------------------------------------------------------------ *)
  (* the sum of the additions to one key                                 *)

  Definition tot (ev : list (key * Q)) (k : key) : Q :=
    sumQ (map snd (filter (fun e => key_eqb (fst e) k) ev)).

  Lemma entry_tot : forall smoothing ev k, entry smoothing ev k = smoothing + tot ev k.
  Proof. reflexivity. Qed.

  Lemma tot_nil : forall k, tot [] k = 0.
  Proof. reflexivity. Qed.

  Lemma tot_cons : forall k' q ev k,
      tot ((k', q) :: ev) k = if key_eqb k' k then q + tot ev k else tot ev k.
  Proof.
    intros k' q ev k. unfold tot. cbn [filter fst].
    destruct (key_eqb k' k); reflexivity.
  Qed.

  Lemma tot_app : forall a b k, tot (a ++ b) k == tot a k + tot b k.
  Proof.
    intros a b k. unfold tot. rewrite filter_app, map_app. apply sumQ_app.
  Qed.

  Lemma tot_syn_map_syn : forall wt t anc,
      NoDup anc ->
      tot (map (fun u => (Syn u, wt)) anc) (Syn t) == if nmem t anc then wt else 0.
  Proof.
    intros wt t. induction anc as [|a anc IH]; intros Hnd.
    - cbn [map nmem existsb]. rewrite tot_nil. reflexivity.
    - inversion Hnd as [|a' anc' Hna Hnd']; subst.
      cbn [map]. rewrite tot_cons, nmem_cons. cbn [key_eqb].
      destruct (Z.eq_dec a t) as [He|He].
      + subst a. rewrite Z.eqb_refl. cbn [orb].
        rewrite (IH Hnd'). apply nmem_false in Hna. rewrite Hna. ring.
      + assert (H1 : Z.eqb a t = false) by (apply Z.eqb_neq; assumption).
        assert (H2 : Z.eqb t a = false) by (apply Z.eqb_neq; intros Hc; apply He; symmetry; assumption).
        rewrite H1, H2. cbn [orb]. apply IH. assumption.
  Qed.

  Lemma tot_syn_map_total : forall wt k anc,
      tot (map (fun u => (Syn u, wt)) anc) (Total k) == 0.
  Proof.
    intros wt k. induction anc as [|a anc IH].
    - cbn [map]. rewrite tot_nil. reflexivity.
    - cbn [map]. rewrite tot_cons. cbn [key_eqb]. assumption.
  Qed.

  (* ------------------------------------------------------------------ *)
  (* inversion of a successful run                                       *)

  Lemma events_synset_inv : forall fuel wt s e,
      events_synset hyp cls fuel wt s = Ok e ->
      ((cls s < 0)%Z /\ e = [])
      \/ ((0 <= cls s)%Z /\ exists anc,
             ancestors hyp fuel s = Some anc
             /\ forallb (fun t => Z.eqb (cls t) (cls s)) anc = true
             /\ e = (Total (cls s), wt) :: map (fun t => (Syn t, wt)) anc).
  Proof.
    intros fuel wt s e H. unfold events_synset in H.
    destruct (Z.ltb (cls s) 0) eqn:Hlt.
    - left. apply Z.ltb_lt in Hlt. injection H as H. split; [assumption | symmetry; assumption].
    - right. apply Z.ltb_ge in Hlt. split; [assumption|].
      destruct (ancestors hyp fuel s) as [anc|] eqn:Ha; [|discriminate].
      destruct (forallb (fun t => Z.eqb (cls t) (cls s)) anc) eqn:Hf; [|discriminate].
      injection H as H. exists anc. split; [reflexivity|]. split; [assumption | symmetry; assumption].
  Qed.

  Lemma events_list_cons_inv : forall fuel wt s rest e,
      events_list hyp cls fuel wt (s :: rest) = Ok e ->
      exists e1 e2, events_synset hyp cls fuel wt s = Ok e1
                    /\ events_list hyp cls fuel wt rest = Ok e2 /\ e = e1 ++ e2.
  Proof.
    intros fuel wt s rest e H. cbn [events_list] in H.
    destruct (events_synset hyp cls fuel wt s) as [e1| |]; try discriminate.
    destruct (events_list hyp cls fuel wt rest) as [e2| |]; try discriminate.
    injection H as H. exists e1, e2. split; [reflexivity|]. split; [reflexivity | symmetry; assumption].
  Qed.

  Lemma compute_events_cons_inv : forall fuel d w rest ev,
      compute_events hyp cls fuel d (w :: rest) = Ok ev ->
      exists e1 e2, events_list hyp cls fuel (weight d w) (cw_synsets w) = Ok e1
                    /\ compute_events hyp cls fuel d rest = Ok e2 /\ ev = e1 ++ e2.
  Proof.
    intros fuel d w rest ev H. cbn [compute_events] in H.
    destruct (cw_synsets w) as [|s ss] eqn:Hs.
    - exists [], ev. split; [reflexivity|]. split; [assumption | reflexivity].
    - destruct (events_list hyp cls fuel (weight d w) (s :: ss)) as [e1| |]; try discriminate.
      destruct (compute_events hyp cls fuel d rest) as [e2| |]; try discriminate.
      injection H as H. exists e1, e2. split; [reflexivity|]. split; [reflexivity | symmetry; assumption].
  Qed.

  (* every corpus word synset was processed successfully *)
  Lemma events_list_ok : forall fuel wt ss e,
      events_list hyp cls fuel wt ss = Ok e ->
      forall s, In s ss -> exists e', events_synset hyp cls fuel wt s = Ok e'.
  Proof.
    intros fuel wt. induction ss as [|a ss IH]; intros e H s Hs.
    - destruct Hs.
    - destruct (events_list_cons_inv _ _ _ _ _ H) as [e1 [e2 [H1 [H2 _]]]].
      destruct Hs as [Hs|Hs].
      + subst a. exists e1. assumption.
      + apply (IH e2 H2 s Hs).
  Qed.

  Lemma compute_events_ok : forall fuel d corpus ev,
      compute_events hyp cls fuel d corpus = Ok ev ->
      forall w, In w corpus ->
                exists e, events_list hyp cls fuel (weight d w) (cw_synsets w) = Ok e.
  Proof.
    intros fuel d. induction corpus as [|a corpus IH]; intros ev H w Hw.
    - destruct Hw.
    - destruct (compute_events_cons_inv _ _ _ _ _ H) as [e1 [e2 [H1 [H2 _]]]].
      destruct Hw as [Hw|Hw].
      + subst a. exists e1. assumption.
      + apply (IH e2 H2 w Hw).
  Qed.

  (* a successful run: every word synset of a class has all its ancestors in that class *)
  Lemma compute_events_classes : forall fuel d corpus ev w s,
      compute_events hyp cls fuel d corpus = Ok ev ->
      In w corpus -> In s (cw_synsets w) -> (0 <= cls s)%Z ->
      exists anc, ancestors hyp fuel s = Some anc
                  /\ forall t, In t anc -> cls t = cls s.
  Proof.
    intros fuel d corpus ev w s H Hw Hs Hc.
    destruct (compute_events_ok _ _ _ _ H w Hw) as [e He].
    destruct (events_list_ok _ _ _ _ He s Hs) as [e' He'].
    destruct (events_synset_inv _ _ _ _ He') as [[Hlt _]|[_ [anc [Ha [Hf _]]]]].
    - lia.
    - exists anc. split; [assumption|]. intros t Ht.
      rewrite forallb_forall in Hf. apply Z.eqb_eq. apply Hf. assumption.
  Qed.

  (* every addition of a run carries the weight of some corpus word *)
  Lemma events_synset_snd : forall fuel wt s e,
      events_synset hyp cls fuel wt s = Ok e -> forall x, In x e -> snd x = wt.
  Proof.
    intros fuel wt s e H x Hx.
    destruct (events_synset_inv _ _ _ _ H) as [[_ He]|[_ [anc [_ [_ He]]]]]; subst e.
    - destruct Hx.
    - destruct Hx as [Hx|Hx].
      + subst x. reflexivity.
      + apply in_map_iff in Hx. destruct Hx as [u [Hu _]]. subst x. reflexivity.
  Qed.

  Lemma events_list_snd : forall fuel wt ss e,
      events_list hyp cls fuel wt ss = Ok e -> forall x, In x e -> snd x = wt.
  Proof.
    intros fuel wt. induction ss as [|a ss IH]; intros e H x Hx.
    - cbn [events_list] in H. injection H as H. subst e. destruct Hx.
    - destruct (events_list_cons_inv _ _ _ _ _ H) as [e1 [e2 [H1 [H2 He]]]]. subst e.
      apply in_app_or in Hx. destruct Hx as [Hx|Hx].
      + apply (events_synset_snd _ _ _ _ H1 x Hx).
      + apply (IH e2 H2 x Hx).
  Qed.

  Lemma compute_events_snd : forall fuel d corpus ev,
      compute_events hyp cls fuel d corpus = Ok ev ->
      forall x, In x ev -> exists w, In w corpus /\ snd x = weight d w.
  Proof.
    intros fuel d. induction corpus as [|a corpus IH]; intros ev H x Hx.
    - cbn [compute_events] in H. injection H as H. subst ev. destruct Hx.
    - destruct (compute_events_cons_inv _ _ _ _ _ H) as [e1 [e2 [H1 [H2 He]]]]. subst ev.
      apply in_app_or in Hx. destruct Hx as [Hx|Hx].
      + exists a. split; [left; reflexivity|]. apply (events_list_snd _ _ _ _ H1 x Hx).
      + destruct (IH e2 H2 x Hx) as [w [Hw Hxw]]. exists w. split; [right; assumption | assumption].
  Qed.

  Lemma weight_nonneg : forall d w, (0 <= cw_count w)%Z -> 0 <= weight d w.
  Proof.
    intros d w H. unfold weight.
    assert (H1 : 0 <= inject_Z (cw_count w)).
    { change 0 with (inject_Z 0). rewrite <- Zle_Qle. assumption. }
    destruct d; [|assumption].
    unfold Qdiv. apply Qmult_le_0_compat; [assumption|].
    apply Qinv_le_0_compat. change 0 with (inject_Z 0). rewrite <- Zle_Qle. lia.
  Qed.

  Lemma tot_nonneg : forall fuel d corpus ev k,
      compute_events hyp cls fuel d corpus = Ok ev ->
      (forall w, In w corpus -> (0 <= cw_count w)%Z) ->
      0 <= tot ev k.
  Proof.
    intros fuel d corpus ev k H Hc. unfold tot. apply sumQ_nonneg.
    intros q Hq. apply in_map_iff in Hq. destruct Hq as [x [Hx Hin]]. subst q.
    apply filter_In in Hin. destruct Hin as [Hin _].
    destruct (compute_events_snd _ _ _ _ H x Hin) as [w [Hw Hxw]].
    rewrite Hxw. apply weight_nonneg. apply Hc. assumption.
  Qed.

  (* ------------------------------------------------------------------ *)
  (* closed form of the additions to one key                             *)

  Section ClosedForm.
    Variable fuel : nat.
    Variable k : key.
    Variable g : Q -> node -> Q.
    Hypothesis g_spec : forall wt s e,
        events_synset hyp cls fuel wt s = Ok e -> tot e k == g wt s.

    Lemma events_list_tot : forall wt ss e,
        events_list hyp cls fuel wt ss = Ok e -> tot e k == sumQ (map (g wt) ss).
    Proof.
      intros wt. induction ss as [|a ss IH]; intros e H.
      - cbn [events_list] in H. injection H as H. subst e. reflexivity.
      - destruct (events_list_cons_inv _ _ _ _ _ H) as [e1 [e2 [H1 [H2 He]]]]. subst e.
        cbn [map]. rewrite sumQ_cons, tot_app.
        rewrite (g_spec _ _ _ H1), (IH e2 H2). reflexivity.
    Qed.

    Lemma compute_events_tot : forall d corpus ev,
        compute_events hyp cls fuel d corpus = Ok ev ->
        tot ev k == sumQ (flat_map (fun w => map (g (weight d w)) (cw_synsets w)) corpus).
    Proof.
      intros d. induction corpus as [|a corpus IH]; intros ev H.
      - cbn [compute_events] in H. injection H as H. subst ev. reflexivity.
      - destruct (compute_events_cons_inv _ _ _ _ _ H) as [e1 [e2 [H1 [H2 He]]]]. subst ev.
        cbn [flat_map]. rewrite sumQ_app, tot_app.
        rewrite (events_list_tot _ _ _ H1), (IH e2 H2). reflexivity.
    Qed.
  End ClosedForm.

  Lemma events_synset_tot_syn : forall fuel t wt s e,
      events_synset hyp cls fuel wt s = Ok e ->
      tot e (Syn t) == if Z.leb 0 (cls s) then credit fuel t s wt else 0.
  Proof.
    intros fuel t wt s e H.
    destruct (events_synset_inv _ _ _ _ H) as [[Hlt He]|[Hge [anc [Ha [_ He]]]]]; subst e.
    - apply Z.leb_gt in Hlt. rewrite Hlt. rewrite tot_nil. reflexivity.
    - apply Z.leb_le in Hge. rewrite Hge. rewrite tot_cons. cbn [key_eqb].
      unfold credit. rewrite Ha. apply tot_syn_map_syn.
      apply (ancestors_spec _ _ _ Ha).
  Qed.

  Lemma events_synset_tot_total : forall fuel k wt s e,
      (0 <= k)%Z ->
      events_synset hyp cls fuel wt s = Ok e ->
      tot e (Total k) == if Z.eqb (cls s) k then wt else 0.
  Proof.
    intros fuel k wt s e Hk H.
    destruct (events_synset_inv _ _ _ _ H) as [[Hlt He]|[Hge [anc [Ha [_ He]]]]]; subst e.
    - assert (Hne : Z.eqb (cls s) k = false) by (apply Z.eqb_neq; lia).
      rewrite Hne, tot_nil. reflexivity.
    - rewrite tot_cons. cbn [key_eqb].
      destruct (Z.eqb (cls s) k).
      + rewrite tot_syn_map_total. ring.
      + apply tot_syn_map_total.
  Qed.

  (* ------------------------------------------------------------------ *)
  (* requested theorems 4-9                                              *)

  (* 4. closed form of every synset weight *)
  Theorem compute_synset_entry : forall fuel distribute corpus ev smoothing t,
      compute_events hyp cls fuel distribute corpus = Ok ev ->
      entry smoothing ev (Syn t) ==
      smoothing + sumQ (flat_map (fun w => map (fun s => if Z.leb 0 (cls s)
                                                         then credit fuel t s (weight distribute w)
                                                         else 0)
                                               (cw_synsets w)) corpus).
  Proof.
    intros fuel distribute corpus ev smoothing t H.
    rewrite entry_tot.
    rewrite (compute_events_tot fuel (Syn t)
               (fun wt s => if Z.leb 0 (cls s) then credit fuel t s wt else 0)
               (events_synset_tot_syn fuel t) distribute corpus ev H).
    reflexivity.
  Qed.

  (* 5. closed form of the per-class totals (conservation) *)
  Theorem compute_total_entry : forall fuel distribute corpus ev smoothing k,
      compute_events hyp cls fuel distribute corpus = Ok ev -> (0 <= k)%Z ->
      entry smoothing ev (Total k) ==
      smoothing + sumQ (flat_map (fun w => map (fun s => if Z.eqb (cls s) k
                                                         then weight distribute w else 0)
                                               (cw_synsets w)) corpus).
  Proof.
    intros fuel distribute corpus ev smoothing k H Hk.
    rewrite entry_tot.
    rewrite (compute_events_tot fuel (Total k)
               (fun wt s => if Z.eqb (cls s) k then wt else 0)
               (fun wt s e => events_synset_tot_total fuel k wt s e Hk) distribute corpus ev H).
    reflexivity.
  Qed.

  (* 6. weights never decrease going up the taxonomy *)
  Theorem compute_monotone : forall fuel distribute corpus ev smoothing t u,
      compute_events hyp cls fuel distribute corpus = Ok ev ->
      (forall w, In w corpus -> (0 <= cw_count w)%Z) ->
      In u (hyp t) ->
      entry smoothing ev (Syn t) <= entry smoothing ev (Syn u).
  Proof.
    intros fuel distribute corpus ev smoothing t u H Hc Hu.
    rewrite (compute_synset_entry fuel distribute corpus ev smoothing t H).
    rewrite (compute_synset_entry fuel distribute corpus ev smoothing u H).
    apply Qplus_le_compat; [apply Qle_refl|].
    apply (sumQ_flat_map_le
             (fun w s => if Z.leb 0 (cls s) then credit fuel t s (weight distribute w) else 0)
             (fun w s => if Z.leb 0 (cls s) then credit fuel u s (weight distribute w) else 0)).
    intros w s Hw Hs.
    assert (Hwt : 0 <= weight distribute w) by (apply weight_nonneg; apply Hc; assumption).
    destruct (Z.leb 0 (cls s)); [|apply Qle_refl].
    unfold credit. destruct (ancestors hyp fuel s) as [anc|] eqn:Ha; [|apply Qle_refl].
    destruct (ancestors_spec _ _ _ Ha) as [_ Hr].
    destruct (nmem t anc) eqn:Ht; destruct (nmem u anc) eqn:Hm;
      try apply Qle_refl; try assumption.
    exfalso. apply nmem_In' in Ht. apply nmem_false in Hm. apply Hm.
    apply Hr. apply reach_step_r with t; [|assumption]. apply Hr. assumption.
  Qed.

  (* 7. a synset never weighs more than its class total, and is positive with positive smoothing *)
  Theorem compute_bounded : forall fuel distribute corpus ev smoothing t,
      compute_events hyp cls fuel distribute corpus = Ok ev ->
      (forall w, In w corpus -> (0 <= cw_count w)%Z) ->
      (0 <= cls t)%Z ->
      entry smoothing ev (Syn t) <= entry smoothing ev (Total (cls t)).
  Proof.
    intros fuel distribute corpus ev smoothing t H Hc Ht.
    rewrite (compute_synset_entry fuel distribute corpus ev smoothing t H).
    rewrite (compute_total_entry fuel distribute corpus ev smoothing (cls t) H Ht).
    apply Qplus_le_compat; [apply Qle_refl|].
    apply (sumQ_flat_map_le
             (fun w s => if Z.leb 0 (cls s) then credit fuel t s (weight distribute w) else 0)
             (fun w s => if Z.eqb (cls s) (cls t) then weight distribute w else 0)).
    intros w s Hw Hs.
    assert (Hwt : 0 <= weight distribute w) by (apply weight_nonneg; apply Hc; assumption).
    destruct (Z.leb 0 (cls s)) eqn:Hle.
    - apply Z.leb_le in Hle.
      destruct (compute_events_classes _ _ _ _ w s H Hw Hs Hle) as [anc [Ha Hcl]].
      unfold credit. rewrite Ha.
      destruct (nmem t anc) eqn:Hm.
      + apply nmem_In' in Hm. rewrite <- (Hcl t Hm). rewrite Z.eqb_refl. apply Qle_refl.
      + destruct (Z.eqb (cls s) (cls t)); [assumption | apply Qle_refl].
    - destruct (Z.eqb (cls s) (cls t)); [assumption | apply Qle_refl].
  Qed.

  Theorem compute_positive : forall fuel distribute corpus ev smoothing k,
      compute_events hyp cls fuel distribute corpus = Ok ev ->
      (forall w, In w corpus -> (0 <= cw_count w)%Z) ->
      0 < smoothing -> 0 < entry smoothing ev k.
  Proof.
    intros fuel distribute corpus ev smoothing k H Hc Hs.
    rewrite entry_tot.
    generalize (tot_nonneg fuel distribute corpus ev k H Hc).
    generalize (tot ev k). intros y Hy. lra.
  Qed.

  (* 8. probability in (0,1] *)
  Theorem probability_unit : forall fuel distribute corpus ev smoothing t,
      compute_events hyp cls fuel distribute corpus = Ok ev ->
      (forall w, In w corpus -> (0 <= cw_count w)%Z) ->
      0 < smoothing -> (0 <= cls t)%Z ->
      0 < probability cls smoothing ev t /\ probability cls smoothing ev t <= 1.
  Proof.
    intros fuel distribute corpus ev smoothing t H Hc Hs Ht.
    unfold probability.
    generalize (compute_positive fuel distribute corpus ev smoothing (Syn t) H Hc Hs).
    generalize (compute_positive fuel distribute corpus ev smoothing (Total (cls t)) H Hc Hs).
    generalize (compute_bounded fuel distribute corpus ev smoothing t H Hc Ht).
    generalize (entry smoothing ev (Syn t)) (entry smoothing ev (Total (cls t))).
    intros a b Hab Hb Ha. split.
    - apply Qlt_shift_div_l; [assumption|]. lra.
    - apply Qle_shift_div_r; [assumption|]. lra.
  Qed.

  (* 9. information content = nlog(probability) for any antitone nlog with nlog 1 = 0 *)
  Theorem information_content_props :
    forall (nlog : Q -> Q),
      (forall p q, 0 < p -> p <= q -> nlog q <= nlog p) -> nlog 1 == 0 ->
      (forall p q, p == q -> nlog p == nlog q) ->
      forall fuel distribute corpus ev smoothing t u,
        compute_events hyp cls fuel distribute corpus = Ok ev ->
        (forall w, In w corpus -> (0 <= cw_count w)%Z) ->
        0 < smoothing -> (0 <= cls t)%Z -> In u (hyp t) -> cls u = cls t ->
        0 <= nlog (probability cls smoothing ev t)
        /\ nlog (probability cls smoothing ev u) <= nlog (probability cls smoothing ev t).
  Proof.
    intros nlog Hanti Hone Hext fuel distribute corpus ev smoothing t u H Hc Hs Ht Hu Hcu.
    destruct (probability_unit fuel distribute corpus ev smoothing t H Hc Hs Ht) as [Hp0 Hp1].
    split.
    - apply Qle_trans with (nlog 1).
      + rewrite Hone. apply Qle_refl.
      + apply Hanti; assumption.
    - apply Hanti; [assumption|].
      unfold probability. rewrite Hcu. unfold Qdiv.
      apply Qmult_le_compat_r.
      + apply (compute_monotone fuel distribute corpus ev smoothing t u H Hc Hu).
      + apply Qinv_le_0_compat. apply Qlt_le_weak.
        apply (compute_positive fuel distribute corpus ev smoothing (Total (cls t)) H Hc Hs).
  Qed.

End IcProofs.

Print Assumptions ancestors_spec.
Print Assumptions ancestors_terminates.
Print Assumptions credit_spec.
Print Assumptions compute_synset_entry.
Print Assumptions compute_total_entry.
Print Assumptions compute_monotone.
Print Assumptions compute_bounded.
Print Assumptions compute_positive.
Print Assumptions probability_unit.
Print Assumptions information_content_props.
