(* Model/Spec.v — transliteration of _queries.find_lexicons (lexicon specifiers and
   language codes), of the Wordnet constructor's use of it, and — independently —
   the selection documented in docs/guides/lexicons.rst. *)
From Coq Require Import ZArith List Bool.
Import ListNotations.
Require Import WnV.Base.Sx.
Local Open Scope Z_scope.

Definition c_star : Z := 42.   (* '*' *)
Definition c_qm : Z := 63.     (* '?' *)
Definition c_colon : Z := 58.  (* ':' *)
Definition c_lbr : Z := 91.    (* '[' *)

Definition c_rbr : Z := 93.    (* ']' *)
Definition c_caret : Z := 94.  (* '^' *)
Definition c_dash : Z := 45.   (* '-' *)

(* SQLite GLOB (sqlite3.c patternCompare with matchAll = '*', matchOne = '?',
   matchSet = '[', no escape): case-sensitive, whole-string match, characters
   are code points.

   A character class.  [c] is the character read from the string, [k] what has
   to be done with the rest of the pattern after the closing ']' ([glob] passes
   "match the rest of the string").  [class_loop] is the  while( c2 && c2!=']' )
   loop; [prior] is prior_c (0 = no lower end of a range available), the
   lookahead [hi] is pattern[0].  Running out of pattern (c2 == 0) is NOMATCH:
   an unterminated class matches nothing. *)
Section GlobClass.
  Variable k : str -> bool.
  Variable c : Z.
  Variable invert : bool.
  Fixpoint class_loop (seen : bool) (prior : Z) (q : str) {struct q} : bool :=
    match q with
    | [] => false
    | c2 :: q' =>
        if Z.eqb c2 c_rbr then xorb seen invert && k q'
        else match q' with
             | [] => false
             | hi :: q'' =>
                 if Z.eqb c2 c_dash && negb (Z.eqb hi c_rbr) && Z.ltb 0 prior
                 then class_loop (seen || (Z.leb prior c && Z.leb c hi)) 0 q''
                 else class_loop (seen || Z.eqb c c2) c2 q'
             end
    end.
  (* after the optional '^': a ']' in first position is an ordinary member *)
  Definition class_first (q : str) : bool :=
    match q with
    | [] => false
    | c2 :: q' => if Z.eqb c2 c_rbr then class_loop (Z.eqb c c_rbr) 0 q'
                  else class_loop false 0 q
    end.
End GlobClass.
(* after the '[' *)
Definition class_match (k : str -> bool) (c : Z) (q : str) : bool :=
  match q with
  | [] => false
  | c2 :: q' => if Z.eqb c2 c_caret then class_first k c true q' else class_first k c false q
  end.

Fixpoint glob (p s : str) : bool :=
  match p with
  | [] => match s with [] => true | _ => false end
  | c :: p' =>
      if Z.eqb c c_star
      then (fix star (s : str) : bool :=
              glob p' s || match s with [] => false | _ :: s' => star s' end) s
      else match s with
           | [] => false
           | d :: s' => if Z.eqb c c_lbr
                        then class_match (fun q => glob q s') d p'
                        else (Z.eqb c c_qm || Z.eqb c d) && glob p' s'
           end
  end.

Definition zmem (c : Z) (l : str) : bool := existsb (Z.eqb c) l.

(* str.split(): maximal runs of non-whitespace characters *)
Definition is_space (c : Z) : bool :=
  zmem c [32; 9; 10; 11; 12; 13; 28; 29; 30; 31; 133; 160; 5760; 8232; 8233; 8239; 8287; 12288]
  || (Z.leb 8192 c && Z.leb c 8202).
Fixpoint split_ws_aux (cur : str) (s : str) : list str :=
  match s with
  | [] => match cur with [] => [] | _ => [rev cur] end
  | c :: s' => if is_space c
               then match cur with [] => split_ws_aux [] s' | _ => rev cur :: split_ws_aux [] s' end
               else split_ws_aux (c :: cur) s'
  end.
Definition split_ws (s : str) : list str := split_ws_aux [] s.

(* a row of the lexicons table, in rowid (= insertion) order *)
Record lexrow := { lx_rowid : Z; lx_id : str; lx_version : str; lx_lang : str }.

Definition spec_of (l : lexrow) : str := lx_id l ++ [c_colon] ++ lx_version l.
Definition lang_ok (lang : option str) (l : lexrow) : bool :=
  match lang with None => true | Some g => str_eqb (lx_lang l) g end.

Definition has_meta (s : str) : bool := zmem c_star s || zmem c_qm s || zmem c_lbr s.

(* one specifier of the space-separated list *)
Definition select_one (lexs : list lexrow) (lang : option str) (spec : str) : list lexrow :=
  let only_latest := negb (zmem c_colon spec) && negb (has_meta spec) in
  let pat := if zmem c_colon spec then spec else spec ++ [c_colon; c_star] in
  let matches := filter (fun l => glob pat (spec_of l) && lang_ok lang l) lexs in
  if only_latest
  then match rev matches with [] => [] | l :: _ => [l] end   (* ORDER BY rowid DESC LIMIT 1 *)
  else matches.

(* find_lexicons(lexicon, lang): None = wn.Error *)
Definition find_lexicons (lexs : list lexrow) (lexicon : str) (lang : option str)
  : option (list lexrow) :=
  let rows := flat_map (select_one lexs lang) (split_ws lexicon) in
  match rows with
  | [] => if negb (str_eqb lexicon [c_star]) || (match lang with Some _ => true | None => false end)
          then None else Some []
  | _ => Some rows
  end.

(* Wordnet(lexicon=..., lang=...): find_lexicons(lexicon or '*', lang) *)
Definition wordnet_lexicons (lexs : list lexrow) (lexicon : option str) (lang : option str)
  : option (list lexrow) :=
  let lx := match lexicon with None | Some [] => [c_star] | Some s => s end in
  find_lexicons lexs lx lang.

(* wn.lexicons(lexicon=..., lang=...): [] instead of wn.Error *)
Definition wn_lexicons (lexs : list lexrow) (lexicon : option str) (lang : option str) : list lexrow :=
  match wordnet_lexicons lexs lexicon lang with Some l => l | None => [] end.

(* ---------- the documented selection, written without the matcher where the
   documentation names a form explicitly ---------- *)
Fixpoint split_colon (s : str) : option (str * str) :=     (* at the first ':' *)
  match s with
  | [] => None
  | c :: s' => if Z.eqb c c_colon then Some ([], s')
               else match split_colon s' with Some (a, b) => Some (c :: a, b) | None => None end
  end.

Definition latest (ls : list lexrow) : list lexrow :=      (* most recently added = last row *)
  match rev ls with [] => [] | l :: _ => [l] end.

Definition documented_one (lexs : list lexrow) (spec : str) : list lexrow :=
  if str_eqb spec [c_star] then lexs                                    (* *  : all lexicons *)
  else match split_colon spec with
       | None =>
           if has_meta spec
           then filter (fun l => glob (spec ++ [c_colon; c_star]) (spec_of l)) lexs
           else latest (filter (fun l => str_eqb (lx_id l) spec) lexs)  (* id : most recently added *)
       | Some (i, v) =>
           if negb (has_meta i) && negb (has_meta v) && negb (zmem c_colon v)
           then filter (fun l => str_eqb (lx_id l) i && str_eqb (lx_version l) v) lexs   (* id:version *)
           else if negb (has_meta i) && str_eqb v [c_star]
           then filter (fun l => str_eqb (lx_id l) i) lexs                                (* id:* *)
           else if str_eqb i [c_star] && negb (has_meta v) && negb (zmem c_colon v)
           then filter (fun l => str_eqb (lx_version l) v) lexs                           (* *:version *)
           else filter (fun l => glob spec (spec_of l)) lexs                              (* any other glob *)
       end.

Definition documented (lexs : list lexrow) (lexicon : str) (lang : option str) : list lexrow :=
  filter (lang_ok lang) (flat_map (documented_one lexs) (split_ws lexicon)).

(* ---------- wire format ----------
   case   = L [ L [ L [rowid; id; version; lang] ...]; lexicon (L [] = None | L [str]); lang (L [] | L [str]) ]
   result = L [ wordnet: A (-1) (wn.Error) | L rowids ; wn.lexicons: L rowids ] *)
Definition lexrow_of_sx (x : sx) : lexrow :=
  {| lx_rowid := sx_z (sx_nth 0 x); lx_id := sx_str (sx_nth 1 x);
     lx_version := sx_str (sx_nth 2 x); lx_lang := sx_str (sx_nth 3 x) |}.
Definition run_spec (c : sx) : sx :=
  let lexs := map lexrow_of_sx (sx_list (sx_nth 0 c)) in
  let lexicon := sx_opt sx_str (sx_nth 1 c) in
  let lang := sx_opt sx_str (sx_nth 2 c) in
  L [ match wordnet_lexicons lexs lexicon lang with
      | None => A (-1)
      | Some l => L (map (fun r => A (lx_rowid r)) l)
      end;
      L (map (fun r => A (lx_rowid r)) (wn_lexicons lexs lexicon lang)) ].
(* the order of the selected lexicons and repetitions are not part of the property: sets *)
Definition agree_spec (m i : sx) : bool :=
  match sx_nth 0 m, sx_nth 0 i with
  | A x, A y => Z.eqb x y
  | L a, L b => sx_seteq a b
  | _, _ => false
  end && sx_seteq (sx_list (sx_nth 1 m)) (sx_list (sx_nth 1 i)).
