(* IliFile.v — the text layer of wn._ili.load: from the decoded content of an ILI file
   to the list of lines, each split into its tab-separated fields, which
   [WnV.Model.Add.ili_load] / [add_ili] consume.

       def load(source):
           source = Path(source).expanduser()
           with source.open(encoding='utf-8') as fh:      # text mode, newline=None
               header = next(fh).rstrip('\r\n')
               fields = tuple(map(str.lower, header.split('\t')))
               for line in fh:
                   yield dict(zip(fields, line.rstrip('\r\n').split('\t')))

   A string is a list of Unicode code points ([str]); 9 = "\t", 10 = "\n", 13 = "\r". *)
From Coq Require Import ZArith List Bool Lia.
Import ListNotations.
Require Import WnV.Base.Sx WnV.Model.Rel WnV.Model.Add.
Local Open Scope Z_scope.

(* ====================================================================== *)
(* The model                                                              *)
(* ====================================================================== *)

(* Universal newlines on reading (newline=None): "\r\n" -> "\n", a lone "\r" -> "\n",
   "\n" stays; no other code point is touched. *)
Fixpoint translate_newlines (s : str) : str :=
  match s with
  | [] => []
  | c :: s' =>
      if c =? 13 then
        10 :: match s' with
              | [] => []
              | c' :: s'' => if c' =? 10 then translate_newlines s''
                             else translate_newlines s'
              end
      else c :: translate_newlines s'
  end.

(* Iterating over translated text: a line ends at (and includes) each 10 and nowhere
   else; a last line without a line end is yielded; text ending in 10 yields no extra
   empty line; empty text yields nothing. *)
Fixpoint split_lines (s : str) : list str :=
  match s with
  | [] => []
  | c :: s' =>
      if c =? 10 then [10] :: split_lines s'
      else match split_lines s' with
           | [] => [[c]]
           | l :: ls => (c :: l) :: ls
           end
  end.

(* list(fh) for a text-mode file object whose decoded content is [text] *)
Definition file_lines (text : str) : list str := split_lines (translate_newlines text).

(* s.rstrip('\r\n'): every trailing 10 / 13 is removed *)
Fixpoint rstrip_crlf (s : str) : str :=
  match s with
  | [] => []
  | c :: s' =>
      match rstrip_crlf s' with
      | [] => if (c =? 10) || (c =? 13) then [] else [c]
      | r => c :: r
      end
  end.

(* s.split('\t'): a split at every 9; at least one field (''.split('\t') == ['']) *)
Fixpoint split_tab (s : str) : list str :=
  match s with
  | [] => [[]]
  | c :: s' =>
      if c =? 9 then [] :: split_tab s'
      else match split_tab s' with
           | [] => [[c]]                 (* not reached: split_tab never returns [] *)
           | f :: fs => (c :: f) :: fs
           end
  end.

(* [line.rstrip('\r\n').split('\t') for line in fh], header line included *)
Definition ili_file_lines (text : str) : list (list str) :=
  map (fun l => split_tab (rstrip_crlf l)) (file_lines text).

Definition add_ili_text (d : db) (text : str) : result db := add_ili d (ili_file_lines text).

(* input: L [db; Sz text] (the decoded content of the file) *)
Definition run_add_ili_text (c : sx) : sx :=
  sx_of_result (add_ili_text (db_of_sx (sx_nth 0 c)) (sx_str (sx_nth 1 c))).

(* ---------- writing (only used to state the theorems) ---------- *)

(* '\t'.join(fs) *)
Fixpoint join_tab (fs : list str) : str :=
  match fs with
  | [] => []
  | f :: fs' => match fs' with
                | [] => f
                | _ :: _ => f ++ 9 :: join_tab fs'
                end
  end.

(* each line followed by the line end [e] *)
Definition render_lines (e : str) (ls : list str) : str := concat (map (fun l => l ++ e) ls).
(* each row written as its fields joined by tabs, followed by the line end [e] *)
Definition render_with (e : str) (rows : list (list str)) : str :=
  concat (map (fun row => join_tab row ++ e) rows).
Definition render (rows : list (list str)) : str := render_with [10] rows.

(* the three line ends universal newlines recognises *)
Definition eol (e : str) : Prop := e = [10] \/ e = [13; 10] \/ e = [13].

(* a line without line-end characters; a field without tab and line-end characters:
   every other code point may occur *)
Definition line_ok (l : str) : Prop := ~ In 10 l /\ ~ In 13 l.
Definition field_ok (f : str) : Prop := ~ In 9 f /\ ~ In 10 f /\ ~ In 13 f.

