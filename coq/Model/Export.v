(* Export.v — wn/_export.py: _precheck and _export_lexicon with everything it calls.

   The queries are those of Model/Query.v over the table records of Model/Tables.v; the
   three queries export uses that Query.v does not have are added here
   (find_syntactic_behaviours, get_metadata, get_lexicon).  The result of _export_lexicon
   is a [val] (Model/Val.v): a VDict in the key insertion order of the Python code.

   METADATA.  The harness sends the database in the projection of harness/addmodel.py
   (project_db): a metadata cell is  L [A 3; v]  with v the decoded JSON value.
   Tables.db_of_sx expects a text cell there.  [prepass] rewrites every such cell into the
   text cell  L [A 2; code v]  where [code] is an injective (prefix-free, self-delimiting)
   flattening of the wire form of v, so that Tables.db_of_sx and Query.v work unchanged and,
   because the code is injective, SELECT DISTINCT over a metadata column (the three
   get_*_relations queries) merges exactly the rows whose decoded metadata are equal —
   which, for cells written by json.dumps of a dict, are exactly the rows with equal text.
   [meta_table] collects the side table  code v -> val_of_sx v  of all metadata cells of the
   database, and [meta_cell] reads a metadata column back through it (this is what the
   'meta' sqlite3 converter, json.loads, does in the implementation).  The only function of
   Query.v that looks INSIDE the text (metadata_get, for Relation.subtype) is not used by
   export. *)
From Coq Require Import ZArith List Bool String.
Import ListNotations.
Require Import WnV.Base.Sx.
Require Import WnV.Model.Tables WnV.Model.Query WnV.Model.Val.
Local Open Scope Z_scope.

(* ------------------------------------------------------------------ metadata pre-pass *)
(* injective flattening of an sx:  A z -> 0 z ;  L l -> 1 |l| items... *)
Fixpoint code (x : sx) : str :=
  match x with
  | A z => [0; z]
  | L l => 1 :: Z.of_nat (List.length l) :: flat_map code l
  end.

Definition prepass_cell (c : sx) : sx :=
  match c with
  | L [A 3; v] => L [A 2; L (map A (code v))]
  | _ => c
  end.
Definition prepass_row (r : sx) : sx := L (map prepass_cell (sx_list r)).
Definition prepass_table (t : sx) : sx :=
  match t with
  | L [name; L rows] => L [name; L (map prepass_row rows)]
  | _ => t
  end.
Definition prepass (x : sx) : sx := L (map prepass_table (sx_list x)).

Definition meta_table_cell (c : sx) : list (str * val) :=
  match c with
  | L [A 3; v] => [(code v, val_of_sx v)]
  | _ => []
  end.
Definition meta_table (x : sx) : list (str * val) :=
  flat_map (fun t => flat_map (fun r => flat_map meta_table_cell (sx_list r)) (sx_list (sx_nth 1 t)))
           (sx_list x).

Definition mtab := list (str * val).

(* a metadata column as Python sees it: None for NULL, else json.loads of the text *)
Definition meta_cell (mt : mtab) (o : option str) : val :=
  match o with
  | None => VNone
  | Some t => match find (fun kv => str_eqb (fst kv) t) mt with
              | Some kv => snd kv
              | None => VNone
              end
  end.

(* ------------------------------------------------------------------ small helpers *)
Definition K (s : string) : str := S_ s.
Definition vos (o : option str) : val := match o with Some s => VStr s | None => VNone end.
(* x or '' *)
Definition vor (o : option str) : val := VStr (match o with Some s => s | None => [] end).

(* version_info: tuple(map(int, s.split('.'))) — plain decimal digits only *)
Definition is_digit (c : Z) : bool := Z.leb 48 c && Z.leb c 57.
Fixpoint parse_int (s : str) (acc : Z) : option Z :=
  match s with
  | [] => Some acc
  | c :: r => if is_digit c then parse_int r (acc * 10 + (c - 48)) else None
  end.
Fixpoint split_dot (s : str) (cur : str) : list str :=
  match s with
  | [] => [rev cur]
  | c :: r => if Z.eqb c 46 then rev cur :: split_dot r [] else split_dot r (c :: cur)
  end.
Fixpoint all_somes {T} (l : list (option T)) : option (list T) :=
  match l with
  | [] => Some []
  | Some x :: r => match all_somes r with Some xs => Some (x :: xs) | None => None end
  | None :: _ => None
  end.
Definition version_info (s : str) : option (list Z) :=
  all_somes (map (fun p => match p with [] => None | _ => parse_int p 0 end) (split_dot s [])).
(* tuple comparison  a <= b *)
Fixpoint zl_leb (a b : list Z) : bool :=
  match a, b with
  | [], _ => true
  | _ :: _, [] => false
  | x :: a', y :: b' => if Z.ltb x y then true else if Z.ltb y x then false else zl_leb a' b'
  end.
(* version >= (1, 1) *)
Definition ge_1_1 (version : list Z) : bool := zl_leb [1; 1] version.

(* ------------------------------------------------------------------ the missing queries *)
(* SELECT sb.id, sb.frame, s.id
     FROM syntactic_behaviours AS sb
     JOIN syntactic_behaviour_senses AS sbs ON sbs.syntactic_behaviour_rowid = sb.rowid
     JOIN senses AS s ON s.rowid = sbs.sense_rowid
    [WHERE sb.lexicon_rowid IN (...)]                      (the [id] argument is never used by export)
   Plan with lexicon rowids:
     SEARCH sb USING INDEX sqlite_autoindex_syntactic_behaviours_2 (lexicon_rowid=?)
       -- UNIQUE (lexicon_rowid, frame): per lexicon rowid (ascending), ordered by frame, then rowid
     SEARCH sbs USING INDEX syntactic_behaviour_sense_sb_index (syntactic_behaviour_rowid=?)  -- rowid order
     SEARCH s USING INTEGER PRIMARY KEY (rowid=?)
   Plan without: SCAN sbs; sb and s by primary key. *)
Definition sb_raw_rows (d : db) (lexicon_rowids : list Z) : list (option str * str * str) :=
  let sense_of (sb : syntactic_behaviour_row) (l : syntactic_behaviour_sense_row) :=
    match find_by se_rowid (sbs_sense_rowid l) (t_senses d) with
    | Some s => [(sb_id sb, sb_frame sb, se_id s)]
    | None => []
    end in
  if nonempty lexicon_rowids then
    flat_map (fun sb =>
      flat_map (sense_of sb)
        (filter (fun l => Z.eqb (sbs_syntactic_behaviour_rowid l) (sb_rowid sb))
                (t_syntactic_behaviour_senses d)))
      (flat_map (fun lx =>
         stable_sort (fun a b => str_leb (sb_frame a) (sb_frame b))
           (filter (fun sb => Z.eqb (sb_lexicon_rowid sb) lx) (t_syntactic_behaviours d)))
         (sorted_zvalues lexicon_rowids))
  else
    flat_map (fun l =>
      match find_by sb_rowid (sbs_syntactic_behaviour_rowid l) (t_syntactic_behaviours d) with
      | Some sb => sense_of sb l
      | None => []
      end) (t_syntactic_behaviour_senses d).

(* itertools.groupby(rows, lambda row: row[0:2]): maximal runs of consecutive equal (id, frame) *)
Fixpoint group_sb (rows : list (option str * str * str)) : list (option str * str * list str) :=
  match rows with
  | [] => []
  | (i, f, s) :: rest =>
      match group_sb rest with
      | (i', f', ss) :: gs =>
          if ostr_eqb i i' && str_eqb f f' then (i, f, s :: ss) :: gs
          else (i, f, [s]) :: (i', f', ss) :: gs
      | [] => [(i, f, [s])]
      end
  end.

Definition find_syntactic_behaviours (d : db) (lexicon_rowids : list Z)
  : list (option str * str * list str) :=
  group_sb (sb_raw_rows d lexicon_rowids).

(* tablename = _SANITIZED_METADATA_TABLES.get(table); wn.Error if None
   SELECT metadata FROM {tablename} WHERE rowid=?   -- .fetchone()[0] or {} : TypeError without a row *)
Definition get_metadata (d : db) (mt : mtab) (rowid : Z) (table : str) : res val :=
  let fetch {T} (key : T -> Z) (m : T -> option str) (l : list T) : res val :=
    match find_by key rowid l with
    | Some r => let v := meta_cell mt (m r) in Ok (if vtruthy v then v else VDict [])
    | None => OtherError
    end in
  if str_eqb table (K "ilis") then fetch il_rowid il_metadata (t_ilis d)
  else if str_eqb table (K "proposed_ilis") then fetch pi_rowid pi_metadata (t_proposed_ilis d)
  else if str_eqb table (K "lexicons") then fetch lex_rowid lex_metadata (t_lexicons d)
  else if str_eqb table (K "entries") then fetch en_rowid en_metadata (t_entries d)
  else if str_eqb table (K "senses") then fetch se_rowid se_metadata (t_senses d)
  else if str_eqb table (K "synsets") then fetch sy_rowid sy_metadata (t_synsets d)
  else if str_eqb table (K "sense_relations") then fetch rl_rowid rl_metadata (t_sense_relations d)
  else if str_eqb table (K "sense_synset_relations")
       then fetch rl_rowid rl_metadata (t_sense_synset_relations d)
  else if str_eqb table (K "synset_relations") then fetch rl_rowid rl_metadata (t_synset_relations d)
  else if str_eqb table (K "sense_examples") then fetch ex_rowid ex_metadata (t_sense_examples d)
  else if str_eqb table (K "counts") then fetch ct_rowid ct_metadata (t_counts d)
  else if str_eqb table (K "synset_examples") then fetch ex_rowid ex_metadata (t_synset_examples d)
  else if str_eqb table (K "definitions") then fetch df_rowid df_metadata (t_definitions d)
  else WnError.

(* SELECT DISTINCT rowid, id, label, ... FROM lexicons WHERE rowid = ?  -- LookupError without a row.
   The wn.Lexicon object handed to _export_lexicon is built from this row (_core._to_lexicon). *)
Definition get_lexicon (d : db) (rowid : Z) : res lexicon_row :=
  match find_by lex_rowid rowid (t_lexicons d) with
  | Some l => Ok l
  | None => OtherError
  end.

(* ------------------------------------------------------------------ _precheck *)
(* {lex.id} | {entry ids} | {sense ids} | {synset ids} of one lexicon, as a list *)
Definition lexicon_idset (d : db) (lex : lexicon_row) : list str :=
  let lexids := [lex_rowid lex] in
  lex_id lex
  :: map qw_id (find_entries d None [] None lexids false false)
  ++ map qs_id (find_senses d None [] None lexids false false)
  ++ map qy_id (find_synsets d None [] None None lexids false false).

(* all_ids.intersection(idset) is non-empty *)
Definition intersects (a b : list str) : bool := existsb (fun x => str_mem x b) a.

Fixpoint precheck_from (d : db) (all_ids : list str) (lexicons : list lexicon_row) : res unit :=
  match lexicons with
  | [] => Ok tt
  | lex :: rest =>
      let idset := lexicon_idset d lex in
      if intersects all_ids idset then WnError
      else precheck_from d (all_ids ++ idset) rest
  end.
Definition _precheck (d : db) (lexicons : list lexicon_row) : res unit := precheck_from d [] lexicons.

(* ------------------------------------------------------------------ _export_* *)
Definition _SBMap := list (str * (option str * str)).

(* for sbid, frame, sids in find_syntactic_behaviours(...): for sid in sids:
       sbmap.setdefault(sid, []).append((sbid, frame)) *)
Definition make_sbmap (sbs : list (option str * str * list str)) : _SBMap :=
  flat_map (fun g => match g with (sbid, frame, sids) => map (fun sid => (sid, (sbid, frame))) sids end)
           sbs.
(* sbmap.get(sid, []) *)
Definition sbmap_get (sbmap : _SBMap) (sid : str) : list (option str * str) :=
  map snd (filter (fun kv => str_eqb (fst kv) sid) sbmap).
(* sid in sbmap *)
Definition sbmap_has (sbmap : _SBMap) (sid : str) : bool :=
  existsb (fun kv => str_eqb (fst kv) sid) sbmap.

Definition _export_metadata (d : db) (mt : mtab) (rowid : Z) (table : str) : res val :=
  get_metadata d mt rowid table.

Definition _export_requires (d : db) (lexid : Z) : val :=
  VList (map (fun r => match r with
                       | (id, version, url, _) =>
                           VDict [(K "id", VStr id); (K "version", VStr version); (K "url", vos url)]
                       end)
             (get_lexicon_dependencies d lexid)).

Definition _export_pronunciations (d : db) (rowid : Z) : val :=
  VList (map (fun r => match r with
                       | (text, variety, notation, phonemic, audio) =>
                           VDict [(K "text", vos text); (K "variety", vos variety);
                                  (K "notation", vos notation); (K "phonemic", VBool phonemic);
                                  (K "audio", vos audio)]
                       end)
             (get_form_pronunciations d rowid)).

Definition _export_tags (d : db) (rowid : Z) : val :=
  VList (map (fun r => match r with
                       | (text, category) => VDict [(K "text", vos text); (K "category", vos category)]
                       end)
             (get_form_tags d rowid)).

Definition relation_val (target type : str) (metadata : val) : val :=
  VDict [(K "target", VStr target); (K "relType", VStr type); (K "meta", metadata)].

Definition _export_sense_relations (d : db) (mt : mtab) (sense_rowid : Z) (lexids : list Z)
  : res (list val) :=
  do rs <- get_sense_relations d sense_rowid [c_star_s] lexids;
  do rss <- get_sense_synset_relations d sense_rowid [c_star_s] lexids;
  Ok (map (fun r => relation_val (qs_id (qsr_sense r)) (qsr_name r) (meta_cell mt (qsr_metadata r))) rs
      ++ map (fun r => relation_val (qy_id (qyr_synset r)) (qyr_name r) (meta_cell mt (qyr_metadata r)))
             rss).

(* table is 'senses' or 'synsets'; the metadata table is f'{table[:-1]}_examples' *)
Definition _export_examples (d : db) (mt : mtab) (rowid : Z) (table : str) (lexids : list Z)
  : res (list val) :=
  do exs <- get_examples d rowid table lexids;
  mapM (fun e => match e with
                 | (text, language, erowid) =>
                     do m <- _export_metadata d mt erowid (removelast table ++ K "_examples");
                     Ok (VDict [(K "text", vos text); (K "language", vos language); (K "meta", m)])
                 end) exs.

Definition _export_counts (d : db) (mt : mtab) (rowid : Z) (lexids : list Z) : res (list val) :=
  mapM (fun c => match c with
                 | (v, id) =>
                     do m <- _export_metadata d mt id (K "counts");
                     Ok (VDict [(K "value", VInt v); (K "meta", m)])
                 end)
       (get_sense_counts d rowid lexids).

(* sorted(sbid for sbid, _ in sbmap[id] if sbid) *)
Definition subcat_of (sbmap : _SBMap) (id : str) : list str :=
  stable_sort str_leb
    (flat_map (fun p => match fst p with
                        | Some (c :: s) => [c :: s]
                        | _ => []
                        end) (sbmap_get sbmap id)).

Definition _export_sense (d : db) (mt : mtab) (lexids : list Z) (sbmap : _SBMap) (v11 : bool)
           (q : q_sense) : res val :=
  let id := qs_id q in
  let rowid := qs_rowid q in
  do relations <- _export_sense_relations d mt rowid lexids;
  do examples <- _export_examples d mt rowid s_senses lexids;
  do counts <- _export_counts d mt rowid lexids;
  do lexicalized <- get_lexicalized d rowid s_senses;
  do meta <- _export_metadata d mt rowid s_senses;
  Ok (VDict ([(K "id", VStr id);
              (K "synset", VStr (qs_synset_id q));
              (K "relations", VList relations);
              (K "examples", VList examples);
              (K "counts", VList counts);
              (K "lexicalized", VBool lexicalized);
              (K "adjposition", vor (get_adjposition d rowid));
              (K "meta", meta)]
             ++ (if v11 && sbmap_has sbmap id
                 then [(K "subcat", VList (map VStr (subcat_of sbmap id)))] else []))).

Definition _export_senses (d : db) (mt : mtab) (entry_rowid : Z) (lexids : list Z) (sbmap : _SBMap)
           (v11 : bool) : res (list val) :=
  mapM (_export_sense d mt lexids sbmap v11) (get_entry_senses d entry_rowid lexids).

(* sense_ids = [s['id'] for s in entry['senses']]
   sbs: frame -> set of sense ids, in order of first appearance of the frame
   one {'subcategorizationFrame', 'senses': sorted(sids)} per frame *)
Definition _export_syntactic_behaviours_1_0 (sense_ids : list str) (sbmap : _SBMap) : list val :=
  let pairs := flat_map (fun sid => map (fun p => (snd p, sid)) (sbmap_get sbmap sid)) sense_ids in
  map (fun frame =>
         VDict [(K "subcategorizationFrame", VStr frame);
                (K "senses",
                 VList (map VStr (sorted_values
                                    (map snd (filter (fun p => str_eqb (fst p) frame) pairs)))))])
      (dedup str_eqb (map fst pairs)).

Definition form_val (d : db) (v11 : bool) (f : q_form) : val :=
  VDict ([(K "id", vor (qf_id f));
          (K "writtenForm", VStr (qf_form f));
          (K "script", vor (qf_script f));
          (K "tags", _export_tags d (qf_rowid f))]
         ++ (if v11 then [(K "pronunciations", _export_pronunciations d (qf_rowid f))] else [])).

Definition sense_val_id (s : val) : str :=
  match vget s (K "id") with VStr i => i | _ => [] end.

Definition _export_entry (d : db) (mt : mtab) (lexids : list Z) (sbmap : _SBMap) (v11 : bool)
           (w : q_word) : res val :=
  match qw_forms w with
  | [] => OtherError          (* forms[0]: IndexError — find_entries never yields this *)
  | f0 :: others =>
      do senses <- _export_senses d mt (qw_rowid w) lexids sbmap v11;
      do meta <- _export_metadata d mt (qw_rowid w) (K "entries");
      Ok (VDict ([(K "id", VStr (qw_id w));
                  (K "lemma",
                   VDict ([(K "writtenForm", VStr (qf_form f0));
                           (K "partOfSpeech", VStr (qw_pos w));
                           (K "script", vor (qf_script f0));
                           (K "tags", _export_tags d (qf_rowid f0))]
                          ++ (if v11
                              then [(K "pronunciations", _export_pronunciations d (qf_rowid f0))]
                              else [])));
                  (K "forms", VList (map (form_val d v11) others));
                  (K "senses", VList senses);
                  (K "meta", meta)]
                 ++ (if v11 then []
                     else [(K "frames",
                            VList (_export_syntactic_behaviours_1_0 (map sense_val_id senses) sbmap))])))
  end.

Definition _export_lexical_entries (d : db) (mt : mtab) (lexids : list Z) (sbmap : _SBMap)
           (v11 : bool) : res (list val) :=
  mapM (_export_entry d mt lexids sbmap v11) (find_entries d None [] None lexids false false).

Definition _export_definitions (d : db) (mt : mtab) (rowid : Z) (lexids : list Z) : res (list val) :=
  mapM (fun r => match r with
                 | (text, language, sense_id, drowid) =>
                     do m <- _export_metadata d mt drowid (K "definitions");
                     Ok (VDict [(K "text", vos text); (K "language", vos language);
                                (K "sourceSense", vos sense_id); (K "meta", m)])
                 end)
       (get_definitions d rowid lexids).

(* next(find_proposed_ilis(synset_rowid=synset_rowid), (None, None, None, None)) *)
Definition first_proposed_ili (d : db) (synset_rowid : Z) : option q_ili :=
  hd_opt (find_proposed_ilis d (Some synset_rowid) []).

Definition _export_ili_definition (d : db) (mt : mtab) (synset_rowid : Z) : res (option val) :=
  match first_proposed_ili d synset_rowid with
  | Some p =>
      if truthy (qi_definition p) then
        do meta <- _export_metadata d mt (qi_rowid p) (K "proposed_ilis");
        Ok (Some (VDict [(K "text", vos (qi_definition p)); (K "meta", meta)]))
      else Ok None
  | None => Ok None
  end.

Definition _export_synset_relations (d : db) (mt : mtab) (synset_rowid : Z) (lexids : list Z)
  : res (list val) :=
  do rs <- get_synset_relations d [synset_rowid] [c_star_s] lexids;
  Ok (map (fun r => relation_val (qy_id (qyr_synset r)) (qyr_name r) (meta_cell mt (qyr_metadata r))) rs).

(* if not ili and next(find_proposed_ilis(synset_rowid=rowid), None) is not None: ili = 'in'
   ... 'ili': ili or '' *)
Definition synset_ili (d : db) (q : q_synset) : str :=
  if negb (truthy (qy_ili q)) && nonempty (find_proposed_ilis d (Some (qy_rowid q)) [])
  then K "in"
  else match qy_ili q with Some s => s | None => [] end.

Definition _export_synset (d : db) (mt : mtab) (lexids : list Z) (v11 : bool) (q : q_synset)
  : res val :=
  let rowid := qy_rowid q in
  do ilidef <- _export_ili_definition d mt rowid;
  do definitions <- _export_definitions d mt rowid lexids;
  do relations <- _export_synset_relations d mt rowid lexids;
  do examples <- _export_examples d mt rowid s_synsets lexids;
  do lexicalized <- get_lexicalized d rowid s_synsets;
  do meta <- _export_metadata d mt rowid s_synsets;
  Ok (VDict ([(K "id", VStr (qy_id q));
              (K "ili", VStr (synset_ili d q));
              (K "partOfSpeech", vos (qy_pos q));
              (K "definitions", VList definitions);
              (K "relations", VList relations);
              (K "examples", VList examples);
              (K "lexicalized", VBool lexicalized);
              (K "lexfile", vor (get_lexfile d rowid));
              (K "meta", meta)]
             ++ (match ilidef with Some v => [(K "ili_definition", v)] | None => [] end)
             ++ (if v11
                 then [(K "members", VList (map (fun m => VStr (qs_id m))
                                                (get_synset_members d rowid lexids)))]
                 else []))).

Definition _export_synsets (d : db) (mt : mtab) (lexids : list Z) (v11 : bool) : res (list val) :=
  mapM (_export_synset d mt lexids v11) (find_synsets d None [] None None lexids false false).

Definition _export_syntactic_behaviours_1_1 (d : db) (lexids : list Z) : val :=
  VList (map (fun g => match g with
                       | (id, frame, _) =>
                           VDict [(K "id", vor id); (K "subcategorizationFrame", VStr frame)]
                       end)
             (find_syntactic_behaviours d lexids)).

Definition _export_lexicon (d : db) (mt : mtab) (lexicon : lexicon_row) (version : list Z) : res val :=
  let lexids := [lex_rowid lexicon] in
  let v11 := ge_1_1 version in
  let sbmap := make_sbmap (find_syntactic_behaviours d lexids) in
  do entries <- _export_lexical_entries d mt lexids sbmap v11;
  do synsets <- _export_synsets d mt lexids v11;
  do meta <- _export_metadata d mt (lex_rowid lexicon) (K "lexicons");
  Ok (VDict ([(K "id", VStr (lex_id lexicon));
              (K "label", VStr (lex_label lexicon));
              (K "language", VStr (lex_language lexicon));
              (K "email", VStr (lex_email lexicon));
              (K "license", VStr (lex_license lexicon));
              (K "version", VStr (lex_version lexicon));
              (K "url", vor (lex_url lexicon));
              (K "citation", vor (lex_citation lexicon));
              (K "entries", VList entries);
              (K "synsets", VList synsets);
              (K "meta", meta)]
             ++ (if v11
                 then [(K "logo", vor (lex_logo lexicon));
                       (K "requires", _export_requires d (lex_rowid lexicon));
                       (K "frames", _export_syntactic_behaviours_1_1 d lexids)]
                 else []))).

(* ------------------------------------------------------------------ wire *)
Definition sx_of_res (r : res val) : sx :=
  match r with
  | Ok v => sx_of_val v
  | WnError => L [A (-1)]
  | OtherError => L [A (-5)]
  | OutOfFuel => L [A (-9)]
  end.

(* L [db; A lexicon_rowid; Sz version] -> the exported lexicon *)
Definition run_export (x : sx) : sx :=
  let dbx := sx_nth 0 x in
  let d := db_of_sx (prepass dbx) in
  let mt := meta_table dbx in
  sx_of_res
    (match version_info (sx_str (sx_nth 2 x)) with
     | None => OtherError
     | Some version =>
         do lexicon <- get_lexicon d (sx_z (sx_nth 1 x));
         _export_lexicon d mt lexicon version
     end).
