(* Model/Add.v — executable transliteration of wn/_add.py: add_lexical_resource,
   remove and the loading of an ILI file, over the relational library [Rel].
   The Python / SQL being modelled is quoted in the comments.  Resources are
   [val]ues with the dictionary shapes wn.lmf.load() returns.

   Conventions
   * [d[k]] on an absent key (KeyError) or on a non-dictionary (TypeError) is
     [OtherError]; [d.get(k)] is [vget] (None when absent).
   * list-valued keys ([entries], [senses], [relations] ...) are read with [vlist]
     ([.get(k, [])]); a present value that is not a list counts as the empty list.
   * a batched [executemany] is a left-to-right pass inserting row by row: each
     scalar sub-select sees the rows inserted before it in the same statement list.
     A Python exception while building the list of bound values and an IntegrityError
     while inserting are the same outcome ([OtherError]), so they are not ordered
     against each other; wn.Error (only raised by _insert_sense_relations and by
     find_lexicons) is raised at exactly the point the code raises it. *)
From Coq Require Import ZArith List Bool.
Import ListNotations.
Require Import WnV.Base.Sx WnV.Gen.Schema WnV.Gen.Constants WnV.Model.Spec.
Require Import WnV.Model.Val.
Require Import WnV.Model.Rel.
From Coq Require Import String.
Import ListNotations.
Local Open Scope Z_scope.
Local Open Scope string_scope.

(* ---------- strings, dictionaries ---------- *)
Definition k (s : string) : str := str_of_string s.

(* d[key] *)
Definition vreq (d : val) (key : string) : result val :=
  if vhas d (k key) then Ok (vget d (k key)) else OtherError.
(* d.get(key) *)
Definition vgetk (d : val) (key : string) : val := vget d (k key).
(* d.get(key, default) *)
Definition vget_def (d : val) (key : string) (def : val) : val :=
  if vhas d (k key) then vget d (k key) else def.
(* d.get(key, []) *)
Definition vlistk (d : val) (key : string) : list val := vlist d (k key).
Definition vs (s : string) : val := VStr (k s).

(* a Python value bound to a '?' / ':name' placeholder: None -> NULL, bool -> 0/1, int, str,
   dict -> the adapter's JSON text (kept as the value); a list is not a supported
   type (sqlite3.InterfaceError / ProgrammingError) *)
Definition param (v : val) : result cell :=
  match v with
  | VNone => Ok CNull
  | VBool b => Ok (CInt (if b then 1 else 0))
  | VInt n => Ok (CInt n)
  | VStr s => Ok (CText s)
  | VDict _ => Ok (CMeta v)
  | VList _ => OtherError
  end.
Definition preq (d : val) (key : string) : result cell := v <- vreq d key ;; param v.

(* str(x) inside an f-string *)
Definition pystr (v : val) : str :=
  match v with
  | VStr s => s
  | VInt n => dec_of_Z n
  | VNone => k "None"
  | VBool true => k "True"
  | VBool false => k "False"
  | VList _ => k "[...]"
  | VDict _ => k "{...}"
  end.
(* format_lexicon_specifier(id, version) = f"{id}:{version}" *)
Definition format_lexicon_specifier (id version : val) : str :=
  (pystr id ++ [c_colon] ++ pystr version)%list.

(* association lists as Python dicts: assignment keeps the position of an existing key *)
Fixpoint dict_set {V} (d : list (val * V)) (key : val) (v : V) : list (val * V) :=
  match d with
  | [] => [(key, v)]
  | (k', v') :: r => if val_eqb k' key then (k', v) :: r else (k', v') :: dict_set r key v
  end.
Definition dict_get {V} (d : list (val * V)) (key : val) : option V :=
  match find (fun kv => val_eqb (fst kv) key) d with
  | Some kv => Some (snd kv)
  | None => None
  end.
Definition dict_has {V} (d : list (val * V)) (key : val) : bool :=
  existsb (fun kv => val_eqb (fst kv) key) d.

Fixpoint enumerate_from {T} (i : Z) (l : list T) : list (Z * T) :=
  match l with
  | [] => []
  | x :: l' => (i, x) :: enumerate_from (i + 1) l'
  end.

(* ---------- sorted(set(...)) ---------- *)
Fixpoint str_ltb (a b : str) : bool :=      (* Python's < on str: by code point *)
  match a, b with
  | [], [] => false
  | [], _ :: _ => true
  | _ :: _, [] => false
  | x :: a', y :: b' => Z.ltb x y || (Z.eqb x y && str_ltb a' b')
  end.
Fixpoint insert_sorted (x : str) (l : list str) : list str :=   (* set insertion *)
  match l with
  | [] => [x]
  | y :: l' => if str_eqb x y then l
               else if str_ltb x y then x :: l
               else y :: insert_sorted x l'
  end.
Definition sorted_strs (l : list str) : list str := fold_left (fun acc x => insert_sorted x acc) l [].
Fixpoint all_strs (l : list val) : option (list str) :=
  match l with
  | [] => Some []
  | VStr s :: l' => match all_strs l' with Some r => Some (s :: r) | None => None end
  | _ :: _ => None
  end.
Definition dedupe_vals (l : list val) : list val :=
  fold_left (fun acc x => if existsb (val_eqb x) acc then acc else (acc ++ [x])%list) l [].
(* sorted(set(l)): strings are ordered by code point.  A set holding values that are
   not all strings is only supported when it has at most one element (sorting a mix
   of None and str raises TypeError; lists and dicts are unhashable). *)
Definition sorted_set (l : list val) : result (list val) :=
  match all_strs l with
  | Some ss => Ok (map VStr (sorted_strs ss))
  | None =>
      if existsb (fun v => match v with VList _ | VDict _ => true | _ => false end) l
      then OtherError
      else match dedupe_vals l with
           | [] => Ok []
           | [v] => Ok [v]
           | _ => OtherError
           end
  end.

Example sorted_set_ex :
  sorted_set [vs "hyponym"; vs "also"; vs "hyponym"; vs "Zed"] = Ok [vs "Zed"; vs "also"; vs "hyponym"].
Proof. vm_compute. reflexivity. Qed.
Example sorted_set_mixed : sorted_set [vs "a"; VNone] = OtherError.
Proof. vm_compute. reflexivity. Qed.
Example format_lexicon_specifier_ex : format_lexicon_specifier (vs "ewn") (vs "2020") = k "ewn:2020".
Proof. vm_compute. reflexivity. Qed.

(* ---------- _batch ---------- *)
(* def _batch(sequence): successive lists of at most BATCH_SIZE items, order preserved *)
Fixpoint batch_go {T} (n : nat) (room : nat) (cur : list T) (l : list T) : list (list T) :=
  match l with
  | [] => match cur with [] => [] | _ => [rev cur] end
  | x :: l' =>
      match room with
      | O => rev cur :: batch_go n (pred n) [x] l'
      | S room' => batch_go n room' (x :: cur) l'
      end
  end.
Definition batch_n {T} (n : nat) (l : list T) : list (list T) :=
  match n with O => [] | _ => batch_go n n [] l end.
Definition _batch {T} (l : list T) : list (list T) := batch_n (Z.to_nat BATCH_SIZE) l.

Example batch_n_ex : batch_n 2 [1; 2; 3; 4; 5] = [[1; 2]; [3; 4]; [5]].
Proof. reflexivity. Qed.
Example batch_n_exact : batch_n 2 [1; 2; 3; 4] = [[1; 2]; [3; 4]].
Proof. reflexivity. Qed.
Example batch_n_empty : batch_n 2 (@nil Z) = [].
Proof. reflexivity. Qed.

(* ---------- helpers at the end of _add.py ---------- *)
(* def _entries(lex): return lex.get('entries', []) *)
Definition _entries (lex : val) : list val := vlistk lex "entries".
(* def _forms(e): return e.get('forms', []) *)
Definition _forms (e : val) : list val := vlistk e "forms".
(* def _senses(e): return e.get('senses', []) *)
Definition _senses (e : val) : list val := vlistk e "senses".
(* def _synsets(lex): return lex.get('synsets', []) *)
Definition _synsets (lex : val) : list val := vlistk lex "synsets".
(* def _is_external(x): return x.get('external', False) is True *)
Definition _is_external (x : val) : bool :=
  match vgetk x "external" with VBool true => true | _ => false end.
Definition _local_synsets (l : list val) : list val := filter (fun x => negb (_is_external x)) l.
Definition _local_entries (l : list val) : list val := filter (fun x => negb (_is_external x)) l.
Definition _local_senses (l : list val) : list val := filter (fun x => negb (_is_external x)) l.

(* ---------- the query constants ---------- *)
(* a value compared with a TEXT column takes the column's affinity *)
Definition as_text (c : cell) : cell := coerce "TEXT" c.
(* SELECT e.rowid FROM entries AS e WHERE e.id = ? AND e.lexicon_rowid = ? *)
Definition ENTRY_QUERY (d : db) (id lid : cell) : cell :=
  let i := col_index "entries" "id" in
  let j := col_index "entries" "lexicon_rowid" in
  select_rowid d "entries" (fun r => sql_eq (cell_at i r) (as_text id) && sql_eq (cell_at j r) lid).
(* SELECT s.rowid FROM senses AS s WHERE s.id = ? AND s.lexicon_rowid = ? *)
Definition SENSE_QUERY (d : db) (id lid : cell) : cell :=
  let i := col_index "senses" "id" in
  let j := col_index "senses" "lexicon_rowid" in
  select_rowid d "senses" (fun r => sql_eq (cell_at i r) (as_text id) && sql_eq (cell_at j r) lid).
(* SELECT ss.rowid FROM synsets AS ss WHERE ss.id = ? AND ss.lexicon_rowid = ? *)
Definition SYNSET_QUERY (d : db) (id lid : cell) : cell :=
  let i := col_index "synsets" "id" in
  let j := col_index "synsets" "lexicon_rowid" in
  select_rowid d "synsets" (fun r => sql_eq (cell_at i r) (as_text id) && sql_eq (cell_at j r) lid).
(* SELECT rt.rowid FROM relation_types AS rt WHERE rt.type = ? *)
Definition RELTYPE_QUERY (d : db) (ty : cell) : cell :=
  let i := col_index "relation_types" "type" in
  select_rowid d "relation_types" (fun r => sql_eq (cell_at i r) (as_text ty)).
(* SELECT ist.rowid FROM ili_statuses AS ist WHERE ist.status = ? *)
Definition ILISTAT_QUERY (d : db) (st : cell) : cell :=
  let i := col_index "ili_statuses" "status" in
  select_rowid d "ili_statuses" (fun r => sql_eq (cell_at i r) (as_text st)).
(* SELECT lf.rowid FROM lexfiles AS lf WHERE lf.name = ? *)
Definition LEXFILE_QUERY (d : db) (name : cell) : cell :=
  let i := col_index "lexfiles" "name" in
  select_rowid d "lexfiles" (fun r => sql_eq (cell_at i r) (as_text name)).
(* SELECT f.rowid FROM forms AS f JOIN entries AS e ON f.entry_rowid = e.rowid
    WHERE e.id = ? AND e.lexicon_rowid = ? AND (f.id = ? OR f.rank = ?)
   (entries are UNIQUE on (id, lexicon_rowid); the forms of the entry in rowid order) *)
Definition FORM_QUERY (d : db) (eid lid fid rank : cell) : cell :=
  let ei := col_index "entries" "id" in
  let el := col_index "entries" "lexicon_rowid" in
  let fe := col_index "forms" "entry_rowid" in
  let fi := col_index "forms" "id" in
  let fr := col_index "forms" "rank" in
  let es := map rowid_of (select_rows d "entries"
                            (fun r => sql_eq (cell_at ei r) (as_text eid) && sql_eq (cell_at el r) lid)) in
  let forms := get_table d "forms" in
  match flat_map (fun e => filter (fun f => sql_eq (cell_at fe f) (CInt e)
                                          && (sql_eq (cell_at fi f) (as_text fid) || sql_eq (cell_at fr f) rank))
                                  forms) es with
  | f :: _ => CInt (rowid_of f)
  | [] => CNull
  end.
(* SELECT rowid FROM lexicons WHERE id = :id AND version = :version *)
Definition LEXICON_QUERY (d : db) (id version : cell) : cell :=
  let i := col_index "lexicons" "id" in
  let j := col_index "lexicons" "version" in
  select_rowid d "lexicons" (fun r => sql_eq (cell_at i r) (as_text id)
                                        && sql_eq (cell_at j r) (as_text version)).

(* the column positions relied upon exist in the schema *)
Example used_columns_exist :
  forallb (fun tc => col_exists (fst tc) (snd tc))
    [("entries", "id"); ("entries", "lexicon_rowid"); ("senses", "id"); ("senses", "lexicon_rowid");
     ("synsets", "id"); ("synsets", "lexicon_rowid"); ("relation_types", "type");
     ("ili_statuses", "status"); ("lexfiles", "name"); ("forms", "entry_rowid"); ("forms", "id");
     ("forms", "rank"); ("lexicons", "id"); ("lexicons", "version"); ("lexicons", "language");
     ("ilis", "id"); ("ilis", "status_rowid"); ("ilis", "definition");
     ("lexicon_dependencies", "provider_id"); ("lexicon_dependencies", "provider_version");
     ("lexicon_dependencies", "provider_rowid");
     ("lexicon_extensions", "extension_rowid"); ("lexicon_extensions", "base_rowid");
     ("syntactic_behaviours", "lexicon_rowid"); ("syntactic_behaviours", "frame")] = true.
Proof. vm_compute. reflexivity. Qed.
(* the VALUES lists below follow the declaration order of the data columns *)
Example values_order :
  map (fun t => map col_name (data_columns t))
      ["lexicons"; "lexicon_dependencies"; "lexicon_extensions"; "ilis"; "proposed_ilis"; "synsets";
       "entries"; "forms"; "pronunciations"; "tags"; "senses"; "adjpositions"; "counts";
       "syntactic_behaviours"; "syntactic_behaviour_senses"; "synset_relations"; "sense_relations";
       "sense_synset_relations"; "definitions"; "sense_examples"; "synset_examples";
       "relation_types"; "ili_statuses"; "lexfiles"]
  = [ ["id"; "label"; "language"; "email"; "license"; "version"; "url"; "citation"; "logo";
       "metadata"; "modified"];
      ["dependent_rowid"; "provider_id"; "provider_version"; "provider_url"; "provider_rowid"];
      ["extension_rowid"; "base_id"; "base_version"; "base_url"; "base_rowid"];
      ["id"; "status_rowid"; "definition"; "metadata"];
      ["synset_rowid"; "definition"; "metadata"];
      ["id"; "lexicon_rowid"; "ili_rowid"; "pos"; "lexicalized"; "lexfile_rowid"; "metadata"];
      ["id"; "lexicon_rowid"; "pos"; "metadata"];
      ["id"; "lexicon_rowid"; "entry_rowid"; "form"; "normalized_form"; "script"; "rank"];
      ["form_rowid"; "value"; "variety"; "notation"; "phonemic"; "audio"];
      ["form_rowid"; "tag"; "category"];
      ["id"; "lexicon_rowid"; "entry_rowid"; "entry_rank"; "synset_rowid"; "synset_rank";
       "lexicalized"; "metadata"];
      ["sense_rowid"; "adjposition"];
      ["lexicon_rowid"; "sense_rowid"; "count"; "metadata"];
      ["id"; "lexicon_rowid"; "frame"];
      ["syntactic_behaviour_rowid"; "sense_rowid"];
      ["lexicon_rowid"; "source_rowid"; "target_rowid"; "type_rowid"; "metadata"];
      ["lexicon_rowid"; "source_rowid"; "target_rowid"; "type_rowid"; "metadata"];
      ["lexicon_rowid"; "source_rowid"; "target_rowid"; "type_rowid"; "metadata"];
      ["lexicon_rowid"; "synset_rowid"; "definition"; "language"; "sense_rowid"; "metadata"];
      ["lexicon_rowid"; "sense_rowid"; "example"; "language"; "metadata"];
      ["lexicon_rowid"; "synset_rowid"; "example"; "language"; "metadata"];
      ["type"]; ["status"]; ["name"] ].
Proof. vm_compute. reflexivity. Qed.

(* ---------- _precheck ---------- *)
(* lexqry = 'SELECT * FROM lexicons WHERE id = :id AND version = :version'
   executed with a dictionary: the placeholders :id and :version must be bound *)
Definition lexqry (d : db) (info : val) : result bool :=
  id <- preq info "id" ;;
  version <- preq info "version" ;;
  Ok (negb (is_null (LEXICON_QUERY d id version))).

Definition skipmap_t := list (val * bool).

(* def _precheck(infos, progress) -> dict[str, bool] *)
Definition _precheck (infos : list val) (d : db) : result skipmap_t :=
  foldM (fun (skipmap : skipmap_t) (info : val) =>
           (* key = format_lexicon_specifier(info['id'], info['version']) *)
           id <- vreq info "id" ;;
           version <- vreq info "version" ;;
           let key := VStr (format_lexicon_specifier id version) in
           (* base = info.get('extends') *)
           let base := vgetk info "extends" in
           (* skipmap[key] = False *)
           let skipmap := dict_set skipmap key false in
           (* if cur.execute(lexqry, info).fetchone(): skipmap[key] = True *)
           present <- lexqry d info ;;
           if present then Ok (dict_set skipmap key true)
           (* elif base and cur.execute(lexqry, base).fetchone() is None: skipmap[key] = True *)
           else if vtruthy base then
                  base_present <- lexqry d base ;;
                  if base_present then Ok skipmap else Ok (dict_set skipmap key true)
                else Ok skipmap)
        infos [].

(* ---------- _update_lookup_tables ---------- *)
Definition _update_lookup_tables (lexicon : val) (d : db) : result db :=
  (* reltypes = set(rel['relType'] for ss in _synsets(lexicon) for rel in ss.get('relations', [])) *)
  rt1 <- concatM (fun ss => mapM (fun rel => vreq rel "relType") (vlistk ss "relations"))
                 (_synsets lexicon) ;;
  (* reltypes.update(rel['relType'] for e in _entries(lexicon) for s in _senses(e)
                                    for rel in s.get('relations', [])) *)
  rt2 <- concatM (fun e => concatM (fun s => mapM (fun rel => vreq rel "relType") (vlistk s "relations"))
                                   (_senses e))
                 (_entries lexicon) ;;
  reltypes <- sorted_set (rt1 ++ rt2)%list ;;
  (* cur.executemany('INSERT OR IGNORE INTO relation_types VALUES (null,?)',
                     [(rt,) for rt in sorted(reltypes)]) *)
  d <- foldM (fun d rt => c <- param rt ;; Ok (insert_or_ignore d "relation_types" [c])) reltypes d ;;
  (* lexfiles = {ss.get('lexfile', '') for ss in _local_synsets(_synsets(lexicon)) if ss.get('lexfile')} *)
  lexfiles <- sorted_set (map (fun ss => vget_def ss "lexfile" (vs ""))
                              (filter (fun ss => vtruthy (vgetk ss "lexfile"))
                                      (_local_synsets (_synsets lexicon)))) ;;
  (* cur.executemany('INSERT OR IGNORE INTO lexfiles VALUES (null,?)', [(lf,) for lf in sorted(lexfiles)]) *)
  foldM (fun d lf => c <- param lf ;; Ok (insert_or_ignore d "lexfiles" [c])) lexfiles d.

(* ---------- _insert_lexicon ---------- *)
(* INSERT INTO {table} VALUES (:lid, :id, :version, :url,
          (SELECT rowid FROM lexicons WHERE id=:id AND version=:version))
   param_dict = dict(dep); param_dict.setdefault('url', None); param_dict['lid'] = lexid *)
Definition insert_lexicon_link (d : db) (table : string) (lexid : Z) (dep : val) : result db :=
  match dep with
  | VDict _ =>
      id <- preq dep "id" ;;
      version <- preq dep "version" ;;
      url <- param (vgetk dep "url") ;;
      insert d table [CInt lexid; id; version; url; LEXICON_QUERY d id version]
  | _ => OtherError
  end.

(* def _insert_lexicon(lexicon, cur, progress) -> tuple[int, int] *)
Definition _insert_lexicon (lexicon : val) (d : db) : result (db * Z * Z) :=
  (* INSERT INTO lexicons VALUES (null,?,?,?,?,?,?,?,?,?,?,?) *)
  id <- preq lexicon "id" ;;
  label <- preq lexicon "label" ;;
  language <- preq lexicon "language" ;;
  email <- preq lexicon "email" ;;
  license <- preq lexicon "license" ;;
  version <- preq lexicon "version" ;;
  url <- param (vgetk lexicon "url") ;;
  citation <- param (vgetk lexicon "citation") ;;
  logo <- param (vgetk lexicon "logo") ;;
  meta <- param (vgetk lexicon "meta") ;;
  '(d, lexid) <- insert_rowid d "lexicons"
                   [id; label; language; email; license; version; url; citation; logo; meta; CInt 0] ;;
  (* UPDATE lexicon_dependencies SET provider_rowid = ?
      WHERE provider_id = ? AND provider_version = ? *)
  let pi := col_index "lexicon_dependencies" "provider_id" in
  let pv := col_index "lexicon_dependencies" "provider_version" in
  d <- update d "lexicon_dependencies"
              (fun r => sql_eq (cell_at pi r) (as_text id) && sql_eq (cell_at pv r) (as_text version))
              [("provider_rowid", CInt lexid)] ;;
  (* for dep in lexicon.get('requires', []): ... executemany(lexicon_dependencies) *)
  d <- foldM (fun d dep => insert_lexicon_link d "lexicon_dependencies" lexid dep)
             (vlistk lexicon "requires") d ;;
  (* if lexicon.get('extends'): *)
  let extends := vgetk lexicon "extends" in
  if vtruthy extends then
    d <- insert_lexicon_link d "lexicon_extensions" lexid extends ;;
    (* extid = cur.execute('SELECT rowid FROM lexicons WHERE id=? AND version=?', ...).fetchone()[0] *)
    bid <- preq extends "id" ;;
    bversion <- preq extends "version" ;;
    match LEXICON_QUERY d bid bversion with
    | CInt extid => Ok (d, lexid, extid)
    | _ => OtherError                 (* None[0]: TypeError *)
    end
  else
    (* extid = lexid *)
    Ok (d, lexid, lexid).

(* ---------- _build_lexid_map ---------- *)
Definition lexidmap_t := list (val * Z).
(* lexidmap.get(x, lexid) *)
Definition lexidmap_get (m : lexidmap_t) (x : val) (lexid : Z) : cell :=
  match dict_get m x with Some e => CInt e | None => CInt lexid end.

(* def _build_lexid_map(lexicon, lexid, extid) -> dict[str, int] *)
Definition _build_lexid_map (lexicon : val) (lexid extid : Z) : result lexidmap_t :=
  if Z.eqb lexid extid then Ok []
  else
    (* lexidmap.update((e['id'], extid) for e in _entries(lexicon) if _is_external(e)) *)
    ids1 <- mapM (fun e => vreq e "id") (filter _is_external (_entries lexicon)) ;;
    (* lexidmap.update((s['id'], extid) for e in _entries(lexicon) for s in _senses(e) if _is_external(s)) *)
    ids2 <- concatM (fun e => mapM (fun s => vreq s "id") (filter _is_external (_senses e)))
                    (_entries lexicon) ;;
    (* lexidmap.update((ss['id'], extid) for ss in _synsets(lexicon) if _is_external(ss)) *)
    ids3 <- mapM (fun ss => vreq ss "id") (filter _is_external (_synsets lexicon)) ;;
    Ok (fold_left (fun m id => dict_set m id extid) (ids1 ++ ids2 ++ ids3)%list []).

(* ---------- _insert_synsets ---------- *)
(* defn = ss.get('ili_definition'); text = defn['text'] if defn else None;
   meta = defn['meta'] if defn else None *)
Definition ili_definition_cells (ss : val) : result (cell * cell) :=
  let defn := vgetk ss "ili_definition" in
  if vtruthy defn then
    text <- preq defn "text" ;;
    meta <- preq defn "meta" ;;
    Ok (text, meta)
  else Ok (CNull, CNull).

Definition is_in (ili : val) : bool := val_eqb ili (vs "in").

(* def _insert_synsets(synsets, lexid, cur, progress) *)
Definition _insert_synsets (synsets : list val) (lexid : Z) (d : db) : result db :=
  let ilis_id := col_index "ilis" "id" in
  (* for batch in _batch(_local_synsets(synsets)): *)
  foldM (fun d (b : list val) =>
    (* first add presupposed ILIs:
       INSERT OR IGNORE INTO ilis VALUES (null,?,({ILISTAT_QUERY}),?,?)
       for ss in batch: ili = ss['ili']; if ili and ili != 'in':
           pre_ili_data.append((ili, 'presupposed', text, meta)) *)
    d <- foldM (fun d ss =>
                  ili <- vreq ss "ili" ;;
                  if vtruthy ili && negb (is_in ili) then
                    '(text, meta) <- ili_definition_cells ss ;;
                    ilic <- param ili ;;
                    Ok (insert_or_ignore d "ilis"
                          [ilic; ILISTAT_QUERY d (CText (k "presupposed")); text; meta])
                  else Ok d) b d ;;
    (* then add synsets:
       INSERT INTO synsets
       VALUES (null,?,?,(SELECT rowid FROM ilis WHERE id=?),?,?,({LEXFILE_QUERY}),?)
       (ss['id'], lexid, ss['ili'] if ss['ili'] and ss['ili'] != 'in' else None,
        ss['partOfSpeech'], ss.get('lexicalized', True), ss.get('lexfile'), ss['meta']) *)
    d <- foldM (fun d ss =>
                  id <- preq ss "id" ;;
                  ili <- vreq ss "ili" ;;
                  ilic <- (if vtruthy ili && negb (is_in ili) then param ili else Ok CNull) ;;
                  pos <- preq ss "partOfSpeech" ;;
                  lexicalized <- param (vget_def ss "lexicalized" (VBool true)) ;;
                  lexfile <- param (vgetk ss "lexfile") ;;
                  meta <- preq ss "meta" ;;
                  insert d "synsets"
                         [id; CInt lexid;
                          select_rowid d "ilis" (fun r => sql_eq (cell_at ilis_id r) (as_text ilic));
                          pos; lexicalized; LEXFILE_QUERY d lexfile; meta]) b d ;;
    (* finally add proposed ILIs:
       INSERT INTO proposed_ilis
       VALUES (null, (SELECT ss.rowid FROM synsets AS ss WHERE ss.id=? AND lexicon_rowid=?), ?, ?)
       for ss in batch: if ss['ili'] == 'in': pro_ili_data.append((ss['id'], lexid, text, meta)) *)
    foldM (fun d ss =>
             ili <- vreq ss "ili" ;;
             if is_in ili then
               '(text, meta) <- ili_definition_cells ss ;;
               id <- preq ss "id" ;;
               insert d "proposed_ilis" [SYNSET_QUERY d id (CInt lexid); text; meta]
             else Ok d) b d)
  (_batch (_local_synsets synsets)) d.

(* ---------- _insert_synset_definitions ---------- *)
(* INSERT INTO definitions VALUES (null,?,({SYNSET_QUERY}),?,?,({SENSE_QUERY}),?) *)
Definition _insert_synset_definitions (synsets : list val) (lexid : Z) (lexidmap : lexidmap_t)
           (d : db) : result db :=
  foldM (fun d (b : list val) =>
    foldM (fun d synset =>
      foldM (fun d definition =>
               (* (lexid, synset['id'], lexidmap.get(synset['id'], lexid), definition['text'],
                   definition.get('language'), definition.get('sourceSense'),
                   lexidmap.get(definition.get('sourceSense', ''), lexid), definition['meta']) *)
               ssid <- vreq synset "id" ;;
               ssidc <- param ssid ;;
               text <- preq definition "text" ;;
               language <- param (vgetk definition "language") ;;
               source <- param (vgetk definition "sourceSense") ;;
               let slid := lexidmap_get lexidmap (vget_def definition "sourceSense" (vs "")) lexid in
               meta <- preq definition "meta" ;;
               insert d "definitions"
                      [CInt lexid; SYNSET_QUERY d ssidc (lexidmap_get lexidmap ssid lexid);
                       text; language; SENSE_QUERY d source slid; meta])
            (vlistk synset "definitions") d) b d)
  (_batch synsets) d.

(* ---------- _insert_synset_relations ---------- *)
(* INSERT INTO synset_relations
   VALUES (null,?,({SYNSET_QUERY}),({SYNSET_QUERY}),({RELTYPE_QUERY}),?) *)
Definition _insert_synset_relations (synsets : list val) (lexid : Z) (lexidmap : lexidmap_t)
           (d : db) : result db :=
  foldM (fun d (b : list val) =>
    foldM (fun d synset =>
      foldM (fun d relation =>
               (* (lexid, synset['id'], lexidmap.get(synset['id'], lexid),
                   relation['target'], lexidmap.get(relation['target'], lexid),
                   relation['relType'], relation['meta']) *)
               ssid <- vreq synset "id" ;;
               ssidc <- param ssid ;;
               target <- vreq relation "target" ;;
               targetc <- param target ;;
               reltype <- preq relation "relType" ;;
               meta <- preq relation "meta" ;;
               insert d "synset_relations"
                      [CInt lexid;
                       SYNSET_QUERY d ssidc (lexidmap_get lexidmap ssid lexid);
                       SYNSET_QUERY d targetc (lexidmap_get lexidmap target lexid);
                       RELTYPE_QUERY d reltype; meta])
            (vlistk synset "relations") d) b d)
  (_batch synsets) d.

(* ---------- _insert_entries ---------- *)
(* INSERT INTO entries VALUES (null,?,?,?,?)
   (entry['id'], lexid, entry['lemma']['partOfSpeech'], entry['meta']) *)
Definition _insert_entries (entries : list val) (lexid : Z) (d : db) : result db :=
  foldM (fun d (b : list val) =>
    foldM (fun d entry =>
             id <- preq entry "id" ;;
             lemma <- vreq entry "lemma" ;;
             pos <- preq lemma "partOfSpeech" ;;
             meta <- preq entry "meta" ;;
             insert d "entries" [id; CInt lexid; pos; meta]) b d)
  (_batch (_local_entries entries)) d.

(* ---------- normalize_form (stand-in: the table sent with the case) ---------- *)
Definition normtable := list (str * str).
Definition normalize_form (nt : normtable) (s : str) : str :=
  match find (fun p => str_eqb (fst p) s) nt with
  | Some p => snd p
  | None => s
  end.
(* written_form = x['writtenForm']; norm = normalize_form(written_form);
   (written_form, norm if norm != written_form else None) *)
Definition form_cells (nt : normtable) (x : val) : result (cell * cell) :=
  wf <- vreq x "writtenForm" ;;
  match wf with
  | VStr s => let norm := normalize_form nt s in
              Ok (CText s, if str_eqb norm s then CNull else CText norm)
  | _ => OtherError          (* normalize_form of a non-string *)
  end.

(* ---------- _insert_forms ---------- *)
(* INSERT INTO forms VALUES (null,?,?,({ENTRY_QUERY}),?,?,?,?) *)
Definition _insert_forms (nt : normtable) (entries : list val) (lexid : Z) (lexidmap : lexidmap_t)
           (d : db) : result db :=
  foldM (fun d (b : list val) =>
    foldM (fun d entry =>
      (* eid = entry['id']; lid = lexidmap.get(eid, lexid) *)
      eid <- vreq entry "id" ;;
      eidc <- param eid ;;
      let lid := lexidmap_get lexidmap eid lexid in
      (* if not _is_external(entry):
           forms.append((None, lexid, eid, lid, written_form, norm if norm != written_form else None,
                         entry['lemma'].get('script'), 0)) *)
      d <- (if negb (_is_external entry) then
              lemma <- vreq entry "lemma" ;;
              '(wf, norm) <- form_cells nt lemma ;;
              script <- param (vgetk lemma "script") ;;
              insert d "forms" [CNull; CInt lexid; ENTRY_QUERY d eidc lid; wf; norm; script; CInt 0]
            else Ok d) ;;
      (* for i, form in enumerate(_forms(entry), 1):
           if _is_external(form): continue
           forms.append((form.get('id'), lexid, eid, lid, written_form, norm..., form.get('script'), i)) *)
      foldM (fun d (iform : Z * val) =>
               let '(i, form) := iform in
               if _is_external form then Ok d
               else
                 '(wf, norm) <- form_cells nt form ;;
                 fid <- param (vgetk form "id") ;;
                 script <- param (vgetk form "script") ;;
                 insert d "forms" [fid; CInt lexid; ENTRY_QUERY d eidc lid; wf; norm; script; CInt i])
            (enumerate_from 1 (_forms entry)) d) b d)
  (_batch entries) d.

(* ---------- _insert_pronunciations ---------- *)
(* INSERT INTO pronunciations VALUES (({FORM_QUERY}),?,?,?,?,?)
   (eid, lid, form id, rank, p['text'], p.get('variety'), p.get('notation'),
    p.get('phonemic', True), p.get('audio')) *)
Definition insert_pronunciation (eidc lid fid rank : cell) (d : db) (p : val) : result db :=
  text <- preq p "text" ;;
  variety <- param (vgetk p "variety") ;;
  notation <- param (vgetk p "notation") ;;
  phonemic <- param (vget_def p "phonemic" (VBool true)) ;;
  audio <- param (vgetk p "audio") ;;
  insert d "pronunciations" [FORM_QUERY d eidc lid fid rank; text; variety; notation; phonemic; audio].

Definition _insert_pronunciations (entries : list val) (lexid : Z) (lexidmap : lexidmap_t)
           (d : db) : result db :=
  foldM (fun d (b : list val) =>
    foldM (fun d entry =>
      eid <- vreq entry "id" ;;
      eidc <- param eid ;;
      let lid := lexidmap_get lexidmap eid lexid in
      (* if entry.get('lemma'): for p in entry['lemma'].get('pronunciations', []):
           prons.append((eid, lid, None, 0, ...)) *)
      d <- (if vtruthy (vgetk entry "lemma") then
              foldM (insert_pronunciation eidc lid CNull (CInt 0))
                    (vlistk (vgetk entry "lemma") "pronunciations") d
            else Ok d) ;;
      (* for i, form in enumerate(_forms(entry), 1):
           rank = -1 if _is_external(form) else i
           for p in form.get('pronunciations', []): prons.append((eid, lid, form.get('id'), rank, ...)) *)
      foldM (fun d (iform : Z * val) =>
               let '(i, form) := iform in
               let rank := if _is_external form then (-1) else i in
               fid <- param (vgetk form "id") ;;
               foldM (insert_pronunciation eidc lid fid (CInt rank)) (vlistk form "pronunciations") d)
            (enumerate_from 1 (_forms entry)) d) b d)
  (_batch entries) d.

(* ---------- _insert_tags ---------- *)
(* INSERT INTO tags VALUES (({FORM_QUERY}),?,?)
   (eid, lid, form id, rank, tag['text'], tag['category']) *)
Definition insert_tag (eidc lid fid rank : cell) (d : db) (tag : val) : result db :=
  text <- preq tag "text" ;;
  category <- preq tag "category" ;;
  insert d "tags" [FORM_QUERY d eidc lid fid rank; text; category].

Definition _insert_tags (entries : list val) (lexid : Z) (lexidmap : lexidmap_t) (d : db) : result db :=
  foldM (fun d (b : list val) =>
    foldM (fun d entry =>
      eid <- vreq entry "id" ;;
      eidc <- param eid ;;
      let lid := lexidmap_get lexidmap eid lexid in
      (* if entry.get('lemma'): for tag in entry['lemma'].get('tags', []): (eid, lid, None, 0, ...) *)
      d <- (if vtruthy (vgetk entry "lemma") then
              foldM (insert_tag eidc lid CNull (CInt 0)) (vlistk (vgetk entry "lemma") "tags") d
            else Ok d) ;;
      (* for i, form in enumerate(_forms(entry), 1): rank = -1 if _is_external(form) else i *)
      foldM (fun d (iform : Z * val) =>
               let '(i, form) := iform in
               let rank := if _is_external form then (-1) else i in
               fid <- param (vgetk form "id") ;;
               foldM (insert_tag eidc lid fid (CInt rank)) (vlistk form "tags") d)
            (enumerate_from 1 (_forms entry)) d) b d)
  (_batch entries) d.

(* ---------- _insert_senses ---------- *)
(* INSERT INTO senses VALUES (null, ?, ?, ({ENTRY_QUERY}), ?, ({SYNSET_QUERY}), ?, ?, ?) *)
Definition _insert_senses (entries synsets : list val) (lexid : Z) (lexidmap : lexidmap_t)
           (d : db) : result db :=
  (* ssrank = {s: i for ss in _local_synsets(synsets) for i, s in enumerate(ss.get('members', []))} *)
  let ssrank : list (val * Z) :=
    fold_left (fun m ss =>
                 fold_left (fun m (is : Z * val) => dict_set m (snd is) (fst is))
                           (enumerate_from 0 (vlistk ss "members")) m)
              (_local_synsets synsets) [] in
  foldM (fun d (b : list val) =>
    foldM (fun d entry =>
      (* for i, sense in enumerate(_local_senses(_senses(entry))) *)
      foldM (fun d (isense : Z * val) =>
               let '(i, sense) := isense in
               (* (sense['id'], lexid, entry['id'], lexidmap.get(entry['id'], lexid), i,
                   sense['synset'], lexidmap.get(sense['synset'], lexid),
                   ssrank.get(sense['id'], DEFAULT_MEMBER_RANK), sense.get('lexicalized', True),
                   sense['meta']) *)
               sid <- vreq sense "id" ;;
               sidc <- param sid ;;
               eid <- vreq entry "id" ;;
               eidc <- param eid ;;
               synset <- vreq sense "synset" ;;
               synsetc <- param synset ;;
               let rank := match dict_get ssrank sid with Some r => r | None => DEFAULT_MEMBER_RANK end in
               lexicalized <- param (vget_def sense "lexicalized" (VBool true)) ;;
               meta <- preq sense "meta" ;;
               insert d "senses"
                      [sidc; CInt lexid; ENTRY_QUERY d eidc (lexidmap_get lexidmap eid lexid); CInt i;
                       SYNSET_QUERY d synsetc (lexidmap_get lexidmap synset lexid); CInt rank;
                       lexicalized; meta])
            (enumerate_from 0 (_local_senses (_senses entry))) d) b d)
  (_batch entries) d.

(* ---------- _insert_adjpositions ---------- *)
(* data = [(s['id'], lexidmap.get(s['id'], lexid), s['adjposition'])
           for e in entries for s in _local_senses(_senses(e)) if s.get('adjposition')]
   INSERT INTO adjpositions VALUES (({SENSE_QUERY}),?) *)
Definition _insert_adjpositions (entries : list val) (lexid : Z) (lexidmap : lexidmap_t)
           (d : db) : result db :=
  foldM (fun d e =>
    foldM (fun d s =>
             if vtruthy (vgetk s "adjposition") then
               sid <- vreq s "id" ;;
               sidc <- param sid ;;
               adj <- preq s "adjposition" ;;
               insert d "adjpositions" [SENSE_QUERY d sidc (lexidmap_get lexidmap sid lexid); adj]
             else Ok d)
          (_local_senses (_senses e)) d)
  entries d.

(* ---------- _insert_counts ---------- *)
(* data = [(lexid, sense['id'], lexidmap.get(sense['id'], lexid), count['value'], count['meta'])
           for entry in entries for sense in _senses(entry) for count in sense.get('counts', [])]
   INSERT INTO counts VALUES (null,?,({SENSE_QUERY}),?,?) *)
Definition _insert_counts (entries : list val) (lexid : Z) (lexidmap : lexidmap_t)
           (d : db) : result db :=
  foldM (fun d entry =>
    foldM (fun d sense =>
      foldM (fun d count =>
               sid <- vreq sense "id" ;;
               sidc <- param sid ;;
               value <- preq count "value" ;;
               meta <- preq count "meta" ;;
               insert d "counts"
                      [CInt lexid; SENSE_QUERY d sidc (lexidmap_get lexidmap sid lexid); value; meta])
            (vlistk sense "counts") d)
    (_senses entry) d)
  entries d.

(* ---------- _collect_frames ---------- *)
(* a syntactic behaviour: {'id': ... (the key may be absent), 'subcategorizationFrame': ...,
   'senses': [...]} *)
Record synbhr := { sb_id : option val; sb_frame : val; sb_senses : list val }.
Definition sb_add_senses (sb : synbhr) (l : list val) : synbhr :=
  {| sb_id := sb_id sb; sb_frame := sb_frame sb; sb_senses := (sb_senses sb ++ l)%list |}.
(* sb.get('id') *)
Definition sb_get_id (sb : synbhr) : val := match sb_id sb with Some v => v | None => VNone end.

Definition synbhrs_t := list (val * synbhr).     (* keyed by the frame string, insertion order *)
(* synbhrs[key]['senses'].extend(l)  (the key is present) *)
Definition synbhrs_extend (m : synbhrs_t) (key : val) (l : list val) : synbhrs_t :=
  map (fun kv => if val_eqb (fst kv) key then (fst kv, sb_add_senses (snd kv) l) else kv) m.

(* def _collect_frames(lexicon) -> list[SyntacticBehaviour]
   The 'senses' lists are shared between [synbhrs] and [id_senses_map] (the same Python
   list objects): [id_senses_map] is therefore modelled as a map from the id to the key
   of [synbhrs] whose list it aliases, and an append through it extends that list. *)
Definition _collect_frames (lexicon : val) : result (list synbhr) :=
  (* synbhrs = {frame['subcategorizationFrame']: {'id': frame.get('id', ''),
                   'subcategorizationFrame': frame['subcategorizationFrame'],
                   'senses': frame.get('senses', [])}
                for frame in lexicon.get('frames', [])} *)
  synbhrs <- foldM (fun (m : synbhrs_t) frame =>
                      fr <- vreq frame "subcategorizationFrame" ;;
                      let id := vget_def frame "id" (vs "") in
                      Ok (dict_set m fr {| sb_id := Some id; sb_frame := fr;
                                           sb_senses := vlistk frame "senses" |}))
                   (vlistk lexicon "frames") [] ;;
  (* id_senses_map = {sb['id']: sb['senses'] for sb in synbhrs.values() if sb.get('id')} *)
  let id_senses_map : list (val * val) :=
    fold_left (fun m (kv : val * synbhr) =>
                 if vtruthy (sb_get_id (snd kv)) then dict_set m (sb_get_id (snd kv)) (fst kv) else m)
              synbhrs [] in
  (* for entry in _entries(lexicon): *)
  synbhrs <- foldM (fun (m : synbhrs_t) entry =>
    (* for sense in _local_senses(_senses(entry)):
         for sbid in sense.get('subcat', []): id_senses_map[sbid].append(sense['id']) *)
    m <- foldM (fun (m : synbhrs_t) sense =>
                  foldM (fun (m : synbhrs_t) sbid =>
                           match dict_get id_senses_map sbid with
                           | None => OtherError          (* KeyError *)
                           | Some key => sid <- vreq sense "id" ;; Ok (synbhrs_extend m key [sid])
                           end)
                        (vlistk sense "subcat") m)
               (_local_senses (_senses entry)) m ;;
    (* if _is_external(entry) or not entry.get('frames'): continue *)
    if _is_external entry || negb (vtruthy (vgetk entry "frames")) then Ok m
    else
      (* all_senses = [s['id'] for s in _senses(entry)] *)
      all_senses <- mapM (fun s => vreq s "id") (_senses entry) ;;
      (* for frame in entry.get('frames', []): *)
      foldM (fun (m : synbhrs_t) frame =>
               subcat_frame <- vreq frame "subcategorizationFrame" ;;
               (* if subcat_frame not in synbhrs:
                    synbhrs[subcat_frame] = {'subcategorizationFrame': subcat_frame, 'senses': []} *)
               let m := if dict_has m subcat_frame then m
                        else dict_set m subcat_frame
                                      {| sb_id := None; sb_frame := subcat_frame; sb_senses := [] |} in
               (* senses = frame.get('senses', []) or all_senses
                  synbhrs[subcat_frame]['senses'].extend(senses) *)
               let senses := match vlistk frame "senses" with [] => all_senses | l => l end in
               Ok (synbhrs_extend m subcat_frame senses))
            (vlistk entry "frames") m)
    (_entries lexicon) synbhrs ;;
  (* return list(synbhrs.values()) *)
  Ok (map snd synbhrs).

(* ---------- _insert_syntactic_behaviours ---------- *)
Definition _insert_syntactic_behaviours (synbhrs : list synbhr) (lexid : Z) (lexidmap : lexidmap_t)
           (d : db) : result db :=
  (* INSERT INTO syntactic_behaviours VALUES (null,?,?,?)
     sbdata = [(sb.get('id') or None, lexid, sb['subcategorizationFrame']) for sb in synbhrs] *)
  d <- foldM (fun d sb =>
                id <- param (if vtruthy (sb_get_id sb) then sb_get_id sb else VNone) ;;
                frame <- param (sb_frame sb) ;;
                insert d "syntactic_behaviours" [id; CInt lexid; frame]) synbhrs d ;;
  (* framemap = {sb['subcategorizationFrame']: sb.get('senses', []) for sb in synbhrs} *)
  let framemap : list (val * list val) :=
    fold_left (fun m sb => dict_set m (sb_frame sb) (sb_senses sb)) synbhrs [] in
  (* INSERT INTO syntactic_behaviour_senses
     VALUES ((SELECT rowid FROM syntactic_behaviours WHERE lexicon_rowid=? AND frame=?), ({SENSE_QUERY}))
     sbsdata = [(lexid, frame, sid, lexidmap.get(sid, lexid))
                for frame in framemap for sid in framemap[frame]] *)
  let sl := col_index "syntactic_behaviours" "lexicon_rowid" in
  let sf := col_index "syntactic_behaviours" "frame" in
  foldM (fun d (fs : val * list val) =>
           let '(frame, sids) := fs in
           foldM (fun d sid =>
                    framec <- param frame ;;
                    sidc <- param sid ;;
                    insert d "syntactic_behaviour_senses"
                           [select_rowid d "syntactic_behaviours"
                                         (fun r => sql_eq (cell_at sl r) (CInt lexid)
                                                   && sql_eq (cell_at sf r) (as_text framec));
                            SENSE_QUERY d sidc (lexidmap_get lexidmap sid lexid)])
                 sids d)
        framemap d.

(* ---------- _insert_sense_relations ---------- *)
Definition senserel := (val * cell * cell * val)%type.     (* (sense_id, slid, tlid, relation) *)

Definition _insert_sense_relations (lexicon : val) (lexid : Z) (lexidmap : lexidmap_t)
           (d : db) : result db :=
  (* synset_ids = {ss['id'] for ss in _synsets(lexicon)} *)
  synset_ids <- mapM (fun ss => vreq ss "id") (_synsets lexicon) ;;
  (* sense_ids = {s['id'] for e in _entries(lexicon) for s in _senses(e)} *)
  sense_ids <- concatM (fun e => mapM (fun s => vreq s "id") (_senses e)) (_entries lexicon) ;;
  (* for entry in _entries(lexicon): for sense in _senses(entry):
       slid = lexidmap.get(sense['id'], lexid)
       for relation in sense.get('relations', []):
         target_id = relation['target']; tlid = lexidmap.get(target_id, lexid)
         if target_id in sense_ids: s_s_rels.append((sense['id'], slid, tlid, relation))
         elif target_id in synset_ids: s_ss_rels.append((sense['id'], slid, tlid, relation))
         else: raise wn.Error(...) *)
  '(s_s_rels, s_ss_rels) <-
    foldM (fun (acc : list senserel * list senserel) entry =>
      foldM (fun (acc : list senserel * list senserel) sense =>
        sid <- vreq sense "id" ;;
        let slid := lexidmap_get lexidmap sid lexid in
        foldM (fun (acc : list senserel * list senserel) relation =>
                 target_id <- vreq relation "target" ;;
                 let tlid := lexidmap_get lexidmap target_id lexid in
                 if existsb (val_eqb target_id) sense_ids
                 then Ok ((fst acc ++ [(sid, slid, tlid, relation)])%list, snd acc)
                 else if existsb (val_eqb target_id) synset_ids
                 then Ok (fst acc, (snd acc ++ [(sid, slid, tlid, relation)])%list)
                 else WnError)
              (vlistk sense "relations") acc)
      (_senses entry) acc)
    (_entries lexicon) ([], []) ;;
  (* for table, target_query, rels in [('sense_relations', SENSE_QUERY, s_s_rels),
                                       ('sense_synset_relations', SYNSET_QUERY, s_ss_rels)]:
       INSERT INTO {table} VALUES (null,?,({SENSE_QUERY}),({target_query}),({RELTYPE_QUERY}),?)
       (lexid, sense_id, slid, relation['target'], tlid, relation['relType'], relation['meta']) *)
  let insert_rels (table : string) (target_query : db -> cell -> cell -> cell)
                  (rels : list senserel) (d : db) : result db :=
    foldM (fun d (b : list senserel) =>
      foldM (fun d (rel : senserel) =>
               let '(sid, slid, tlid, relation) := rel in
               sidc <- param sid ;;
               target <- preq relation "target" ;;
               reltype <- preq relation "relType" ;;
               meta <- preq relation "meta" ;;
               insert d table [CInt lexid; SENSE_QUERY d sidc slid; target_query d target tlid;
                               RELTYPE_QUERY d reltype; meta]) b d)
    (_batch rels) d in
  d <- insert_rels "sense_relations" SENSE_QUERY s_s_rels d ;;
  insert_rels "sense_synset_relations" SYNSET_QUERY s_ss_rels d.

(* ---------- _insert_examples ---------- *)
(* if table == 'sense_examples': INSERT INTO {table} VALUES (null,?,({SENSE_QUERY}),?,?,?)
   else:                         INSERT INTO {table} VALUES (null,?,({SYNSET_QUERY}),?,?,?)
   (lexid, obj['id'], lexidmap.get(obj['id'], lexid), example['text'], example.get('language'),
    example['meta']) *)
Definition _insert_examples (objs : list val) (lexid : Z) (lexidmap : lexidmap_t) (table : string)
           (d : db) : result db :=
  let query := if String.eqb table "sense_examples" then SENSE_QUERY else SYNSET_QUERY in
  foldM (fun d (b : list val) =>
    foldM (fun d obj =>
      foldM (fun d example =>
               oid <- vreq obj "id" ;;
               oidc <- param oid ;;
               text <- preq example "text" ;;
               language <- param (vgetk example "language") ;;
               meta <- preq example "meta" ;;
               insert d table [CInt lexid; query d oidc (lexidmap_get lexidmap oid lexid);
                               text; language; meta])
            (vlistk obj "examples") d) b d)
  (_batch objs) d.

(* ---------- _add_lexical_resource ---------- *)
(* _sum_counts(lexicon) only feeds the progress bar; it reads with .get and len and
   raises nothing on resources whose list-valued keys hold lists, so it is left out. *)
Definition add_one_lexicon (nt : normtable) (lexicon : val) (d : db) : result db :=
  (* _update_lookup_tables(lexicon, cur) *)
  d <- _update_lookup_tables lexicon d ;;
  let synsets := _synsets lexicon in
  let entries := _entries lexicon in
  synbhrs <- _collect_frames lexicon ;;
  (* lexid, extid = _insert_lexicon(lexicon, cur, progress) *)
  '(d, lexid, extid) <- _insert_lexicon lexicon d ;;
  lexidmap <- _build_lexid_map lexicon lexid extid ;;
  d <- _insert_synsets synsets lexid d ;;
  d <- _insert_entries entries lexid d ;;
  d <- _insert_forms nt entries lexid lexidmap d ;;
  d <- _insert_pronunciations entries lexid lexidmap d ;;
  d <- _insert_tags entries lexid lexidmap d ;;
  d <- _insert_senses entries synsets lexid lexidmap d ;;
  d <- _insert_adjpositions entries lexid lexidmap d ;;
  d <- _insert_counts entries lexid lexidmap d ;;
  d <- _insert_syntactic_behaviours synbhrs lexid lexidmap d ;;
  d <- _insert_synset_relations synsets lexid lexidmap d ;;
  d <- _insert_sense_relations lexicon lexid lexidmap d ;;
  d <- _insert_synset_definitions synsets lexid lexidmap d ;;
  (* _insert_examples([sense for e in entries for sense in _senses(e)], ..., 'sense_examples', ...) *)
  d <- _insert_examples (flat_map _senses entries) lexid lexidmap "sense_examples" d ;;
  _insert_examples synsets lexid lexidmap "synset_examples" d.

(* def _add_lexical_resource(resource, skipmap, progress): one transaction
   (with connect() as conn): an exception rolls everything back *)
Definition _add_lexical_resource (nt : normtable) (resource : val) (skipmap : skipmap_t) (d : db)
  : result db :=
  lexicons <- vreq resource "lexicons" ;;
  foldM (fun d lexicon =>
           (* spec = format_lexicon_specifier(lexicon["id"], lexicon["version"]) *)
           id <- vreq lexicon "id" ;;
           version <- vreq lexicon "version" ;;
           let spec := VStr (format_lexicon_specifier id version) in
           (* if skipmap[spec]: continue *)
           match dict_get skipmap spec with
           | None => OtherError
           | Some true => Ok d
           | Some false => add_one_lexicon nt lexicon d
           end)
        (match lexicons with VList l => l | _ => [] end) d.

(* def add_lexical_resource(resource, progress_handler) *)
Definition add_lexical_resource (d : db) (resource : val) (nt : normtable) : result db :=
  (* if not resource["lexicons"]: return *)
  lexicons <- vreq resource "lexicons" ;;
  if negb (vtruthy lexicons) then Ok d
  else
    (* skipmap = _precheck(resource["lexicons"], progress) *)
    skipmap <- _precheck (match lexicons with VList l => l | _ => [] end) d ;;
    (* if all(skipmap.values()): return *)
    if forallb (fun kv : val * bool => snd kv) skipmap then Ok d
    else _add_lexical_resource nt resource skipmap d.

(* ---------- _add_ili ---------- *)
(* str.lower restricted to ASCII (the header of an ILI file) *)
Definition lower (s : str) : str := map (fun c => if Z.leb 65 c && Z.leb c 90 then c + 32 else c) s.

(* _ili.load: header = next(fh); fields = tuple(map(str.lower, header.split('\t')))
   for line in fh: yield dict(zip(fields, line.split('\t'))) *)
Fixpoint zip_dict (fields : list str) (values : list str) (m : list (val * str)) : list (val * str) :=
  match fields, values with
  | f :: fields', v :: values' => zip_dict fields' values' (dict_set m (VStr f) v)
  | _, _ => m
  end.
Definition ili_load (lines : list (list str)) : result (list (list (val * str))) :=
  match lines with
  | [] => OtherError                (* next(fh) on an empty file *)
  | header :: rest =>
      let fields := map lower header in
      Ok (map (fun line => zip_dict fields line []) rest)
  end.
(* info.get(key, default) *)
Definition info_get (info : list (val * str)) (key : string) (def : val) : val :=
  match dict_get info (vs key) with Some s => VStr s | None => def end.

(* def _add_ili(source, progress):
   INSERT INTO ilis VALUES (null,?,({ILISTAT_QUERY}),?,null)
       ON CONFLICT(id) DO UPDATE SET status_rowid=excluded.status_rowid,
                                     definition=excluded.definition *)
Definition add_ili (d : db) (lines : list (list str)) : result db :=
  ili <- ili_load lines ;;
  (* statuses = set(info.get('status', 'active') for info in ili)
     cur.executemany('INSERT OR IGNORE INTO ili_statuses VALUES (null,?)',
                     [(stat,) for stat in sorted(statuses)]) *)
  statuses <- sorted_set (map (fun info => info_get info "status" (vs "active")) ili) ;;
  d <- foldM (fun d stat => c <- param stat ;; Ok (insert_or_ignore d "ili_statuses" [c])) statuses d ;;
  (* for batch in _batch(ili):
       data = [(info['ili'], info.get('status', 'active'), info.get('definition')) for info in batch] *)
  foldM (fun d (b : list (list (val * str))) =>
    foldM (fun d info =>
             match dict_get info (vs "ili") with
             | None => OtherError       (* KeyError *)
             | Some id =>
                 status <- param (info_get info "status" (vs "active")) ;;
                 definition <- param (info_get info "definition" VNone) ;;
                 upsert d "ilis" [CText id; ILISTAT_QUERY d status; definition; CNull]
                        ["id"] ["status_rowid"; "definition"]
             end) b d)
  (_batch ili) d.

Example ili_load_ex :
  ili_load [[k "ILI"; k "Status"]; [k "i1"; k "active"; k "extra"]; [k "i2"]]
  = Ok [[(vs "ili", k "i1"); (vs "status", k "active")]; [(vs "ili", k "i2")]].
Proof. vm_compute. reflexivity. Qed.

(* the name used in _add.py *)
Definition _add_ili := add_ili.

(* ---------- remove ---------- *)
Definition text_of (c : cell) : str := match c with CText s => s | _ => [] end.
(* the rows of the lexicons table as [Spec.find_lexicons] reads them *)
Definition lexrows_of (d : db) : list lexrow :=
  map (fun r => {| lx_rowid := rowid_of r;
                   lx_id := text_of (col "lexicons" "id" r);
                   lx_version := text_of (col "lexicons" "version" r);
                   lx_lang := text_of (col "lexicons" "language" r) |})
      (get_table d "lexicons").

(* def get_lexicon_extensions(rowid, depth=-1) -> list[int]:
     WITH RECURSIVE ext(x, d) AS
       (SELECT extension_rowid, 1 FROM lexicon_extensions WHERE base_rowid = :rowid
        UNION SELECT extension_rowid, d+1 FROM lexicon_extensions JOIN ext ON base_rowid = x)
     SELECT x FROM ext ... ORDER BY d
   breadth first; UNION drops a repeated (x, d) *)
Definition dedupe_z (l : list Z) : list Z :=
  fold_left (fun acc x => if existsb (Z.eqb x) acc then acc else (acc ++ [x])%list) l [].
Definition direct_extensions (d : db) (rowid : Z) : list Z :=
  let b := col_index "lexicon_extensions" "base_rowid" in
  let e := col_index "lexicon_extensions" "extension_rowid" in
  flat_map (fun r => if sql_eq (cell_at b r) (CInt rowid)
                     then match cell_at e r with CInt x => [x] | _ => [] end
                     else [])
           (get_table d "lexicon_extensions").
Fixpoint extension_levels (fuel : nat) (d : db) (frontier : list Z) : result (list Z) :=
  match frontier with
  | [] => Ok []
  | _ =>
      match fuel with
      | O => OtherError      (* a cycle of extensions: the recursive query would not terminate *)
      | S f =>
          rest <- extension_levels f d (dedupe_z (flat_map (direct_extensions d) frontier)) ;;
          Ok (frontier ++ rest)%list
      end
  end.
Definition get_lexicon_extensions (d : db) (rowid : Z) : result (list Z) :=
  extension_levels (S (List.length (get_table d "lexicon_extensions"))) d
                   (dedupe_z (direct_extensions d rowid)).

(* def get_lexicon(rowid): LookupError when there is no such row *)
Definition get_lexicon (d : db) (rowid : Z) : result row :=
  match find (fun r => Z.eqb (rowid_of r) rowid) (get_table d "lexicons") with
  | Some r => Ok r
  | None => OtherError
  end.

(* def _find_all_extensions(rowid) -> list[tuple[int, str]] *)
Definition _find_all_extensions (d : db) (rowid : Z) : result (list (Z * str)) :=
  exts <- get_lexicon_extensions d rowid ;;
  mapM (fun ext_id =>
          lexinfo <- get_lexicon d ext_id ;;
          Ok (ext_id, (text_of (col "lexicons" "id" lexinfo) ++ [c_colon]
                       ++ text_of (col "lexicons" "version" lexinfo))%list))
       exts.

(* the body of the loop of remove for one matched lexicon:
     extensions = _find_all_extensions(rowid)
     with conn:
       for ext_id, ext_spec in reversed(extensions):
           conn.execute('DELETE from lexicons WHERE rowid = ?', (ext_id,))
       conn.execute('DELETE from lexicons WHERE rowid = ?', (rowid,)) *)
Definition remove_one (d : db) (rowid : Z) : result db :=
  extensions <- _find_all_extensions d rowid ;;
  d <- foldM (fun d (e : Z * str) => delete_row delete_fuel d "lexicons" (fst e)) (rev extensions) d ;;
  delete_row delete_fuel d "lexicons" rowid.

(* def remove(lexicon, progress_handler):
     for rowid, id, ... in find_lexicons(lexicon=lexicon): ...
   find_lexicons is a generator: the query of each space-separated specifier is
   executed when the loop reaches it, i.e. on the database as the removals for the
   previous specifiers left it ([Spec.select_one] is the per-specifier query of
   [Spec.find_lexicons]); its final check raises wn.Error when nothing was found. *)
Definition remove (d : db) (lexicon : str) : result db :=
  '(d, found) <-
    foldM (fun (st : db * bool) (specifier : str) =>
             let '(d, found) := st in
             let rows := select_one (lexrows_of d) None specifier in
             d <- foldM (fun d (l : lexrow) => remove_one d (lx_rowid l)) rows d ;;
             Ok (d, found || match rows with [] => false | _ => true end))
          (split_ws lexicon) (d, false) ;;
  (* if not found and (lexicon != '*' or lang is not None): raise wn.Error *)
  if negb found && negb (str_eqb lexicon [c_star]) then WnError else Ok d.

(* on an unchanging table the per-specifier queries are [Spec.find_lexicons] *)
Lemma find_lexicons_select_one : forall lexs lexicon,
    find_lexicons lexs lexicon None
    = match flat_map (select_one lexs None) (split_ws lexicon) with
      | [] => if negb (str_eqb lexicon [c_star]) then None else Some []
      | rows => Some rows
      end.
Proof.
  intros lexs lexicon. unfold find_lexicons.
  destruct (flat_map (select_one lexs None) (split_ws lexicon)) as [|r rows]; [|reflexivity].
  rewrite orb_false_r. reflexivity.
Qed.

(* ---------- the run functions ---------- *)
Definition normtable_of_sx (x : sx) : normtable :=
  map (fun p => (sx_str (sx_nth 0 p), sx_str (sx_nth 1 p))) (sx_list x).

(* input: L [db; resource; norm table] *)
Definition run_add (c : sx) : sx :=
  sx_of_result (add_lexical_resource (db_of_sx (sx_nth 0 c)) (val_of_sx (sx_nth 1 c))
                                     (normtable_of_sx (sx_nth 2 c))).
(* input: L [db; Sz specifier] *)
Definition run_remove (c : sx) : sx :=
  sx_of_result (remove (db_of_sx (sx_nth 0 c)) (sx_str (sx_nth 1 c))).
(* input: L [db; L lines], line = L [Sz field ...] (header first) *)
Definition run_add_ili (c : sx) : sx :=
  sx_of_result (add_ili (db_of_sx (sx_nth 0 c))
                        (map (fun ln => map sx_str (sx_list ln)) (sx_list (sx_nth 1 c)))).
(* the identity on databases: decoding then encoding *)
Definition run_id (x : sx) : sx := sx_of_db (db_of_sx x).
