(* Model/Query.v — wn/_queries.py, one Gallina function per SQL query.

   Same names, argument order and result-column order as the Python functions.  Every
   function takes the database first.  An un-ORDERed SELECT is modelled as the scan SQLite
   3.40 actually performs for that statement with the indexes of wn/schema.sql (EXPLAIN
   QUERY PLAN was consulted for every query; the plan is quoted where it is not simply
   "scan the driving table in rowid order"); ORDER BY is a stable sort of the scan order;
   DISTINCT keeps first occurrences.  Python truthiness tests on the arguments
   ("if id:", "if forms:", "if lexicon_rowids:") are kept: an empty string / empty sequence
   means "no such condition".
   Assumptions: the columns hold values of their declared types; no sqlite_stat tables (wn never
   runs ANALYZE), so the plans depend on the statement only; hash-free BINARY collation. *)
From Coq Require Import ZArith List Bool String.
Import ListNotations.
Require Import WnV.Base.Sx.
Require Import WnV.Model.Spec.
Require Import WnV.Model.Tables.
Local Open Scope Z_scope.

Definition NON_ROWID : Z := 0.   (* wn/_db.py *)

(* ------------------------------------------------------------------ result rows (the "Local Types") *)
Record q_form := { qf_form : str; qf_id : option str; qf_script : option str; qf_rowid : Z }.
Record q_word := { qw_id : str; qw_pos : str; qw_forms : list q_form; qw_lexid : Z; qw_rowid : Z }.
Record q_synset := { qy_id : str; qy_pos : option str; qy_ili : option str; qy_lexid : Z; qy_rowid : Z }.
Record q_sense := { qs_id : str; qs_entry_id : str; qs_synset_id : str; qs_lexid : Z; qs_rowid : Z }.
Record q_synset_relation := { qyr_name : str; qyr_lexicon : str; qyr_metadata : option str;
                              qyr_src_rowid : Z; qyr_synset : q_synset }.
Record q_sense_relation := { qsr_name : str; qsr_lexicon : str; qsr_metadata : option str;
                             qsr_sense : q_sense }.
Record q_ili := { qi_id : option str; qi_status : str; qi_definition : option str; qi_rowid : Z }.

(* row equality, for SELECT DISTINCT *)
Definition q_synset_eqb (a b : q_synset) : bool :=
  str_eqb (qy_id a) (qy_id b) && ostr_eqb (qy_pos a) (qy_pos b) && ostr_eqb (qy_ili a) (qy_ili b)
  && Z.eqb (qy_lexid a) (qy_lexid b) && Z.eqb (qy_rowid a) (qy_rowid b).
Definition q_sense_eqb (a b : q_sense) : bool :=
  str_eqb (qs_id a) (qs_id b) && str_eqb (qs_entry_id a) (qs_entry_id b)
  && str_eqb (qs_synset_id a) (qs_synset_id b)
  && Z.eqb (qs_lexid a) (qs_lexid b) && Z.eqb (qs_rowid a) (qs_rowid b).
Definition q_synset_relation_eqb (a b : q_synset_relation) : bool :=
  str_eqb (qyr_name a) (qyr_name b) && str_eqb (qyr_lexicon a) (qyr_lexicon b)
  && ostr_eqb (qyr_metadata a) (qyr_metadata b) && Z.eqb (qyr_src_rowid a) (qyr_src_rowid b)
  && q_synset_eqb (qyr_synset a) (qyr_synset b).
Definition q_sense_relation_eqb (a b : q_sense_relation) : bool :=
  str_eqb (qsr_name a) (qsr_name b) && str_eqb (qsr_lexicon a) (qsr_lexicon b)
  && ostr_eqb (qsr_metadata a) (qsr_metadata b) && q_sense_eqb (qsr_sense a) (qsr_sense b).

(* ------------------------------------------------------------------ shared sub-expressions *)
(* (SELECT ilis.id FROM ilis WHERE ilis.rowid = ss.ili_rowid) *)
Definition ili_id_of (d : db) (ili_rowid : option Z) : option str :=
  match ofind_by il_rowid ili_rowid (t_ilis d) with
  | Some i => Some (il_id i)
  | None => None
  end.
(* ss.id, ss.pos, (SELECT ilis.id ...), ss.lexicon_rowid, ss.rowid *)
Definition synset_columns (d : db) (ss : synset_row) : q_synset :=
  {| qy_id := sy_id ss; qy_pos := sy_pos ss; qy_ili := ili_id_of d (sy_ili_rowid ss);
     qy_lexid := sy_lexicon_rowid ss; qy_rowid := sy_rowid ss |}.
(* s.id, e.id, ss.id, s.lexicon_rowid, s.rowid
     FROM senses AS s JOIN entries AS e ON e.rowid = s.entry_rowid
                      JOIN synsets AS ss ON ss.rowid = s.synset_rowid      (inner joins) *)
Definition sense_columns (d : db) (s : sense_row) : option (q_sense * entry_row * synset_row) :=
  match find_by en_rowid (se_entry_rowid s) (t_entries d),
        find_by sy_rowid (se_synset_rowid s) (t_synsets d) with
  | Some e, Some ss =>
      Some ({| qs_id := se_id s; qs_entry_id := en_id e; qs_synset_id := sy_id ss;
               qs_lexid := se_lexicon_rowid s; qs_rowid := se_rowid s |}, e, ss)
  | _, _ => None
  end.
(* lex.id || ":" || lex.version *)
Definition lexicon_specifier (l : lexicon_row) : str := lex_id l ++ [c_colon] ++ lex_version l.

(* The rows of forms selected by
       WHERE (form IN wordforms [OR normalized_form IN wordforms]) [AND rank = 0]
   in the order SQLite visits them.  Plan:  SEARCH forms USING INDEX form_index (form=?) over
   the IN-list (its distinct values ascending, BINARY collation; same form -> rowid order);
   with [normalized] a MULTI-INDEX OR: then INDEX form_norm_index (normalized_form=?) the same
   way, skipping rows already produced. *)
Definition matching_forms (d : db) (wordforms : list str) (normalized search_all_forms : bool)
  : list form_row :=
  let vals := sorted_values wordforms in
  let by_form :=
    flat_map (fun w => filter (fun f => str_eqb (fm_form f) w) (t_forms d)) vals in
  let by_norm :=
    if normalized
    then flat_map (fun w => filter (fun f => ostr_is (fm_normalized_form f) w) (t_forms d)) vals
    else [] in
  filter (fun f => search_all_forms || oz_is (fm_rank f) 0)
         (dedup (fun a b => Z.eqb (fm_rowid a) (fm_rowid b)) (by_form ++ by_norm)).
(* (SELECT entry_rowid FROM forms WHERE ...) used as an IN-set *)
Definition matching_entry_rowids (d : db) (wordforms : list str) (normalized search_all_forms : bool)
  : list Z :=
  map fm_entry_rowid (matching_forms d wordforms normalized search_all_forms).

(* ------------------------------------------------------------------ lexicons *)
Definition lexrows (d : db) : list lexrow :=
  map (fun l => {| lx_rowid := lex_rowid l; lx_id := lex_id l;
                   lx_version := lex_version l; lx_lang := lex_language l |}) (t_lexicons d).

(* find_lexicons(lexicon, lang): modelled in Model/Spec.v
     SELECT DISTINCT rowid, id, label, ... FROM lexicons
      WHERE id || ":" || version GLOB :specifier AND (:language ISNULL OR language = :language)
      [ORDER BY rowid DESC LIMIT 1]          -- per whitespace-separated specifier
   wn.Error when nothing is found and the query specified something *)
Definition find_lexicons (d : db) (lexicon : str) (lang : option str) : res (list lexicon_row) :=
  match Spec.find_lexicons (lexrows d) lexicon lang with
  | None => WnError
  | Some rows => Ok (somes (map (fun r => find_by lex_rowid (lx_rowid r) (t_lexicons d)) rows))
  end.

(* SELECT provider_id, provider_version, provider_url, provider_rowid
     FROM lexicon_dependencies WHERE dependent_rowid = ? *)
Definition get_lexicon_dependencies (d : db) (rowid : Z)
  : list (str * str * option str * option Z) :=
  map (fun r => (ld_provider_id r, ld_provider_version r, ld_provider_url r, ld_provider_rowid r))
      (filter (fun r => Z.eqb (ld_dependent_rowid r) rowid) (t_lexicon_dependencies d)).

(* WITH RECURSIVE ext(x, d) AS (SELECT <col>, 1 FROM lexicon_extensions WHERE <key> = :rowid
                                UNION SELECT <col>, d+1 FROM lexicon_extensions JOIN ext ON <key> = x)
   SELECT x FROM ext WHERE :depth < 0 OR d <= :depth ORDER BY d
   The queue of a recursive CTE is first-in first-out, so the rows come level by level;
   UNION drops a repeated (x, d).  [step x] = the <col> values of the rows with <key> = x.
   On a cyclic extension graph SQLite would not terminate; the model stops after [fuel] levels. *)
Fixpoint ext_levels (fuel : nat) (step : Z -> list (option Z)) (level : list (option Z)) (dp : Z)
  : list (option Z * Z) :=
  match fuel with
  | O => []
  | S f =>
      match level with
      | [] => []
      | _ => map (fun x => (x, dp)) level
             ++ ext_levels f step
                  (dedup oz_eqb (flat_map (fun x => match x with Some r => step r | None => [] end) level))
                  (dp + 1)
      end
  end.
Definition ext_query (d : db) (step : Z -> list (option Z)) (rowid depth : Z) : list (option Z) :=
  let rows := ext_levels (S (List.length (t_lexicon_extensions d))) step (dedup oz_eqb (step rowid)) 1 in
  map fst (filter (fun xd => Z.ltb depth 0 || Z.leb (snd xd) depth) rows).

(* ... SELECT base_rowid, 1 FROM lexicon_extensions WHERE extension_rowid = :rowid ... *)
Definition get_lexicon_extension_bases (d : db) (rowid : Z) (depth : Z) : list (option Z) :=
  ext_query d (fun x => map le_base_rowid
                          (filter (fun r => Z.eqb (le_extension_rowid r) x) (t_lexicon_extensions d)))
            rowid depth.
(* ... SELECT extension_rowid, 1 FROM lexicon_extensions WHERE base_rowid = :rowid ... *)
Definition get_lexicon_extensions (d : db) (rowid : Z) (depth : Z) : list (option Z) :=
  ext_query d (fun x => map (fun r => Some (le_extension_rowid r))
                          (filter (fun r => oz_is (le_base_rowid r) x) (t_lexicon_extensions d)))
            rowid depth.

(* ------------------------------------------------------------------ ILIs *)
(* SELECT DISTINCT i.id, ist.status, i.definition, i.rowid
     FROM ilis AS i JOIN ili_statuses AS ist ON i.status_rowid = ist.rowid
    [WHERE i.id = ?] [AND ist.status = ?]
    [AND i.rowid IN (SELECT ss.ili_rowid FROM synsets AS ss WHERE ss.lexicon_rowid IN (...))] *)
Definition _find_existing_ilis (d : db) (id status : option str) (lexicon_rowids : list Z)
  : list q_ili :=
  let used := somes (map sy_ili_rowid
                      (filter (fun ss => z_in (sy_lexicon_rowid ss) lexicon_rowids) (t_synsets d))) in
  flat_map (fun i =>
    match find_by ist_rowid (il_status_rowid i) (t_ili_statuses d) with
    | None => []
    | Some ist =>
        if (if truthy id then ostr_eqb (Some (il_id i)) id else true)
           && (if truthy status then ostr_eqb (Some (ist_status ist)) status else true)
           && (if nonempty lexicon_rowids then z_in (il_rowid i) used else true)
        then [{| qi_id := Some (il_id i); qi_status := ist_status ist;
                 qi_definition := il_definition i; qi_rowid := il_rowid i |}]
        else []
    end) (t_ilis d).

Definition s_proposed : str := S_ "proposed".

(* SELECT null, "proposed", definition, rowid FROM proposed_ilis
    [WHERE synset_rowid = ?]
    [AND synset_rowid IN (SELECT ss.rowid FROM synsets AS ss WHERE ss.lexicon_rowid IN (...))] *)
Definition find_proposed_ilis (d : db) (synset_rowid : option Z) (lexicon_rowids : list Z)
  : list q_ili :=
  let in_lex := map sy_rowid
                  (filter (fun ss => z_in (sy_lexicon_rowid ss) lexicon_rowids) (t_synsets d)) in
  map (fun p => {| qi_id := None; qi_status := s_proposed;
                   qi_definition := pi_definition p; qi_rowid := pi_rowid p |})
      (filter (fun p =>
         (match synset_rowid with Some r => oz_is (pi_synset_rowid p) r | None => true end)
         && (if nonempty lexicon_rowids then oz_in (pi_synset_rowid p) in_lex else true))
         (t_proposed_ilis d)).

(* if status != 'proposed': yield from _find_existing_ilis(...)
   if not id and (not status or status == 'proposed'): yield from find_proposed_ilis(...) *)
Definition find_ilis (d : db) (id status : option str) (lexicon_rowids : list Z) : list q_ili :=
  (if ostr_eqb status (Some s_proposed) then [] else _find_existing_ilis d id status lexicon_rowids)
  ++ (if negb (truthy id) && (negb (truthy status) || ostr_eqb status (Some s_proposed))
      then find_proposed_ilis d None lexicon_rowids else []).

(* ------------------------------------------------------------------ entries *)
(* [WITH wordforms(s) AS (VALUES ...)]
   SELECT DISTINCT e.lexicon_rowid, e.rowid, e.id, e.pos, f.form, f.id, f.script, f.rowid
     FROM entries AS e JOIN forms AS f ON f.entry_rowid = e.rowid
    [WHERE e.id = ?]
    [AND e.rowid IN (SELECT entry_rowid FROM forms
                      WHERE (form IN wordforms [OR normalized_form IN wordforms]) [AND rank = 0])]
    [AND e.pos = ?] [AND e.lexicon_rowid IN (...)]
    ORDER BY e.rowid, e.id, f.rank
   then itertools.groupby on the first four columns.  (f.rowid makes every row distinct.) *)
Definition entry_form_le (a b : entry_row * form_row) : bool :=
  let (e1, f1) := a in
  let (e2, f2) := b in
  if Z.ltb (en_rowid e1) (en_rowid e2) then true
  else if Z.ltb (en_rowid e2) (en_rowid e1) then false
  else if str_ltb (en_id e1) (en_id e2) then true
  else if str_ltb (en_id e2) (en_id e1) then false
  else oz_leb (fm_rank f1) (fm_rank f2).

Definition entry_key_eqb (a b : entry_row) : bool :=
  Z.eqb (en_lexicon_rowid a) (en_lexicon_rowid b) && Z.eqb (en_rowid a) (en_rowid b)
  && str_eqb (en_id a) (en_id b) && str_eqb (en_pos a) (en_pos b).

Definition form_columns (f : form_row) : q_form :=
  {| qf_form := fm_form f; qf_id := fm_id f; qf_script := fm_script f; qf_rowid := fm_rowid f |}.

(* itertools.groupby(rows, key = first four columns): maximal runs of consecutive equal keys *)
Definition new_group (e : entry_row) (f : form_row) : q_word :=
  {| qw_id := en_id e; qw_pos := en_pos e; qw_forms := [form_columns f];
     qw_lexid := en_lexicon_rowid e; qw_rowid := en_rowid e |}.
Fixpoint group_entries (rows : list (entry_row * form_row)) : list q_word :=
  match rows with
  | [] => []
  | (e, f) :: rest =>
      let gs := group_entries rest in
      match hd_opt rest, gs with
      | Some (e', _), w :: ws =>
          if entry_key_eqb e e'
          then {| qw_id := qw_id w; qw_pos := qw_pos w; qw_forms := form_columns f :: qw_forms w;
                  qw_lexid := qw_lexid w; qw_rowid := qw_rowid w |} :: ws
          else new_group e f :: w :: ws
      | _, _ => new_group e f :: gs
      end
  end.

Definition find_entries (d : db) (id : option str) (forms : list str) (pos : option str)
           (lexicon_rowids : list Z) (normalized search_all_forms : bool) : list q_word :=
  let with_form := matching_entry_rowids d forms normalized search_all_forms in
  let es := filter (fun e =>
              (if truthy id then ostr_eqb (Some (en_id e)) id else true)
              && (if nonempty forms then z_in (en_rowid e) with_form else true)
              && (if truthy pos then ostr_eqb (Some (en_pos e)) pos else true)
              && (if nonempty lexicon_rowids then z_in (en_lexicon_rowid e) lexicon_rowids else true))
              (t_entries d) in
  let rows := flat_map (fun e =>
                map (fun f => (e, f))
                    (filter (fun f => Z.eqb (fm_entry_rowid f) (en_rowid e)) (t_forms d))) es in
  group_entries (stable_sort entry_form_le rows).

(* ------------------------------------------------------------------ senses *)
(* SELECT DISTINCT s.id, e.id, ss.id, s.lexicon_rowid, s.rowid
     FROM senses AS s JOIN entries AS e ON e.rowid = s.entry_rowid
                      JOIN synsets AS ss ON ss.rowid = s.synset_rowid
    [WHERE s.id = ?] [AND s.entry_rowid IN (SELECT entry_rowid FROM forms WHERE ...)]
    [AND e.pos = ?] [AND s.lexicon_rowid IN (...)]
   Plan without forms: SCAN s (or sense_id_index): rowid order.  With forms the entries drive:
   SEARCH e USING INTEGER PRIMARY KEY (rowid=?) over the IN-set (ascending), then
   SEARCH s USING INDEX sense_entry_rowid_index: ordered by (entry_rowid, rowid). *)
Definition find_senses (d : db) (id : option str) (forms : list str) (pos : option str)
           (lexicon_rowids : list Z) (normalized search_all_forms : bool) : list q_sense :=
  let with_form := matching_entry_rowids d forms normalized search_all_forms in
  let scan := if nonempty forms then sort_by_z se_entry_rowid (t_senses d) else t_senses d in
  dedup q_sense_eqb
    (flat_map (fun s =>
       match sense_columns d s with
       | None => []
       | Some (q, e, _) =>
           if (if truthy id then ostr_eqb (Some (se_id s)) id else true)
              && (if nonempty forms then z_in (se_entry_rowid s) with_form else true)
              && (if truthy pos then ostr_eqb (Some (en_pos e)) pos else true)
              && (if nonempty lexicon_rowids then z_in (se_lexicon_rowid s) lexicon_rowids else true)
           then [q] else []
       end) scan).

(* ------------------------------------------------------------------ synsets *)
(* [WITH wordforms(s) AS (VALUES ...)]
   SELECT DISTINCT ss.id, ss.pos, (SELECT ilis.id FROM ilis WHERE ilis.rowid=ss.ili_rowid),
                   ss.lexicon_rowid, ss.rowid
     FROM synsets AS ss
    [JOIN (SELECT _s.entry_rowid, _s.synset_rowid, _s.entry_rank
             FROM forms AS f JOIN senses AS _s ON _s.entry_rowid = f.entry_rowid
            WHERE (f.form IN wordforms [OR normalized_form IN wordforms]) [AND rank = 0]) AS s
       ON s.synset_rowid = ss.rowid]
    [WHERE ss.id = ?] [AND ss.pos = ?]
    [AND ss.ili_rowid IN (SELECT ilis.rowid FROM ilis WHERE ilis.id = ?)]
    [AND ss.lexicon_rowid IN (...)]
    [ORDER BY s.entry_rowid, s.entry_rank]
   Without forms: rowid order of synsets.  With forms the plan is f (see matching_forms) ->
   _s USING INDEX sense_entry_rowid_index (rowid order) -> ss by primary key; DISTINCT (temp
   b-tree on the selected columns) is applied before the ORDER BY sorter, so a synset reached
   several times is sorted with the (entry_rowid, entry_rank) of its first visit. *)
Definition synset_conditions (d : db) (id pos ili : option str) (lexicon_rowids : list Z)
           (ss : synset_row) : bool :=
  (if truthy id then ostr_eqb (Some (sy_id ss)) id else true)
  && (if truthy pos then ostr_eqb (sy_pos ss) pos else true)
  && (if truthy ili
      then oz_in (sy_ili_rowid ss)
                 (map il_rowid (filter (fun i => ostr_eqb (Some (il_id i)) ili) (t_ilis d)))
      else true)
  && (if nonempty lexicon_rowids then z_in (sy_lexicon_rowid ss) lexicon_rowids else true).

Definition rank_key_le (a b : Z * option Z) : bool :=
  if Z.ltb (fst a) (fst b) then true
  else if Z.ltb (fst b) (fst a) then false
  else oz_leb (snd a) (snd b).

Definition find_synsets (d : db) (id : option str) (forms : list str) (pos ili : option str)
           (lexicon_rowids : list Z) (normalized search_all_forms : bool) : list q_synset :=
  if nonempty forms then
    let visited :=
      flat_map (fun f =>
        flat_map (fun _s =>
          match find_by sy_rowid (se_synset_rowid _s) (t_synsets d) with
          | Some ss => if synset_conditions d id pos ili lexicon_rowids ss
                       then [((se_entry_rowid _s, se_entry_rank _s), synset_columns d ss)] else []
          | None => []
          end)
          (filter (fun _s => Z.eqb (se_entry_rowid _s) (fm_entry_rowid f)
                             (* only senses of the selected lexicons link a form to a synset (fix of F22) *)
                             && (if nonempty lexicon_rowids then z_in (se_lexicon_rowid _s) lexicon_rowids else true)) (t_senses d)))
        (matching_forms d forms normalized search_all_forms) in
    map snd (stable_sort (fun a b => rank_key_le (fst a) (fst b))
                         (dedup (fun a b => q_synset_eqb (snd a) (snd b)) visited))
  else
    dedup q_synset_eqb
      (map (synset_columns d) (filter (synset_conditions d id pos ili lexicon_rowids) (t_synsets d))).

(* SELECT DISTINCT ss.id, ss.pos, ili.id, ss.lexicon_rowid, ss.rowid
     FROM synsets as ss JOIN ilis as ili ON ss.ili_rowid = ili.rowid
    WHERE ili.id IN (...) AND ss.lexicon_rowid IN (...)
   Plan: SEARCH ili USING COVERING INDEX sqlite_autoindex_ilis_1 (id=?) over the IN-list
   (ascending), then SEARCH ss USING INDEX synset_ili_rowid_index (rowid order). *)
Definition get_synsets_for_ilis (d : db) (ilis : list str) (lexicon_rowids : list Z) : list q_synset :=
  dedup q_synset_eqb
    (flat_map (fun v =>
       flat_map (fun ili =>
         map (fun ss => {| qy_id := sy_id ss; qy_pos := sy_pos ss; qy_ili := Some (il_id ili);
                           qy_lexid := sy_lexicon_rowid ss; qy_rowid := sy_rowid ss |})
             (filter (fun ss => oz_is (sy_ili_rowid ss) (il_rowid ili)
                                && z_in (sy_lexicon_rowid ss) lexicon_rowids) (t_synsets d)))
         (filter (fun i => str_eqb (il_id i) v) (t_ilis d)))
       (sorted_values ilis)).

(* ------------------------------------------------------------------ relations *)
Definition c_star_s : str := S_ "*".

(* WITH rt(rowid, type) AS (SELECT rowid, type FROM relation_types [WHERE type IN (...)])
   -- the constraint is present  if relation_types and '*' not in relation_types *)
Definition rt (d : db) (relation_types : list str) : list relation_type_row :=
  if nonempty relation_types && negb (str_in c_star_s relation_types)
  then filter (fun t => str_in (rt_type t) relation_types) (t_relation_types d)
  else t_relation_types d.

(* The inner SELECT shared by the three relation queries:
     SELECT rt.type, lex.id || ":" || lex.version AS lexicon, srel.metadata, source_rowid, target_rowid
       FROM <table> AS srel JOIN rt ON srel.type_rowid = rt.rowid
                            JOIN lexicons AS lex ON lexicon_rowid = lex.rowid
      WHERE source_rowid IN (...) AND lexicon_rowid IN lexrowids
   Plan: SEARCH srel USING INDEX <table>_source_index (source_rowid=?) over the IN-list
   (ascending), i.e. ordered by (source_rowid, rowid); rt and lex are primary-key lookups (when
   the type list has one element rt becomes the outer loop, but then has at most one row). *)
Definition rel_subquery (d : db) (table : list relation_row) (source_rowids : list Z)
           (relation_types : list str) (lexicon_rowids : list Z)
  : list (str * str * option str * Z * Z) :=
  flat_map (fun srel =>
    match find_by rt_rowid (rl_type_rowid srel) (rt d relation_types),
          find_by lex_rowid (rl_lexicon_rowid srel) (t_lexicons d) with
    | Some t, Some lex =>
        [(rt_type t, lexicon_specifier lex, rl_metadata srel, rl_source_rowid srel, rl_target_rowid srel)]
    | _, _ => []
    end)
    (sort_by_z rl_source_rowid
       (filter (fun srel => z_in (rl_source_rowid srel) source_rowids
                            && z_in (rl_lexicon_rowid srel) lexicon_rowids) table)).

(* SELECT DISTINCT rel.type, rel.lexicon, rel.metadata, rel.source_rowid, tgt.id, tgt.pos,
                   (SELECT ilis.id FROM ilis WHERE ilis.rowid = tgt.ili_rowid),
                   tgt.lexicon_rowid, tgt.rowid
     FROM (<rel_subquery>) AS rel
     JOIN synsets AS tgt ON tgt.rowid = rel.target_rowid AND tgt.lexicon_rowid IN lexrowids
   lexrowids(rowid) AS (VALUES ...): with no lexicon rowids the statement is a syntax error
   (sqlite3.OperationalError) *)
Definition synset_target_query (d : db) (table : list relation_row) (source_rowids : list Z)
           (relation_types : list str) (lexicon_rowids : list Z) : res (list q_synset_relation) :=
  if negb (nonempty lexicon_rowids) then OtherError else
  Ok (dedup q_synset_relation_eqb
       (flat_map (fun rel =>
          match rel with
          | (type, lexicon, metadata, source_rowid, target_rowid) =>
              match find_by sy_rowid target_rowid (t_synsets d) with
              | Some tgt =>
                  if z_in (sy_lexicon_rowid tgt) lexicon_rowids
                  then [{| qyr_name := type; qyr_lexicon := lexicon; qyr_metadata := metadata;
                           qyr_src_rowid := source_rowid; qyr_synset := synset_columns d tgt |}]
                  else []
              | None => []
              end
          end)
          (rel_subquery d table source_rowids relation_types lexicon_rowids))).

Definition get_synset_relations (d : db) (source_rowids : list Z) (relation_types : list str)
           (lexicon_rowids : list Z) : res (list q_synset_relation) :=
  synset_target_query d (t_synset_relations d) source_rowids relation_types lexicon_rowids.

(* same statement over sense_synset_relations, WHERE source_rowid = ? *)
Definition get_sense_synset_relations (d : db) (source_rowid : Z) (relation_types : list str)
           (lexicon_rowids : list Z) : res (list q_synset_relation) :=
  synset_target_query d (t_sense_synset_relations d) [source_rowid] relation_types lexicon_rowids.

(* SELECT DISTINCT rel.type, rel.lexicon, rel.metadata, s.id, e.id, ss.id, s.lexicon_rowid, s.rowid
     FROM (<rel_subquery over sense_relations, WHERE source_rowid = ?>) AS rel
     JOIN senses AS s ON s.rowid = rel.target_rowid AND s.lexicon_rowid IN lexrowids
     JOIN entries AS e ON e.rowid = s.entry_rowid
     JOIN synsets AS ss ON ss.rowid = s.synset_rowid *)
Definition get_sense_relations (d : db) (source_rowid : Z) (relation_types : list str)
           (lexicon_rowids : list Z) : res (list q_sense_relation) :=
  if negb (nonempty lexicon_rowids) then OtherError else
  Ok (dedup q_sense_relation_eqb
       (flat_map (fun rel =>
          match rel with
          | (type, lexicon, metadata, _, target_rowid) =>
              match find_by se_rowid target_rowid (t_senses d) with
              | Some s =>
                  if z_in (se_lexicon_rowid s) lexicon_rowids
                  then match sense_columns d s with
                       | Some (q, _, _) => [{| qsr_name := type; qsr_lexicon := lexicon;
                                               qsr_metadata := metadata; qsr_sense := q |}]
                       | None => []
                       end
                  else []
              | None => []
              end
          end)
          (rel_subquery d (t_sense_relations d) [source_rowid] relation_types lexicon_rowids))).

(* ------------------------------------------------------------------ definitions, examples, frames *)
(* SELECT d.definition, d.language, (SELECT s.id FROM senses AS s WHERE s.rowid=d.sense_rowid), d.rowid
     FROM definitions AS d WHERE d.synset_rowid = ? AND d.lexicon_rowid IN (...) *)
Definition get_definitions (d : db) (synset_rowid : Z) (lexicon_rowids : list Z)
  : list (option str * option str * option str * Z) :=
  map (fun r => (df_definition r, df_language r,
                 match ofind_by se_rowid (df_sense_rowid r) (t_senses d) with
                 | Some s => Some (se_id s) | None => None end,
                 df_rowid r))
      (filter (fun r => Z.eqb (df_synset_rowid r) synset_rowid
                        && z_in (df_lexicon_rowid r) lexicon_rowids) (t_definitions d)).

Definition s_senses : str := S_ "senses".
Definition s_synsets : str := S_ "synsets".

(* prefix = {'senses': 'sense', 'synsets': 'synset'}.get(table); wn.Error if None
   SELECT example, language, rowid FROM {prefix}_examples
    WHERE {prefix}_rowid = ? AND lexicon_rowid IN (...) *)
Definition get_examples (d : db) (rowid : Z) (table : str) (lexicon_rowids : list Z)
  : res (list (option str * option str * Z)) :=
  let sel (t : list example_row) :=
    Ok (map (fun r => (ex_example r, ex_language r, ex_rowid r))
            (filter (fun r => Z.eqb (ex_owner_rowid r) rowid
                              && z_in (ex_lexicon_rowid r) lexicon_rowids) t)) in
  if str_eqb table s_senses then sel (t_sense_examples d)
  else if str_eqb table s_synsets then sel (t_synset_examples d)
  else WnError.

(* SELECT sb.frame FROM syntactic_behaviours AS sb
     JOIN syntactic_behaviour_senses AS sbs ON sbs.syntactic_behaviour_rowid = sb.rowid
    WHERE sbs.sense_rowid = ? AND sb.lexicon_rowid IN (...)
   Plan: SEARCH sbs USING INDEX syntactic_behaviour_sense_sense_index, sb by primary key *)
Definition get_syntactic_behaviours (d : db) (rowid : Z) (lexicon_rowids : list Z) : list str :=
  flat_map (fun sbs =>
    match find_by sb_rowid (sbs_syntactic_behaviour_rowid sbs) (t_syntactic_behaviours d) with
    | Some sb => if z_in (sb_lexicon_rowid sb) lexicon_rowids then [sb_frame sb] else []
    | None => []
    end)
    (filter (fun sbs => Z.eqb (sbs_sense_rowid sbs) rowid) (t_syntactic_behaviour_senses d)).

(* ------------------------------------------------------------------ members *)
Inductive sourcetype := by_entry | by_synset.

(* SELECT s.id, e.id, ss.id, s.lexicon_rowid, s.rowid
     FROM senses AS s JOIN entries AS e ON e.rowid = s.entry_rowid
                      JOIN synsets AS ss ON ss.rowid = s.synset_rowid
    WHERE s.{sourcetype}_rowid = ? AND s.lexicon_rowid IN (...)
    ORDER BY s.{sourcetype}_rank *)
Definition _get_senses (d : db) (rowid : Z) (st : sourcetype) (lexicon_rowids : list Z) : list q_sense :=
  let src (s : sense_row) := match st with by_entry => se_entry_rowid s | by_synset => se_synset_rowid s end in
  let rank (s : sense_row) := match st with by_entry => se_entry_rank s | by_synset => se_synset_rank s end in
  flat_map (fun s => match sense_columns d s with Some (q, _, _) => [q] | None => [] end)
    (sort_by_oz rank
       (filter (fun s => Z.eqb (src s) rowid && z_in (se_lexicon_rowid s) lexicon_rowids)
               (t_senses d))).

Definition get_entry_senses (d : db) (rowid : Z) (lexicon_rowids : list Z) : list q_sense :=
  _get_senses d rowid by_entry lexicon_rowids.
Definition get_synset_members (d : db) (rowid : Z) (lexicon_rowids : list Z) : list q_sense :=
  _get_senses d rowid by_synset lexicon_rowids.

(* ------------------------------------------------------------------ single-row lookups *)
(* tablename = {'senses': 'senses', 'synsets': 'synsets'}.get(table); wn.Error if None
   if rowid == NON_ROWID: return False
   SELECT lexicalized FROM {tablename} WHERE rowid=?   -- .fetchone()[0]: TypeError without a row *)
Definition get_lexicalized (d : db) (rowid : Z) (table : str) : res bool :=
  if str_eqb table s_senses then
    if Z.eqb rowid NON_ROWID then Ok false
    else match find_by se_rowid rowid (t_senses d) with
         | Some s => Ok (se_lexicalized s) | None => OtherError end
  else if str_eqb table s_synsets then
    if Z.eqb rowid NON_ROWID then Ok false
    else match find_by sy_rowid rowid (t_synsets d) with
         | Some ss => Ok (sy_lexicalized ss) | None => OtherError end
  else WnError.

(* SELECT adjposition FROM adjpositions WHERE sense_rowid = ?   -- first row or None *)
Definition get_adjposition (d : db) (rowid : Z) : option str :=
  match filter (fun a => Z.eqb (aj_sense_rowid a) rowid) (t_adjpositions d) with
  | a :: _ => Some (aj_adjposition a)
  | [] => None
  end.

(* SELECT value, variety, notation, phonemic, audio FROM pronunciations WHERE form_rowid = ? *)
Definition get_form_pronunciations (d : db) (form_rowid : Z)
  : list (option str * option str * option str * bool * option str) :=
  map (fun p => (pr_value p, pr_variety p, pr_notation p, pr_phonemic p, pr_audio p))
      (filter (fun p => Z.eqb (pr_form_rowid p) form_rowid) (t_pronunciations d)).

(* SELECT tag, category FROM tags WHERE form_rowid = ? *)
Definition get_form_tags (d : db) (form_rowid : Z) : list (option str * option str) :=
  map (fun t => (tg_tag t, tg_category t))
      (filter (fun t => Z.eqb (tg_form_rowid t) form_rowid) (t_tags d)).

(* SELECT count, rowid FROM counts WHERE sense_rowid = ? AND lexicon_rowid IN (...) *)
Definition get_sense_counts (d : db) (sense_rowid : Z) (lexicon_rowids : list Z) : list (Z * Z) :=
  map (fun c => (ct_count c, ct_rowid c))
      (filter (fun c => Z.eqb (ct_sense_rowid c) sense_rowid
                        && z_in (ct_lexicon_rowid c) lexicon_rowids) (t_counts d)).

(* SELECT lf.name FROM lexfiles AS lf JOIN synsets AS ss ON ss.lexfile_rowid = lf.rowid
    WHERE ss.rowid = ?   -- first row or None *)
Definition get_lexfile (d : db) (synset_rowid : Z) : option str :=
  match find_by sy_rowid synset_rowid (t_synsets d) with
  | Some ss => match ofind_by lf_rowid (sy_lexfile_rowid ss) (t_lexfiles d) with
               | Some lf => Some (lf_name lf)
               | None => None
               end
  | None => None
  end.
