(* Model/Rel.v — a small relational library modelling the part of SQLite that
   wn/_add.py relies on: tables are lists of rows in rowid order, a row is a list
   of cells starting with the rowid, the database is an association list by table
   name (order preserved).  Constraints (NOT NULL, UNIQUE, foreign keys with their
   ON DELETE actions) are driven by the generated [WnV.Gen.Schema.schema]. *)
From Coq Require Import ZArith List Bool.
Import ListNotations.
Require Import WnV.Base.Sx WnV.Gen.Schema WnV.Gen.Constants WnV.Model.Spec.
Require Import WnV.Model.Val.
From Coq Require Import String.
Local Open Scope Z_scope.
Local Open Scope string_scope.

(* ---------- outcomes ----------
   [WnError]    : wn.Error raised by the Python code
   [OtherError] : any other exception (sqlite3.IntegrityError, KeyError, TypeError ...) *)
Inductive result (T : Type) : Type :=
| Ok (x : T)
| WnError
| OtherError.
Arguments Ok {T} x.
Arguments WnError {T}.
Arguments OtherError {T}.

Definition bind {T U} (r : result T) (f : T -> result U) : result U :=
  match r with
  | Ok x => f x
  | WnError => WnError
  | OtherError => OtherError
  end.
Notation "x <- e ;; f" := (bind e (fun x => f))
  (at level 61, e at next level, right associativity).
Notation "' p <- e ;; f" := (bind e (fun p => f))
  (at level 61, p pattern, e at next level, right associativity).

Fixpoint foldM {T S} (f : S -> T -> result S) (l : list T) (s : S) : result S :=
  match l with
  | [] => Ok s
  | x :: l' => s' <- f s x ;; foldM f l' s'
  end.
Fixpoint mapM {T U} (f : T -> result U) (l : list T) : result (list U) :=
  match l with
  | [] => Ok []
  | x :: l' => y <- f x ;; ys <- mapM f l' ;; Ok (y :: ys)
  end.
Definition concatM {T U} (f : T -> result (list U)) (l : list T) : result (list U) :=
  ls <- mapM f l ;; Ok (List.concat ls).

(* ---------- cells, rows, tables, databases ---------- *)
Inductive cell : Type :=
| CNull
| CInt (n : Z)
| CText (s : str)
| CMeta (v : val).     (* a metadata cell: the JSON value that the adapter stored *)

Definition row := list cell.          (* the rowid first, then the other columns *)
Definition table := list row.         (* rowid order *)
Definition db := list (str * table).  (* by table name, order preserved *)

Definition tn (t : string) : str := str_of_string t.

Definition get_table (d : db) (t : string) : table :=
  match find (fun nt => str_eqb (fst nt) (tn t)) d with
  | Some nt => snd nt
  | None => []
  end.
Fixpoint set_table_str (d : db) (t : str) (rows : table) : db :=
  match d with
  | [] => [(t, rows)]
  | (n, r) :: d' => if str_eqb n t then (n, rows) :: d' else (n, r) :: set_table_str d' t rows
  end.
Definition set_table (d : db) (t : string) (rows : table) : db := set_table_str d (tn t) rows.

Definition rowid_of (r : row) : Z := match r with CInt n :: _ => n | _ => 0 end.

(* New rowid = max existing rowid + 1 (1 for an empty table) *)
Definition next_rowid (rows : table) : Z :=
  fold_left (fun m r => Z.max m (rowid_of r)) rows 0 + 1.

(* ---------- the schema ---------- *)
Definition columns_t := list (string * string * bool * bool).      (* name, decltype, NOT NULL, pk *)
Definition fkeys_t := list (string * string * string * string).    (* column, parent, parent column, ON DELETE *)
Definition uniques_t := list (list string).

Definition schema_find (t : string) : option (columns_t * fkeys_t * uniques_t) :=
  match find (fun e => String.eqb (fst (fst (fst e))) t) schema with
  | Some (_, cols, fks, uqs) => Some (cols, fks, uqs)
  | None => None
  end.
Definition table_columns (t : string) : columns_t :=
  match schema_find t with Some (c, _, _) => c | None => [] end.
Definition table_fkeys (t : string) : fkeys_t :=
  match schema_find t with Some (_, f, _) => f | None => [] end.
Definition table_uniques (t : string) : uniques_t :=
  match schema_find t with Some (_, _, u) => u | None => [] end.

Definition col_name (c : string * string * bool * bool) : string := fst (fst (fst c)).
Definition col_type (c : string * string * bool * bool) : string := snd (fst (fst c)).
Definition col_notnull (c : string * string * bool * bool) : bool := snd (fst c).

(* the columns other than the rowid, in declaration order: the VALUES list of an
   INSERT (whose leading [null] for an explicit rowid column is left out) *)
Definition data_columns (t : string) : columns_t :=
  filter (fun c => negb (String.eqb (col_name c) "rowid")) (table_columns t).
(* the column names of a row as listed on the wire: rowid first *)
Definition wire_columns (t : string) : list string := "rowid" :: map col_name (data_columns t).

Fixpoint index_of (c : string) (l : list string) (i : nat) : option nat :=
  match l with
  | [] => None
  | x :: l' => if String.eqb x c then Some i else index_of c l' (S i)
  end.
Definition col_index_opt (t c : string) : option nat := index_of c (wire_columns t) O.
Definition col_exists (t c : string) : bool :=
  match col_index_opt t c with Some _ => true | None => false end.
(* position of column [c] in the rows of table [t]; every use is covered by an
   Example [col_exists t c = true] *)
Definition col_index (t c : string) : nat :=
  match col_index_opt t c with Some i => i | None => O end.
Definition cell_at (i : nat) (r : row) : cell := nth i r CNull.
Definition col (t c : string) (r : row) : cell := cell_at (col_index t c) r.

(* CHECK constraints of schema.sql (not part of Gen.Schema): the four BOOLEAN
   columns are declared  CHECK( c IN (0, 1) ) *)
Definition bool_check_columns : list (string * string) :=
  [("lexicons", "modified"); ("pronunciations", "phonemic");
   ("synsets", "lexicalized"); ("senses", "lexicalized")].
Definition has_bool_check (t c : string) : bool :=
  existsb (fun tc => String.eqb (fst tc) t && String.eqb (snd tc) c) bool_check_columns.

Example bool_checks_are_the_boolean_columns :
  flat_map (fun e => match e with
                     | (t, cols, _, _) =>
                         map (fun c => (t, col_name c))
                             (filter (fun c => String.eqb (col_type c) "BOOLEAN") cols)
                     end) schema
  = [("lexicons", "modified"); ("pronunciations", "phonemic");
     ("synsets", "lexicalized"); ("senses", "lexicalized")].
Proof. vm_compute. reflexivity. Qed.

(* ---------- SQL values ---------- *)
(* [a = b] in a WHERE clause: never true when either side is NULL *)
Definition sql_eq (a b : cell) : bool :=
  match a, b with
  | CInt x, CInt y => Z.eqb x y
  | CText x, CText y => str_eqb x y
  | _, _ => false
  end.

(* decimal representation (for the TEXT affinity of integers) *)
Fixpoint dec_digits (fuel : nat) (n : Z) (acc : str) : str :=
  match fuel with
  | O => acc
  | S f => let acc' := (48 + n mod 10) :: acc in
           if Z.eqb (n / 10) 0 then acc' else dec_digits f (n / 10) acc'
  end.
Definition dec_of_Z (n : Z) : str :=
  if Z.ltb n 0 then 45 :: dec_digits (S (Z.to_nat (Z.log2 (- n)))) (- n) []
  else dec_digits (S (Z.to_nat (Z.log2 n))) n [].

(* column affinity on storage: an integer stored in a TEXT column becomes text.
   (Numeric-looking text stored in INTEGER/NUMERIC columns is not modelled: the
   resources carry Python ints there.) *)
Definition coerce (decltype : string) (c : cell) : cell :=
  match c with
  | CInt n => if String.eqb decltype "TEXT" then CText (dec_of_Z n) else c
  | _ => c
  end.

(* ---------- constraint checks ---------- *)
Definition is_null (c : cell) : bool := match c with CNull => true | _ => false end.

(* NOT NULL and CHECK on the data cells [vals] (rowid excluded) *)
Fixpoint row_checks_ok (t : string) (cols : columns_t) (vals : list cell) : bool :=
  match cols, vals with
  | [], [] => true
  | c :: cols', v :: vals' =>
      negb (col_notnull c && is_null v)
      && (if has_bool_check t (col_name c)
          then match v with CNull => true | CInt n => Z.eqb n 0 || Z.eqb n 1 | _ => false end
          else true)
      && row_checks_ok t cols' vals'
  | _, _ => false     (* wrong number of values *)
  end.

(* two rows agree on a UNIQUE column set: all columns non-NULL and equal
   (NULLs are distinct from each other) *)
Definition same_key (t : string) (key : list string) (r1 r2 : row) : bool :=
  forallb (fun c => sql_eq (col t c r1) (col t c r2)) key.
Definition unique_conflict (t : string) (rows : table) (r : row) : bool :=
  existsb (fun key => existsb (same_key t key r) rows) (table_uniques t).

Fixpoint coerce_all (cols : columns_t) (vals : list cell) : list cell :=
  match cols, vals with
  | c :: cols', v :: vals' => coerce (col_type c) v :: coerce_all cols' vals'
  | _, _ => vals
  end.

(* ---------- INSERT ----------
   [vals]: the values of the non-rowid columns in declaration order; the rowid is
   always generated.  Result: the new database and the new rowid. *)
Inductive ins_outcome : Type :=
| Inserted (d : db) (rowid : Z)
| Violation.   (* NOT NULL / CHECK / UNIQUE *)

Definition try_insert (d : db) (t : string) (vals : list cell) : ins_outcome :=
  let cols := data_columns t in
  let vals := coerce_all cols vals in
  let rows := get_table d t in
  if negb (row_checks_ok t cols vals) then Violation
  else
    let rid := next_rowid rows in
    let r := CInt rid :: vals in
    if unique_conflict t rows r then Violation
    else Inserted (set_table d t (rows ++ [r])%list) rid.

(* INSERT INTO t VALUES (...): a violation is an sqlite3.IntegrityError *)
Definition insert_rowid (d : db) (t : string) (vals : list cell) : result (db * Z) :=
  match try_insert d t vals with
  | Inserted d' rid => Ok (d', rid)
  | Violation => OtherError
  end.
Definition insert (d : db) (t : string) (vals : list cell) : result db :=
  match try_insert d t vals with
  | Inserted d' _ => Ok d'
  | Violation => OtherError
  end.
(* INSERT OR IGNORE: the row is skipped on a UNIQUE, NOT NULL or CHECK violation *)
Definition insert_or_ignore (d : db) (t : string) (vals : list cell) : db :=
  match try_insert d t vals with
  | Inserted d' _ => d'
  | Violation => d
  end.

(* ---------- scalar sub-selects ---------- *)
(* (SELECT rowid FROM t WHERE p): the first matching row in rowid order, or NULL *)
Definition select_rowid (d : db) (t : string) (p : row -> bool) : cell :=
  match find p (get_table d t) with
  | Some r => CInt (rowid_of r)
  | None => CNull
  end.
Definition select_rows (d : db) (t : string) (p : row -> bool) : table :=
  filter p (get_table d t).

(* ---------- UPDATE ---------- *)
Fixpoint set_nth (i : nat) (c : cell) (r : row) : row :=
  match i, r with
  | O, _ :: r' => c :: r'
  | S i', x :: r' => x :: set_nth i' c r'
  | _, [] => []
  end.
Definition col_decl (t c : string) : option (string * string * bool * bool) :=
  find (fun x => String.eqb (col_name x) c) (table_columns t).
Definition apply_sets (t : string) (sets : list (string * cell)) (r : row) : row :=
  fold_left (fun r sc =>
               let ty := match col_decl t (fst sc) with Some x => col_type x | None => "" end in
               set_nth (col_index t (fst sc)) (coerce ty (snd sc)) r) sets r.
(* UPDATE t SET c1 = v1, ... WHERE p.  Rows are updated in rowid order; a NOT NULL
   or UNIQUE violation aborts the statement. *)
Fixpoint update_go (t : string) (p : row -> bool) (sets : list (string * cell))
         (done todo : table) : result table :=
  match todo with
  | [] => Ok (rev done)
  | r :: todo' =>
      if p r then
        let r' := apply_sets t sets r in
        if negb (row_checks_ok t (data_columns t) (tl r')) then OtherError
        else if unique_conflict t (rev_append done todo') r' then OtherError
        else update_go t p sets (r' :: done) todo'
      else update_go t p sets (r :: done) todo'
  end.
Definition update (d : db) (t : string) (p : row -> bool) (sets : list (string * cell))
  : result db :=
  rows <- update_go t p sets [] (get_table d t) ;;
  Ok (set_table d t rows).

(* INSERT ... ON CONFLICT(key) DO UPDATE SET c = excluded.c for c in [upd]:
   when a row with the same [key] exists, its columns [upd] take the values of the
   row that would have been inserted (no rowid is consumed). *)
Definition upsert (d : db) (t : string) (vals : list cell) (key : list string)
           (upd : list string) : result db :=
  let cols := data_columns t in
  let vals := coerce_all cols vals in
  let rows := get_table d t in
  if negb (row_checks_ok t cols vals) then OtherError
  else
    let excluded := CInt (next_rowid rows) :: vals in
    match find (same_key t key excluded) rows with
    | Some old =>
        update d t (fun r => Z.eqb (rowid_of r) (rowid_of old))
               (map (fun c => (c, col t c excluded)) upd)
    | None => insert d t vals
    end.

(* ---------- DELETE with foreign-key actions ----------
   Deleting the rows [rids] of table [t]: for every foreign key of every table
   referencing [t].rowid,
     CASCADE   deletes the referencing rows (recursively),
     SET NULL  nulls the referencing column,
     NO ACTION is checked when the statement ends: it fails if a row still refers
               to a deleted row. *)
Definition zmem_z (x : Z) (l : list Z) : bool := existsb (Z.eqb x) l.
Definition refers (i : nat) (rids : list Z) (r : row) : bool :=
  match cell_at i r with CInt n => zmem_z n rids | _ => false end.

(* all (child table, column, action) referencing table [t] *)
Definition referencing (t : string) : list (string * string * string) :=
  flat_map (fun e => match e with
                     | (child, _, fks, _) =>
                         flat_map (fun fk => match fk with
                                             | (c, parent, _, action) =>
                                                 if String.eqb parent t then [(child, c, action)] else []
                                             end) fks
                     end) schema.

(* state: database and the log of deleted (table, rowids) *)
Definition dellog := list (string * list Z).

Fixpoint delete_rows (fuel : nat) (st : db * dellog) (t : string) (rids : list Z)
  : result (db * dellog) :=
  match fuel with
  | O => OtherError                       (* out of fuel *)
  | S f =>
      match rids with
      | [] => Ok st
      | _ =>
          let '(d, lg) := st in
          let d1 := set_table d t (filter (fun r => negb (zmem_z (rowid_of r) rids)) (get_table d t)) in
          foldM (fun (st : db * dellog) (ref : string * string * string) =>
                   let '(child, c, action) := ref in
                   let '(d, lg) := st in
                   let i := col_index child c in
                   if String.eqb action "CASCADE" then
                     let kids := map rowid_of (filter (refers i rids) (get_table d child)) in
                     delete_rows f (d, lg) child kids
                   else if String.eqb action "SET NULL" then
                     Ok (set_table d child
                                   (map (fun r => if refers i rids r then set_nth i CNull r else r)
                                        (get_table d child)), lg)
                   else Ok st)
                (referencing t) (d1, (t, rids) :: lg)
      end
  end.

(* the immediate NO ACTION constraints at the end of the statement *)
Definition no_action_ok (d : db) (lg : dellog) : bool :=
  forallb (fun e : string * list Z =>
             let '(t, rids) := e in
             forallb (fun ref : string * string * string =>
                        let '(child, c, action) := ref in
                        if String.eqb action "CASCADE" || String.eqb action "SET NULL" then true
                        else negb (existsb (refers (col_index child c) rids) (get_table d child)))
                     (referencing t))
          lg.

(* DELETE FROM t WHERE rowid = rid *)
Definition delete_row (fuel : nat) (d : db) (t : string) (rid : Z) : result db :=
  if existsb (fun r => Z.eqb (rowid_of r) rid) (get_table d t) then
    '(d', lg) <- delete_rows fuel (d, []) t [rid] ;;
    if no_action_ok d' lg then Ok d' else OtherError
  else Ok d.
(* enough for any cascade: the depth of the foreign-key graph is below the number of tables *)
Definition delete_fuel : nat := S (List.length schema).

(* ---------- wire format ----------
   db = L [ L [Sz name; L rows] ... ]; row = L cells; cell = L [A 0] | L [A 1; A n]
   | L [A 2; Sz text] | L [A 3; val] *)
Definition cell_of_sx (x : sx) : cell :=
  match x with
  | L [A 1; A n] => CInt n
  | L [A 2; L s] => CText (map sx_z s)
  | L [A 3; v] => CMeta (val_of_sx v)
  | _ => CNull
  end.
Definition sx_of_cell (c : cell) : sx :=
  match c with
  | CNull => L [A 0]
  | CInt n => L [A 1; A n]
  | CText s => L [A 2; sx_of_str s]
  | CMeta v => L [A 3; sx_of_val v]
  end.
Definition db_of_sx (x : sx) : db :=
  map (fun t => (sx_str (sx_nth 0 t),
                 map (fun r => map cell_of_sx (sx_list r)) (sx_list (sx_nth 1 t))))
      (sx_list x).
Definition sx_of_db (d : db) : sx :=
  L (map (fun nt => L [sx_of_str (fst nt); L (map (fun r => L (map sx_of_cell r)) (snd nt))]) d).

(* result encoding: L [A 1; db'] | L [A (-1)] (wn.Error) | L [A (-5)] (other exception) *)
Definition sx_of_result (r : result db) : sx :=
  match r with
  | Ok d => L [A 1; sx_of_db d]
  | WnError => L [A (-1)]
  | OtherError => L [A (-5)]
  end.

(* ---------- sanity ---------- *)
Example col_index_entries : map (col_index "entries") ["rowid"; "id"; "lexicon_rowid"; "pos"; "metadata"]
                            = [0; 1; 2; 3; 4]%nat.
Proof. vm_compute. reflexivity. Qed.
(* tables without an explicit rowid column still carry the rowid first *)
Example col_index_tags : map (col_index "tags") ["rowid"; "form_rowid"; "tag"; "category"] = [0; 1; 2; 3]%nat.
Proof. vm_compute. reflexivity. Qed.
Example referencing_forms : referencing "forms"
  = [("pronunciations", "form_rowid", "CASCADE"); ("tags", "form_rowid", "CASCADE")].
Proof. vm_compute. reflexivity. Qed.
Example dec_examples : map dec_of_Z [0; 7; 10; 127; -45] = map str_of_string ["0"; "7"; "10"; "127"; "-45"].
Proof. vm_compute. reflexivity. Qed.
Example next_rowid_empty : next_rowid [] = 1.
Proof. reflexivity. Qed.
Example next_rowid_gap : next_rowid [[CInt 1]; [CInt 5]; [CInt 3]] = 6.
Proof. reflexivity. Qed.
