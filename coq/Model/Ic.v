(* Model/Ic.v — transliteration of wn.ic.compute / _initialize / load.

   Weights are exact rationals (Python floats in the code; the correspondence
   check uses inputs on which float arithmetic is exact).  The hypernym graph,
   the part-of-speech class of every synset and wordnet.synsets(word) for every
   corpus word are inputs.  The frequency table is represented by the log of
   additions the code performs (key, weight); the value of an entry is the
   smoothing value plus the sum of its additions. *)
From Coq Require Import ZArith QArith List Bool.
Import ListNotations.
Require Import WnV.Base.Sx WnV.Model.Taxonomy.

Inductive key := Total (cls : Z) | Syn (s : node).

Definition key_eqb (a b : key) : bool :=
  match a, b with
  | Total x, Total y => Z.eqb x y
  | Syn x, Syn y => Z.eqb x y
  | _, _ => false
  end.

(* outcome of a Python call: value, KeyError, or model out of fuel *)
Inductive outcome (T : Type) := Ok (v : T) | KeyError | OutOfFuel.
Arguments Ok {T} v. Arguments KeyError {T}. Arguments OutOfFuel {T}.

Section Ic.
  Variable hyp : node -> list node.
  (* part-of-speech class of a synset as compute() uses it: ADJ_SAT is folded
     into ADJ; a negative class means "not in IC_PARTS_OF_SPEECH" *)
  Variable cls : node -> Z.

  (* the agenda loop of compute(): [agenda] is the Python list reversed (head =
     next element popped), [seen] the set of synsets already credited *)
  Fixpoint visit (fuel : nat) (agenda seen : list node) : option (list node) :=
    match fuel with
    | O => None
    | S f =>
        match agenda with
        | [] => Some seen
        | ss :: rest =>
            if nmem ss seen then visit f rest seen
            else visit f (rev (hyp ss) ++ rest) (ss :: seen)
        end
    end.

  (* the synset itself and its hypernym ancestors, each once *)
  Definition ancestors (fuel : nat) (x : node) : option (list node) := visit fuel [x] [].

  Record cword := { cw_count : Z; cw_synsets : list node }.

  Definition weight (distribute : bool) (w : cword) : Q :=
    if distribute
    then inject_Z (cw_count w) / inject_Z (Z.of_nat (length (cw_synsets w)))
    else inject_Z (cw_count w).

  (* additions caused by one synset of a corpus word *)
  Definition events_synset (fuel : nat) (wt : Q) (s : node) : outcome (list (key * Q)) :=
    if Z.ltb (cls s) 0 then Ok []
    else match ancestors fuel s with
         | None => OutOfFuel
         | Some anc =>
             (* freq[pos][ss.id] += weight raises KeyError for an ancestor of another class *)
             if forallb (fun t => Z.eqb (cls t) (cls s)) anc
             then Ok ((Total (cls s), wt) :: map (fun t => (Syn t, wt)) anc)
             else KeyError
         end.

  Fixpoint events_list (fuel : nat) (wt : Q) (ss : list node) : outcome (list (key * Q)) :=
    match ss with
    | [] => Ok []
    | s :: rest =>
        match events_synset fuel wt s with
        | Ok e1 => match events_list fuel wt rest with
                   | Ok e2 => Ok (e1 ++ e2)
                   | KeyError => KeyError | OutOfFuel => OutOfFuel
                   end
        | KeyError => KeyError | OutOfFuel => OutOfFuel
        end
    end.

  (* compute(): all additions, over the corpus words in Counter order *)
  Fixpoint compute_events (fuel : nat) (distribute : bool) (corpus : list cword)
    : outcome (list (key * Q)) :=
    match corpus with
    | [] => Ok []
    | w :: rest =>
        match cw_synsets w with
        | [] => compute_events fuel distribute rest            (* unknown word: ignored *)
        | ss =>
            match events_list fuel (weight distribute w) ss with
            | Ok e1 => match compute_events fuel distribute rest with
                       | Ok e2 => Ok (e1 ++ e2)
                       | KeyError => KeyError | OutOfFuel => OutOfFuel
                       end
            | KeyError => KeyError | OutOfFuel => OutOfFuel
            end
        end
    end.

  Definition sumQ (l : list Q) : Q := fold_right Qplus 0 l.

  (* value of a table entry after the additions *)
  Definition entry (smoothing : Q) (ev : list (key * Q)) (k : key) : Q :=
    smoothing + sumQ (map snd (filter (fun e => key_eqb (fst e) k) ev)).

  (* synset_probability: freq(ss) / N of its class *)
  Definition probability (smoothing : Q) (ev : list (key * Q)) (t : node) : Q :=
    entry smoothing ev (Syn t) / entry smoothing ev (Total (cls t)).
End Ic.

Arguments cw_count : clear implicits.
Arguments cw_synsets : clear implicits.

(* ---------- load(): WordNet::Similarity weight lines, already tokenised -------- *)
(* (synset, class, weight, is_root): freq[pos][ssid] = weight (a later line for the same synset
   replaces an earlier one); lines marked ROOT add to the total of their class.  [cls] is the class
   of the wordnet's own synsets: the entry read back for synset t is freq[cls t][t]. *)
Definition line := (node * Z * Q * bool)%type.
Definition line_names (cls : node -> Z) (t : node) (l : line) : bool :=
  match l with (s, c, _, _) => Z.eqb s t && Z.eqb c (cls t) end.
Definition line_root_of (c : Z) (l : line) : bool :=
  match l with (_, c', _, r) => r && Z.eqb c' c end.
Definition line_weight (l : line) : Q := match l with (_, _, w, _) => w end.

Definition load_entry (cls : node -> Z) (lines : list line) (k : key) : Q :=
  match k with
  | Syn t => fold_left (fun acc l => if line_names cls t l then line_weight l else acc) lines 0
  | Total c => fold_left (fun acc l => if line_root_of c l then acc + line_weight l else acc) lines 0
  end.

(* ---------- wire format ----------
   case   = L [graph; L [ L [node; cls] ...]; A distribute; L [num; den] (smoothing);
               L [ L [count; L synsets] ... ] ]
   result = L [ L [ L [node; num; den] ...]; L [ L [cls; num; den] ...] ]  | A (-3) KeyError | A (-2) fuel *)
Definition cls_of (tbl : list (node * Z)) (x : node) : Z :=
  match find (fun kv => Z.eqb (fst kv) x) tbl with Some kv => snd kv | None => (-1)%Z end.

Definition q_of_sx (x : sx) : Q :=
  Qmake (sx_z (sx_nth 0 x)) (Z.to_pos (sx_z (sx_nth 1 x))).
Definition sx_of_q (k : Z) (q : Q) : sx :=
  let r := Qred q in L [A k; A (Qnum r); A (Zpos (Qden r))].

Definition run_ic (c : sx) : sx :=
  let g := adj_of_sx (sx_nth 0 c) in
  let tbl := map (fun e => (sx_z (sx_nth 0 e), sx_z (sx_nth 1 e))) (sx_list (sx_nth 1 c)) in
  let distribute := sx_bool (sx_nth 2 c) in
  let smoothing := q_of_sx (sx_nth 3 c) in
  let corpus := map (fun e => {| cw_count := sx_z (sx_nth 0 e);
                                 cw_synsets := map sx_z (sx_list (sx_nth 1 e)) |})
                    (sx_list (sx_nth 4 c)) in
  let fuel := S (length tbl + length (concat (map snd g)) + 1) in
  match compute_events (hyp_of g) (cls_of tbl) fuel distribute corpus with
  | OutOfFuel => A (-2)
  | KeyError => A (-3)
  | Ok ev =>
      L [ L (map (fun kv => sx_of_q (fst kv) (entry smoothing ev (Syn (fst kv))))
                 (filter (fun kv => Z.leb 0 (snd kv)) tbl));
          L (map (fun k => sx_of_q k (entry smoothing ev (Total k))) [0; 1; 2; 3]%Z) ]
  end.

Definition agree_q (m i : sx) : bool :=
  Z.eqb (sx_z (sx_nth 0 m)) (sx_z (sx_nth 0 i))
  && Qeq_bool (Qmake (sx_z (sx_nth 1 m)) (Z.to_pos (sx_z (sx_nth 2 m))))
              (Qmake (sx_z (sx_nth 1 i)) (Z.to_pos (sx_z (sx_nth 2 i)))).
Definition agree_ic (m i : sx) : bool :=
  match m, i with
  | A x, A y => Z.eqb x y
  | L _, L _ =>
      forall2b agree_q (sx_list (sx_nth 0 m)) (sx_list (sx_nth 0 i))
      && forall2b agree_q (sx_list (sx_nth 1 m)) (sx_list (sx_nth 1 i))
  | _, _ => false
  end.

(* ---------- wire format of load() ----------
   case   = L [ L [ L [node; cls] ...]; L [ L [node; cls; num; den; A root] ...] ]
   result = as for compute *)
Definition run_load (c : sx) : sx :=
  let tbl := map (fun e => (sx_z (sx_nth 0 e), sx_z (sx_nth 1 e))) (sx_list (sx_nth 0 c)) in
  let lines := map (fun e => (sx_z (sx_nth 0 e), sx_z (sx_nth 1 e),
                              Qmake (sx_z (sx_nth 2 e)) (Z.to_pos (sx_z (sx_nth 3 e))),
                              sx_bool (sx_nth 4 e)))
                   (sx_list (sx_nth 1 c)) in
  L [ L (map (fun kv => sx_of_q (fst kv) (load_entry (cls_of tbl) lines (Syn (fst kv))))
             (filter (fun kv => Z.leb 0 (snd kv)) tbl));
      L (map (fun k => sx_of_q k (load_entry (cls_of tbl) lines (Total k))) [0; 1; 2; 3]%Z) ].
