(* Model/XmlText.v — string-level functions used by the WN-LMF writer and reader
   (wn/lmf.py): the escapers of xml.etree.ElementTree and xml.sax.saxutils,
   Python's str.split()/' '.join, str(int), int(str), bytes.rstrip, and — as
   specification functions for the round-trip theorems — the decoders an XML
   parser applies to attribute values and character data.
   Strings are lists of code points ([str] of Base/Sx.v). *)
From Coq Require Import String.
From Coq Require Import ZArith List Bool.
Import ListNotations.
Require Import WnV.Base.Sx.
Require WnV.Model.Spec.
Local Open Scope Z_scope.

Local Notation s_ := str_of_string.

(* ---------- characters ---------- *)
Definition c_tab : Z := 9.
Definition c_nl : Z := 10.
Definition c_cr : Z := 13.
Definition c_sp : Z := 32.
Definition c_quot : Z := 34.   (* double quote *)
Definition c_hash : Z := 35.   (* # *)
Definition c_amp : Z := 38.    (* & *)
Definition c_apos : Z := 39.   (* apostrophe *)
Definition c_plus : Z := 43.
Definition c_minus : Z := 45.
Definition c_dot : Z := 46.
Definition c_semi : Z := 59.   (* ; *)
Definition c_lt : Z := 60.
Definition c_gt : Z := 62.
Definition c_us : Z := 95.     (* _ *)
Definition c_x : Z := 120.

Definition zin (c : Z) (s : str) : bool := existsb (Z.eqb c) s.

(* ---------- generic string helpers ---------- *)
Fixpoint prefixb (p s : str) : bool :=
  match p, s with
  | [], _ => true
  | _ :: _, [] => false
  | x :: p', y :: s' => Z.eqb x y && prefixb p' s'
  end.

(* sub in s (Python's substring test on str) *)
Fixpoint substrb (sub s : str) : bool :=
  prefixb sub s || match s with [] => false | _ :: s' => substrb sub s' end.

(* sep.join(l) *)
Fixpoint join (sep : str) (l : list str) : str :=
  match l with
  | [] => []
  | x :: r => match r with [] => x | _ => x ++ sep ++ join sep r end
  end.

(* s.split(sep) for a one-character separator (used for version_string.split('.')) *)
Fixpoint split_on_aux (sep : Z) (cur : str) (s : str) : list str :=
  match s with
  | [] => [rev cur]
  | c :: s' => if Z.eqb c sep then rev cur :: split_on_aux sep [] s'
               else split_on_aux sep (c :: cur) s'
  end.
Definition split_on (sep : Z) (s : str) : list str := split_on_aux sep [] s.

(* s.replace(pat, rep) for a non-empty pattern: left-to-right, non-overlapping.
   [skip] counts the characters of an already replaced occurrence still to drop. *)
Fixpoint replace_aux (pat rep : str) (skip : nat) (s : str) : str :=
  match s with
  | [] => []
  | c :: s' =>
      match skip with
      | S k => replace_aux pat rep k s'
      | O => if prefixb pat s then rep ++ replace_aux pat rep (pred (length pat)) s'
             else c :: replace_aux pat rep O s'
      end
  end.
Definition replace (pat rep s : str) : str :=
  match pat with [] => s | _ => replace_aux pat rep O s end.

(* ' ' * n *)
Definition spaces (n : nat) : str := repeat c_sp n.

(* ---------- Python whitespace: str.isspace / str.split() / str.strip() ---------- *)
Definition py_is_space (c : Z) : bool := Spec.is_space c.
(* s.split() *)
Definition py_split (s : str) : list str := Spec.split_ws s.
(* ' '.join(s.split()) — the whitespace normalisation of the reader's end handler *)
Definition norm_ws (s : str) : str := join [c_sp] (py_split s).

Fixpoint lstrip_by (f : Z -> bool) (s : str) : str :=
  match s with
  | [] => []
  | c :: s' => if f c then lstrip_by f s' else s
  end.
Definition rstrip_by (f : Z -> bool) (s : str) : str := rev (lstrip_by f (rev s)).
(* str.strip() *)
Definition py_strip (s : str) : str := rstrip_by py_is_space (lstrip_by py_is_space s).
(* not s.strip() *)
Definition py_blank (s : str) : bool := forallb py_is_space s.

(* bytes.rstrip(): ASCII whitespace b' \t\n\r\x0b\x0c' *)
Definition is_bytes_space (c : Z) : bool := zin c [32; 9; 10; 13; 11; 12].
Definition bytes_rstrip (s : str) : str := rstrip_by is_bytes_space s.

(* bytes.decode('utf-8') succeeds (strict decoder: no overlong forms, no
   surrogates, nothing above U+10FFFF) *)
Definition in_range (lo hi c : Z) : bool := Z.leb lo c && Z.leb c hi.
Definition is_cont (c : Z) : bool := in_range 128 191 c.
Fixpoint utf8_valid_aux (fuel : nat) (s : str) : bool :=
  match fuel with
  | O => true
  | S f =>
      match s with
      | [] => true
      | b0 :: r =>
          if in_range 0 127 b0 then utf8_valid_aux f r
          else if in_range 194 223 b0 then
            match r with b1 :: r' => is_cont b1 && utf8_valid_aux f r' | _ => false end
          else if in_range 224 239 b0 then
            match r with
            | b1 :: b2 :: r' =>
                (if Z.eqb b0 224 then in_range 160 191 b1
                 else if Z.eqb b0 237 then in_range 128 159 b1
                 else is_cont b1) && is_cont b2 && utf8_valid_aux f r'
            | _ => false
            end
          else if in_range 240 244 b0 then
            match r with
            | b1 :: b2 :: b3 :: r' =>
                (if Z.eqb b0 240 then in_range 144 191 b1
                 else if Z.eqb b0 244 then in_range 128 143 b1
                 else is_cont b1) && is_cont b2 && is_cont b3 && utf8_valid_aux f r'
            | _ => false
            end
          else false
      end
  end.
Definition utf8_valid (s : str) : bool := utf8_valid_aux (S (length s)) s.

(* ---------- str(int) ---------- *)
Fixpoint digits_aux (fuel : nat) (n : Z) (acc : str) : str :=
  match fuel with
  | O => acc
  | S f => let acc' := (48 + n mod 10) :: acc in
           if Z.eqb (n / 10) 0 then acc' else digits_aux f (n / 10) acc'
  end.
(* decimal digits of n >= 0; a number has at most log2(n)+1 digits *)
Definition digits (n : Z) : str := digits_aux (S (Z.to_nat (Z.log2 n))) n [].
Definition dec_of_Z (n : Z) : str :=
  if Z.ltb n 0 then c_minus :: digits (- n) else digits n.

(* ---------- int(str) ---------- *)
(* code points with Unicode decimal value 0 (unicodedata 15.0.0, the table of the
   running interpreter); every decimal digit is zero + 0..9 for one of these *)
Definition decimal_zeros : list Z :=
  [48; 1632; 1776; 1984; 2406; 2534; 2662; 2790; 2918; 3046; 3174; 3302; 3430; 3558; 3664;
   3792; 3872; 4160; 4240; 6112; 6160; 6470; 6608; 6784; 6800; 6992; 7088; 7232; 7248;
   42528; 43216; 43264; 43472; 43504; 43600; 44016; 65296; 66720; 68912; 69734; 69872;
   69942; 70096; 70384; 70736; 70864; 71248; 71360; 71472; 71904; 72016; 72784; 73040;
   73120; 73552; 92768; 92864; 93008; 120782; 120792; 120802; 120812; 120822; 123200;
   123632; 124144; 125264; 130032].
(* Py_UNICODE_TODECIMAL *)
Definition digit_val (c : Z) : option Z :=
  match find (fun z => in_range z (z + 9) c) decimal_zeros with
  | Some z => Some (c - z)
  | None => None
  end.
(* digits with single underscores allowed between digits *)
Fixpoint parse_digits (acc : Z) (prev_digit : bool) (s : str) : option Z :=
  match s with
  | [] => if prev_digit then Some acc else None
  | c :: r =>
      match digit_val c with
      | Some d => parse_digits (acc * 10 + d) true r
      | None => if Z.eqb c c_us && prev_digit then parse_digits acc false r else None
      end
  end.
(* int(s): surrounding whitespace, optional sign, decimal digits; None = ValueError.
   (CPython's limit of 4300 digits is not modelled.) *)
Definition parse_int (s : str) : option Z :=
  match py_strip s with
  | c :: r =>
      if Z.eqb c c_minus then option_map Z.opp (parse_digits 0 false r)
      else if Z.eqb c c_plus then parse_digits 0 false r
      else parse_digits 0 false (c :: r)
  | [] => None
  end.

(* ---------- xml.etree.ElementTree escapers ---------- *)
(* _escape_cdata: & < > (sequential str.replace calls with the ampersand first = one pass) *)
Definition escape_cdata (s : str) : str :=
  flat_map (fun c =>
    if Z.eqb c c_amp then s_ "&amp;"
    else if Z.eqb c c_lt then s_ "&lt;"
    else if Z.eqb c c_gt then s_ "&gt;"
    else [c]) s.
(* _escape_attrib: & < > double-quote \r \n \t *)
Definition escape_attrib (s : str) : str :=
  flat_map (fun c =>
    if Z.eqb c c_amp then s_ "&amp;"
    else if Z.eqb c c_lt then s_ "&lt;"
    else if Z.eqb c c_gt then s_ "&gt;"
    else if Z.eqb c c_quot then s_ "&quot;"
    else if Z.eqb c c_cr then s_ "&#13;"
    else if Z.eqb c c_nl then s_ "&#10;"
    else if Z.eqb c c_tab then s_ "&#09;"
    else [c]) s.

(* ---------- xml.sax.saxutils ---------- *)
(* escape(data, {'\n': '&#10;', '\r': '&#13;', '\t': '&#9;'}) *)
Definition sax_escape (s : str) : str :=
  flat_map (fun c =>
    if Z.eqb c c_amp then s_ "&amp;"
    else if Z.eqb c c_gt then s_ "&gt;"
    else if Z.eqb c c_lt then s_ "&lt;"
    else if Z.eqb c c_nl then s_ "&#10;"
    else if Z.eqb c c_cr then s_ "&#13;"
    else if Z.eqb c c_tab then s_ "&#9;"
    else [c]) s.
(* quoteattr(data) *)
Definition quoteattr (s : str) : str :=
  let d := sax_escape s in
  if zin c_quot d then
    if zin c_apos d then
      [c_quot] ++ flat_map (fun c => if Z.eqb c c_quot then s_ "&quot;" else [c]) d ++ [c_quot]
    else [c_apos] ++ d ++ [c_apos]
  else [c_quot] ++ d ++ [c_quot].

(* ---------- decoders (what an XML parser does to what the escapers wrote) ---------- *)
Definition hex_val (c : Z) : option Z :=
  if in_range 48 57 c then Some (c - 48)
  else if in_range 65 70 c then Some (c - 55)
  else if in_range 97 102 c then Some (c - 87)
  else None.
Definition dec_val (c : Z) : option Z :=
  if in_range 48 57 c then Some (c - 48) else None.
Fixpoint parse_base (base : Z) (dv : Z -> option Z) (acc : Z) (s : str) : option Z :=
  match s with
  | [] => Some acc
  | c :: r => match dv c with
              | Some d => parse_base base dv (acc * base + d) r
              | None => None
              end
  end.
Definition valid_char (n : Z) : option Z :=
  if in_range 1 1114111 n then Some n else None.
(* the body of a reference, between the ampersand and the semicolon *)
Definition decode_ref (body : str) : option Z :=
  if str_eqb body (s_ "amp") then Some c_amp
  else if str_eqb body (s_ "lt") then Some c_lt
  else if str_eqb body (s_ "gt") then Some c_gt
  else if str_eqb body (s_ "quot") then Some c_quot
  else if str_eqb body (s_ "apos") then Some c_apos
  else match body with
       | h :: x :: (_ :: _) as ds =>
           if Z.eqb h c_hash && Z.eqb x c_x then
             match parse_base 16 hex_val 0 ds with Some n => valid_char n | None => None end
           else if Z.eqb h c_hash then
             match parse_base 10 dec_val 0 (x :: ds) with Some n => valid_char n | None => None end
           else None
       | [h; d] =>
           if Z.eqb h c_hash then
             match parse_base 10 dec_val 0 [d] with Some n => valid_char n | None => None end
           else None
       | _ => None
       end.

(* One pass with a pending buffer: [pend = Some buf] means an ampersand was seen and
   [buf] holds (reversed) the characters after it.  A semicolon closes the reference;
   another ampersand or the end of the string flushes the pending text literally.
   [lit] is applied to literal characters only (not to decoded references). *)
Fixpoint decode_aux (lit : Z -> Z) (pend : option str) (s : str) : str :=
  match s with
  | [] => match pend with
          | None => []
          | Some buf => map lit (c_amp :: rev buf)
          end
  | c :: r =>
      match pend with
      | None => if Z.eqb c c_amp then decode_aux lit (Some []) r
                else lit c :: decode_aux lit None r
      | Some buf =>
          if Z.eqb c c_semi then
            match decode_ref (rev buf) with
            | Some d => d :: decode_aux lit None r
            | None => map lit (c_amp :: rev buf ++ [c_semi]) ++ decode_aux lit None r
            end
          else if Z.eqb c c_amp then
            map lit (c_amp :: rev buf) ++ decode_aux lit (Some []) r
          else decode_aux lit (Some (c :: buf)) r
      end
  end.
(* character data: references only *)
Definition decode_text (s : str) : str := decode_aux (fun c => c) None s.
(* attribute values: literal tab / newline / CR become spaces, then references *)
Definition decode_attr (s : str) : str :=
  decode_aux (fun c => if zin c [c_tab; c_nl; c_cr] then c_sp else c) None s.

(* XML 1.0 section 2.11: before anything else a parser turns CR LF and a lone CR
   into LF (so a literal CR only survives when written as a character reference —
   which _escape_attrib does, but _escape_cdata does not). *)
Fixpoint normalize_eol (s : str) : str :=
  match s with
  | [] => []
  | c :: r =>
      if Z.eqb c c_cr then
        c_nl :: match r with
                | d :: r' => if Z.eqb d c_nl then normalize_eol r' else normalize_eol r
                | [] => []
                end
      else c :: normalize_eol r
  end.
(* what expat reports for the raw text between the quotes of an attribute / for raw
   character data (without CDATA sections and comments) *)
Definition xml_attr_value (raw : str) : str := decode_attr (normalize_eol raw).
Definition xml_char_data (raw : str) : str := decode_text (normalize_eol raw).

(* ---------- sanity checks ---------- *)
(* expat on  k="x\r\ny\rz\tw\n&#13;&#10;&#9;&amp;&#x41;"  and on  t\r\nu\rv&#13;&lt;&#65;  *)
Example xml_attr_value_ex :
  xml_attr_value ([120; 13; 10; 121; 13; 122; 9; 119; 10] ++ s_ "&#13;&#10;&#9;&amp;&#x41;")
  = [120; 32; 121; 32; 122; 32; 119; 32; 13; 10; 9; 38; 65].
Proof. vm_compute. reflexivity. Qed.
Example xml_char_data_ex :
  xml_char_data ([116; 13; 10; 117; 13; 118] ++ s_ "&#13;&lt;&#65;") = [116; 10; 117; 10; 118; 13; 60; 65].
Proof. vm_compute. reflexivity. Qed.
Example dec_of_Z_ex : map dec_of_Z [0; 7; 10; 1234567890; -45] =
  map s_ ["0"; "7"; "10"; "1234567890"; "-45"]%string.
Proof. vm_compute. reflexivity. Qed.
Example parse_int_ex :
  map parse_int (map s_ [" 12 "; "+5"; "1_0"; "-0"; "00012"; ""; "1__0"; "_1"; "1_"; "+"; "1.5"; "- 1"]%string)
  = [Some 12; Some 5; Some 10; Some 0; Some 12; None; None; None; None; None; None; None].
Proof. vm_compute. reflexivity. Qed.
Example parse_int_arabic : parse_int [1635] = Some 3.
Proof. vm_compute. reflexivity. Qed.
Example norm_ws_ex : norm_ws (s_ "  a   b c ") = s_ "a b c".
Proof. vm_compute. reflexivity. Qed.
Example quoteattr_ex :
  map quoteattr (map s_ ["a<b"; "say ""hi"""; "it's ""x"""; "it's"]%string)
  = map s_ ["""a&lt;b"""; "'say ""hi""'"; """it's &quot;x&quot;"""; """it's"""]%string.
Proof. vm_compute. reflexivity. Qed.
Example escape_attrib_ex : escape_attrib [97; 9; 10; 13; 34; 38] = s_ "a&#09;&#10;&#13;&quot;&amp;".
Proof. vm_compute. reflexivity. Qed.
Example decode_attr_escape_ex :
  decode_attr (escape_attrib [97; 9; 10; 13; 34; 38; 60; 62; 39]) = [97; 9; 10; 13; 34; 38; 60; 62; 39].
Proof. vm_compute. reflexivity. Qed.
Example decode_text_ex : decode_text (s_ "a &amp; b &#x41;&#66; &foo; &a&lt; &") = s_ "a & b AB &foo; &a< &".
Proof. vm_compute. reflexivity. Qed.
Example replace_ex : replace (s_ "{x}") (s_ "YY") (s_ "a{x}b{x}") = s_ "aYYbYY".
Proof. vm_compute. reflexivity. Qed.
Example split_on_ex : split_on c_dot (s_ "1.10") = [s_ "1"; s_ "10"].
Proof. vm_compute. reflexivity. Qed.
