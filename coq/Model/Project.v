(* Model/Project.v — transliteration of wn.project.iterpackages and the file-type tests
   it dispatches on (wn/project.py, wn/_util.py, wn/_ili.py is_ili, wn/lmf.py is_lmf).

   The file system is an abstract tree; compression and archiving are *ideal codecs*:
   a compressed file is the constructor [Gz]/[Xz] around its content, a tar archive the
   constructor [Tar] around the tree it extracts to.  (The real codecs, temporary files
   and directory listing order are runtime behaviour: harness only.) *)
From Coq Require Import String.
From Coq Require Import ZArith List Bool.
Import ListNotations.
Require Import WnV.Base.Sx.
Local Open Scope Z_scope.

Inductive content :=
| Raw (bytes : list Z)
| Gz (c : content)          (* gzip.open(path).read() = c *)
| Xz (c : content)          (* lzma.open(path).read() = c *)
| Tar (members : list (str * node))     (* tar.extractall(tmpdir); tmpdir.iterdir() = members *)
with node :=
| File (c : content)
| Dir (entries : list (str * node)).

Inductive ptype := WORDNET | ILI.
Inductive pkg := Pkg (t : ptype) (resource : list Z).     (* package type and the bytes of its resource file *)
Inductive res (T : Type) := Ok (v : T) | WnError.
Arguments Ok {T} v. Arguments WnError {T}.

Section Project.
  (* lmf._read_header accepts the first two lines (an input of this model: Model/Lmf.v has it) *)
  Variable header_ok : list Z -> bool.

  Fixpoint bprefix (p b : list Z) : bool :=
    match p, b with
    | [], _ => true
    | x :: p', y :: b' => Z.eqb x y && bprefix p' b'
    | _ :: _, [] => false
    end.
  (* _util.is_xml: signature b'<?xml ' *)
  Definition is_xml (b : list Z) : bool := bprefix [60; 63; 120; 109; 108; 32] b.
  Definition is_lmf (b : list Z) : bool := is_xml b && header_ok b.
  (* _ili.is_ili: next(fh).rstrip(b'\r\n').split(b'\t')[0] in (b'ili', b'ILI'); an empty file is not an ILI file *)
  Fixpoint first_line (b : list Z) : list Z :=
    match b with
    | [] => []
    | c :: b' => if Z.eqb c 10 then [] else c :: first_line b'
    end.
  Fixpoint rstrip_cr (l : list Z) : list Z :=          (* on the reversed line *)
    match l with
    | c :: l' => if Z.eqb c 13 then rstrip_cr l' else l
    | [] => []
    end.
  Fixpoint first_field (b : list Z) : list Z :=
    match b with
    | [] => []
    | c :: b' => if Z.eqb c 9 then [] else c :: first_field b'
    end.
  Definition is_ili (b : list Z) : bool :=
    match b with
    | [] => false
    | _ => let f := first_field (rev (rstrip_cr (rev (first_line b)))) in
           str_eqb f [105; 108; 105] || str_eqb f [73; 76; 73]
    end.

  (* project._resource_file_type on a node (is_lmf / is_ili are false for directories and
     read the raw bytes of a file: a compressed or archived file shows its magic, not XML) *)
  Definition raw_of (n : node) : option (list Z) :=
    match n with File (Raw b) => Some b | _ => None end.
  Definition resource_file_type (n : node) : option ptype :=
    match raw_of n with
    | Some b => if is_lmf b then Some WORDNET else if is_ili b then Some ILI else None
    | None => None
    end.

  (* project._package_directory_types *)
  Definition package_directory_types (n : node) : list (node * ptype) :=
    match n with
    | Dir es => flat_map (fun e => match resource_file_type (snd e) with
                                   | Some t => [(snd e, t)] | None => [] end) es
    | File _ => []
    end.
  Definition is_package_directory (n : node) : bool :=
    Nat.eqb (length (package_directory_types n)) 1.
  Definition is_collection_directory (n : node) : bool :=
    match n with
    | Dir es => negb (Nat.eqb (length (filter is_package_directory (map snd es))) 0)
    | File _ => false
    end.

  Definition pkg_of (n : node) (t : ptype) : list pkg :=
    match raw_of n with Some b => [Pkg t b] | None => [] end.

  (* Package(path): type and resource_file() of a package directory *)
  Definition package (n : node) : res (list pkg) :=
    match package_directory_types n with
    | [(f, t)] => Ok (pkg_of f t)
    | _ => WnError
    end.

  Fixpoint seq_res (l : list (res (list pkg))) : res (list pkg) :=
    match l with
    | [] => Ok []
    | WnError :: _ => WnError
    | Ok x :: l' => match seq_res l' with Ok r => Ok (x ++ r) | WnError => WnError end
    end.

  (* project._get_decompressed + the final branch of iterpackages *)
  Definition resource_only (c : content) : res (list pkg) :=
    let dec := match c with Gz c' => Some c' | Xz c' => Some c' | Raw _ => Some c | Tar _ => None end in
    match dec with
    | Some (Raw b) => if is_lmf b then Ok [Pkg WORDNET b]
                      else if is_ili b then Ok [Pkg ILI b] else WnError
    | _ => WnError      (* still compressed / an archive inside a compressed file read as bytes: not a resource *)
    end.

  (* project.iterpackages; fuel bounds the nesting of archives *)
  Fixpoint iterpackages (fuel : nat) (n : node) : res (list pkg) :=
    match fuel with
    | O => WnError
    | S f =>
        match n with
        | Dir es =>
            if is_package_directory n then package n
            else if is_collection_directory n
                 then seq_res (map package (filter is_package_directory (map snd es)))
                 else WnError
        | File (Tar members) =>
            match members with
            | [(_, m)] => iterpackages f m
            | _ => WnError         (* archive may only have one resource, package, or collection *)
            end
        | File (Gz (Tar members)) | File (Xz (Tar members)) =>     (* tarfile.open reads compressed tars *)
            match members with
            | [(_, m)] => iterpackages f m
            | _ => WnError
            end
        | File c => resource_only c
        end
    end.
End Project.

(* ---------- wire format ----------
   node    = L [A 0; content] (file) | L [A 1; L [ L [Sz name; node] ... ]] (directory)
   content = L [A 0; L bytes] | L [A 1; content] (gz) | L [A 2; content] (xz) | L [A 3; L [ L [Sz name; node] ]] (tar)
   result  = L [ L [A type (0 wordnet, 1 ili); L bytes] ... ] | A (-1) wn.Error
   The header test of the correspondence cases: the harness only writes resources whose first
   line decides it: "<?xml version="1.0" encoding="UTF-8"?>" followed by a supported DOCTYPE -> the
   case carries the verdict as a list of accepted byte strings. *)
Fixpoint node_of_sx (fuel : nat) (x : sx) : node :=
  match fuel with
  | O => Dir []
  | S f =>
      match x with
      | L [A 0; c] => File (content_of_sx f c)
      | L [A 1; L es] => Dir (map (fun e => (sx_str (sx_nth 0 e), node_of_sx f (sx_nth 1 e))) es)
      | _ => Dir []
      end
  end
with content_of_sx (fuel : nat) (x : sx) : content :=
  match fuel with
  | O => Raw []
  | S f =>
      match x with
      | L [A 0; L bs] => Raw (map sx_z bs)
      | L [A 1; c] => Gz (content_of_sx f c)
      | L [A 2; c] => Xz (content_of_sx f c)
      | L [A 3; L es] => Tar (map (fun e => (sx_str (sx_nth 0 e), node_of_sx f (sx_nth 1 e))) es)
      | _ => Raw []
      end
  end.

Definition run_project (c : sx) : sx :=
  let accepted := map sx_str (sx_list (sx_nth 1 c)) in
  let header_ok := fun b => existsb (fun a => str_eqb a b) accepted in
  match iterpackages header_ok 12 (node_of_sx 40 (sx_nth 0 c)) with
  | WnError => A (-1)
  | Ok ps => L (map (fun p => match p with Pkg t b => L [A (match t with WORDNET => 0 | ILI => 1 end); L (map A b)] end) ps)
  end.
(* packages of a collection come in directory-listing order, which is not part of the property *)
Definition agree_project (m i : sx) : bool :=
  match m, i with
  | A x, A y => Z.eqb x y
  | L a, L b => sx_mseteq a b
  | _, _ => false
  end.
