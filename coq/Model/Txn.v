(* Model/Txn.v — the transaction behaviour of Python's sqlite3 connection as wn uses it
   (`with connect() as conn:` around all statements of one add; `with conn:` around the
   deletes of one lexicon in remove).  A connection state is the committed database, the
   working database, and whether a transaction is open.  Statements are abstract
   updates [db -> option db] (None = the statement raises, e.g. an integrity error). *)
From Coq Require Import List Bool.
Import ListNotations.

Section Txn.
  Variable db : Type.

  Inductive event :=
  | Dml (f : db -> option db)     (* INSERT/UPDATE/DELETE: opens a transaction implicitly *)
  | Read                          (* SELECT / PRAGMA: no transaction *)
  | PyRaise                       (* a Python exception inside the with-block (progress handler, wn.Error) *)
  .

  Record conn := { committed : db; working : db; in_txn : bool }.

  Definition idle (d : db) : conn := {| committed := d; working := d; in_txn := false |}.

  (* `with conn:` body: runs events until one fails; returns the state at the end of the body
     and whether the body raised *)
  Fixpoint run_body (c : conn) (evs : list event) : conn * bool :=
    match evs with
    | [] => (c, false)
    | Read :: rest => run_body c rest
    | PyRaise :: _ => (c, true)
    | Dml f :: rest =>
        match f (working c) with
        | Some d' => run_body {| committed := committed c; working := d'; in_txn := true |} rest
        | None => ({| committed := committed c; working := working c; in_txn := true |}, true)
        end
    end.

  (* __exit__: commit on success, rollback on an exception *)
  Definition with_conn (c : conn) (evs : list event) : conn * bool :=
    let (c', raised) := run_body c evs in
    if raised
    then ({| committed := committed c'; working := committed c'; in_txn := false |}, true)
    else ({| committed := working c'; working := working c'; in_txn := false |}, false).

  (* remove(): one with-block per matched lexicon; an exception stops the loop *)
  Fixpoint with_each (c : conn) (blocks : list (list event)) : conn * bool :=
    match blocks with
    | [] => (c, false)
    | b :: rest =>
        let (c', raised) := with_conn c b in
        if raised then (c', true) else with_each c' rest
    end.
End Txn.
Arguments Dml {db} f. Arguments Read {db}. Arguments PyRaise {db}.
Arguments committed {db} c. Arguments working {db} c. Arguments in_txn {db} c. Arguments idle {db} d.
Arguments run_body {db} c evs. Arguments with_conn {db} c evs. Arguments with_each {db} c blocks.
