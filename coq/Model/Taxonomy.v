(* Model/Taxonomy.v — transliteration of _core._Relatable.relation_paths and
   wn/taxonomy.py over an abstract hypernym graph.

   A node is a synset (its rowid); [hyp x] is the list synset.hypernyms()
   returns (targets of hypernym / instance_hypernym relations, de-duplicated,
   in query order); node [root] (rowid 0 = NON_ROWID) is the simulated root
   '*ROOT*', which has no relations.

   Python loops over an agenda/stack are written as recursion on explicit
   fuel; running out of fuel is the explicit result [None] and a theorem
   (Proofs/Taxonomy.v) shows it does not happen with fuel > |V|. *)
From Coq Require Import ZArith List Bool.
Import ListNotations.
Require Import WnV.Base.Sx.

Definition node := Z.
Definition root : node := 0%Z.

Definition nmem (x : node) (l : list node) : bool := existsb (Z.eqb x) l.

(* list-of-options helper *)
Fixpoint sequence {T} (l : list (option T)) : option (list T) :=
  match l with
  | [] => Some []
  | None :: _ => None
  | Some x :: l' => match sequence l' with Some r => Some (x :: r) | None => None end
  end.

Section Graph.
  Variable hyp : node -> list node.

  (* relation_paths(...) below its first level: every path continues while the
     last synset has a related synset that was not visited; [vis] is the visited
     set; the result lists the continuations after [x]. *)
  Fixpoint paths_from (fuel : nat) (vis : list node) (x : node) : option (list (list node)) :=
    match fuel with
    | O => None
    | S f =>
        match filter (fun t => negb (nmem t vis)) (hyp x) with
        | [] => Some [[]]
        | related =>
            option_map (@concat _)
              (sequence (map (fun t => option_map (map (cons t)) (paths_from f (t :: vis) t))
                             related))
        end
    end.

  (* synset.relation_paths('hypernym', 'instance_hypernym'): the initial agenda
     holds the related synsets other than the source; it is popped from the end,
     so the first-level targets are explored last-first, deeper levels first-first *)
  Definition relation_paths (fuel : nat) (x : node) : option (list (list node)) :=
    option_map (@concat _)
      (sequence (map (fun t => option_map (map (cons t)) (paths_from fuel [t; x] t))
                     (rev (filter (fun t => negb (Z.eqb t x)) (hyp x))))).

  (* taxonomy._hypernym_paths(synset, simulate_root, include_self) *)
  Definition hypernym_paths_gen (fuel : nat) (x : node) (simulate_root include_self : bool)
    : option (list (list node)) :=
    match (if Z.eqb x root then Some [] else relation_paths fuel x) with
    | None => None
    | Some paths =>
        let paths := if include_self
                     then match paths with [] => [[x]] | _ => map (cons x) paths end
                     else paths in
        Some (if simulate_root && negb (Z.eqb x root)
              then match paths with [] => [[root]] | _ => map (fun p => p ++ [root]) paths end
              else paths)
    end.

  Definition hypernym_paths fuel x sr := hypernym_paths_gen fuel x sr false.

  Definition list_min (l : list nat) : nat :=
    match l with [] => 0 | a :: l' => fold_left Nat.min l' a end.
  Definition list_max (l : list nat) : nat := fold_left Nat.max l 0.

  Definition min_depth fuel x sr : option nat :=
    option_map (fun ps => list_min (map (@length _) ps)) (hypernym_paths fuel x sr).
  Definition max_depth fuel x sr : option nat :=
    option_map (fun ps => list_max (map (@length _) ps)) (hypernym_paths fuel x sr).

  (* de-duplication keeping first occurrences *)
  Fixpoint nodup_keep (l : list node) : list node :=
    match l with
    | [] => []
    | x :: l' => x :: filter (fun y => negb (Z.eqb y x)) (nodup_keep l')
    end.

  (* set(flatten(from_self)).intersection(flatten(from_other)) as a list *)
  Definition common_of (pa pb : list (list node)) : list node :=
    nodup_keep (filter (fun c => nmem c (concat pb)) (concat pa)).

  (* sorted(common): synsets order by rowid *)
  Fixpoint insert_node (x : node) (l : list node) : list node :=
    match l with
    | [] => [x]
    | y :: l' => if Z.leb x y then x :: l else y :: insert_node x l'
    end.
  Definition sort_nodes (l : list node) : list node := fold_right insert_node [] l.

  Definition common_hypernyms fuel a b sr : option (list node) :=
    match hypernym_paths_gen fuel a sr true, hypernym_paths_gen fuel b sr true with
    | Some pa, Some pb => Some (sort_nodes (common_of pa pb))
    | _, _ => None
    end.

  (* index of c in a path, if present *)
  Fixpoint index_of (c : node) (p : list node) : option nat :=
    match p with
    | [] => None
    | y :: p' => if Z.eqb y c then Some 0
                 else option_map S (index_of c p')
    end.

  (* the shortest prefix path[:dist+1] ending at c over all paths (first minimal) *)
  Definition best_prefix (c : node) (paths : list (list node)) : option (list node) :=
    fold_left (fun best p =>
                 match index_of c p with
                 | None => best
                 | Some i =>
                     let pre := firstn (S i) p in
                     match best with
                     | None => Some pre
                     | Some b => if Nat.ltb (length pre) (length b) then Some pre else best
                     end
                 end) paths None.

  (* depths[c] = max over all paths of both sides of len(path) - dist - 1 *)
  Definition depth_in (c : node) (paths : list (list node)) : nat :=
    list_max (map (fun p => match index_of c p with
                            | Some i => length p - i - 1
                            | None => 0
                            end) paths).

  (* taxonomy._shortest_hyp_paths: association list (c, depth) -> path, one entry
     per common hypernym, in the order of sorted(common) (ascending rowid) *)
  Definition shortest_hyp_paths fuel a b sr : option (list (node * nat * list node)) :=
    if Z.eqb a b then Some [(a, 0, [])]
    else
      match hypernym_paths_gen fuel a sr true, hypernym_paths_gen fuel b sr true with
      | Some pa, Some pb =>
          Some (flat_map (fun c =>
                            match best_prefix c pa, best_prefix c pb with
                            | Some sa, Some sb =>
                                [(c, Nat.max (depth_in c pa) (depth_in c pb),
                                  sa ++ tl (rev sb))]
                            | _, _ => []
                            end) (sort_nodes (common_of pa pb)))
      | _, _ => None
      end.

  (* taxonomy.shortest_path, length only: None = out of fuel, Some None = wn.Error *)
  Definition shortest_path_len fuel a b sr : option (option nat) :=
    match shortest_hyp_paths fuel a b sr with
    | None => None
    | Some [] => Some None
    | Some pm => Some (Some (list_min (map (fun e => length (snd e)) pm) - 1))
    end.

  (* taxonomy.shortest_path: min(pathmap, key=len) is the first minimal entry in dictionary order *)
  Definition shortest_path fuel a b sr : option (option (list node)) :=
    match shortest_hyp_paths fuel a b sr with
    | None => None
    | Some [] => Some None
    | Some (e :: pm) =>
        Some (Some (tl (snd (fold_left (fun best e' =>
                                          if Nat.ltb (length (snd e')) (length (snd best))
                                          then e' else best) pm e))))
    end.

  Definition lowest_common_hypernyms fuel a b sr : option (list node) :=
    match shortest_hyp_paths fuel a b sr with
    | None => None
    | Some pm =>
        let md := list_max (map (fun e => snd (fst e)) pm) in
        Some (map (fun e => fst (fst e))
                  (filter (fun e => Nat.eqb (snd (fst e)) md) pm))
    end.

  (* taxonomy.taxonomy_depth over the synsets of a part of speech, in query order *)
  Fixpoint taxonomy_depth_loop (fuel : nat) (synsets : list node) (seen : list node) (depth : nat)
    : option nat :=
    match synsets with
    | [] => Some depth
    | ss :: rest =>
        if forallb (fun h => nmem h seen) (hyp ss)
        then taxonomy_depth_loop fuel rest seen depth
        else match hypernym_paths fuel ss false with
             | None => None
             | Some [] => taxonomy_depth_loop fuel rest seen depth
             | Some paths =>
                 taxonomy_depth_loop fuel rest (concat paths ++ seen)
                                     (Nat.max depth (list_max (map (@length _) paths)))
             end
    end.
  Definition taxonomy_depth fuel synsets := taxonomy_depth_loop fuel synsets [] 0.

  Definition roots (synsets : list node) : list node :=
    filter (fun s => match hyp s with [] => true | _ => false end) synsets.
End Graph.

(* leaves use the declared hyponym relations *)
Definition leaves (hypo : node -> list node) (synsets : list node) : list node :=
  filter (fun s => match hypo s with [] => true | _ => false end) synsets.

(* ---------- concrete graphs and the wire format ---------- *)
Definition adj := list (node * list node).
Definition hyp_of (g : adj) (x : node) : list node :=
  match find (fun kv => Z.eqb (fst kv) x) g with
  | Some kv => snd kv
  | None => []
  end.

Definition adj_of_sx (x : sx) : adj :=
  map (fun e => (sx_z (sx_nth 0 e), map sx_z (sx_list (sx_nth 1 e)))) (sx_list x).

Definition sx_of_onat (o : option nat) : sx :=
  match o with Some n => A (Z.of_nat n) | None => A (-2) end.
Definition sx_of_nodes (l : list node) : sx := L (map A l).
Definition sx_of_paths (o : option (list (list node))) : sx :=
  match o with Some ps => L (map sx_of_nodes ps) | None => A (-2) end.

(* case   = L [graph; hypo-graph; L all nodes; A simulate_root; L synsets of the pos class (query order)]
   result = L [ L per node [paths; min; max];
                L per ordered pair [common; lowest; shortest length (-1 = wn.Error); shortest path];
                taxonomy_depth; roots; leaves ]      (-2 anywhere = out of fuel) *)
Definition run_taxonomy (c : sx) : sx :=
  let g := adj_of_sx (sx_nth 0 c) in
  let gh := adj_of_sx (sx_nth 1 c) in
  let V := map sx_z (sx_list (sx_nth 2 c)) in
  let sr := sx_bool (sx_nth 3 c) in
  let VP := map sx_z (sx_list (sx_nth 4 c)) in
  let hyp := hyp_of g in
  let fuel := S (S (length V)) in
  L [ L (map (fun x => L [ sx_of_paths (hypernym_paths hyp fuel x sr);
                           sx_of_onat (min_depth hyp fuel x sr);
                           sx_of_onat (max_depth hyp fuel x sr) ]) V);
      L (flat_map (fun a => map (fun b =>
            L [ match common_hypernyms hyp fuel a b sr with Some l => sx_of_nodes l | None => A (-2) end;
                match lowest_common_hypernyms hyp fuel a b sr with Some l => sx_of_nodes l | None => A (-2) end;
                match shortest_path_len hyp fuel a b sr with
                | Some (Some n) => A (Z.of_nat n) | Some None => A (-1) | None => A (-2) end;
                match shortest_path hyp fuel a b sr with
                | Some (Some p) => sx_of_nodes p | Some None => A (-1) | None => A (-2) end ]) V) V);
      sx_of_onat (taxonomy_depth hyp fuel VP);
      sx_of_nodes (roots hyp VP);
      sx_of_nodes (leaves (hyp_of gh) VP) ].

(* hypernym paths, roots and leaves are compared as sets (the property does not
   speak about their order); common and lowest common hypernyms (sorted by the
   code), the shortest path, depths and the taxonomy depth exactly *)
Definition agree_node (m i : sx) : bool :=
  sx_seteq (sx_list (sx_nth 0 m)) (sx_list (sx_nth 0 i))
  && sx_eqb (sx_nth 1 m) (sx_nth 1 i) && sx_eqb (sx_nth 2 m) (sx_nth 2 i).
Definition agree_pair (m i : sx) : bool :=
  sx_eqb (sx_nth 0 m) (sx_nth 0 i)
  && sx_eqb (sx_nth 1 m) (sx_nth 1 i)
  && sx_eqb (sx_nth 2 m) (sx_nth 2 i)
  && sx_eqb (sx_nth 3 m) (sx_nth 3 i).
Definition agree_taxonomy (m i : sx) : bool :=
  forall2b agree_node (sx_list (sx_nth 0 m)) (sx_list (sx_nth 0 i))
  && forall2b agree_pair (sx_list (sx_nth 1 m)) (sx_list (sx_nth 1 i))
  && sx_eqb (sx_nth 2 m) (sx_nth 2 i)
  && sx_seteq (sx_list (sx_nth 3 m)) (sx_list (sx_nth 3 i))
  && sx_seteq (sx_list (sx_nth 4 m)) (sx_list (sx_nth 4 i)).
