(* Model/SimilarityFloat.v — the value layer of Model/Similarity.v over IEEE-754
   binary64 (Coq primitive floats; division, addition, multiplication and
   comparison are bit-exact), used only by the correspondence check.  Kept apart
   from the theorem files so that they do not depend on the float primitives. *)
From Coq Require Import ZArith List Bool PrimFloat Uint63 SpecFloat FloatOps.
Import ListNotations.
Require Import WnV.Base.Sx WnV.Model.Taxonomy WnV.Model.Similarity.

Definition f_of_Z (z : Z) : float :=
  match z with
  | Z0 => 0%float
  | Zpos p => of_uint63 (Uint63.of_Z (Zpos p))
  | Zneg p => (- of_uint63 (Uint63.of_Z (Zpos p)))%float
  end.
Definition f_of_nat (n : nat) : float := f_of_Z (Z.of_nat n).

(* wire: L [A 0; A sign; A mantissa; A exponent] = (-1)^sign * mantissa * 2^exponent;
         L [A 1; A sign] = infinity;  L [A 2] = nan *)
Definition float_of_sx (x : sx) : float :=
  match sx_z (sx_nth 0 x) with
  | 0%Z =>
      let s := sx_bool (sx_nth 1 x) in
      match sx_z (sx_nth 2 x) with
      | Zpos m => SF2Prim (S754_finite s m (sx_z (sx_nth 3 x)))
      | _ => if s then (-0)%float else 0%float
      end
  | 1%Z => if sx_bool (sx_nth 1 x) then neg_infinity else infinity
  | _ => nan
  end.
Definition sx_of_float (f : float) : sx :=
  match Prim2SF f with
  | S754_zero s => L [A 0; sx_of_bool s; A 0; A 0]
  | S754_finite s m e => L [A 0; sx_of_bool s; A (Zpos m); A e]
  | S754_infinity s => L [A 1; sx_of_bool s]
  | S754_nan => L [A 2]
  end.

Definition fgt (x y : float) : bool := PrimFloat.ltb y x.      (* Python's x > y *)

Definition path_f (d : option nat) : float :=
  match d with Some d => (1 / f_of_nat (S d))%float | None => 0%float end.
Definition wup_f (p : nat * nat * nat) : float :=
  match p with (i, j, k) => (f_of_nat (2 * k) / f_of_nat (i + j + 2 * k))%float end.
Definition lch_arg_f (p : nat * Z) : float := (f_of_nat (fst p) / f_of_Z (snd p))%float.
Definition jcn_f (p : float * float * float) : float :=
  match p with (ic1, ic2, ic0) =>
    if PrimFloat.eqb ic1 ic2 && PrimFloat.eqb ic2 ic0 && PrimFloat.eqb ic0 0 then 0%float
    else if PrimFloat.eqb (ic1 + ic2) (2 * ic0) then infinity
    else (1 / (ic1 + ic2 - 2 * ic0))%float
  end.
Definition lin_f (p : float * float * float) : float :=
  match p with (ic1, ic2, ic0) =>
    if PrimFloat.eqb ic1 0 || PrimFloat.eqb ic2 0 then 0%float
    else (2 * ic0 / (ic1 + ic2))%float
  end.

Definition sx_of_res {T} (f : T -> sx) (r : res T) : sx :=
  match r with
  | Val v => f v
  | WnError => A (-1)
  | KeyErr => A (-3)
  | Fuel => A (-2)
  end.

Definition ftable (tbl : list (node * float)) (x : node) : option float :=
  match find (fun kv => Z.eqb (fst kv) x) tbl with Some kv => Some (snd kv) | None => None end.

(* case   = L [graph; L [L [node; cls]]; L nodes; A simulate_root; A lch max_depth;
               L [L [node; weight; ic]] (empty = IC metrics not run)]
   result = L per ordered pair [path; wup; lch argument; res; jcn; lin] *)
Definition run_similarity (c : sx) : sx :=
  let g := adj_of_sx (sx_nth 0 c) in
  let tbl := map (fun e => (sx_z (sx_nth 0 e), sx_z (sx_nth 1 e))) (sx_list (sx_nth 1 c)) in
  let V := map sx_z (sx_list (sx_nth 2 c)) in
  let sr := sx_bool (sx_nth 3 c) in
  let maxd := sx_z (sx_nth 4 c) in
  let ict := sx_list (sx_nth 5 c) in
  let wt := ftable (map (fun e => (sx_z (sx_nth 0 e), float_of_sx (sx_nth 1 e))) ict) in
  let icv := ftable (map (fun e => (sx_z (sx_nth 0 e), float_of_sx (sx_nth 2 e))) ict) in
  let hyp := hyp_of g in
  let cls := fun x => match find (fun kv => Z.eqb (fst kv) x) tbl with Some kv => snd kv | None => (-1)%Z end in
  let fuel := S (S (length V)) in
  let noic := match ict with [] => true | _ => false end in
  L (flat_map (fun a => map (fun b =>
       L [ sx_of_res (fun d => sx_of_float (path_f d)) (path_parts hyp cls fuel a b sr);
           sx_of_res (fun p => sx_of_float (wup_f p)) (wup_parts hyp cls fuel a b sr);
           sx_of_res (fun p => sx_of_float (lch_arg_f p)) (lch_parts hyp cls fuel a b maxd sr);
           if noic then A (-9) else
             sx_of_res (fun cv => sx_of_float (snd cv)) (res_choice hyp cls fuel float fgt icv a b);
           if noic then A (-9) else
             sx_of_res (fun p => sx_of_float (jcn_f p)) (jcn_parts hyp cls fuel float fgt wt icv a b);
           if noic then A (-9) else
             sx_of_res (fun p => sx_of_float (lin_f p)) (lin_parts hyp cls fuel float fgt wt icv a b) ]) V) V).

Definition agree_val (m i : sx) : bool :=
  match m, i with
  | A x, A y => Z.eqb x y
  | L _, L _ => PrimFloat.eqb (float_of_sx m) (float_of_sx i)
  | _, _ => false
  end.
Definition agree_similarity (m i : sx) : bool :=
  forall2b (fun r s => forall2b agree_val (sx_list r) (sx_list s)) (sx_list m) (sx_list i).
