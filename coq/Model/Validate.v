(* Model/Validate.v — transliteration of wn/validate.py: the eighteen checks,
   _select_checks and validate().  A report's "items" dictionary is an
   insertion-ordered association list with Python's update semantics (a repeated
   key keeps its position and takes the new value).  Keys and context values are
   S-expressions: identifiers are strings, counts are integers. *)
From Coq Require Import String.
From Coq Require Import ZArith List Bool.
Import ListNotations.
Require Import WnV.Base.Sx WnV.Gen.Constants WnV.Gen.ValidateTable.
Local Open Scope Z_scope.

Record rel := { r_target : str; r_type : str; r_dctype : option str }.
Record sense := { s_id : str; s_synset : str; s_rels : list rel }.
Record entry := { e_id : str; e_lemma : str; e_form_ids : list str; e_senses : list sense }.
Record synset := { ss_id : str; ss_ili : str; ss_pos : option str; ss_ilidef : bool;
                   ss_defs : list str; ss_exs : list str; ss_rels : list rel }.
Record lexicon := { l_id : str; l_entries : list entry; l_synsets : list synset;
                    l_frame_ids : list str; l_extends : bool }.

Definition K (s : str) : sx := sx_of_str s.
Definition ctx := list (Z * sx).        (* (field, value) *)
Definition f_count := 1. Definition f_entry := 2. Definition f_synset := 3. Definition f_ili := 4.
Definition f_type := 5. Definition f_target := 6. Definition f_dctype := 7. Definition f_ilidef := 8.
Definition items := list (sx * ctx).

(* d[k] = v *)
Fixpoint dset (d : items) (k : sx) (v : ctx) : items :=
  match d with
  | [] => [(k, v)]
  | (k', v') :: d' => if sx_eqb k' k then (k', v) :: d' else (k', v') :: dset d' k v
  end.
Definition dict_of (l : list (sx * ctx)) : items := fold_left (fun d kv => dset d (fst kv) (snd kv)) l [].

(* collections.Counter: counts in first-occurrence order *)
Fixpoint cinc (c : list (sx * nat)) (k : sx) : list (sx * nat) :=
  match c with
  | [] => [(k, 1%nat)]
  | (k', n) :: c' => if sx_eqb k' k then (k', S n) :: c' else (k', n) :: cinc c' k
  end.
Definition counter (l : list sx) : list (sx * nat) := fold_left cinc l [].
Definition cmem (k : sx) (c : list (sx * nat)) : bool := existsb (fun kn => sx_eqb (fst kn) k) c.
(* _multiples: {x: {'count': cnt} for x, cnt in counts.items() if cnt > 1} *)
Definition multiples (l : list sx) : list (sx * nat) :=
  filter (fun kn => Nat.ltb 1 (snd kn)) (counter l).
Definition mult_items (l : list sx) : items :=
  map (fun kn => (fst kn, [(f_count, A (Z.of_nat (snd kn)))])) (multiples l).

Definition truthy (s : str) : bool := match s with [] => false | _ => true end.
Definition s_in : str := str_of_string "in".
Definition s_hypernym : str := str_of_string "hypernym".
(* text.strip() == "" *)
Definition is_space (c : Z) : bool :=
  existsb (Z.eqb c) [32; 9; 10; 11; 12; 13; 28; 29; 30; 31; 133; 160; 5760; 8232; 8233; 8239; 8287; 12288]
  || (Z.leb 8192 c && Z.leb c 8202).
Definition blank (s : str) : bool := forallb is_space s.

Definition all_senses (lex : lexicon) : list (entry * sense) :=
  flat_map (fun e => map (fun s => (e, s)) (e_senses e)) (l_entries lex).
Definition sense_relations (lex : lexicon) : list (sense * rel) :=
  flat_map (fun es => map (fun r => (snd es, r)) (s_rels (snd es))) (all_senses lex).
Definition synset_relations (lex : lexicon) : list (synset * rel) :=
  flat_map (fun ss => map (fun r => (ss, r)) (ss_rels ss)) (l_synsets lex).

(* ids: Counters of entry, sense and synset ids *)
Definition entry_ids (lex : lexicon) := counter (map (fun e => K (e_id e)) (l_entries lex)).
Definition sense_ids (lex : lexicon) := counter (map (fun es => K (s_id (snd es))) (all_senses lex)).
Definition synset_ids (lex : lexicon) := counter (map (fun ss => K (ss_id ss)) (l_synsets lex)).
(* Counter.elements(): every key repeated count times, keys in first-occurrence order *)
Definition elements (c : list (sx * nat)) : list sx := flat_map (fun kn => repeat (fst kn) (snd kn)) c.

Definition rel_ctx (r : rel) : ctx := [(f_type, K (r_type r)); (f_target, K (r_target r))].
Definition smem (s : str) (l : list string) : bool := existsb (fun x => str_eqb (str_of_string x) s) l.

(* E101 *)
Definition non_unique_id (lex : lexicon) : items :=
  mult_items ([K (l_id lex)]
              ++ map K (filter truthy (flat_map e_form_ids (l_entries lex)))
              ++ map K (filter truthy (l_frame_ids lex))
              ++ elements (entry_ids lex) ++ elements (sense_ids lex) ++ elements (synset_ids lex)).
(* W201 *)
Definition has_no_senses (lex : lexicon) : items :=
  dict_of (map (fun e => (K (e_id e), []))
               (filter (fun e => match e_senses e with [] => true | _ => false end) (l_entries lex))).
(* W202 *)
Definition redundant_sense (lex : lexicon) : items :=
  dict_of (flat_map (fun e =>
             let red := multiples (map (fun s => K (s_synset s)) (e_senses e)) in
             map (fun s => (K (s_id s), [(f_entry, K (e_id e)); (f_synset, K (s_synset s))]))
                 (filter (fun s => cmem (K (s_synset s)) red) (e_senses e)))
           (l_entries lex)).
(* W203 *)
Definition redundant_entry (lex : lexicon) : items :=
  dict_of (map (fun kn => (sx_nth 0 (fst kn), [(f_synset, sx_nth 1 (fst kn))]))
               (multiples (map (fun es => L [K (e_lemma (fst es)); K (s_synset (snd es))]) (all_senses lex)))).
(* E204 *)
Definition missing_synset (lex : lexicon) : items :=
  dict_of (map (fun es => (K (s_id (snd es)), [(f_synset, K (s_synset (snd es)))]))
               (filter (fun es => negb (cmem (K (s_synset (snd es))) (synset_ids lex))) (all_senses lex))).
(* W301 *)
Definition empty_synset (lex : lexicon) : items :=
  let used := map (fun es => K (s_synset (snd es))) (all_senses lex) in
  dict_of (map (fun ss => (K (ss_id ss), []))
               (filter (fun ss => negb (sx_mem (K (ss_id ss)) used)) (l_synsets lex))).
(* W302 *)
Definition real_ili (ss : synset) : bool := truthy (ss_ili ss) && negb (str_eqb (ss_ili ss) s_in).
Definition repeated_ili (lex : lexicon) : items :=
  let rep := multiples (map (fun ss => K (ss_ili ss)) (filter real_ili (l_synsets lex))) in
  dict_of (map (fun ss => (K (ss_id ss), [(f_ili, K (ss_ili ss))]))
               (filter (fun ss => cmem (K (ss_ili ss)) rep) (l_synsets lex))).
(* W303 *)
Definition missing_ili_definition (lex : lexicon) : items :=
  dict_of (map (fun ss => (K (ss_id ss), []))
               (filter (fun ss => str_eqb (ss_ili ss) s_in && negb (ss_ilidef ss)) (l_synsets lex))).
(* W304 *)
Definition spurious_ili_definition (lex : lexicon) : items :=
  dict_of (map (fun ss => (K (ss_id ss), [(f_ilidef, A 1)]))
               (filter (fun ss => real_ili ss && ss_ilidef ss) (l_synsets lex))).
(* W305, W306 *)
Definition blank_synset_definition (lex : lexicon) : items :=
  dict_of (map (fun ss => (K (ss_id ss), [])) (filter (fun ss => existsb blank (ss_defs ss)) (l_synsets lex))).
Definition blank_synset_example (lex : lexicon) : items :=
  dict_of (map (fun ss => (K (ss_id ss), [])) (filter (fun ss => existsb blank (ss_exs ss)) (l_synsets lex))).
(* W307 *)
Definition repeated_synset_definition (lex : lexicon) : items :=
  let rep := multiples (map K (flat_map ss_defs (l_synsets lex))) in
  dict_of (map (fun ss => (K (ss_id ss), []))
               (filter (fun ss => existsb (fun d => cmem (K d) rep) (ss_defs ss)) (l_synsets lex))).
(* E401 *)
Definition missing_relation_target (lex : lexicon) : items :=
  dict_of (map (fun sr => (K (s_id (fst sr)), rel_ctx (snd sr)))
               (filter (fun sr => negb (cmem (K (r_target (snd sr))) (sense_ids lex))
                                  && negb (cmem (K (r_target (snd sr))) (synset_ids lex)))
                       (sense_relations lex))
           ++ map (fun sr => (K (ss_id (fst sr)), rel_ctx (snd sr)))
                  (filter (fun sr => negb (cmem (K (r_target (snd sr))) (synset_ids lex)))
                          (synset_relations lex))).
(* W402 *)
Definition invalid_relation_type (lex : lexicon) : items :=
  dict_of (map (fun sr => (K (s_id (fst sr)), rel_ctx (snd sr)))
               (filter (fun sr => (cmem (K (r_target (snd sr))) (sense_ids lex)
                                   && negb (smem (r_type (snd sr)) SENSE_RELATIONS))
                                  || (cmem (K (r_target (snd sr))) (synset_ids lex)
                                      && negb (smem (r_type (snd sr)) SENSE_SYNSET_RELATIONS)))
                       (sense_relations lex))
           ++ map (fun sr => (K (ss_id (fst sr)), rel_ctx (snd sr)))
                  (filter (fun sr => negb (smem (r_type (snd sr)) SYNSET_RELATIONS))
                          (synset_relations lex))).
(* W403 *)
Definition rel_key (src : str) (r : rel) : sx :=
  L [K src; K (r_type r); K (r_target r); sx_of_option K (r_dctype r)].
Definition redundant_relation (lex : lexicon) : items :=
  dict_of (map (fun kn =>
                  let k := fst kn in
                  (sx_nth 0 k, [(f_type, sx_nth 1 k); (f_target, sx_nth 2 k)]
                               ++ match sx_nth 3 k with
                                  | L [d] => if truthy (sx_str d) then [(f_dctype, d)] else []
                                  | _ => []
                                  end))
               (multiples (map (fun sr => rel_key (s_id (fst sr)) (snd sr)) (sense_relations lex)
                           ++ map (fun sr => rel_key (ss_id (fst sr)) (snd sr)) (synset_relations lex)))).
(* W404 *)
Definition reverse_of (t : str) : option str :=
  match find (fun kv : string * string => str_eqb (str_of_string (fst kv)) t) REVERSE_RELATIONS with
  | Some kv => Some (str_of_string (snd kv))
  | None => None
  end.
Definition triple (a b c : str) : sx := L [K a; K b; K c].
Fixpoint ordered_set (l : list sx) : list sx :=      (* dict.fromkeys *)
  match l with
  | [] => []
  | x :: l' => x :: filter (fun y => negb (sx_eqb y x)) (ordered_set l')
  end.
Definition missing_reverse_relation (lex : lexicon) : items :=
  let regular := ordered_set
      (map (fun sr => triple (s_id (fst sr)) (r_type (snd sr)) (r_target (snd sr)))
           (filter (fun sr => cmem (K (r_target (snd sr))) (sense_ids lex)) (sense_relations lex))
       ++ map (fun sr => triple (ss_id (fst sr)) (r_type (snd sr)) (r_target (snd sr)))
              (synset_relations lex)) in
  dict_of (flat_map (fun t =>
             match reverse_of (sx_str (sx_nth 1 t)) with
             | Some rv =>
                 if sx_mem (L [sx_nth 2 t; K rv; sx_nth 0 t]) regular then []
                 else [(sx_nth 2 t, [(f_type, K rv); (f_target, sx_nth 0 t)])]
             | None => []
             end) regular).
(* W501 *)
Definition opt_str_eqb (a b : option str) : bool :=
  match a, b with
  | None, None => true
  | Some x, Some y => str_eqb x y
  | _, _ => false
  end.
Definition sspos (lex : lexicon) (t : str) : option (option str) :=      (* last synset with that id wins *)
  match find (fun ss => str_eqb (ss_id ss) t) (rev (l_synsets lex)) with
  | Some ss => Some (ss_pos ss)
  | None => None
  end.
Definition hypernym_wrong_pos (lex : lexicon) : items :=
  dict_of (map (fun sr => (K (ss_id (fst sr)), rel_ctx (snd sr)))
               (filter (fun sr => str_eqb (r_type (snd sr)) s_hypernym
                                  && match sspos lex (r_target (snd sr)) with
                                     | Some p => negb (opt_str_eqb (ss_pos (fst sr)) p)
                                     | None => false
                                     end)
                       (synset_relations lex))).
(* W502 *)
Definition self_loop (lex : lexicon) : items :=
  dict_of (map (fun sr => (K (s_id (fst sr)), rel_ctx (snd sr)))
               (filter (fun sr => str_eqb (s_id (fst sr)) (r_target (snd sr))) (sense_relations lex))
           ++ map (fun sr => (K (ss_id (fst sr)), rel_ctx (snd sr)))
                  (filter (fun sr => str_eqb (ss_id (fst sr)) (r_target (snd sr))) (synset_relations lex))).

(* the table _codes: code -> check function, in source order *)
Definition check_of_name (name : string) : option (lexicon -> items) :=
  if String.eqb name "_non_unique_id" then Some non_unique_id
  else if String.eqb name "_has_no_senses" then Some has_no_senses
  else if String.eqb name "_redundant_sense" then Some redundant_sense
  else if String.eqb name "_redundant_entry" then Some redundant_entry
  else if String.eqb name "_missing_synset" then Some missing_synset
  else if String.eqb name "_empty_synset" then Some empty_synset
  else if String.eqb name "_repeated_ili" then Some repeated_ili
  else if String.eqb name "_missing_ili_definition" then Some missing_ili_definition
  else if String.eqb name "_spurious_ili_definition" then Some spurious_ili_definition
  else if String.eqb name "_blank_synset_definition" then Some blank_synset_definition
  else if String.eqb name "_blank_synset_example" then Some blank_synset_example
  else if String.eqb name "_repeated_synset_definition" then Some repeated_synset_definition
  else if String.eqb name "_missing_relation_target" then Some missing_relation_target
  else if String.eqb name "_invalid_relation_type" then Some invalid_relation_type
  else if String.eqb name "_redundant_relation" then Some redundant_relation
  else if String.eqb name "_missing_reverse_relation" then Some missing_reverse_relation
  else if String.eqb name "_hypernym_wrong_pos" then Some hypernym_wrong_pos
  else if String.eqb name "_self_loop" then Some self_loop
  else None.

(* _select_checks: code in select or code[0] in select, in table order *)
Definition selected (select : list str) (code : string) : bool :=
  let c := str_of_string code in
  str_mem c select || match c with ch :: _ => str_mem [ch] select | [] => false end.

(* validate(): None = an exception (never, by theorem); extensions give the empty report *)
Definition validate (lex : lexicon) (select : list str) : option (list (string * items)) :=
  if l_extends lex then Some []
  else
    (fix go (codes : list (string * string * string)) : option (list (string * items)) :=
       match codes with
       | [] => Some []
       | (code, fname, _) :: rest =>
           if selected select code
           then match check_of_name fname, go rest with
                | Some f, Some r => Some ((code, f lex) :: r)
                | _, _ => None
                end
           else go rest
       end) VALIDATE_CODES.

(* ---------- wire format ----------
   lexicon = L [id; L entries; L synsets; L frame ids; A extends]
   entry   = L [id; lemma; L form ids; L senses]      sense = L [id; synset; L rels]
   synset  = L [id; ili; pos (L [] | L [str]); A ilidef; L defs; L examples; L rels]
   rel     = L [target; type; dctype (L [] | L [str])]
   case    = L [lexicon; L select]
   result  = L [ L [code; L [ L [key; L [ L [field; value] ]] ]] ]   |  A (-1) exception *)
Definition rel_of_sx (x : sx) : rel :=
  {| r_target := sx_str (sx_nth 0 x); r_type := sx_str (sx_nth 1 x); r_dctype := sx_opt sx_str (sx_nth 2 x) |}.
Definition sense_of_sx (x : sx) : sense :=
  {| s_id := sx_str (sx_nth 0 x); s_synset := sx_str (sx_nth 1 x);
     s_rels := map rel_of_sx (sx_list (sx_nth 2 x)) |}.
Definition entry_of_sx (x : sx) : entry :=
  {| e_id := sx_str (sx_nth 0 x); e_lemma := sx_str (sx_nth 1 x);
     e_form_ids := map sx_str (sx_list (sx_nth 2 x));
     e_senses := map sense_of_sx (sx_list (sx_nth 3 x)) |}.
Definition synset_of_sx (x : sx) : synset :=
  {| ss_id := sx_str (sx_nth 0 x); ss_ili := sx_str (sx_nth 1 x); ss_pos := sx_opt sx_str (sx_nth 2 x);
     ss_ilidef := sx_bool (sx_nth 3 x); ss_defs := map sx_str (sx_list (sx_nth 4 x));
     ss_exs := map sx_str (sx_list (sx_nth 5 x)); ss_rels := map rel_of_sx (sx_list (sx_nth 6 x)) |}.
Definition lexicon_of_sx (x : sx) : lexicon :=
  {| l_id := sx_str (sx_nth 0 x); l_entries := map entry_of_sx (sx_list (sx_nth 1 x));
     l_synsets := map synset_of_sx (sx_list (sx_nth 2 x));
     l_frame_ids := map sx_str (sx_list (sx_nth 3 x)); l_extends := sx_bool (sx_nth 4 x) |}.
Definition run_validate (c : sx) : sx :=
  match validate (lexicon_of_sx (sx_nth 0 c)) (map sx_str (sx_list (sx_nth 1 c))) with
  | None => A (-1)
  | Some rep =>
      L (map (fun ci : string * items =>
                L [K (str_of_string (fst ci));
                   L (map (fun kv : sx * ctx => L [fst kv; L (map (fun fv : Z * sx => L [A (fst fv); snd fv]) (snd kv))])
                          (snd ci))]) rep)
  end.
(* codes in order; the items of a check compared as a set of (key, context) pairs *)
Definition agree_validate (m i : sx) : bool :=
  match m, i with
  | A x, A y => Z.eqb x y
  | L a, L b =>
      forall2b (fun r s => sx_eqb (sx_nth 0 r) (sx_nth 0 s)
                           && sx_seteq (sx_list (sx_nth 1 r)) (sx_list (sx_nth 1 s))) a b
  | _, _ => false
  end.
