(* Model/Morphy.v — transliteration of wn/morphy.py (class Morphy).
   Strings are lists of code points; a part of speech is a string, the
   "no pos" key of the result dictionary is [None]. *)
From Coq Require Import String.
From Coq Require Import ZArith List Bool.
Import ListNotations.
Require Import WnV.Base.Sx WnV.Gen.Morphy.

Definition rule := (str * str)%type.             (* (suffix, replacement) *)
Definition rules_tbl := list (str * list rule).  (* pos -> rules, in dict order *)

(* Morphy.__init__: self._rules = {pos: [rule for rule in rules if rule[2] & WN]} *)
Definition rules_of_src (src : list (string * list (string * string * bool * bool * bool)))
  : rules_tbl :=
  map (fun pr : string * list (string * string * bool * bool * bool) =>
         (str_of_string (fst pr),
          flat_map (fun r : string * string * bool * bool * bool =>
                      match r with
                      | (s, rp, _, _, w) =>
                          if w then [(str_of_string s, str_of_string rp)] else []
                      end) (snd pr)))
      src.

Definition wn_rules : rules_tbl := Eval vm_compute in rules_of_src detachment_rules_src.
Definition parts_of_speech : list str := Eval vm_compute in map str_of_string parts_of_speech_src.

(* a word as Morphy sees it: word.pos and word.forms() = lemma :: others *)
Record word := { w_pos : str; w_lemma : str; w_others : list str }.

Definition rules_for (T : rules_tbl) (p : str) : list rule :=
  match find (fun kv => str_eqb (fst kv) p) T with
  | Some kv => snd kv
  | None => []
  end.
Definition rule_keys (T : rules_tbl) : list str := map fst T.

(* all_lemmas[pos] and exceptions[pos].get(form, set()) *)
Definition lemmas (W : list word) (p : str) : list str :=
  map w_lemma (filter (fun w => str_eqb (w_pos w) p) W).
Definition exc (W : list word) (p : str) (form : str) : list str :=
  map w_lemma (filter (fun w => str_eqb (w_pos w) p && str_mem form (w_others w)) W).

(* str.endswith and form[:-len(suffix)] *)
Fixpoint is_prefix (a b : str) : bool :=
  match a, b with
  | [], _ => true
  | x :: a', y :: b' => Z.eqb x y && is_prefix a' b'
  | _ :: _, [] => false
  end.
Definition ends_with (form suf : str) : bool := is_prefix (rev suf) (rev form).
Definition strip (form suf : str) : str :=
  match suf with
  | [] => []                      (* form[:-0] == '' in Python *)
  | _ => firstn (length form - length suf) form
  end.

(* one detachment rule applied to a form: None if it does not apply *)
Definition apply_rule (form : str) (r : rule) : option str :=
  let (suf, rep) := r in
  if ends_with form suf && Nat.ltb (length suf) (length form)
  then Some (strip form suf ++ rep) else None.

(* Morphy._morphstr *)
Definition morphstr (T : rules_tbl) (init : bool) (W : list word) (form p : str) : list str :=
  let lem := lemmas W p in
  (if init then (if str_mem form lem then [form] else []) ++ exc W p form else [])
  ++ flat_map (fun r => match apply_rule form r with
                        | Some c => if negb init || str_mem c lem then [c] else []
                        | None => []
                        end) (rules_for T p).

Definition okey_eqb (a b : option str) : bool :=
  match a, b with
  | None, None => true
  | Some x, Some y => str_eqb x y
  | _, _ => false
  end.

(* result.setdefault(k, set()).update(cands) on an insertion-ordered dict *)
Fixpoint dict_update (d : list (option str * list str)) (k : option str) (cands : list str) :=
  match d with
  | [] => [(k, cands)]
  | (k', v) :: d' => if okey_eqb k' k then (k', v ++ cands) :: d'
                     else (k', v) :: dict_update d' k cands
  end.

Definition minus (a b : list str) : list str := filter (fun x => negb (str_mem x b)) a.

(* Morphy.__call__ *)
Definition morphy_call (T : rules_tbl) (init : bool) (W : list word)
           (form : str) (pos : option str) : list (option str * list str) :=
  let result0 := if init then [] else [(pos, [form])] in
  let pos_list := match pos with
                  | None => rule_keys T
                  | Some p => if str_mem p (rule_keys T) then [p] else []
                  end in
  let no_pos := match pos with
                | None => if init then [] else [form]
                | Some _ => []
                end in
  fold_left (fun res p =>
               let cands := minus (morphstr T init W form p) no_pos in
               match cands with
               | [] => res
               | _ => dict_update res (Some p) cands
               end) pos_list result0.

(* Morphy(wordnet) raises KeyError for a word whose pos is not in PARTS_OF_SPEECH *)
Definition init_ok (W : list word) : bool :=
  forallb (fun w => str_mem (w_pos w) parts_of_speech) W.

(* ---- wire format ------------------------------------------------------
   case   = L [A init; L words; form; pos]   word = L [pos; lemma; L others]
            pos = L [] (None) | L [str]
   result = L [ L [key; L cands] ... ]   or   L [A (-1)]  for KeyError *)
Definition word_of_sx (x : sx) : word :=
  {| w_pos := sx_str (sx_nth 0 x); w_lemma := sx_str (sx_nth 1 x);
     w_others := map sx_str (sx_list (sx_nth 2 x)) |}.

Definition run_morphy (c : sx) : sx :=
  let init := sx_bool (sx_nth 0 c) in
  let W := map word_of_sx (sx_list (sx_nth 1 c)) in
  let form := sx_str (sx_nth 2 c) in
  let pos := sx_opt sx_str (sx_nth 3 c) in
  if init && negb (init_ok W) then L [A (-1)]
  else L (map (fun kv : option str * list str =>
                 L [sx_of_option sx_of_str (fst kv); L (map sx_of_str (snd kv))])
              (morphy_call wn_rules init W form pos)).

(* keys in dictionary order, candidate sets compared as sets *)
Fixpoint agree_dict (a b : list sx) : bool :=
  match a, b with
  | [], [] => true
  | x :: a', y :: b' =>
      sx_eqb (sx_nth 0 x) (sx_nth 0 y)
      && sx_seteq (sx_list (sx_nth 1 x)) (sx_list (sx_nth 1 y))
      && agree_dict a' b'
  | _, _ => false
  end.
Definition agree_morphy (m i : sx) : bool :=
  match m, i with
  | L [A z], L [A z'] => Z.eqb z z'
  | L a, L b => agree_dict a b
  | _, _ => false
  end.
