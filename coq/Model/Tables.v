(* Model/Tables.v — the wn database as typed row lists.

   Decoding of the [db] component of a core case (harness/obsproj.py: project_db) into
   one Record per table of wn/schema.sql (fields in schema order, the rowid first),
   plus the small relational toolkit used by Model/Query.v: membership tests with SQL
   NULL semantics, lookups by rowid, a stable insertion sort (SQLite's sorter is stable
   with respect to the scan order), first-occurrence de-duplication (SELECT DISTINCT /
   UNION through a temp b-tree), a result/error type, and a reader for the one piece of
   the JSON metadata the query layer looks at (Relation.subtype = metadata["type"]). *)
From Coq Require Import ZArith List Bool String.
Import ListNotations.
Require Import WnV.Base.Sx.
Local Open Scope Z_scope.

(* ------------------------------------------------------------------ results *)
(* Python outcomes: a value, wn.Error, any other exception, or — model only — fuel exhausted *)
Inductive res (T : Type) : Type :=
| Ok (x : T)
| WnError
| OtherError
| OutOfFuel.
Arguments Ok {T} x.
Arguments WnError {T}.
Arguments OtherError {T}.
Arguments OutOfFuel {T}.

Definition bind {T U} (r : res T) (f : T -> res U) : res U :=
  match r with
  | Ok x => f x
  | WnError => WnError
  | OtherError => OtherError
  | OutOfFuel => OutOfFuel
  end.
Notation "'do' x <- r ; k" := (bind r (fun x => k))
  (at level 200, x name, r at level 100, k at level 200).

(* [f x for x in l] where f may raise: the first exception aborts *)
Fixpoint mapM {T U} (f : T -> res U) (l : list T) : res (list U) :=
  match l with
  | [] => Ok []
  | x :: l' => do y <- f x; do ys <- mapM f l'; Ok (y :: ys)
  end.
(* [y for x in l for y in f x] *)
Definition flat_mapM {T U} (f : T -> res (list U)) (l : list T) : res (list U) :=
  do ls <- mapM f l; Ok (List.concat ls).

(* ------------------------------------------------------------------ cells *)
Inductive cell : Type :=
| CNull
| CInt (z : Z)
| CText (s : str).

Definition cell_of_sx (x : sx) : cell :=
  match x with
  | L [A t] => CNull
  | L [A t; A n] => if Z.eqb t 1 then CInt n else CNull
  | L [A t; L s] => if Z.eqb t 2 then CText (map sx_z s) else CNull
  | _ => CNull
  end.

Definition row := list cell.
Definition row_of_sx (x : sx) : row := map cell_of_sx (sx_list x).
Definition col (n : nat) (r : row) : cell := nth n r CNull.

(* typed readers: NOT NULL columns get a default, nullable ones an option *)
Definition c_int (c : cell) : Z := match c with CInt z => z | _ => 0 end.
Definition c_oint (c : cell) : option Z := match c with CInt z => Some z | _ => None end.
Definition c_text (c : cell) : str := match c with CText s => s | _ => [] end.
Definition c_otext (c : cell) : option str := match c with CText s => Some s | _ => None end.
Definition c_bool (c : cell) : bool := match c with CInt z => negb (Z.eqb z 0) | _ => false end.

(* ------------------------------------------------------------------ rows, one Record per table *)
Record ili_row := { il_rowid : Z; il_id : str; il_status_rowid : Z;
                    il_definition : option str; il_metadata : option str }.
Record proposed_ili_row := { pi_rowid : Z; pi_synset_rowid : option Z;
                             pi_definition : option str; pi_metadata : option str }.
Record lexicon_row := { lex_rowid : Z; lex_id : str; lex_label : str; lex_language : str;
                        lex_email : str; lex_license : str; lex_version : str;
                        lex_url : option str; lex_citation : option str; lex_logo : option str;
                        lex_metadata : option str; lex_modified : bool }.
Record lexicon_dependency_row := { ld_rowid : Z; ld_dependent_rowid : Z; ld_provider_id : str;
                                   ld_provider_version : str; ld_provider_url : option str;
                                   ld_provider_rowid : option Z }.
Record lexicon_extension_row := { le_rowid : Z; le_extension_rowid : Z; le_base_id : str;
                                  le_base_version : str; le_base_url : option str;
                                  le_base_rowid : option Z }.
Record entry_row := { en_rowid : Z; en_id : str; en_lexicon_rowid : Z; en_pos : str;
                      en_metadata : option str }.
Record form_row := { fm_rowid : Z; fm_id : option str; fm_lexicon_rowid : Z; fm_entry_rowid : Z;
                     fm_form : str; fm_normalized_form : option str; fm_script : option str;
                     fm_rank : option Z }.
Record pronunciation_row := { pr_rowid : Z; pr_form_rowid : Z; pr_value : option str;
                              pr_variety : option str; pr_notation : option str;
                              pr_phonemic : bool; pr_audio : option str }.
Record tag_row := { tg_rowid : Z; tg_form_rowid : Z; tg_tag : option str; tg_category : option str }.
Record synset_row := { sy_rowid : Z; sy_id : str; sy_lexicon_rowid : Z; sy_ili_rowid : option Z;
                       sy_pos : option str; sy_lexicalized : bool; sy_lexfile_rowid : option Z;
                       sy_metadata : option str }.
(* synset_relations, sense_relations and sense_synset_relations share their shape *)
Record relation_row := { rl_rowid : Z; rl_lexicon_rowid : Z; rl_source_rowid : Z;
                         rl_target_rowid : Z; rl_type_rowid : Z; rl_metadata : option str }.
Record definition_row := { df_rowid : Z; df_lexicon_rowid : Z; df_synset_rowid : Z;
                           df_definition : option str; df_language : option str;
                           df_sense_rowid : option Z; df_metadata : option str }.
(* synset_examples and sense_examples share their shape (owner = synset_rowid / sense_rowid) *)
Record example_row := { ex_rowid : Z; ex_lexicon_rowid : Z; ex_owner_rowid : Z;
                        ex_example : option str; ex_language : option str;
                        ex_metadata : option str }.
Record sense_row := { se_rowid : Z; se_id : str; se_lexicon_rowid : Z; se_entry_rowid : Z;
                      se_entry_rank : option Z; se_synset_rowid : Z; se_synset_rank : option Z;
                      se_lexicalized : bool; se_metadata : option str }.
Record adjposition_row := { aj_rowid : Z; aj_sense_rowid : Z; aj_adjposition : str }.
Record count_row := { ct_rowid : Z; ct_lexicon_rowid : Z; ct_sense_rowid : Z; ct_count : Z;
                      ct_metadata : option str }.
Record syntactic_behaviour_row := { sb_rowid : Z; sb_id : option str; sb_lexicon_rowid : Z;
                                    sb_frame : str }.
Record syntactic_behaviour_sense_row := { sbs_rowid : Z; sbs_syntactic_behaviour_rowid : Z;
                                          sbs_sense_rowid : Z }.
Record relation_type_row := { rt_rowid : Z; rt_type : str }.
Record ili_status_row := { ist_rowid : Z; ist_status : str }.
Record lexfile_row := { lf_rowid : Z; lf_name : str }.

(* decoders: [rowid; col ...] in schema order *)
Definition ili_of_row (r : row) : ili_row :=
  {| il_rowid := c_int (col 0 r); il_id := c_text (col 1 r); il_status_rowid := c_int (col 2 r);
     il_definition := c_otext (col 3 r); il_metadata := c_otext (col 4 r) |}.
Definition proposed_ili_of_row (r : row) : proposed_ili_row :=
  {| pi_rowid := c_int (col 0 r); pi_synset_rowid := c_oint (col 1 r);
     pi_definition := c_otext (col 2 r); pi_metadata := c_otext (col 3 r) |}.
Definition lexicon_of_row (r : row) : lexicon_row :=
  {| lex_rowid := c_int (col 0 r); lex_id := c_text (col 1 r); lex_label := c_text (col 2 r);
     lex_language := c_text (col 3 r); lex_email := c_text (col 4 r); lex_license := c_text (col 5 r);
     lex_version := c_text (col 6 r); lex_url := c_otext (col 7 r); lex_citation := c_otext (col 8 r);
     lex_logo := c_otext (col 9 r); lex_metadata := c_otext (col 10 r); lex_modified := c_bool (col 11 r) |}.
Definition lexicon_dependency_of_row (r : row) : lexicon_dependency_row :=
  {| ld_rowid := c_int (col 0 r); ld_dependent_rowid := c_int (col 1 r); ld_provider_id := c_text (col 2 r);
     ld_provider_version := c_text (col 3 r); ld_provider_url := c_otext (col 4 r);
     ld_provider_rowid := c_oint (col 5 r) |}.
Definition lexicon_extension_of_row (r : row) : lexicon_extension_row :=
  {| le_rowid := c_int (col 0 r); le_extension_rowid := c_int (col 1 r); le_base_id := c_text (col 2 r);
     le_base_version := c_text (col 3 r); le_base_url := c_otext (col 4 r);
     le_base_rowid := c_oint (col 5 r) |}.
Definition entry_of_row (r : row) : entry_row :=
  {| en_rowid := c_int (col 0 r); en_id := c_text (col 1 r); en_lexicon_rowid := c_int (col 2 r);
     en_pos := c_text (col 3 r); en_metadata := c_otext (col 4 r) |}.
Definition form_of_row (r : row) : form_row :=
  {| fm_rowid := c_int (col 0 r); fm_id := c_otext (col 1 r); fm_lexicon_rowid := c_int (col 2 r);
     fm_entry_rowid := c_int (col 3 r); fm_form := c_text (col 4 r);
     fm_normalized_form := c_otext (col 5 r); fm_script := c_otext (col 6 r);
     fm_rank := c_oint (col 7 r) |}.
Definition pronunciation_of_row (r : row) : pronunciation_row :=
  {| pr_rowid := c_int (col 0 r); pr_form_rowid := c_int (col 1 r); pr_value := c_otext (col 2 r);
     pr_variety := c_otext (col 3 r); pr_notation := c_otext (col 4 r);
     pr_phonemic := c_bool (col 5 r); pr_audio := c_otext (col 6 r) |}.
Definition tag_of_row (r : row) : tag_row :=
  {| tg_rowid := c_int (col 0 r); tg_form_rowid := c_int (col 1 r); tg_tag := c_otext (col 2 r);
     tg_category := c_otext (col 3 r) |}.
Definition synset_of_row (r : row) : synset_row :=
  {| sy_rowid := c_int (col 0 r); sy_id := c_text (col 1 r); sy_lexicon_rowid := c_int (col 2 r);
     sy_ili_rowid := c_oint (col 3 r); sy_pos := c_otext (col 4 r); sy_lexicalized := c_bool (col 5 r);
     sy_lexfile_rowid := c_oint (col 6 r); sy_metadata := c_otext (col 7 r) |}.
Definition relation_of_row (r : row) : relation_row :=
  {| rl_rowid := c_int (col 0 r); rl_lexicon_rowid := c_int (col 1 r); rl_source_rowid := c_int (col 2 r);
     rl_target_rowid := c_int (col 3 r); rl_type_rowid := c_int (col 4 r);
     rl_metadata := c_otext (col 5 r) |}.
Definition definition_of_row (r : row) : definition_row :=
  {| df_rowid := c_int (col 0 r); df_lexicon_rowid := c_int (col 1 r); df_synset_rowid := c_int (col 2 r);
     df_definition := c_otext (col 3 r); df_language := c_otext (col 4 r);
     df_sense_rowid := c_oint (col 5 r); df_metadata := c_otext (col 6 r) |}.
Definition example_of_row (r : row) : example_row :=
  {| ex_rowid := c_int (col 0 r); ex_lexicon_rowid := c_int (col 1 r); ex_owner_rowid := c_int (col 2 r);
     ex_example := c_otext (col 3 r); ex_language := c_otext (col 4 r);
     ex_metadata := c_otext (col 5 r) |}.
Definition sense_of_row (r : row) : sense_row :=
  {| se_rowid := c_int (col 0 r); se_id := c_text (col 1 r); se_lexicon_rowid := c_int (col 2 r);
     se_entry_rowid := c_int (col 3 r); se_entry_rank := c_oint (col 4 r);
     se_synset_rowid := c_int (col 5 r); se_synset_rank := c_oint (col 6 r);
     se_lexicalized := c_bool (col 7 r); se_metadata := c_otext (col 8 r) |}.
Definition adjposition_of_row (r : row) : adjposition_row :=
  {| aj_rowid := c_int (col 0 r); aj_sense_rowid := c_int (col 1 r); aj_adjposition := c_text (col 2 r) |}.
Definition count_of_row (r : row) : count_row :=
  {| ct_rowid := c_int (col 0 r); ct_lexicon_rowid := c_int (col 1 r); ct_sense_rowid := c_int (col 2 r);
     ct_count := c_int (col 3 r); ct_metadata := c_otext (col 4 r) |}.
Definition syntactic_behaviour_of_row (r : row) : syntactic_behaviour_row :=
  {| sb_rowid := c_int (col 0 r); sb_id := c_otext (col 1 r); sb_lexicon_rowid := c_int (col 2 r);
     sb_frame := c_text (col 3 r) |}.
Definition syntactic_behaviour_sense_of_row (r : row) : syntactic_behaviour_sense_row :=
  {| sbs_rowid := c_int (col 0 r); sbs_syntactic_behaviour_rowid := c_int (col 1 r);
     sbs_sense_rowid := c_int (col 2 r) |}.
Definition relation_type_of_row (r : row) : relation_type_row :=
  {| rt_rowid := c_int (col 0 r); rt_type := c_text (col 1 r) |}.
Definition ili_status_of_row (r : row) : ili_status_row :=
  {| ist_rowid := c_int (col 0 r); ist_status := c_text (col 1 r) |}.
Definition lexfile_of_row (r : row) : lexfile_row :=
  {| lf_rowid := c_int (col 0 r); lf_name := c_text (col 1 r) |}.

(* ------------------------------------------------------------------ the database *)
Record db := {
  t_ilis : list ili_row;
  t_proposed_ilis : list proposed_ili_row;
  t_lexicons : list lexicon_row;
  t_lexicon_dependencies : list lexicon_dependency_row;
  t_lexicon_extensions : list lexicon_extension_row;
  t_entries : list entry_row;
  t_forms : list form_row;
  t_pronunciations : list pronunciation_row;
  t_tags : list tag_row;
  t_synsets : list synset_row;
  t_synset_relations : list relation_row;
  t_definitions : list definition_row;
  t_synset_examples : list example_row;
  t_senses : list sense_row;
  t_sense_relations : list relation_row;
  t_sense_synset_relations : list relation_row;
  t_adjpositions : list adjposition_row;
  t_sense_examples : list example_row;
  t_counts : list count_row;
  t_syntactic_behaviours : list syntactic_behaviour_row;
  t_syntactic_behaviour_senses : list syntactic_behaviour_sense_row;
  t_relation_types : list relation_type_row;
  t_ili_statuses : list ili_status_row;
  t_lexfiles : list lexfile_row
}.

Definition S_ (s : string) : str := str_of_string s.

(* the rows (in rowid order) of the table called [name] in  L [ L [name; L rows] ... ] *)
Fixpoint table_rows (name : str) (tables : list sx) : list row :=
  match tables with
  | [] => []
  | t :: ts => if str_eqb (sx_str (sx_nth 0 t)) name
               then map row_of_sx (sx_list (sx_nth 1 t))
               else table_rows name ts
  end.

Definition db_of_sx (x : sx) : db :=
  let ts := sx_list x in
  let tb {T} (name : string) (f : row -> T) : list T := map f (table_rows (S_ name) ts) in
  {| t_ilis := tb "ilis"%string ili_of_row;
     t_proposed_ilis := tb "proposed_ilis"%string proposed_ili_of_row;
     t_lexicons := tb "lexicons"%string lexicon_of_row;
     t_lexicon_dependencies := tb "lexicon_dependencies"%string lexicon_dependency_of_row;
     t_lexicon_extensions := tb "lexicon_extensions"%string lexicon_extension_of_row;
     t_entries := tb "entries"%string entry_of_row;
     t_forms := tb "forms"%string form_of_row;
     t_pronunciations := tb "pronunciations"%string pronunciation_of_row;
     t_tags := tb "tags"%string tag_of_row;
     t_synsets := tb "synsets"%string synset_of_row;
     t_synset_relations := tb "synset_relations"%string relation_of_row;
     t_definitions := tb "definitions"%string definition_of_row;
     t_synset_examples := tb "synset_examples"%string example_of_row;
     t_senses := tb "senses"%string sense_of_row;
     t_sense_relations := tb "sense_relations"%string relation_of_row;
     t_sense_synset_relations := tb "sense_synset_relations"%string relation_of_row;
     t_adjpositions := tb "adjpositions"%string adjposition_of_row;
     t_sense_examples := tb "sense_examples"%string example_of_row;
     t_counts := tb "counts"%string count_of_row;
     t_syntactic_behaviours := tb "syntactic_behaviours"%string syntactic_behaviour_of_row;
     t_syntactic_behaviour_senses := tb "syntactic_behaviour_senses"%string syntactic_behaviour_sense_of_row;
     t_relation_types := tb "relation_types"%string relation_type_of_row;
     t_ili_statuses := tb "ili_statuses"%string ili_status_of_row;
     t_lexfiles := tb "lexfiles"%string lexfile_of_row |}.

(* ------------------------------------------------------------------ relational helpers *)
(* x IN (z1, ..., zn) *)
Definition z_in (x : Z) (l : list Z) : bool := existsb (Z.eqb x) l.
(* x IN (...) for a nullable x: NULL IN (...) is NULL, hence not selected *)
Definition oz_in (x : option Z) (l : list Z) : bool :=
  match x with Some z => z_in z l | None => false end.
Definition str_in (x : str) (l : list str) : bool := str_mem x l.
Definition ostr_in (x : option str) (l : list str) : bool :=
  match x with Some s => str_mem s l | None => false end.

(* equality of nullable values as used by DISTINCT (NULLs are not distinct from each other)
   and — in Python — by ==  (None == None) *)
Definition oz_eqb (a b : option Z) : bool :=
  match a, b with
  | Some x, Some y => Z.eqb x y
  | None, None => true
  | _, _ => false
  end.
Definition ostr_eqb (a b : option str) : bool :=
  match a, b with
  | Some x, Some y => str_eqb x y
  | None, None => true
  | _, _ => false
  end.
(* SQL  col = ?  on a nullable column: NULL = x is never true *)
Definition oz_is (a : option Z) (x : Z) : bool :=
  match a with Some y => Z.eqb y x | None => false end.
Definition ostr_is (a : option str) (x : str) : bool :=
  match a with Some y => str_eqb y x | None => false end.

(* Python truthiness of an optional string argument:  if id: ...  *)
Definition truthy (o : option str) : bool :=
  match o with Some (_ :: _) => true | _ => false end.
Definition nonempty {T} (l : list T) : bool := match l with [] => false | _ => true end.

(* lookup by rowid (INTEGER PRIMARY KEY: at most one row) *)
Fixpoint find_by {T} (key : T -> Z) (k : Z) (l : list T) : option T :=
  match l with
  | [] => None
  | x :: l' => if Z.eqb (key x) k then Some x else find_by key k l'
  end.
Definition ofind_by {T} (key : T -> Z) (k : option Z) (l : list T) : option T :=
  match k with Some z => find_by key z l | None => None end.

(* first-occurrence de-duplication: SELECT DISTINCT / UNION through a temp b-tree, dict keys *)
Fixpoint dedup_aux {T} (eqb : T -> T -> bool) (seen : list T) (l : list T) : list T :=
  match l with
  | [] => []
  | x :: l' => if existsb (eqb x) seen then dedup_aux eqb seen l'
               else x :: dedup_aux eqb (x :: seen) l'
  end.
Definition dedup {T} (eqb : T -> T -> bool) (l : list T) : list T := dedup_aux eqb [] l.

(* stable insertion sort: [le a b] = a sorts no later than b; equal keys keep their order *)
Fixpoint insert_sorted {T} (le : T -> T -> bool) (x : T) (l : list T) : list T :=
  match l with
  | [] => [x]
  | y :: l' => if le x y then x :: y :: l' else y :: insert_sorted le x l'
  end.
Fixpoint stable_sort {T} (le : T -> T -> bool) (l : list T) : list T :=
  match l with
  | [] => []
  | x :: l' => insert_sorted le x (stable_sort le l')
  end.
Definition sort_by_z {T} (key : T -> Z) (l : list T) : list T :=
  stable_sort (fun a b => Z.leb (key a) (key b)) l.
(* ORDER BY on a nullable integer column: NULLs first *)
Definition oz_leb (a b : option Z) : bool :=
  match a, b with
  | None, _ => true
  | Some _, None => false
  | Some x, Some y => Z.leb x y
  end.
Definition oz_ltb (a b : option Z) : bool := negb (oz_leb b a).
Definition sort_by_oz {T} (key : T -> option Z) (l : list T) : list T :=
  stable_sort (fun a b => oz_leb (key a) (key b)) l.

(* BINARY collation on text = code point order (UTF-8 preserves it) *)
Fixpoint str_leb (a b : str) : bool :=
  match a, b with
  | [], _ => true
  | _ :: _, [] => false
  | x :: a', y :: b' => if Z.ltb x y then true else if Z.ltb y x then false else str_leb a' b'
  end.
Definition str_ltb (a b : str) : bool := negb (str_leb b a).
(* the distinct values of an IN-list in the order SQLite visits them (ascending) *)
Definition sorted_values (l : list str) : list str := stable_sort str_leb (dedup str_eqb l).
Definition sorted_zvalues (l : list Z) : list Z := stable_sort Z.leb (dedup Z.eqb l).

(* Some-values of a list of nullable integers *)
Fixpoint somes {T} (l : list (option T)) : list T :=
  match l with
  | [] => []
  | Some x :: l' => x :: somes l'
  | None :: l' => somes l'
  end.

Definition hd_opt {T} (l : list T) : option T := match l with [] => None | x :: _ => Some x end.

(* ------------------------------------------------------------------ JSON metadata
   The metadata columns hold the text written by json.dumps (ensure_ascii: every non-ASCII
   character is a \uXXXX escape, characters beyond the BMP are surrogate pairs).  The query
   layer only ever looks at one thing inside: the string under the key "type"
   (Relation.subtype).  [json_members] reads the top-level members of an object: string
   values are decoded, any other value is skipped and reported as None. *)
Definition hexval (c : Z) : Z :=
  if Z.leb 48 c && Z.leb c 57 then c - 48
  else if Z.leb 97 c && Z.leb c 102 then c - 87
  else if Z.leb 65 c && Z.leb c 70 then c - 55
  else 0.
Definition hex4 (a b c d : Z) : Z := ((hexval a * 16 + hexval b) * 16 + hexval c) * 16 + hexval d.
Definition unescape (e : Z) : Z :=
  if Z.eqb e 98 then 8            (* \b *)
  else if Z.eqb e 102 then 12     (* \f *)
  else if Z.eqb e 110 then 10     (* \n *)
  else if Z.eqb e 114 then 13     (* \r *)
  else if Z.eqb e 116 then 9      (* \t *)
  else e.                          (* quote, backslash, slash *)

(* after the opening quote: (code units of the string, text after the closing quote) *)
Fixpoint json_string (s : str) : str * str :=
  match s with
  | [] => ([], [])
  | c :: r =>
      if Z.eqb c 34 then ([], r)
      else if Z.eqb c 92 then
        match r with
        | [] => ([], [])
        | e :: r1 =>
            if Z.eqb e 117 then
              match r1 with
              | a :: b :: c4 :: d :: r2 =>
                  let (t, r') := json_string r2 in (hex4 a b c4 d :: t, r')
              | _ => ([], [])
              end
            else let (t, r') := json_string r1 in (unescape e :: t, r')
        end
      else let (t, r') := json_string r in (c :: t, r')
  end.

(* UTF-16 surrogate pairs -> code points (lone surrogates stay, as in json.loads) *)
Fixpoint join_surrogates (s : str) : str :=
  match s with
  | [] => []
  | h :: r =>
      match r with
      | l :: r' =>
          if Z.leb 55296 h && Z.leb h 56319 && Z.leb 56320 l && Z.leb l 57343
          then (65536 + (h - 55296) * 1024 + (l - 56320)) :: join_surrogates r'
          else h :: join_surrogates r
      | [] => [h]
      end
  end.

Definition json_ws (c : Z) : bool := Z.eqb c 32 || Z.eqb c 9 || Z.eqb c 10 || Z.eqb c 13.
Fixpoint skip_ws (s : str) : str :=
  match s with
  | [] => []
  | c :: r => if json_ws c then skip_ws r else s
  end.

(* skip a value that is not a string: stop at the ',' or '}' that ends the member *)
Fixpoint json_skip (depth : nat) (instr esc : bool) (s : str) : str :=
  match s with
  | [] => []
  | c :: r =>
      if instr then
        if esc then json_skip depth true false r
        else if Z.eqb c 92 then json_skip depth true true r
        else if Z.eqb c 34 then json_skip depth false false r
        else json_skip depth true false r
      else if Z.eqb c 34 then json_skip depth true false r
      else if Z.eqb c 123 || Z.eqb c 91 then json_skip (S depth) false false r
      else if Z.eqb c 125 || Z.eqb c 93 then
        match depth with O => s | S d => json_skip d false false r end
      else if Z.eqb c 44 then
        match depth with O => s | S _ => json_skip depth false false r end
      else json_skip depth false false r
  end.

(* [s] is positioned where a member ("key": value) may start *)
Fixpoint json_members (fuel : nat) (s : str) : list (str * option str) :=
  match fuel with
  | O => []
  | S f =>
      match skip_ws s with
      | [] => []
      | c :: r =>
          if Z.eqb c 34 then
            let (k, r1) := json_string r in
            match skip_ws r1 with
            | [] => []
            | _colon :: r2 =>
                let (v, rest) :=
                  match skip_ws r2 with
                  | [] => (None, [])
                  | c2 :: r3 =>
                      if Z.eqb c2 34
                      then let (t, r4) := json_string r3 in (Some (join_surrogates t), r4)
                      else (None, json_skip 0 false false (c2 :: r3))
                  end in
                (join_surrogates k, v) ::
                match skip_ws rest with
                | c3 :: r5 => if Z.eqb c3 44 then json_members f r5 else []
                | [] => []
                end
            end
          else []
      end
  end.

Definition json_object (text : str) : list (str * option str) :=
  match skip_ws text with
  | c :: r => if Z.eqb c 123 then json_members (List.length text) r else []
  | [] => []
  end.

(* dict.get(key) on the decoded metadata: the last member with that key wins (json.loads);
   None when the key is absent (or its value is not a string: not modelled) *)
Fixpoint assoc_last (key : str) (l : list (str * option str)) (acc : option str) : option str :=
  match l with
  | [] => acc
  | (k, v) :: l' => assoc_last key l' (if str_eqb k key then v else acc)
  end.
(* metadata column (NULL -> {}) -> metadata.get(key) *)
Definition metadata_get (metadata : option str) (key : str) : option str :=
  match metadata with
  | None => None
  | Some text => assoc_last key (json_object text) None
  end.

Example json_ex1 :
  metadata_get (Some (S_ "{""source"": ""q\""uote"", ""type"": ""\u00fcn\ud835\udcb3""}")) (S_ "type")
  = Some [252; 110; 119987].
Proof. reflexivity. Qed.
Example json_ex2 : metadata_get (Some (S_ "{""n"": 1, ""a"": [1, {""type"": ""x""}], ""type"": ""t1""}")) (S_ "type")
  = Some (S_ "t1").
Proof. reflexivity. Qed.
Example json_ex3 : metadata_get (Some (S_ "{""note"": ""type""}")) (S_ "type") = None.
Proof. reflexivity. Qed.
Example sort_ex : sort_by_z fst [(2, 1); (1, 2); (2, 3); (1, 4)] = [(1, 2); (1, 4); (2, 1); (2, 3)].
Proof. reflexivity. Qed.
