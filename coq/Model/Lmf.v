(* Model/Lmf.v — executable model of wn/lmf.py: the WN-LMF writer (dump) and the
   reader (load = header check + expat handlers + _validate).

   The model is a transliteration: every Python function has a Gallina function of
   the same name; the Python source is quoted in the comments.  Resources are
   [val]s (Model/Val.v), with insertion-ordered dictionaries.  Python's dynamic
   typing is followed as far as the exception *class* is concerned:
     LMFError -> ELmf, AssertionError -> EAssert, KeyError -> EKey,
     anything else (AttributeError, TypeError, ValueError, ...) -> EOther.
   Known limits (commented where they occur): repr() of lists/dictionaries used as
   attribute values or text, and CPython's 4300-digit limit of int(). *)
From Coq Require Import String.
From Coq Require Import ZArith List Bool.
Import ListNotations.
Require Import WnV.Base.Sx WnV.Gen.LmfTables WnV.Model.Val.
Require Import WnV.Model.XmlText.
Local Open Scope Z_scope.

Local Notation s_ := str_of_string.

(* ====================================================================== *)
(* Results                                                                *)
(* ====================================================================== *)

Inductive err : Type := ELmf | EAssert | EKey | EOther.
Inductive result (T : Type) : Type :=
| Ok (x : T)
| Err (e : err).
Arguments Ok {T} x.
Arguments Err {T} e.

Definition bind {T U} (a : result T) (f : T -> result U) : result U :=
  match a with Ok x => f x | Err e => Err e end.
Notation "'do' x <- a ; b" := (bind a (fun x => b))
  (at level 200, x name, a at level 100, b at level 200).
Notation "'do_' a ; b" := (bind a (fun _ => b))
  (at level 200, a at level 100, b at level 200).

Fixpoint mapM {T U} (f : T -> result U) (l : list T) : result (list U) :=
  match l with
  | [] => Ok []
  | x :: r => do y <- f x; do ys <- mapM f r; Ok (y :: ys)
  end.
(* for x in l: f(x)  — effects (exceptions) only *)
Fixpoint forM {T} (f : T -> result unit) (l : list T) : result unit :=
  match l with
  | [] => Ok tt
  | x :: r => do_ f x; forM f r
  end.

Definition err_code (e : err) : Z :=
  match e with ELmf => -1 | EAssert => -6 | EKey => -3 | EOther => -4 end.

(* assert b *)
Definition assert (b : bool) : result unit := if b then Ok tt else Err EAssert.

(* ====================================================================== *)
(* Tables (from Gen/LmfTables.v, generated from the source tree)          *)
(* ====================================================================== *)

Definition pair_str (p : string * string) : str * str := (s_ (fst p), s_ (snd p)).
Definition supported_versions : list str := map s_ SUPPORTED_VERSIONS.
Definition schemas : list (str * str) := map pair_str SCHEMAS.
Definition dc_uris : list (str * str) := map pair_str DC_URIS.
Definition dc_attrs : list str := map s_ DC_ATTRS.
Definition xmldecl : str := s_ XMLDECL.
Definition doctype_template : str := s_ DOCTYPE_TEMPLATE.
Definition valid_elems : list (str * list (str * str)) :=
  map (fun p => (s_ (fst p), map pair_str (snd p))) VALID_ELEMS.
Definition list_elems : list str := map s_ LIST_ELEMS.
Definition cdata_elems : list str := map s_ CDATA_ELEMS.
Definition meta_elems : list str := map s_ META_ELEMS.
(* _XMLSPACEATTR (xml:space as expat reports it) *)
Definition xmlspaceattr : str := s_ "http://www.w3.org/XML/1998/namespace space".

Fixpoint assoc {T} (k : str) (l : list (str * T)) : option T :=
  match l with
  | [] => None
  | (k', v) :: r => if str_eqb k' k then Some v else assoc k r
  end.
Definition assoc_d {T} (k : str) (l : list (str * T)) (d : T) : T :=
  match assoc k l with Some v => v | None => d end.

(* _DOCTYPE.format(schema=schema) *)
Definition doctype_of (schema : str) : str := replace (s_ "{schema}") schema doctype_template.
(* _DOCTYPES = {_DOCTYPE.format(schema=schema): version for version, schema in _SCHEMAS.items()} *)
Definition doctypes : list (str * str) := map (fun vs => (doctype_of (snd vs), fst vs)) schemas.

(* _NS_ATTRS[version]: expanded attribute name -> metadata key *)
Definition ns_attrs (version : str) : list (str * str) :=
  let uri := assoc_d version dc_uris [] in
  map (fun a => (uri ++ [c_sp] ++ a, a)) dc_attrs
  ++ map (fun a => (s_ a, s_ a)) NS_ATTRS_PLAIN.

(* ====================================================================== *)
(* Python operations on values                                            *)
(* ====================================================================== *)

Definition is_none (v : val) : bool := match v with VNone => true | _ => false end.

(* d.get(k) — AttributeError when d is not a dictionary *)
Definition py_get (d : val) (k : str) : result val :=
  match d with VDict _ => Ok (vget d k) | _ => Err EOther end.
(* d.get(k, dflt) *)
Definition py_get_d (d : val) (k : str) (dflt : val) : result val :=
  match d with VDict _ => Ok (if vhas d k then vget d k else dflt) | _ => Err EOther end.
(* d[k] — KeyError when absent, TypeError when d is None / a string / a list *)
Definition py_item (d : val) (k : str) : result val :=
  match d with
  | VDict _ => if vhas d k then Ok (vget d k) else Err EKey
  | _ => Err EOther
  end.
(* k in d — key test for dictionaries, substring test for strings, membership
   for lists, TypeError otherwise *)
Definition py_in (k : str) (d : val) : result bool :=
  match d with
  | VDict _ => Ok (vhas d k)
  | VStr s => Ok (substrb k s)
  | VList l => Ok (existsb (val_eqb (VStr k)) l)
  | _ => Err EOther
  end.
(* for x in v — the elements of a list, the characters of a string, the keys of
   a dictionary; TypeError otherwise *)
Definition py_iter (v : val) : result (list val) :=
  match v with
  | VList l => Ok l
  | VStr s => Ok (map (fun c => VStr [c]) s)
  | VDict d => Ok (map (fun kv => VStr (fst kv)) d)
  | _ => Err EOther
  end.
(* for x in d.get(k, []) *)
Definition for_get (d : val) (k : str) : result (list val) :=
  do l <- py_get_d d k (VList []); py_iter l.
(* str(v); repr of lists and dictionaries is not modelled (EOther) *)
Definition py_str (v : val) : result str :=
  match v with
  | VStr s => Ok s
  | VInt n => Ok (dec_of_Z n)
  | VBool true => Ok (s_ "True")
  | VBool false => Ok (s_ "False")
  | VNone => Ok (s_ "None")
  | _ => Err EOther
  end.
(* ' '.join(v) — TypeError unless every item is a string *)
Definition py_join_sp (v : val) : result str :=
  do items <- py_iter v;
  do strs <- mapM (fun x => match x with VStr s => Ok s | _ => Err EOther end) items;
  Ok (join [c_sp] strs).
(* d.setdefault(k, v) *)
Definition setdefault (d : val) (k : str) (v : val) : result val :=
  match d with
  | VDict _ => Ok (if vhas d k then d else vset d k v)
  | _ => Err EOther
  end.
(* del d[k] (the dictionary part of d.pop(k)) *)
Definition vdel (d : val) (k : str) : val :=
  match d with
  | VDict kvs => VDict (filter (fun kv => negb (str_eqb (fst kv) k)) kvs)
  | _ => d
  end.
(* attrib.update(d) *)
Definition dict_update (a d : list (str * val)) : list (str * val) :=
  fold_left (fun acc kv => vset_list acc (fst kv) (snd kv)) d a.

(* wn._util.version_info: tuple(map(int, version_string.split('.'))) *)
Definition version_info (version_string : str) : result (list Z) :=
  mapM (fun p => match parse_int p with Some n => Ok n | None => Err EOther end)
       (split_on c_dot version_string).
(* tuple comparison a < b *)
Fixpoint tuple_ltb (a b : list Z) : bool :=
  match a, b with
  | [], [] => false
  | [], _ :: _ => true
  | _ :: _, [] => false
  | x :: a', y :: b' => if Z.ltb x y then true else if Z.ltb y x then false else tuple_ltb a' b'
  end.
(* version >= (1, 1) *)
Definition ge_1_1 (version : list Z) : bool := negb (tuple_ltb version [1; 1]).
(* version < (1, 1) *)
Definition lt_1_1 (version : list Z) : bool := tuple_ltb version [1; 1].

(* ====================================================================== *)
(* Writer: ElementTree elements and their serialisation                   *)
(* ====================================================================== *)

(* ET.Element: tag, attrib (insertion-ordered; the values are whatever Python
   objects the resource held — they are only checked when serialised), text
   (VNone = no text), children, tail (None = no tail). *)
Inductive xml : Type :=
| Elem (tag : str) (attrib : list (str * val)) (text : val) (children : list xml)
       (tail : option str).

Definition set_tail (e : xml) (t : str) : xml :=
  match e with Elem tag a tx cs _ => Elem tag a tx cs (Some t) end.

(* write(' %s="%s"' % (qnames[k], _escape_attrib(v))) — TypeError for a non-string
   (a list or dictionary would be written through repr(): not modelled, EOther) *)
Definition ser_attr (kv : str * val) : result str :=
  match snd kv with
  | VStr s => Ok ([c_sp] ++ fst kv ++ [61; c_quot] ++ escape_attrib s ++ [c_quot])
  | _ => Err EOther
  end.
(* if text: write(_escape_cdata(text)) — None when the text is falsy *)
Definition ser_text (t : val) : result (option str) :=
  if vtruthy t then
    match t with
    | VStr s => Ok (Some (escape_cdata s))
    | _ => Err EOther
    end
  else Ok None.

(* ET.tostring(elem, encoding='unicode', short_empty_elements=True): _serialize_xml
     write('<' + tag); for k, v in items: write(' k="v"')
     if text or len(elem): write('>') text children write('</' + tag + '>')
     else: write(' />')
     if elem.tail: write(_escape_cdata(elem.tail)) *)
Fixpoint serialize (e : xml) : result str :=
  match e with
  | Elem tag attrib text children tail =>
      do a <- mapM ser_attr attrib;
      do t <- ser_text text;
      do cs <- (fix go (l : list xml) : result str :=
                  match l with
                  | [] => Ok []
                  | c :: r => do x <- serialize c; do y <- go r; Ok (x ++ y)
                  end) children;
      let tl := match tail with Some s => escape_cdata s | None => [] end in
      let nonempty := match t, children with None, [] => false | _, _ => true end in
      Ok ([c_lt] ++ tag ++ concat a
          ++ (if nonempty
              then [c_gt] ++ match t with Some s => s | None => [] end ++ cs
                   ++ [c_lt; 47] ++ tag ++ [c_gt]
              else s_ " />")
          ++ tl)
  end.

(* not elem.text or not elem.text.strip()   (a truthy non-string text would raise
   AttributeError; no builder below gives text to an element with children) *)
Definition text_blank (t : val) : bool :=
  if vtruthy t then match t with VStr s => py_blank s | _ => false end else true.

(* def _indent(elem, level):
       self_indent = '\n' + '  ' * level
       child_indent = self_indent + '  '
       if len(elem):
           if not elem.text or not elem.text.strip(): elem.text = child_indent
           for child in elem[:-1]: _indent(child, level + 1); child.tail = child_indent
           _indent(elem[-1], level + 1); elem[-1].tail = self_indent *)
Fixpoint indent (e : xml) (level : nat) : xml :=
  match e with
  | Elem tag attrib text children tail =>
      let self_indent := c_nl :: spaces (2 * level) in
      let child_indent := self_indent ++ spaces 2 in
      match children with
      | [] => e
      | _ :: _ =>
          let text' := if text_blank text then VStr child_indent else text in
          let children' :=
            (fix go (l : list xml) : list xml :=
               match l with
               | [] => []
               | c :: r =>
                   match r with
                   | [] => [set_tail (indent c (S level)) self_indent]
                   | _ :: _ => set_tail (indent c (S level)) child_indent :: go r
                   end
               end) children in
          Elem tag attrib text' children' tail
      end
  end.

(* def _tostring(elem, level): _indent(elem, level); return ('  ' * level) + ET.tostring(elem, ...) *)
Definition _tostring (elem : xml) (level : nat) : result str :=
  do s <- serialize (indent elem level);
  Ok (spaces (2 * level) ++ s).
(* print(_tostring(elem, 2), file=out) *)
Definition print_elem (elem : xml) : result str :=
  do s <- _tostring elem 2; Ok (s ++ [c_nl]).

(* if d.get(k): attrib[k] = d[k] *)
Definition opt_attr (d : val) (k : str) (attrib : list (str * val)) : result (list (str * val)) :=
  do v <- py_get d k;
  Ok (if vtruthy v then vset_list attrib k v else attrib).

(* def _meta_dict(meta):
       if meta is not None:
           d = {'dc:contributor': meta.get('contributor', ''), ..., 'dc:type': ...,
                'status': meta.get('status', ''), 'note': meta.get('note', '')}
           d = {key: val for key, val in d.items() if val}
           if 'confidenceScore' in meta: d['confidenceScore'] = str(meta['confidenceScore'])
       else: d = {} *)
Definition meta_keys : list (str * str) :=
  map (fun a => (s_ "dc:" ++ a, a)) dc_attrs
  ++ [(s_ "status", s_ "status"); (s_ "note", s_ "note")].
Definition _meta_dict (meta : val) : result (list (str * val)) :=
  match meta with
  | VNone => Ok []
  | VDict _ =>
      let d := flat_map (fun kk =>
                 let v := if vhas meta (snd kk) then vget meta (snd kk) else VStr [] in
                 if vtruthy v then [(fst kk, v)] else []) meta_keys in
      if vhas meta (s_ "confidenceScore") then
        do s <- py_str (vget meta (s_ "confidenceScore"));
        Ok (vset_list d (s_ "confidenceScore") (VStr s))
      else Ok d
  | _ => Err EOther   (* AttributeError: no .get *)
  end.

(* def _build_pronunciation(pron):
       attrib = {}
       if pron.get('variety'): attrib['variety'] = pron['variety']
       if pron.get('notation'): attrib['notation'] = pron['notation']
       if not pron.get('phonemic', True): attrib['phonemic'] = 'false'
       if pron.get('audio'): attrib['audio'] = pron['audio']
       elem = ET.Element('Pronunciation', attrib=attrib)
       elem.text = pron['text'] *)
Definition _build_pronunciation (pron : val) : result xml :=
  do attrib <- opt_attr pron (s_ "variety") [];
  do attrib <- opt_attr pron (s_ "notation") attrib;
  do ph <- py_get_d pron (s_ "phonemic") (VBool true);
  let attrib := if vtruthy ph then attrib
                else vset_list attrib (s_ "phonemic") (VStr (s_ "false")) in
  do attrib <- opt_attr pron (s_ "audio") attrib;
  do text <- py_item pron (s_ "text");
  Ok (Elem (s_ "Pronunciation") attrib text [] None).

(* def _build_tag(tag):
       elem = ET.Element('Tag', category=tag['category'])
       elem.text = tag['text'] *)
Definition _build_tag (tag : val) : result xml :=
  do cat <- py_item tag (s_ "category");
  do text <- py_item tag (s_ "text");
  Ok (Elem (s_ "Tag") [(s_ "category", cat)] text [] None).

(* the common tail of _build_lemma and _build_form:
       if version >= (1, 1):
           for pron in form.get('pronunciations', []): elem.append(_build_pronunciation(pron))
       for tag in form.get('tags', []): elem.append(_build_tag(tag)) *)
Definition form_children (form : val) (version : list Z) : result (list xml) :=
  do prons <- (if ge_1_1 version
               then do l <- for_get form (s_ "pronunciations"); mapM _build_pronunciation l
               else Ok []);
  do l <- for_get form (s_ "tags");
  do tags <- mapM _build_tag l;
  Ok (prons ++ tags).

(* def _build_lemma(lemma, version):
       if lemma.get('external', False): elem = ET.Element('ExternalLemma')
       else:
           attrib = {'writtenForm': lemma['writtenForm']}
           if lemma.get('script'): attrib['script'] = lemma['script']
           attrib['partOfSpeech'] = lemma['partOfSpeech']
           elem = ET.Element('Lemma', attrib=attrib)
       ... pronunciations (>= 1.1), tags *)
Definition _build_lemma (lemma : val) (version : list Z) : result xml :=
  do ext <- py_get_d lemma (s_ "external") (VBool false);
  do head <- (if vtruthy ext then Ok (s_ "ExternalLemma", [])
              else
                do wf <- py_item lemma (s_ "writtenForm");
                do attrib <- opt_attr lemma (s_ "script") [(s_ "writtenForm", wf)];
                do pos <- py_item lemma (s_ "partOfSpeech");
                Ok (s_ "Lemma", vset_list attrib (s_ "partOfSpeech") pos));
  do kids <- form_children lemma version;
  Ok (Elem (fst head) (snd head) VNone kids None).

(* def _build_form(form, version):
       attrib = {}
       if version >= (1, 1) and form.get('id'): attrib['id'] = form['id']
       if form.get('external', False): elem = ET.Element('ExternalForm', attrib=attrib)
       else:
           attrib['writtenForm'] = form['writtenForm']
           if form.get('script'): attrib['script'] = form['script']
           elem = ET.Element('Form', attrib=attrib)
       ... pronunciations (>= 1.1), tags *)
Definition _build_form (form : val) (version : list Z) : result xml :=
  do attrib <- (if ge_1_1 version then opt_attr form (s_ "id") [] else Ok []);
  do ext <- py_get_d form (s_ "external") (VBool false);
  do head <- (if vtruthy ext then Ok (s_ "ExternalForm", attrib)
              else
                do wf <- py_item form (s_ "writtenForm");
                do attrib <- opt_attr form (s_ "script") (vset_list attrib (s_ "writtenForm") wf);
                Ok (s_ "Form", attrib));
  do kids <- form_children form version;
  Ok (Elem (fst head) (snd head) VNone kids None).

(* def _build_relation(relation, elemtype):
       attrib = {'target': relation['target'], 'relType': relation['relType']}
       attrib.update(_meta_dict(relation.get('meta')))
       return ET.Element(elemtype, attrib=attrib) *)
Definition _build_relation (relation : val) (elemtype : str) : result xml :=
  do target <- py_item relation (s_ "target");
  do relType <- py_item relation (s_ "relType");
  do meta <- py_get relation (s_ "meta");
  do md <- _meta_dict meta;
  Ok (Elem elemtype (dict_update [(s_ "target", target); (s_ "relType", relType)] md) VNone [] None).

(* def _build_example(example):
       elem = ET.Element('Example', attrib=_meta_dict(example.get('meta')))
       elem.text = example['text']
       if example.get('language'): elem.set('language', example['language']) *)
Definition _build_example (example : val) : result xml :=
  do meta <- py_get example (s_ "meta");
  do md <- _meta_dict meta;
  do text <- py_item example (s_ "text");
  do attrib <- opt_attr example (s_ "language") md;
  Ok (Elem (s_ "Example") attrib text [] None).

(* def _build_count(count):
       elem = ET.Element('Count', attrib=_meta_dict(count.get('meta')))
       elem.text = str(count['value']) *)
Definition _build_count (count : val) : result xml :=
  do meta <- py_get count (s_ "meta");
  do md <- _meta_dict meta;
  do value <- py_item count (s_ "value");
  do text <- py_str value;
  Ok (Elem (s_ "Count") md (VStr text) [] None).

(* def _build_sense(sense, version):
       attrib = {'id': sense['id']}
       if sense.get('external'): elem = ET.Element('ExternalSense', attrib=attrib)
       else:
           attrib['synset'] = sense['synset']
           attrib.update(_meta_dict(sense.get('meta')))
           if not sense.get('lexicalized', True): attrib['lexicalized'] = 'false'
           if sense.get('adjposition'): attrib['adjposition'] = sense['adjposition']
           if version >= (1, 1) and sense.get('subcat'): attrib['subcat'] = ' '.join(sense['subcat'])
           elem = ET.Element('Sense', attrib=attrib)
       elem.extend([_build_relation(rel, 'SenseRelation') for rel in sense.get('relations', [])])
       elem.extend([_build_example(ex) for ex in sense.get('examples', [])])
       elem.extend([_build_count(cnt) for cnt in sense.get('counts', [])]) *)
Definition _build_sense (sense : val) (version : list Z) : result xml :=
  do id <- py_item sense (s_ "id");
  let attrib := [(s_ "id", id)] in
  do ext <- py_get sense (s_ "external");
  do head <- (if vtruthy ext then Ok (s_ "ExternalSense", attrib)
              else
                do synset <- py_item sense (s_ "synset");
                let attrib := vset_list attrib (s_ "synset") synset in
                do meta <- py_get sense (s_ "meta");
                do md <- _meta_dict meta;
                let attrib := dict_update attrib md in
                do lexd <- py_get_d sense (s_ "lexicalized") (VBool true);
                let attrib := if vtruthy lexd then attrib
                              else vset_list attrib (s_ "lexicalized") (VStr (s_ "false")) in
                do attrib <- opt_attr sense (s_ "adjposition") attrib;
                do attrib <- (if ge_1_1 version then
                                do sc <- py_get sense (s_ "subcat");
                                if vtruthy sc then
                                  do j <- py_join_sp sc;
                                  Ok (vset_list attrib (s_ "subcat") (VStr j))
                                else Ok attrib
                              else Ok attrib);
                Ok (s_ "Sense", attrib));
  do l <- for_get sense (s_ "relations");
  do rels <- mapM (fun r => _build_relation r (s_ "SenseRelation")) l;
  do l <- for_get sense (s_ "examples");
  do exs <- mapM _build_example l;
  do l <- for_get sense (s_ "counts");
  do cnts <- mapM _build_count l;
  Ok (Elem (fst head) (snd head) VNone (rels ++ exs ++ cnts) None).

(* def _build_syntactic_behaviour(syntactic_behaviour, version):
       attrib = {'subcategorizationFrame': syntactic_behaviour['subcategorizationFrame']}
       if version >= (1, 1) and syntactic_behaviour.get('id'): attrib['id'] = syntactic_behaviour['id']
       elif version < (1, 1) and syntactic_behaviour.get('senses'):
           attrib['senses'] = ' '.join(syntactic_behaviour['senses'])
       return ET.Element('SyntacticBehaviour', attrib=attrib) *)
Definition _build_syntactic_behaviour (sb : val) (version : list Z) : result xml :=
  do frame <- py_item sb (s_ "subcategorizationFrame");
  let attrib := [(s_ "subcategorizationFrame", frame)] in
  do id <- (if ge_1_1 version then py_get sb (s_ "id") else Ok (VBool false));
  do attrib <- (if vtruthy id then Ok (vset_list attrib (s_ "id") id)
                else if lt_1_1 version then
                  do senses <- py_get sb (s_ "senses");
                  if vtruthy senses then
                    do j <- py_join_sp senses;
                    Ok (vset_list attrib (s_ "senses") (VStr j))
                  else Ok attrib
                else Ok attrib);
  Ok (Elem (s_ "SyntacticBehaviour") attrib VNone [] None).

(* def _dump_syntactic_behaviour(syntactic_behaviour, out, version):
       elem = _build_syntactic_behaviour(syntactic_behaviour, version)
       print(_tostring(elem, 2), file=out) *)
Definition _dump_syntactic_behaviour (sb : val) (version : list Z) : result str :=
  do elem <- _build_syntactic_behaviour sb version;
  print_elem elem.

(* def _build_definition(definition):
       attrib = {}
       if definition.get('language'): attrib['language'] = definition['language']
       if definition.get('sourceSense'): attrib['sourceSense'] = definition['sourceSense']
       attrib.update(_meta_dict(definition.get('meta')))
       elem = ET.Element('Definition', attrib=attrib)
       elem.text = definition['text'] *)
Definition _build_definition (definition : val) : result xml :=
  do attrib <- opt_attr definition (s_ "language") [];
  do attrib <- opt_attr definition (s_ "sourceSense") attrib;
  do meta <- py_get definition (s_ "meta");
  do md <- _meta_dict meta;
  do text <- py_item definition (s_ "text");
  Ok (Elem (s_ "Definition") (dict_update attrib md) text [] None).

(* def _build_ili_definition(ili_definition):
       elem = ET.Element('ILIDefinition', attrib=_meta_dict(ili_definition.get('meta')))
       elem.text = ili_definition['text'] *)
Definition _build_ili_definition (ili_definition : val) : result xml :=
  do meta <- py_get ili_definition (s_ "meta");
  do md <- _meta_dict meta;
  do text <- py_item ili_definition (s_ "text");
  Ok (Elem (s_ "ILIDefinition") md text [] None).

(* def _dump_synset(synset, out, version):
       attrib = {'id': synset['id']}
       if synset.get('external', False):
           elem = ET.Element('ExternalSynset', attrib=attrib)
           elem.extend([_build_definition(defn) for defn in synset.get('definitions', [])])
       else:
           attrib['ili'] = synset['ili']
           if synset.get('partOfSpeech'): attrib['partOfSpeech'] = synset['partOfSpeech']
           if not synset.get('lexicalized', True): attrib['lexicalized'] = 'false'
           if version >= (1, 1):
               if synset.get('members'): attrib['members'] = ' '.join(synset['members'])
               if synset.get('lexfile'): attrib['lexfile'] = synset['lexfile']
           attrib.update(_meta_dict(synset.get('meta')))
           elem = ET.Element('Synset', attrib=attrib)
           elem.extend([_build_definition(defn) for defn in synset.get('definitions', [])])
           if synset.get('ili_definition'): elem.append(_build_ili_definition(synset['ili_definition']))
       elem.extend([_build_relation(rel, 'SynsetRelation') for rel in synset.get('relations', [])])
       elem.extend([_build_example(ex) for ex in synset.get('examples', [])])
       print(_tostring(elem, 2), file=out) *)
Definition _dump_synset (synset : val) (version : list Z) : result str :=
  do id <- py_item synset (s_ "id");
  let attrib := [(s_ "id", id)] in
  do ext <- py_get_d synset (s_ "external") (VBool false);
  do head <- (if vtruthy ext then
                do l <- for_get synset (s_ "definitions");
                do defs <- mapM _build_definition l;
                Ok (s_ "ExternalSynset", attrib, defs)
              else
                do ili <- py_item synset (s_ "ili");
                let attrib := vset_list attrib (s_ "ili") ili in
                do attrib <- opt_attr synset (s_ "partOfSpeech") attrib;
                do lexd <- py_get_d synset (s_ "lexicalized") (VBool true);
                let attrib := if vtruthy lexd then attrib
                              else vset_list attrib (s_ "lexicalized") (VStr (s_ "false")) in
                do attrib <- (if ge_1_1 version then
                                do ms <- py_get synset (s_ "members");
                                do attrib <- (if vtruthy ms then
                                                do j <- py_join_sp ms;
                                                Ok (vset_list attrib (s_ "members") (VStr j))
                                              else Ok attrib);
                                opt_attr synset (s_ "lexfile") attrib
                              else Ok attrib);
                do meta <- py_get synset (s_ "meta");
                do md <- _meta_dict meta;
                let attrib := dict_update attrib md in
                do l <- for_get synset (s_ "definitions");
                do defs <- mapM _build_definition l;
                do idef <- py_get synset (s_ "ili_definition");
                do idefs <- (if vtruthy idef
                             then do x <- _build_ili_definition idef; Ok [x]
                             else Ok []);
                Ok (s_ "Synset", attrib, defs ++ idefs));
  do l <- for_get synset (s_ "relations");
  do rels <- mapM (fun r => _build_relation r (s_ "SynsetRelation")) l;
  do l <- for_get synset (s_ "examples");
  do exs <- mapM _build_example l;
  match head with
  | (tag, attrib, kids) => print_elem (Elem tag attrib VNone (kids ++ rels ++ exs) None)
  end.

(* def _dump_lexical_entry(entry, out, version):
       frames = []
       attrib = {'id': entry['id']}
       if entry.get('external', False):
           elem = ET.Element('ExternalLexicalEntry', attrib=attrib)
           if entry.get('lemma'):
               assert entry['lemma'].get('external', False)
               elem.append(_build_lemma(entry['lemma'], version))
       else:
           attrib.update(_meta_dict(entry.get('meta')))
           elem = ET.Element('LexicalEntry', attrib=attrib)
           elem.append(_build_lemma(entry['lemma'], version))
           if version < (1, 1):
               frames = [_build_syntactic_behaviour(sb, version) for sb in entry.get('frames', [])]
       elem.extend([_build_form(form, version) for form in entry.get('forms', [])])
       elem.extend([_build_sense(sense, version) for sense in entry.get('senses', [])])
       elem.extend(frames)
       print(_tostring(elem, 2), file=out) *)
Definition _dump_lexical_entry (entry : val) (version : list Z) : result str :=
  do id <- py_item entry (s_ "id");
  let attrib := [(s_ "id", id)] in
  do ext <- py_get_d entry (s_ "external") (VBool false);
  do head <- (if vtruthy ext then
                do lemma <- py_get entry (s_ "lemma");
                do lem <- (if vtruthy lemma then
                             do le <- py_get_d lemma (s_ "external") (VBool false);
                             do_ assert (vtruthy le);
                             do x <- _build_lemma lemma version; Ok [x]
                           else Ok []);
                Ok (s_ "ExternalLexicalEntry", attrib, lem, [])
              else
                do meta <- py_get entry (s_ "meta");
                do md <- _meta_dict meta;
                let attrib := dict_update attrib md in
                do lemma <- py_item entry (s_ "lemma");
                do lem <- _build_lemma lemma version;
                do frames <- (if lt_1_1 version then
                                do l <- for_get entry (s_ "frames");
                                mapM (fun sb => _build_syntactic_behaviour sb version) l
                              else Ok []);
                Ok (s_ "LexicalEntry", attrib, [lem], frames));
  do l <- for_get entry (s_ "forms");
  do forms <- mapM (fun f => _build_form f version) l;
  do l <- for_get entry (s_ "senses");
  do senses <- mapM (fun s => _build_sense s version) l;
  match head with
  | (tag, attrib, lem, frames) =>
      print_elem (Elem tag attrib VNone (lem ++ forms ++ senses ++ frames) None)
  end.

(* def _dump_dependency(dep, deptype, out):
       attrib = {'id': dep['id'], 'version': dep['version']}
       if dep.get('url'): attrib['url'] = dep['url']
       elem = ET.Element(deptype, attrib=attrib)
       print(_tostring(elem, 2), file=out) *)
Definition _dump_dependency (dep : val) (deptype : str) : result str :=
  do id <- py_item dep (s_ "id");
  do version <- py_item dep (s_ "version");
  do attrib <- opt_attr dep (s_ "url") [(s_ "id", id); (s_ "version", version)];
  print_elem (Elem deptype attrib VNone [] None).

(* def _build_lexicon_attrib(lexicon, version):
       attrib = {'id': lexicon['id'], 'label': lexicon['label'], 'language': lexicon['language'],
                 'email': lexicon['email'], 'license': lexicon['license'], 'version': lexicon['version']}
       if lexicon.get('url'): attrib['url'] = lexicon['url']
       if lexicon.get('citation'): attrib['citation'] = lexicon['citation']
       if version >= (1, 1) and lexicon.get('logo'): attrib['logo'] = lexicon['logo']
       attrib.update(_meta_dict(lexicon.get('meta'))) *)
Definition _build_lexicon_attrib (lexicon : val) (version : list Z) : result (list (str * val)) :=
  do attrib <- mapM (fun k => do v <- py_item lexicon k; Ok (k, v))
                    (map s_ ["id"; "label"; "language"; "email"; "license"; "version"]%string);
  do attrib <- opt_attr lexicon (s_ "url") attrib;
  do attrib <- opt_attr lexicon (s_ "citation") attrib;
  do attrib <- (if ge_1_1 version then opt_attr lexicon (s_ "logo") attrib else Ok attrib);
  do meta <- py_get lexicon (s_ "meta");
  do md <- _meta_dict meta;
  Ok (dict_update attrib md).

(* def _dump_lexicon(lexicon, out, version):
       lexicontype = 'LexiconExtension' if lexicon.get('extends') else 'Lexicon'
       attrib = _build_lexicon_attrib(lexicon, version)
       attrdelim = '\n' + (' ' * len(f'  <{lexicontype} '))
       attrs = attrdelim.join(f'{attr}={quoteattr(str(val))}' for attr, val in attrib.items())
       print(f'  <{lexicontype} {attrs}>', file=out)
       if version >= (1, 1):
           if lexicontype == 'LexiconExtension':
               assert lexicon.get('extends')
               _dump_dependency(lexicon['extends'], 'Extends', out)
           for req in lexicon.get('requires', []): _dump_dependency(req, 'Requires', out)
       for entry in lexicon.get('entries', []): _dump_lexical_entry(entry, out, version)
       for synset in lexicon.get('synsets', []): _dump_synset(synset, out, version)
       if version >= (1, 1):
           for sb in lexicon.get('frames', []): _dump_syntactic_behaviour(sb, out, version)
       print(f'  </{lexicontype}>', file=out) *)
Definition _dump_lexicon (lexicon : val) (version : list Z) : result str :=
  do ext <- py_get lexicon (s_ "extends");
  let is_ext := vtruthy ext in
  let lexicontype := if is_ext then s_ "LexiconExtension" else s_ "Lexicon" in
  do attrib <- _build_lexicon_attrib lexicon version;
  let opening := s_ "  <" ++ lexicontype ++ [c_sp] in
  let attrdelim := c_nl :: spaces (length opening) in
  do parts <- mapM (fun kv => do s <- py_str (snd kv); Ok (fst kv ++ [61] ++ quoteattr s)) attrib;
  let line1 := opening ++ join attrdelim parts ++ [c_gt; c_nl] in
  do deps <- (if ge_1_1 version then
                do e <- (if is_ext then
                           do_ assert (vtruthy ext);
                           do x <- py_item lexicon (s_ "extends");
                           _dump_dependency x (s_ "Extends")
                         else Ok []);
                do l <- for_get lexicon (s_ "requires");
                do reqs <- mapM (fun r => _dump_dependency r (s_ "Requires")) l;
                Ok (e ++ concat reqs)
              else Ok []);
  do l <- for_get lexicon (s_ "entries");
  do entries <- mapM (fun e => _dump_lexical_entry e version) l;
  do l <- for_get lexicon (s_ "synsets");
  do synsets <- mapM (fun s => _dump_synset s version) l;
  do frames <- (if ge_1_1 version then
                  do l <- for_get lexicon (s_ "frames");
                  mapM (fun sb => _dump_syntactic_behaviour sb version) l
                else Ok []);
  Ok (line1 ++ deps ++ concat entries ++ concat synsets ++ concat frames
      ++ s_ "  </" ++ lexicontype ++ [c_gt; c_nl]).

(* def dump(resource, destination):
       version = resource['lmf_version']
       if version not in SUPPORTED_VERSIONS: raise LMFError(f'invalid version: {version}')
       doctype = _DOCTYPE.format(schema=_SCHEMAS[version])
       dc_uri = _DC_URIS[version]
       _version = version_info(version)
       print(_XMLDECL.decode('utf-8'), file=out)
       print(doctype, file=out)
       print(f'<LexicalResource xmlns:dc="{dc_uri}">', file=out)
       for lexicon in resource['lexicons']: _dump_lexicon(lexicon, out, _version)
       print('</LexicalResource>', file=out)
   The version is passed separately (the harness sends resource['lmf_version']). *)
Definition dump (version : str) (resource : val) : result str :=
  if negb (str_mem version supported_versions) then Err ELmf else
  do schema <- match assoc version schemas with Some s => Ok s | None => Err EKey end;
  let doctype := doctype_of schema in
  do dc_uri <- match assoc version dc_uris with Some s => Ok s | None => Err EKey end;
  do _version <- version_info version;
  do lexv <- py_item resource (s_ "lexicons");
  do lexicons <- py_iter lexv;
  do parts <- mapM (fun l => _dump_lexicon l _version) lexicons;
  Ok (xmldecl ++ [c_nl]
      ++ doctype ++ [c_nl]
      ++ s_ "<LexicalResource xmlns:dc=""" ++ dc_uri ++ [c_quot; c_gt; c_nl]
      ++ concat parts
      ++ s_ "</LexicalResource>" ++ [c_nl]).

(* dump(resource, destination) reading the version from the resource itself *)
Definition dump_resource (resource : val) : result str :=
  do v <- py_item resource (s_ "lmf_version");
  match v with
  | VStr version => dump version resource
  | VList _ | VDict _ => Err EOther     (* TypeError: unhashable *)
  | _ => Err ELmf                       (* not in SUPPORTED_VERSIONS *)
  end.

(* ====================================================================== *)
(* Reader                                                                 *)
(* ====================================================================== *)

(* def _read_header(fh):
       xmldecl = fh.readline().rstrip().replace(APOSTROPHE, DOUBLE QUOTE)
       doctype = fh.readline().rstrip().replace(APOSTROPHE, DOUBLE QUOTE)
       if xmldecl != _XMLDECL: raise LMFError('invalid or missing XML declaration')
       doctype_decoded = doctype.decode('utf-8')
       if doctype_decoded not in _DOCTYPES: raise LMFError('invalid or missing DOCTYPE declaration')
       return _DOCTYPES[doctype_decoded]
   The lines are byte strings; the keys of _DOCTYPES are ASCII, so after a
   successful decode the comparison can be made on the bytes. *)
Definition header_line (line : str) : str :=
  map (fun c => if Z.eqb c c_apos then c_quot else c) (bytes_rstrip line).
Definition read_header (line1 line2 : str) : result str :=
  let decl := header_line line1 in
  let doctype := header_line line2 in
  if negb (str_eqb decl xmldecl) then Err ELmf
  else if negb (utf8_valid doctype) then Err EOther   (* UnicodeDecodeError *)
  else match assoc doctype doctypes with
       | Some version => Ok version
       | None => Err ELmf
       end.

(* the element tree as expat reports it: name, attributes in document order,
   character data received directly inside the element, children *)
Inductive xtree : Type :=
| XNode (name : str) (attrs : list (str * str)) (text : str) (children : list xtree).

Fixpoint xtree_of_sx (x : sx) {struct x} : xtree :=
  match x with
  | L [n; L attrs; t; L cs] =>
      XNode (sx_str n)
            (map (fun kv => (sx_str (sx_nth 0 kv), sx_str (sx_nth 1 kv))) attrs)
            (sx_str t)
            (map xtree_of_sx cs)
  | _ => XNode [] [] [] []
  end.
Definition xname (t : xtree) : str := match t with XNode n _ _ _ => n end.

(* ELEMS = _VALID_ELEMS[version] *)
Definition elems_of (version : str) : list (str * str) := assoc_d version valid_elems [].
Definition in_elems (version : str) (name : str) : bool :=
  match assoc name (elems_of version) with Some _ => true | None => false end.
(* name in (_LIST_ELEMS & set(ELEMS)) *)
Definition is_list_elem (version name : str) : bool := str_mem name list_elems && in_elems version name.
(* name in (_CDATA_ELEMS & set(ELEMS)) *)
Definition is_cdata_elem (version name : str) : bool := str_mem name cdata_elems && in_elems version name.

(* the first part of the start handler: the dictionary of the new element
     if name in _META_ELEMS:
         meta = {}
         for attr in list(attrs):
             if attr in NS_ATTRS: meta[NS_ATTRS[attr]] = attrs.pop(attr)
         attrs['meta'] = meta or None
     if name in CDATA_ELEMS: attrs['text'] = ''
     if name.startswith('External'): attrs['external'] = True *)
Definition start_attrs (version name : str) (attrs : list (str * str)) : val :=
  let NS := ns_attrs version in
  let a0 : list (str * val) := map (fun kv => (fst kv, VStr (snd kv))) attrs in
  let a1 :=
    if str_mem name meta_elems then
      let meta := fold_left (fun m kv => match assoc (fst kv) NS with
                                         | Some key => vset_list m key (VStr (snd kv))
                                         | None => m
                                         end) attrs [] in
      let rest := filter (fun kv => match assoc (fst kv) NS with Some _ => false | None => true end) a0 in
      vset_list rest (s_ "meta") (match meta with [] => VNone | _ => VDict meta end)
    else a0 in
  let a2 := if is_cdata_elem version name then vset_list a1 (s_ "text") (VStr []) else a1 in
  let a3 := if prefixb (s_ "External") name then vset_list a2 (s_ "external") (VBool true) else a2 in
  VDict a3.

(* the second part of the start handler, split in the test (which may raise) and
   the insertion (done here once the child is complete: the position of the key
   in the parent is the same, and nothing reads the parent in between)
     parent = stack[-1]
     key = ELEMS.get(name)
     if name in LIST_ELEMS: parent.setdefault(key, []).append(attrs)
     elif key is None or key in parent: raise _unexpected(name, p)
     else: parent[key] = attrs *)
Definition attach_check (version : str) (parent : val) (name : str) : result unit :=
  let key := assoc name (elems_of version) in
  if is_list_elem version name then
    match key with
    | Some k => if vhas parent k
                then match vget parent k with
                     | VList _ => Ok tt
                     | _ => Err EOther      (* AttributeError: no .append *)
                     end
                else Ok tt
    | None => Ok tt
    end
  else
    match key with
    | None => Err ELmf
    | Some k => if vhas parent k then Err ELmf else Ok tt
    end.
Definition attach (version : str) (parent : val) (name : str) (child : val) : val :=
  match assoc name (elems_of version) with
  | Some k =>
      if is_list_elem version name then
        match vget parent k with
        | VList l => vset parent k (VList (l ++ [child]))
        | _ => vset parent k (VList [child])
        end
      else vset parent k child
  | None => parent
  end.

(* character data and end handler for an element whose direct text is [text]
     def char_data(data):
         parent = stack[-1]
         if 'text' in parent: parent['text'] += data
     def end(name):
         elem = stack.pop()
         if 'text' in elem and elem.get(_XMLSPACEATTR, '') != 'preserve':
             elem['text'] = ' '.join(elem['text'].split()) *)
Definition finish (d : val) (text : str) : val :=
  if vhas d (s_ "text") then
    let t := match vget d (s_ "text") with VStr s => s ++ text | _ => text end in
    let sp := if vhas d xmlspaceattr then vget d xmlspaceattr else VStr [] in
    if val_eqb sp (VStr (s_ "preserve")) then vset d (s_ "text") (VStr t)
    else vset d (s_ "text") (VStr (norm_ws t))
  else d.

(* the handlers run over a whole element (start, children in order, end) *)
Fixpoint parse_elem (version : str) (t : xtree) {struct t} : result val :=
  match t with
  | XNode name attrs text children =>
      do d <- (fix kids (cs : list xtree) (parent : val) {struct cs} : result val :=
                 match cs with
                 | [] => Ok parent
                 | c :: r =>
                     do_ attach_check version parent (xname c);
                     do cd <- parse_elem version c;
                     kids r (attach version parent (xname c) cd)
                 end) children (start_attrs version name attrs);
      Ok (finish d text)
  end.
(* root: dict = {} with the document element attached *)
Definition parse_doc (version : str) (t : xtree) : result val :=
  do_ attach_check version (VDict []) (xname t);
  do d <- parse_elem version t;
  Ok (attach version (VDict []) (xname t) d).

(* ---------- validation (in-place updates become returned copies) ---------- *)

(* assert k in d *)
Definition assert_in (k : str) (d : val) : result unit :=
  do b <- py_in k d; assert b.

(* F(d.get(k, []))   where F iterates over its argument and updates the items in
   place (F = one of the _validate_xxx functions, or [each f] for an inline loop
   for x in d.get(k, []): f(x)) *)
Definition each (f : val -> result val) (elems : list val) : result (list val) := mapM f elems.
Definition upd_list (d : val) (k : str) (F : list val -> result (list val)) : result val :=
  do l <- py_get_d d k (VList []);
  do items <- py_iter l;
  do items' <- F items;
  (* the items were updated in place: only an existing list changes *)
  Ok (match l with
      | VList _ => if vhas d k then vset d k (VList items') else d
      | _ => d
      end).

(* if elem.get(k): elem[k] = False if elem[k] == 'false' else True *)
Definition conv_bool (elem : val) (k : str) : result val :=
  do v <- py_get elem k;
  Ok (if vtruthy v then vset elem k (VBool (negb (val_eqb v (VStr (s_ "false"))))) else elem).
(* if elem.get(k): elem[k] = elem[k].split() *)
Definition conv_split (elem : val) (k : str) : result val :=
  do v <- py_get elem k;
  if vtruthy v then
    match v with
    | VStr s => Ok (vset elem k (VList (map VStr (py_split s))))
    | _ => Err EOther      (* AttributeError: no .split *)
    end
  else Ok elem.

(* rel: assert 'target' in rel; assert 'relType' in rel; rel.setdefault('meta') *)
Definition validate_relation (rel : val) : result val :=
  do_ assert_in (s_ "target") rel;
  do_ assert_in (s_ "relType") rel;
  setdefault rel (s_ "meta") VNone.
(* ex / defn: x.setdefault('text', ''); x.setdefault('meta') *)
Definition validate_text_meta (x : val) : result val :=
  do x <- setdefault x (s_ "text") (VStr []);
  setdefault x (s_ "meta") VNone.
(* int(x) *)
Definition py_int (v : val) : result Z :=
  match v with
  | VStr s => match parse_int s with Some n => Ok n | None => Err EOther end   (* ValueError *)
  | VInt n => Ok n
  | VBool b => Ok (if b then 1 else 0)
  | _ => Err EOther                                                            (* TypeError *)
  end.
(* cnt: assert 'text' in cnt; cnt['value'] = int(cnt.pop('text')); cnt.setdefault('meta') *)
Definition validate_count (cnt : val) : result val :=
  do_ assert_in (s_ "text") cnt;
  do t <- py_item cnt (s_ "text");
  do n <- py_int t;
  setdefault (vset (vdel cnt (s_ "text")) (s_ "value") (VInt n)) (s_ "meta") VNone.

(* def _validate_forms(elems, extension):
       for elem in elems:
           if not extension: assert not elem.get('external')
           if not elem.get('external'): assert 'writtenForm' in elem
           for pron in elem.get('pronunciations', []):
               pron.setdefault('text', '')
               if pron.get('phonemic'): pron['phonemic'] = False if pron['phonemic'] == 'false' else True
           for tag in elem.get('tags', []):
               tag.setdefault('text', '')
               assert 'category' in tag *)
Definition _validate_form (extension : bool) (elem : val) : result val :=
  do ext <- py_get elem (s_ "external");
  do_ (if extension then Ok tt else assert (negb (vtruthy ext)));
  do_ (if vtruthy ext then Ok tt else assert_in (s_ "writtenForm") elem);
  do elem <- upd_list elem (s_ "pronunciations") (each (fun pron =>
               do pron <- setdefault pron (s_ "text") (VStr []);
               conv_bool pron (s_ "phonemic")));
  upd_list elem (s_ "tags") (each (fun tag =>
    do tag <- setdefault tag (s_ "text") (VStr []);
    do_ assert_in (s_ "category") tag;
    Ok tag)).
Definition _validate_forms (elems : list val) (extension : bool) : result (list val) :=
  mapM (_validate_form extension) elems.

(* def _validate_senses(elems, extension):
       for elem in elems:
           assert 'id' in elem
           if not extension: assert not elem.get('external')
           if not elem.get('external'):
               assert 'synset' in elem
               elem.setdefault('meta')
           for rel in elem.get('relations', []): ...
           for ex in elem.get('examples', []): ...
           for cnt in elem.get('counts', []): ...
           if elem.get('lexicalized'): elem['lexicalized'] = False if elem['lexicalized'] == 'false' else True
           if elem.get('subcat'): elem['subcat'] = elem['subcat'].split() *)
Definition _validate_sense (extension : bool) (elem : val) : result val :=
  do_ assert_in (s_ "id") elem;
  do ext <- py_get elem (s_ "external");
  do_ (if extension then Ok tt else assert (negb (vtruthy ext)));
  do elem <- (if vtruthy ext then Ok elem
              else do_ assert_in (s_ "synset") elem; setdefault elem (s_ "meta") VNone);
  do elem <- upd_list elem (s_ "relations") (each validate_relation);
  do elem <- upd_list elem (s_ "examples") (each validate_text_meta);
  do elem <- upd_list elem (s_ "counts") (each validate_count);
  do elem <- conv_bool elem (s_ "lexicalized");
  conv_split elem (s_ "subcat").
Definition _validate_senses (elems : list val) (extension : bool) : result (list val) :=
  mapM (_validate_sense extension) elems.

(* def _validate_frames(elems):
       for elem in elems:
           assert 'subcategorizationFrame' in elem
           if elem.get('senses'): elem['senses'] = elem['senses'].split() *)
Definition _validate_frame (elem : val) : result val :=
  do_ assert_in (s_ "subcategorizationFrame") elem;
  conv_split elem (s_ "senses").
Definition _validate_frames (elems : list val) : result (list val) :=
  mapM _validate_frame elems.

(* def _validate_entries(elems, extension):
       for elem in elems:
           assert 'id' in elem
           if not extension: assert not elem.get('external')
           lemma = elem.get('lemma')
           if not elem.get('external'):
               assert lemma is not None
               elem.setdefault('meta')
           if lemma is not None and not lemma.get('external'): assert 'partOfSpeech' in lemma
           for form in elem.get('forms', []): assert not form.get('external') or form.get('id')
           _validate_forms(([lemma] if lemma else []) + elem.get('forms', []), extension)
           _validate_senses(elem.get('senses', []), extension)
           _validate_frames(elem.get('frames', [])) *)
Definition _validate_entry (extension : bool) (elem : val) : result val :=
  do_ assert_in (s_ "id") elem;
  do ext <- py_get elem (s_ "external");
  do_ (if extension then Ok tt else assert (negb (vtruthy ext)));
  do lemma <- py_get elem (s_ "lemma");
  do elem <- (if vtruthy ext then Ok elem
              else do_ assert (negb (is_none lemma)); setdefault elem (s_ "meta") VNone);
  do_ (if is_none lemma then Ok tt
       else do le <- py_get lemma (s_ "external");
            if vtruthy le then Ok tt else assert_in (s_ "partOfSpeech") lemma);
  do formsv <- py_get_d elem (s_ "forms") (VList []);
  do forms <- py_iter formsv;
  do_ forM (fun form =>
        do fe <- py_get form (s_ "external");
        if vtruthy fe then do fid <- py_get form (s_ "id"); assert (vtruthy fid) else Ok tt) forms;
  (* list + elem.get('forms', []): TypeError unless it is a list *)
  do_ (match formsv with VList _ => Ok tt | _ => Err EOther end);
  let lem := if vtruthy lemma then [lemma] else [] in
  do all' <- _validate_forms (lem ++ forms) extension;
  (* the lemma and the forms were updated in place *)
  let elem := match lem, all' with
              | _ :: _, lemma' :: _ => vset elem (s_ "lemma") lemma'
              | _, _ => elem
              end in
  let elem := if vhas elem (s_ "forms")
              then vset elem (s_ "forms") (VList (skipn (length lem) all')) else elem in
  do elem <- upd_list elem (s_ "senses") (fun l => _validate_senses l extension);
  upd_list elem (s_ "frames") _validate_frames.
Definition _validate_entries (elems : list val) (extension : bool) : result (list val) :=
  mapM (_validate_entry extension) elems.

(* def _validate_synsets(elems, extension):
       for elem in elems:
           assert 'id' in elem
           if not extension: assert not elem.get('external')
           if not elem.get('external'):
               assert 'ili' in elem
               elem.setdefault('meta')
           for defn in elem.get('definitions', []): defn.setdefault('text', ''); defn.setdefault('meta')
           for rel in elem.get('relations', []): ...
           for ex in elem.get('examples', []): ...
           if elem.get('lexicalized'): elem['lexicalized'] = False if elem['lexicalized'] == 'false' else True
           if elem.get('members'): elem['members'] = elem['members'].split() *)
Definition _validate_synset (extension : bool) (elem : val) : result val :=
  do_ assert_in (s_ "id") elem;
  do ext <- py_get elem (s_ "external");
  do_ (if extension then Ok tt else assert (negb (vtruthy ext)));
  do elem <- (if vtruthy ext then Ok elem
              else do_ assert_in (s_ "ili") elem; setdefault elem (s_ "meta") VNone);
  do elem <- upd_list elem (s_ "definitions") (each validate_text_meta);
  do elem <- upd_list elem (s_ "relations") (each validate_relation);
  do elem <- upd_list elem (s_ "examples") (each validate_text_meta);
  do elem <- conv_bool elem (s_ "lexicalized");
  conv_split elem (s_ "members").
Definition _validate_synsets (elems : list val) (extension : bool) : result (list val) :=
  mapM (_validate_synset extension) elems.

(* def _validate_lexicon(elem, extension):
       for attr in 'id', 'version', 'label', 'language', 'email', 'license':
           assert attr in elem
       for dep in elem.get('requires', []):
           assert 'id' in dep
           assert 'version' in dep
       _validate_entries(elem.get('entries', []), extension)
       _validate_synsets(elem.get('synsets', []), extension)
       _validate_frames(elem.get('frames', [])) *)
Definition _validate_lexicon (elem : val) (extension : bool) : result val :=
  do_ forM (fun attr => assert_in attr elem)
           (map s_ ["id"; "version"; "label"; "language"; "email"; "license"]%string);
  do reqs <- for_get elem (s_ "requires");
  do_ forM (fun dep => do_ assert_in (s_ "id") dep; assert_in (s_ "version") dep) reqs;
  do elem <- upd_list elem (s_ "entries") (fun l => _validate_entries l extension);
  do elem <- upd_list elem (s_ "synsets") (fun l => _validate_synsets l extension);
  upd_list elem (s_ "frames") _validate_frames.

(* def _validate(elem):
       ext = elem.get('extends')
       if ext:
           assert 'id' in ext
           assert 'version' in ext
           _validate_lexicon(elem, True)
       else: _validate_lexicon(elem, False)
       return elem *)
Definition _validate (elem : val) : result val :=
  do ext <- py_get elem (s_ "extends");
  if vtruthy ext then
    do_ assert_in (s_ "id") ext;
    do_ assert_in (s_ "version") ext;
    _validate_lexicon elem true
  else _validate_lexicon elem false.

(* load, after the header:
       root = {}; parser.ParseFile(fh)
       resource = {'lmf_version': version,
                   'lexicons': [_validate(lex) for lex in root['lexical-resource'].get('lexicons', [])]} *)
Definition load_tree (version : str) (t : xtree) : result val :=
  do root <- parse_doc version t;
  do lr <- py_item root (s_ "lexical-resource");
  do lexs <- for_get lr (s_ "lexicons");
  do lexs' <- mapM _validate lexs;
  Ok (VDict [(s_ "lmf_version", VStr version); (s_ "lexicons", VList lexs')]).

(* load(source): _quick_scan (-> _read_header) first, then the parse *)
Definition load (line1 line2 : str) (t : xtree) : result val :=
  do version <- read_header line1 line2;
  load_tree version t.

(* ====================================================================== *)
(* Wire                                                                   *)
(* ====================================================================== *)

Definition sx_of_err (e : err) : sx := L [A (err_code e)].

(* L [Sz version; val resource] -> Sz file content | L [A code] *)
Definition run_dump (x : sx) : sx :=
  match dump (sx_str (sx_nth 0 x)) (val_of_sx (sx_nth 1 x)) with
  | Ok s => Sz s
  | Err e => sx_of_err e
  end.

(* L [L line1 bytes; L line2 bytes; tree] -> val resource | L [A code] *)
Definition run_load (x : sx) : sx :=
  match load (sx_str (sx_nth 0 x)) (sx_str (sx_nth 1 x)) (xtree_of_sx (sx_nth 2 x)) with
  | Ok v => sx_of_val v
  | Err e => sx_of_err e
  end.

(* ====================================================================== *)
(* Sanity checks                                                          *)
(* ====================================================================== *)

Example doctypes_ex :
  assoc (s_ "<!DOCTYPE LexicalResource SYSTEM ""http://globalwordnet.github.io/schemas/WN-LMF-1.1.dtd"">") doctypes
  = Some (s_ "1.1").
Proof. vm_compute. reflexivity. Qed.

Example serialize_ex :
  serialize (Elem (s_ "a") [(s_ "k", VStr (s_ "x<y"))] VNone
               [Elem (s_ "b") [] (VStr (s_ "t&u")) [] None; Elem (s_ "c") [] (VStr []) [] None] None)
  = Ok (s_ "<a k=""x&lt;y""><b>t&amp;u</b><c /></a>").
Proof. vm_compute. reflexivity. Qed.

Example tostring_ex :
  _tostring (Elem (s_ "a") [] VNone [Elem (s_ "b") [] VNone [] None; Elem (s_ "c") [] VNone [] None] None) 1
  = Ok (s_ "  <a>" ++ [c_nl] ++ s_ "    <b />" ++ [c_nl] ++ s_ "    <c />" ++ [c_nl] ++ s_ "  </a>").
Proof. vm_compute. reflexivity. Qed.

Example dump_bad_version : dump (s_ "2.0") (VDict []) = Err ELmf.
Proof. vm_compute. reflexivity. Qed.

Example dump_no_lexicons : dump (s_ "1.0") (VDict []) = Err EKey.
Proof. vm_compute. reflexivity. Qed.

Example header_ex :
  read_header (s_ "<?xml version='1.0' encoding='UTF-8'?>  ")
              (s_ "<!DOCTYPE LexicalResource SYSTEM 'http://globalwordnet.github.io/schemas/WN-LMF-1.3.dtd'>")
  = Ok (s_ "1.3").
Proof. vm_compute. reflexivity. Qed.
