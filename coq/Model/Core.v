(* Model/Core.v — wn/_core.py: the Wordnet object, Word / Sense / Synset navigation, and the
   observation battery of harness/impl/battery.py rendered as harness/obsproj.py does.

   Every method of the Python classes is a function here (Class_method); the receiver comes
   first.  Entities carry the Wordnet they were created by, as in Python (translations create
   entities that belong to a fresh Wordnet).  Exceptions are explicit: [res] (Model/Tables.v).
   Python dicts and sets are association lists in insertion order; membership in a set / dict
   of entities is  hash equal and __eq__ : for Word and Sense that is the rowid, for Synset
   the hash also covers the ILI and the lexicon rowid (inferred synsets all have rowid 0).

   Deliberately kept quirks (the model follows the code, not the documentation):
   - closure() remembers visited *identifiers*: entities of different lexicons sharing an id,
     and all inferred synsets ('*INFERRED*'), shadow each other;
   - relation_paths() drops first targets with the same rowid as the start, and its visited
     sets hold entities (hash and __eq__), not identifiers;
   - _find_helper searches with the parts of speech the lemmatizer returns, not the requested
     one; the second (normalized) pass only runs when the first found nothing at all;
   - Wordnet.word()/synset()/sense() return the first match in rowid order over all selected
     lexicons; Sense.word()/synset() look in the sense's lexicon and the lexicons it extends;
   - in default mode relations, examples, ... are restricted to the entity's lexicon, the
     lexicons it extends and its extensions; otherwise to the selected lexicons;
   - expanded relations go through every other synset of the expand lexicons with the same ILI;
     targets without ILI are skipped, targets whose ILI has no synset in the local lexicons
     become inferred synsets;
   - Synset.translate() builds a fresh default Wordnet(lexicon, lang) (wn.Error if nothing
     matches) and returns [] without looking when the synset has no ILI.
   Not modelled: hash collisions; a non-string "type" in relation metadata; the iteration order
   of Python sets of integers / strings (it never reaches an observable result: such sets only
   feed SQL IN-lists, which SQLite visits in ascending order). *)
From Coq Require Import ZArith List Bool String.
Import ListNotations.
Require Import WnV.Base.Sx.
Require Import WnV.Model.Spec.
Require Import WnV.Model.Tables.
Require Import WnV.Model.Query.
Local Open Scope Z_scope.

Definition _INFERRED_SYNSET : str := S_ "*INFERRED*".

(* ------------------------------------------------------------------ records *)
(* Wordnet.__slots__ (the Lexicon objects are represented by their rowids) plus what the
   harness needs to know: whether construction warned, and the tables standing for the
   normalizer and lemmatizer callables *)
Record Wordnet := {
  wn_lexicon_ids : list Z;          (* _lexicon_ids *)
  wn_expanded_ids : list Z;         (* _expanded_ids *)
  wn_default_mode : bool;           (* _default_mode *)
  wn_warned : bool;                 (* a WnWarning was issued by __init__ *)
  wn_normalizer : bool;             (* _normalizer is not None *)
  wn_norm_table : list (str * str); (* graph of normalize_form on the strings that matter *)
  wn_lemmatizer : option (list (str * list (option str * list str)));
                                    (* lemmatizer: form -> {pos: forms}; None = no lemmatizer *)
  wn_search_all_forms : bool        (* _search_all_forms *)
}.

Record Form := { fo_form : str; fo_id : option str; fo_script : option str; fo__id : Z }.
Record Word := { wd_id : str; wd_pos : str; wd_forms : list q_form;
                 wd_lexid : Z; wd__id : Z; wd_wordnet : Wordnet }.
Record Sense := { sn_id : str; sn_entry_id : str; sn_synset_id : str;
                  sn_lexid : Z; sn__id : Z; sn_wordnet : Wordnet }.
Record Synset := { ss_id : str; ss_pos : option str; ss_ili : option str;
                   ss_lexid : Z; ss__id : Z; ss_wordnet : Wordnet }.
Record ILI := { ili_id : option str; ili_status : str; ili_definition : option str; ili__id : Z }.
Record Relation := { rel_name : str; rel_source_id : str; rel_target_id : str;
                     rel_lexicon : str; rel_metadata : option str (* JSON text; None = {} *) }.
Record Tag := { tag_tag : option str; tag_category : option str }.
Record Pronunciation := { pn_value : option str; pn_variety : option str; pn_notation : option str;
                          pn_phonemic : bool; pn_audio : option str }.

(* cls( *data, _wordnet=w ) *)
Definition mk_Word (w : Wordnet) (q : q_word) : Word :=
  {| wd_id := qw_id q; wd_pos := qw_pos q; wd_forms := qw_forms q;
     wd_lexid := qw_lexid q; wd__id := qw_rowid q; wd_wordnet := w |}.
Definition mk_Sense (w : Wordnet) (q : q_sense) : Sense :=
  {| sn_id := qs_id q; sn_entry_id := qs_entry_id q; sn_synset_id := qs_synset_id q;
     sn_lexid := qs_lexid q; sn__id := qs_rowid q; sn_wordnet := w |}.
Definition mk_Synset (w : Wordnet) (q : q_synset) : Synset :=
  {| ss_id := qy_id q; ss_pos := qy_pos q; ss_ili := qy_ili q;
     ss_lexid := qy_lexid q; ss__id := qy_rowid q; ss_wordnet := w |}.
Definition mk_ILI (q : q_ili) : ILI :=
  {| ili_id := qi_id q; ili_status := qi_status q; ili_definition := qi_definition q;
     ili__id := qi_rowid q |}.
Definition mk_Form (q : q_form) : Form :=
  {| fo_form := qf_form q; fo_id := qf_id q; fo_script := qf_script q; fo__id := qf_rowid q |}.
(* Synset.empty(id, ili, _lexid, _wordnet): pos = '', _id = NON_ROWID *)
Definition Synset_empty (id : str) (ili : option str) (_lexid : Z) (w : Wordnet) : Synset :=
  {| ss_id := id; ss_pos := Some []; ss_ili := ili; ss_lexid := _lexid; ss__id := NON_ROWID;
     ss_wordnet := w |}.

(* membership in sets / dict keys: __hash__ equal and __eq__ *)
Definition Word_key_eqb (a b : Word) : bool := Z.eqb (wd__id a) (wd__id b).
Definition Sense_key_eqb (a b : Sense) : bool := Z.eqb (sn__id a) (sn__id b).
(* Synset.__hash__ = hash((type, _ili, _lexid, _id)); __eq__: same type and _id *)
Definition Synset_key_eqb (a b : Synset) : bool :=
  ostr_eqb (ss_ili a) (ss_ili b) && Z.eqb (ss_lexid a) (ss_lexid b) && Z.eqb (ss__id a) (ss__id b).

(* Relation.subtype: self._metadata.get("type") *)
Definition s_type : str := S_ "type".
Definition Relation_subtype (r : Relation) : option str := metadata_get (rel_metadata r) s_type.
(* Relation.__eq__ / __hash__: name, source_id, target_id, _lexicon, subtype *)
Definition Relation_eqb (a b : Relation) : bool :=
  str_eqb (rel_name a) (rel_name b) && str_eqb (rel_source_id a) (rel_source_id b)
  && str_eqb (rel_target_id a) (rel_target_id b) && str_eqb (rel_lexicon a) (rel_lexicon b)
  && ostr_eqb (Relation_subtype a) (Relation_subtype b).

(* ------------------------------------------------------------------ dicts in insertion order *)
(* d[k] = v : an existing key keeps its place (and its key object), the value is replaced *)
Fixpoint dict_set {K V} (eqb : K -> K -> bool) (k : K) (v : V) (m : list (K * V)) : list (K * V) :=
  match m with
  | [] => [(k, v)]
  | (k', v') :: m' => if eqb k' k then (k', v) :: m' else (k', v') :: dict_set eqb k v m'
  end.
(* dict(pairs) *)
Definition dict_of {K V} (eqb : K -> K -> bool) (pairs : list (K * V)) : list (K * V) :=
  fold_left (fun m kv => dict_set eqb (fst kv) (snd kv) m) pairs [].
(* wn._util.unique_list: the keys of {item: True for item in items} *)
Definition unique_list {T} (eqb : T -> T -> bool) (items : list T) : list T := dedup eqb items.
(* relmap.setdefault(name, {})[x] = True ; finally {name: list(inner)} *)
Fixpoint relmap_add {T} (eqb : T -> T -> bool) (name : str) (x : T) (m : list (str * list T))
  : list (str * list T) :=
  match m with
  | [] => [(name, [x])]
  | (n, xs) :: m' =>
      if str_eqb n name
      then (n, if existsb (eqb x) xs then xs else xs ++ [x]) :: m'
      else (n, xs) :: relmap_add eqb name x m'
  end.
Definition relmap_of {T} (eqb : T -> T -> bool) (pairs : list (Relation * T)) : list (str * list T) :=
  fold_left (fun m rx => relmap_add eqb (rel_name (fst rx)) (snd rx) m) pairs [].

(* ------------------------------------------------------------------ _Relatable.closure / relation_paths *)
Section Relatable.
  Context {T : Type}.
  Variable get_related : T -> res (list T).   (* self.get_related( *args ) *)
  Variable id_of : T -> str.                  (* .id *)
  Variable rowid_of : T -> Z.                 (* ._id *)
  Variable key_eqb : T -> T -> bool.          (* set membership *)

  (* the iterations of "while queue" that pop an already visited id *)
  Fixpoint drop_visited (visited : list str) (queue : list T) : list T :=
    match queue with
    | [] => []
    | x :: q => if str_mem (id_of x) visited then drop_visited visited q else queue
    end.
  (*  visited = set(); queue = self.get_related( *args )
      while queue:
          relatable = queue.pop(0)
          if relatable.id not in visited:
              visited.add(relatable.id); yield relatable
              queue.extend(relatable.get_related( *args ))
     One unit of fuel per yielded entity (visited holds identifiers, not entities). *)
  Fixpoint closure_loop (fuel : nat) (visited : list str) (queue : list T) : res (list T) :=
    match drop_visited visited queue with
    | [] => Ok []
    | relatable :: q =>
        match fuel with
        | O => OutOfFuel
        | S f =>
            do more <- get_related relatable;
            do rest <- closure_loop f (id_of relatable :: visited) (q ++ more);
            Ok (relatable :: rest)
        end
    end.
  Definition closure (fuel : nat) (self : T) : res (list T) :=
    do queue <- get_related self;
    closure_loop fuel [] queue.

  (*  agenda = [([target], {self, target}) for target in self.get_related( *args )
                if target._id != self._id]
      while agenda:
          path, visited = agenda.pop()
          related = [t for t in path[-1].get_related( *args ) if t not in visited]
          if related:
              for synset in reversed(related):
                  agenda.append((path + [synset], visited | {synset}))
          else: yield path                                  (end is None)
     The agenda is a stack: the paths through the first related entity are completed before
     those through the second (depth first), but the initial targets are taken last first.
     One unit of fuel per step of a path. *)
  Fixpoint paths_from (fuel : nat) (path : list T) (last : T) (visited : list T)
    : res (list (list T)) :=
    match fuel with
    | O => OutOfFuel
    | S f =>
        do targets <- get_related last;
        match filter (fun t => negb (existsb (key_eqb t) visited)) targets with
        | [] => Ok [path]
        | related => flat_mapM (fun t => paths_from f (path ++ [t]) t (visited ++ [t])) related
        end
    end.
  Definition relation_paths (fuel : nat) (self : T) : res (list (list T)) :=
    do targets <- get_related self;
    flat_mapM (fun target => paths_from fuel [target] target [self; target])
              (rev (filter (fun target => negb (Z.eqb (rowid_of target) (rowid_of self))) targets)).
End Relatable.

Section WithDb.
Variable d : db.

(* ------------------------------------------------------------------ Wordnet.__init__ *)
Definition s_star : str := S_ "*".
Fixpoint join_space (l : list str) : str :=
  match l with
  | [] => []
  | [x] => x
  | x :: l' => x ++ [32] ++ join_space l'
  end.
Definition format_lexicon_specifier (id version : str) : str := id ++ [c_colon] ++ version.

Definition Wordnet_init (lexicon lang expand : option str) (normalizer : bool)
           (norm_table : list (str * str))
           (lemmatizer : option (list (str * list (option str * list str))))
           (search_all_forms : bool) : res Wordnet :=
  (* self._default_mode = (not lexicon and not lang) *)
  let default_mode := negb (truthy lexicon) && negb (truthy lang) in
  (* lexs = list(find_lexicons(lexicon or '*', lang=lang)) *)
  do lexs <- find_lexicons d (match lexicon with Some (c :: s) => c :: s | _ => s_star end) lang;
  let lexicon_ids := map lex_rowid lexs in
  (* deps = [(id, ver, _id) for lex in self._lexicons
                            for id, ver, _, _id in get_lexicon_dependencies(lex._id)] *)
  let deps := flat_map (fun lex => map (fun dep => match dep with (id, ver, _, _id) => (id, ver, _id) end)
                                       (get_lexicon_dependencies d (lex_rowid lex))) lexs in
  let spec_of_dep (dep : str * str * option Z) := match dep with (id, ver, _) => format_lexicon_specifier id ver end in
  let has_rowid (dep : str * str * option Z) := match dep with (_, _, Some _) => true | _ => false end in
  let missing := join_space (map spec_of_dep (filter (fun dep => negb (has_rowid dep)) deps)) in
  let expand_warned :=
    match expand with
    | Some e => (e, false)
    | None => if default_mode then (s_star, false)
              else (join_space (map spec_of_dep (filter has_rowid deps)), nonempty missing)
    end in
  (* if expand: self._expanded = tuple(map(_to_lexicon, find_lexicons(lexicon=expand))) *)
  do expanded <- (if nonempty (fst expand_warned) then find_lexicons d (fst expand_warned) None else Ok []);
  Ok {| wn_lexicon_ids := lexicon_ids;
        wn_expanded_ids := map lex_rowid expanded;
        wn_default_mode := default_mode;
        wn_warned := snd expand_warned;
        wn_normalizer := normalizer;
        wn_norm_table := norm_table;
        wn_lemmatizer := lemmatizer;
        wn_search_all_forms := search_all_forms |}.

(* the stand-ins for the two callables *)
Fixpoint assoc_str {V} (k : str) (l : list (str * V)) : option V :=
  match l with
  | [] => None
  | (k', v) :: l' => if str_eqb k' k then Some v else assoc_str k l'
  end.
Definition normalize (w : Wordnet) (s : str) : str :=
  match assoc_str s (wn_norm_table w) with Some n => n | None => s end.
(* lemmatize(form, pos): the harness's table lemmatizer ignores pos *)
Definition lemmatize (table : list (str * list (option str * list str))) (form : str) (pos : option str)
  : list (option str * list str) :=
  match assoc_str form table with Some forms => forms | None => [] end.

(* ------------------------------------------------------------------ _find_helper *)
(* [query forms pos normalized] = query_func(forms=forms, pos=pos, normalized=normalized,
   lexicon_rowids=w._lexicon_ids, search_all_forms=w._search_all_forms [, ili=ili]) *)
Definition _find_helper {D C : Type} (w : Wordnet) (cls : Wordnet -> D -> C) (key_eqb : C -> C -> bool)
           (query : list str -> option str -> bool -> list D)
           (form pos : option str) : list C :=
  match form with
  | None =>
      (* easy case is when there is no form *)
      map (cls w) (query [] pos false)
  | Some form =>
      let normalized := wn_normalizer w in               (* kwargs['normalized'] = bool(normalize) *)
      let forms := match wn_lemmatizer w with
                   | Some table => lemmatize table form pos
                   | None => []
                   end in
      (* if not forms: forms = {pos: {form}} *)
      let forms := match forms with [] => [(pos, [form])] | _ => forms end in
      let results := flat_map (fun pf => map (cls w) (query (snd pf) (fst pf) normalized)) forms in
      let results :=
        if negb (nonempty results) && wn_normalizer w
        then flat_map (fun pf => map (cls w) (query (map (normalize w) (snd pf)) (fst pf) normalized)) forms
        else results in
      (* unique_results / seen *)
      dedup key_eqb results
  end.

Definition Wordnet_words (w : Wordnet) (form pos : option str) : list Word :=
  _find_helper w mk_Word Word_key_eqb
    (fun forms pos normalized =>
       find_entries d None forms pos (wn_lexicon_ids w) normalized (wn_search_all_forms w))
    form pos.
Definition Wordnet_senses (w : Wordnet) (form pos : option str) : list Sense :=
  _find_helper w mk_Sense Sense_key_eqb
    (fun forms pos normalized =>
       find_senses d None forms pos (wn_lexicon_ids w) normalized (wn_search_all_forms w))
    form pos.
Definition Wordnet_synsets (w : Wordnet) (form pos ili : option str) : list Synset :=
  _find_helper w mk_Synset Synset_key_eqb
    (fun forms pos normalized =>
       find_synsets d None forms pos ili (wn_lexicon_ids w) normalized (wn_search_all_forms w))
    form pos.

(* Wordnet.word(id) etc.: the first row or wn.Error *)
Definition Wordnet_word (w : Wordnet) (id : str) : res Word :=
  match find_entries d (Some id) [] None (wn_lexicon_ids w) false false with
  | q :: _ => Ok (mk_Word w q)
  | [] => WnError
  end.
Definition Wordnet_synset (w : Wordnet) (id : str) : res Synset :=
  match find_synsets d (Some id) [] None None (wn_lexicon_ids w) false false with
  | q :: _ => Ok (mk_Synset w q)
  | [] => WnError
  end.
Definition Wordnet_sense (w : Wordnet) (id : str) : res Sense :=
  match find_senses d (Some id) [] None (wn_lexicon_ids w) false false with
  | q :: _ => Ok (mk_Sense w q)
  | [] => WnError
  end.
Definition Wordnet_ili (w : Wordnet) (id : str) : res ILI :=
  match find_ilis d (Some id) None (wn_lexicon_ids w) with
  | q :: _ => Ok (mk_ILI q)
  | [] => WnError
  end.
Definition Wordnet_ilis (w : Wordnet) (status : option str) : list ILI :=
  map mk_ILI (find_ilis d None status (wn_lexicon_ids w)).

(* module-level wn.synsets(form, pos, ili, lexicon=, lang=):
   Wordnet(lang=lang, lexicon=lexicon).synsets(form=form, pos=pos, ili=ili)
   — a fresh Wordnet with the default normalizer, no lemmatizer, search_all_forms=True *)
Definition wn_synsets (norm_table : list (str * str)) (form pos ili lexicon lang : option str)
  : res (list Synset) :=
  do w <- Wordnet_init lexicon lang None true norm_table None true;
  Ok (Wordnet_synsets w form pos ili).

(* ------------------------------------------------------------------ _LexiconElement *)
(*  if self._wordnet._default_mode:
        return tuple({self._lexid} | set(get_lexicon_extension_bases(self._lexid))
                                   | set(get_lexicon_extensions(self._lexid)))
    else: return self._wordnet._lexicon_ids
   (a None among the bases can never match a rowid and is dropped) *)
Definition _get_lexicon_ids (w : Wordnet) (_lexid : Z) : list Z :=
  if wn_default_mode w
  then dedup Z.eqb (_lexid :: somes (get_lexicon_extension_bases d _lexid (-1))
                           ++ somes (get_lexicon_extensions d _lexid (-1)))
  else wn_lexicon_ids w.

(* ------------------------------------------------------------------ Form *)
Definition Form_tags (f : Form) : list Tag :=
  map (fun tc => {| tag_tag := fst tc; tag_category := snd tc |}) (get_form_tags d (fo__id f)).
Definition Form_pronunciations (f : Form) : list Pronunciation :=
  map (fun p => match p with (value, variety, notation, phonemic, audio) =>
                  {| pn_value := value; pn_variety := variety; pn_notation := notation;
                     pn_phonemic := phonemic; pn_audio := audio |} end)
      (get_form_pronunciations d (fo__id f)).

(* ------------------------------------------------------------------ Sense (first part) *)
(*  lexids = (self._lexid, *get_lexicon_extension_bases(self._lexid))
    if not self._wordnet._default_mode:
        lexids = tuple(lexid for lexid in lexids if lexid in self._wordnet._lexicon_ids)
    return lexids or (NON_ROWID,) *)
Definition Sense_get_declaring_lexicon_ids (self : Sense) : list Z :=
  let lexids := sn_lexid self :: somes (get_lexicon_extension_bases d (sn_lexid self) (-1)) in
  let lexids := if wn_default_mode (sn_wordnet self) then lexids
                else filter (fun lexid => z_in lexid (wn_lexicon_ids (sn_wordnet self))) lexids in
  if nonempty lexids then lexids else [NON_ROWID].

Definition Sense_word (self : Sense) : res Word :=
  match find_entries d (Some (sn_entry_id self)) [] None (Sense_get_declaring_lexicon_ids self)
                     false false with
  | q :: _ => Ok (mk_Word (sn_wordnet self) q)
  | [] => WnError
  end.
Definition Sense_synset (self : Sense) : res Synset :=
  match find_synsets d (Some (sn_synset_id self)) [] None None (Sense_get_declaring_lexicon_ids self)
                     false false with
  | q :: _ => Ok (mk_Synset (sn_wordnet self) q)
  | [] => WnError
  end.

Definition Sense_examples (self : Sense) : res (list (option str)) :=
  let lexids := _get_lexicon_ids (sn_wordnet self) (sn_lexid self) in
  do exs <- get_examples d (sn__id self) s_senses lexids;
  Ok (map (fun e => match e with (ex, _, _) => ex end) exs).
Definition Sense_lexicalized (self : Sense) : res bool := get_lexicalized d (sn__id self) s_senses.
Definition Sense_adjposition (self : Sense) : option str := get_adjposition d (sn__id self).
Definition Sense_frames (self : Sense) : list str :=
  get_syntactic_behaviours d (sn__id self) (_get_lexicon_ids (sn_wordnet self) (sn_lexid self)).
(* Count(value, _id) *)
Definition Sense_counts (self : Sense) : list (Z * Z) :=
  get_sense_counts d (sn__id self) (_get_lexicon_ids (sn_wordnet self) (sn_lexid self)).

Definition Sense_iter_sense_relations (self : Sense) (args : list str) : res (list (Relation * Sense)) :=
  do iterable <- get_sense_relations d (sn__id self) args
                   (_get_lexicon_ids (sn_wordnet self) (sn_lexid self));
  Ok (map (fun r =>
             ({| rel_name := qsr_name r; rel_source_id := sn_id self;
                 rel_target_id := qs_id (qsr_sense r); rel_lexicon := qsr_lexicon r;
                 rel_metadata := qsr_metadata r |},
              mk_Sense (sn_wordnet self) (qsr_sense r))) iterable).
Definition Sense_iter_sense_synset_relations (self : Sense) (args : list str)
  : res (list (Relation * Synset)) :=
  do iterable <- get_sense_synset_relations d (sn__id self) args
                   (_get_lexicon_ids (sn_wordnet self) (sn_lexid self));
  Ok (map (fun r =>
             ({| rel_name := qyr_name r; rel_source_id := sn_id self;
                 rel_target_id := qy_id (qyr_synset r); rel_lexicon := qyr_lexicon r;
                 rel_metadata := qyr_metadata r |},
              mk_Synset (sn_wordnet self) (qyr_synset r))) iterable).

Definition Sense_relations (self : Sense) (args : list str) : res (list (str * list Sense)) :=
  do pairs <- Sense_iter_sense_relations self args;
  Ok (relmap_of Sense_key_eqb pairs).
Definition Sense_relation_map (self : Sense) : res (list (Relation * Sense)) :=
  do pairs <- Sense_iter_sense_relations self [];
  Ok (dict_of Relation_eqb pairs).
Definition Sense_get_related (self : Sense) (args : list str) : res (list Sense) :=
  do pairs <- Sense_iter_sense_relations self args;
  Ok (unique_list Sense_key_eqb (map snd pairs)).
Definition Sense_get_related_synsets (self : Sense) (args : list str) : res (list Synset) :=
  do pairs <- Sense_iter_sense_synset_relations self args;
  Ok (unique_list Synset_key_eqb (map snd pairs)).
Definition Sense_closure (fuel : nat) (self : Sense) (args : list str) : res (list Sense) :=
  closure (fun s => Sense_get_related s args) sn_id fuel self.
Definition Sense_relation_paths (fuel : nat) (self : Sense) (args : list str) : res (list (list Sense)) :=
  relation_paths (fun s => Sense_get_related s args) sn__id Sense_key_eqb fuel self.

(* ------------------------------------------------------------------ Word *)
(* Form( *self._forms[0] ): IndexError without forms (find_entries never yields such a word) *)
Definition Word_lemma (self : Word) : res Form :=
  match wd_forms self with q :: _ => Ok (mk_Form q) | [] => OtherError end.
Definition Word_forms (self : Word) : list Form := map mk_Form (wd_forms self).
Definition Word_senses (self : Word) : list Sense :=
  let lexids := _get_lexicon_ids (wd_wordnet self) (wd_lexid self) in
  map (mk_Sense (wd_wordnet self)) (get_entry_senses d (wd__id self) lexids).
Definition Word_synsets (self : Word) : res (list Synset) :=
  mapM Sense_synset (Word_senses self).
(*  [derived_sense.word() for sense in self.senses()
                          for derived_sense in sense.get_related('derivation')] *)
Definition s_derivation : str := S_ "derivation".
Definition Word_derived_words (self : Word) : res (list Word) :=
  flat_mapM (fun sense => do ds <- Sense_get_related sense [s_derivation]; mapM Sense_word ds)
            (Word_senses self).

(* ------------------------------------------------------------------ Synset *)
(*  if self._ili: row = next(find_ilis(id=self._ili), None)
    else:         row = next(find_proposed_ilis(synset_rowid=self._id), None) *)
Definition Synset_ili (self : Synset) : option ILI :=
  let rows := if truthy (ss_ili self) then find_ilis d (ss_ili self) None []
              else find_proposed_ilis d (Some (ss__id self)) [] in
  match rows with q :: _ => Some (mk_ILI q) | [] => None end.
(* next((text for text, _, _, _ in get_definitions(self._id, lexids)), None) *)
Definition Synset_definition (self : Synset) : option str :=
  let lexids := _get_lexicon_ids (ss_wordnet self) (ss_lexid self) in
  match get_definitions d (ss__id self) lexids with
  | (text, _, _, _) :: _ => text
  | [] => None
  end.
Definition Synset_examples (self : Synset) : res (list (option str)) :=
  let lexids := _get_lexicon_ids (ss_wordnet self) (ss_lexid self) in
  do exs <- get_examples d (ss__id self) s_synsets lexids;
  Ok (map (fun e => match e with (ex, _, _) => ex end) exs).
Definition Synset_senses (self : Synset) : list Sense :=
  let lexids := _get_lexicon_ids (ss_wordnet self) (ss_lexid self) in
  map (mk_Sense (ss_wordnet self)) (get_synset_members d (ss__id self) lexids).
Definition Synset_lexicalized (self : Synset) : res bool := get_lexicalized d (ss__id self) s_synsets.
Definition Synset_lexfile (self : Synset) : option str := get_lexfile d (ss__id self).
Definition Synset_words (self : Synset) : res (list Word) := mapM Sense_word (Synset_senses self).
Definition Synset_lemmas (self : Synset) : res (list Form) :=
  do ws <- Synset_words self; mapM Word_lemma ws.

Definition Synset_iter_local_relations (self : Synset) (args : list str)
  : res (list (Relation * Synset)) :=
  let _wn := ss_wordnet self in
  let lexids := _get_lexicon_ids _wn (ss_lexid self) in
  do iterable <- get_synset_relations d [ss__id self] args lexids;
  Ok (map (fun r =>
             ({| rel_name := qyr_name r; rel_source_id := ss_id self;
                 rel_target_id := qy_id (qyr_synset r); rel_lexicon := qyr_lexicon r;
                 rel_metadata := qyr_metadata r |},
              mk_Synset _wn (qyr_synset r))) iterable).

Fixpoint assoc_z {V} (k : Z) (l : list (Z * V)) : option V :=
  match l with
  | [] => None
  | (k', v) :: l' => if Z.eqb k' k then Some v else assoc_z k l'
  end.

Definition Synset_iter_expanded_relations (self : Synset) (args : list str)
  : res (list (Relation * Synset)) :=
  let _wn := ss_wordnet self in
  let lexids := _get_lexicon_ids _wn (ss_lexid self) in
  let expids := wn_expanded_ids _wn in
  (* srcids = {rowid: ssid for ssid, _, _, _, rowid in find_synsets(ili=self._ili, lexicon_rowids=expids)
               if rowid not in (self._id, NON_ROWID)} *)
  let srcids := dict_of Z.eqb
                  (map (fun q => (qy_rowid q, qy_id q))
                       (filter (fun q => negb (Z.eqb (qy_rowid q) (ss__id self))
                                         && negb (Z.eqb (qy_rowid q) NON_ROWID))
                               (find_synsets d None [] None (ss_ili self) expids false false))) in
  do iterable <- get_synset_relations d (map fst srcids) args expids;
  Ok (flat_map (fun r =>
        match qy_ili (qyr_synset r) with
        | None => []                                        (* if ili is None: continue *)
        | Some ili =>
            let synset_rel :=
              {| rel_name := qyr_name r;
                 rel_source_id := match assoc_z (qyr_src_rowid r) srcids with Some i => i | None => [] end;
                 rel_target_id := qy_id (qyr_synset r); rel_lexicon := qyr_lexicon r;
                 rel_metadata := qyr_metadata r |} in
            match get_synsets_for_ilis d [ili] lexids with
            | [] => [(synset_rel, Synset_empty _INFERRED_SYNSET (Some ili) (ss_lexid self) _wn)]
            | local_ss_rows => map (fun row => (synset_rel, mk_Synset _wn row)) local_ss_rows
            end
        end) iterable).

(*  if self._id != NON_ROWID: yield from self._iter_local_relations(args)
    if self._ili is not None and self._wordnet._expanded_ids:
        yield from self._iter_expanded_relations(args) *)
Definition Synset_iter_relations (self : Synset) (args : list str) : res (list (Relation * Synset)) :=
  do loc <- (if negb (Z.eqb (ss__id self) NON_ROWID) then Synset_iter_local_relations self args else Ok []);
  do exp <- (match ss_ili self with
             | Some _ => if nonempty (wn_expanded_ids (ss_wordnet self))
                         then Synset_iter_expanded_relations self args else Ok []
             | None => Ok []
             end);
  Ok (loc ++ exp).

Definition Synset_relations (self : Synset) (args : list str) : res (list (str * list Synset)) :=
  do pairs <- Synset_iter_relations self args;
  Ok (relmap_of Synset_key_eqb pairs).
Definition Synset_get_related (self : Synset) (args : list str) : res (list Synset) :=
  do pairs <- Synset_iter_relations self args;
  Ok (unique_list Synset_key_eqb (map snd pairs)).
Definition Synset_relation_map (self : Synset) : res (list (Relation * Synset)) :=
  do pairs <- Synset_iter_relations self [];
  Ok (dict_of Relation_eqb pairs).
Definition Synset_hypernyms (self : Synset) : res (list Synset) :=
  Synset_get_related self [S_ "hypernym"; S_ "instance_hypernym"].
Definition Synset_hyponyms (self : Synset) : res (list Synset) :=
  Synset_get_related self [S_ "hyponym"; S_ "instance_hyponym"].
Definition Synset_closure (fuel : nat) (self : Synset) (args : list str) : res (list Synset) :=
  closure (fun s => Synset_get_related s args) ss_id fuel self.
Definition Synset_relation_paths (fuel : nat) (self : Synset) (args : list str)
  : res (list (list Synset)) :=
  relation_paths (fun s => Synset_get_related s args) ss__id Synset_key_eqb fuel self.

(*  ili = self._ili
    if not ili: return []
    return synsets(ili=ili, lang=lang, lexicon=lexicon) *)
Definition Synset_translate (self : Synset) (lexicon lang : option str) : res (list Synset) :=
  if negb (truthy (ss_ili self)) then Ok []
  else wn_synsets (wn_norm_table (ss_wordnet self)) None None (ss_ili self) lexicon lang.

(* ------------------------------------------------------------------ translate on Sense and Word *)
(*  synset = self.synset()
    return [t_sense for t_synset in synset.translate(lang=lang, lexicon=lexicon)
                    for t_sense in t_synset.senses()] *)
Definition Sense_translate (self : Sense) (lexicon lang : option str) : res (list Sense) :=
  do synset <- Sense_synset self;
  do t_synsets <- Synset_translate synset lexicon lang;
  Ok (flat_map Synset_senses t_synsets).
(*  result = {}
    for sense in self.senses():
        result[sense] = [t_sense.word() for t_sense in sense.translate(lang=lang, lexicon=lexicon)] *)
Definition Word_translate (self : Word) (lexicon lang : option str) : res (list (Sense * list Word)) :=
  do pairs <- mapM (fun sense => do t_senses <- Sense_translate sense lexicon lang;
                                 do ws <- mapM Sense_word t_senses;
                                 Ok (sense, ws))
                   (Word_senses self);
  Ok (dict_of Sense_key_eqb pairs).

(* ================================================================== the observation
   harness/impl/battery.py: observe(), rendered as harness/obsproj.py: project_obs() *)
Definition OPT (o : option str) : sx := sx_of_option sx_of_str o.
(* a plain (non-OPT) position holding a nullable text: None is rendered L [] *)
Definition PLAIN (o : option str) : sx := match o with Some s => sx_of_str s | None => L [] end.
Definition BOOL (b : bool) : sx := sx_of_bool b.
Definition STRS (l : list str) : sx := L (map sx_of_str l).

Definition RES {T} (r : res T) (f : T -> sx) : sx :=
  match r with
  | Ok v => f v
  | WnError => A (-1)
  | OtherError => A (-4)
  | OutOfFuel => A (-2)
  end.

Definition REF_Word (x : Word) : sx := L [A 1; A (wd__id x)].
Definition REF_Sense (x : Sense) : sx := L [A 2; A (sn__id x)].
Definition REF_Synset (x : Synset) : sx :=
  L [A 3; A (ss__id x); OPT (ss_ili x); A (ss_lexid x); sx_of_str (ss_id x)].
Definition REF_ILI (x : ILI) : sx := L [A 4; OPT (ili_id x); sx_of_str (ili_status x); OPT (ili_definition x)].

Definition REFS {T} (ref : T -> sx) (r : res (list T)) : sx := RES r (fun v => L (map ref v)).
Definition REFSET {T} (ref : T -> sx) (r : res (list T)) : sx := RES r (fun v => mset (map ref v)).

Definition project_form (f : Form) : sx :=
  L [sx_of_str (fo_form f); OPT (fo_id f); OPT (fo_script f); A (fo__id f);
     L (map (fun t => L [PLAIN (tag_tag t); PLAIN (tag_category t)]) (Form_tags f));
     L (map (fun p => L [PLAIN (pn_value p); OPT (pn_variety p); OPT (pn_notation p);
                         BOOL (pn_phonemic p); OPT (pn_audio p)]) (Form_pronunciations f))].

Definition project_word (w : Word) : sx :=
  L [REF_Word w; sx_of_str (wd_id w); sx_of_str (wd_pos w); A (wd_lexid w);
     L (map project_form (Word_forms w));
     REFS REF_Sense (Ok (Word_senses w));
     REFS REF_Synset (Word_synsets w);
     REFS REF_Word (Word_derived_words w)].

(* one entry per distinct Relation -> [name, source id, target id, lexicon, OPT subtype, REF target] *)
Definition project_relmap {T} (ref : T -> sx) (r : res (list (Relation * T))) : sx :=
  RES r (fun v => mset (map (fun rt => L [sx_of_str (rel_name (fst rt)); sx_of_str (rel_source_id (fst rt));
                                          sx_of_str (rel_target_id (fst rt)); sx_of_str (rel_lexicon (fst rt));
                                          OPT (Relation_subtype (fst rt)); ref (snd rt)]) v)).
Definition project_reldict {T} (ref : T -> sx) (r : res (list (str * list T))) : sx :=
  RES r (fun v => mset (map (fun kt => L [sx_of_str (fst kt); mset (map ref (snd kt))]) v)).
Definition project_paths {T} (ref : T -> sx) (r : res (list (list T))) : sx :=
  RES r (fun v => mset (map (fun p => L (map ref p)) v)).

Definition REL_ARGSETS_SENSE : list (list str) :=
  [[]; [S_ "antonym"]; [S_ "derivation"; S_ "also"]; [S_ "xrel"]; [S_ "*"]; [S_ "nosuch"]].
Definition REL_ARGSETS_SYNSET : list (list str) :=
  [[]; [S_ "hypernym"]; [S_ "hypernym"; S_ "instance_hypernym"]; [S_ "similar"; S_ "xrel"];
   [S_ "*"]; [S_ "nosuch"]].
Definition RELSYN_ARGSETS : list (list str) := [[]; [S_ "domain_topic"]; [S_ "other"; S_ "xrel"]].
Definition SENSE_CLOSURE_ARGS : list str :=
  [S_ "antonym"; S_ "derivation"; S_ "also"; S_ "similar"; S_ "pertainym"; S_ "xrel"].
Definition SENSE_PATHS_ARGS : list str := [S_ "derivation"; S_ "also"; S_ "xrel"].
Definition SYNSET_CLOSURE_ARGS : list str := [S_ "hypernym"; S_ "instance_hypernym"; S_ "similar"; S_ "xrel"].
Definition SYNSET_PATHS_ARGS : list str := [S_ "hypernym"; S_ "similar"; S_ "xrel"].

(* fuel: closure spends one unit per distinct identifier it yields (the identifiers of the rows,
   plus '*INFERRED*').  A relation path never repeats a set key; the keys are the synset rows plus
   the inferred placeholders, and a placeholder is keyed by (ILI, lexicon rowid): walking through an
   extension chain a path can meet one placeholder per ILI *and per lexicon*, so the bound is
   #synsets + #ilis * #synsets (Proofs/RelClosureProofs.v, Synset_relation_paths_total, proves that
   this suffices; the earlier bound #synsets + #ilis was refuted by a generated case, now in the
   correspondence corpus as harness/corpus/core_fuel.json). *)
Definition sense_fuel : nat := S (S (List.length (t_senses d))).
Definition synset_fuel : nat :=
  S (List.length (t_synsets d) + List.length (t_ilis d) * List.length (t_synsets d)).

Definition project_sense (s : Sense) : sx :=
  L [REF_Sense s; sx_of_str (sn_id s); A (sn_lexid s);
     RES (Sense_word s) REF_Word; RES (Sense_synset s) REF_Synset;
     RES (Sense_examples s) (fun v => L (map PLAIN v));
     RES (Sense_lexicalized s) BOOL;
     OPT (Sense_adjposition s);
     mset (map sx_of_str (Sense_frames s));
     L (map (fun c => A (fst c)) (Sense_counts s));
     project_relmap REF_Sense (Sense_relation_map s);
     L (map (fun a => L [STRS a; REFSET REF_Sense (Sense_get_related s a)]) REL_ARGSETS_SENSE);
     project_reldict REF_Sense (Sense_relations s []);
     L (map (fun a => L [STRS a; REFSET REF_Synset (Sense_get_related_synsets s a)]) RELSYN_ARGSETS);
     REFSET REF_Sense (Sense_closure sense_fuel s SENSE_CLOSURE_ARGS);
     project_paths REF_Sense (Sense_relation_paths sense_fuel s SENSE_PATHS_ARGS)].

Definition project_synset (y : Synset) : sx :=
  L [REF_Synset y; sx_of_str (ss_id y); PLAIN (ss_pos y); A (ss_lexid y);
     sx_of_option REF_ILI (Synset_ili y);
     OPT (Synset_definition y);
     RES (Synset_examples y) (fun v => L (map PLAIN v));
     REFS REF_Sense (Ok (Synset_senses y));
     RES (Synset_lexicalized y) BOOL;
     OPT (Synset_lexfile y);
     REFS REF_Word (Synset_words y);
     RES (Synset_lemmas y) (fun v => L (map (fun f => sx_of_str (fo_form f)) v));
     project_relmap REF_Synset (Synset_relation_map y);
     L (map (fun a => L [STRS a; REFS REF_Synset (Synset_get_related y a)]) REL_ARGSETS_SYNSET);
     project_reldict REF_Synset (Synset_relations y []);
     REFS REF_Synset (Synset_hypernyms y); REFS REF_Synset (Synset_hyponyms y);
     REFSET REF_Synset (Synset_closure synset_fuel y SYNSET_CLOSURE_ARGS);
     project_paths REF_Synset (Synset_relation_paths synset_fuel y SYNSET_PATHS_ARGS)].

Definition ILI_STATUSES : list str := [S_ "presupposed"; S_ "proposed"; S_ "active"; S_ "nosuch"].

Definition project_search (w : Wordnet) (form : str) (pos : option str) : sx :=
  L [sx_of_str form; OPT pos;
     REFS REF_Word (Ok (Wordnet_words w (Some form) pos));
     REFS REF_Sense (Ok (Wordnet_senses w (Some form) pos));
     REFS REF_Synset (Ok (Wordnet_synsets w (Some form) pos None))].

(* a translation target: (lexicon OPT, lang OPT) *)
Definition project_translations (w : Wordnet) (targets : list (option str * option str)) : list sx :=
  flat_map (fun y => map (fun t => L [REF_Synset y; OPT (fst t); OPT (snd t);
                                      REFS REF_Synset (Synset_translate y (fst t) (snd t))]) targets)
           (Wordnet_synsets w None None None)
  ++ flat_map (fun s => map (fun t => L [REF_Sense s; OPT (fst t); OPT (snd t);
                                         REFS REF_Sense (Sense_translate s (fst t) (snd t))]) targets)
              (Wordnet_senses w None None)
  ++ flat_map (fun x => map (fun t => L [REF_Word x; OPT (fst t); OPT (snd t);
                                         RES (Word_translate x (fst t) (snd t))
                                             (fun v => L (map (fun kt => L [REF_Sense (fst kt);
                                                                            L (map REF_Word (snd kt))]) v))])
                            targets)
              (Wordnet_words w None None).

Definition observe (w : Wordnet) (searches : list (str * option str))
           (targets : list (option str * option str)) : sx :=
  L [A 1;
     L (map A (wn_lexicon_ids w));
     L (map A (wn_expanded_ids w));
     BOOL (wn_default_mode w);
     BOOL (wn_warned w);
     mset (map project_word (Wordnet_words w None None));
     mset (map project_sense (Wordnet_senses w None None));
     mset (map project_synset (Wordnet_synsets w None None None));
     REFSET REF_ILI (Ok (Wordnet_ilis w None));
     L (map (fun st => L [sx_of_str st; REFSET REF_ILI (Ok (Wordnet_ilis w (Some st)))]) ILI_STATUSES);
     L (map (fun fp => project_search w (fst fp) (snd fp)) searches);
     L (project_translations w targets)].

End WithDb.

(* ------------------------------------------------------------------ run_core
   input = L [db; config];  config = L [lexicon OPT; lang OPT; expand: A 0 | L [str];
   normalizer 0/1; search_all_forms 0/1; lemmatizer: A 0 | L [ L [form; L [ L [pos OPT; L forms] ]] ];
   norm table L [ L [s; normalize_form s] ]; searches L [ L [form; pos OPT] ];
   translation targets L [ L [lexicon OPT; lang OPT] ] ]   (the last two may be absent) *)
Definition decode_lemmatizer (x : sx) : option (list (str * list (option str * list str))) :=
  match x with
  | A _ => None
  | L l => Some (map (fun e => (sx_str (sx_nth 0 e),
                                map (fun pf => (sx_opt sx_str (sx_nth 0 pf),
                                                map sx_str (sx_list (sx_nth 1 pf))))
                                    (sx_list (sx_nth 1 e)))) l)
  end.

Definition run_core (input : sx) : sx :=
  let d := db_of_sx (sx_nth 0 input) in
  let cfg := sx_nth 1 input in
  let lexicon := sx_opt sx_str (sx_nth 0 cfg) in
  let lang := sx_opt sx_str (sx_nth 1 cfg) in
  let expand := sx_opt sx_str (sx_nth 2 cfg) in
  let normalizer := sx_bool (sx_nth 3 cfg) in
  let search_all_forms := sx_bool (sx_nth 4 cfg) in
  let lemmatizer := decode_lemmatizer (sx_nth 5 cfg) in
  let norm_table := map (fun e => (sx_str (sx_nth 0 e), sx_str (sx_nth 1 e))) (sx_list (sx_nth 6 cfg)) in
  let searches := map (fun e => (sx_str (sx_nth 0 e), sx_opt sx_str (sx_nth 1 e))) (sx_list (sx_nth 7 cfg)) in
  let targets := map (fun e => (sx_opt sx_str (sx_nth 0 e), sx_opt sx_str (sx_nth 1 e)))
                     (sx_list (sx_nth 8 cfg)) in
  match Wordnet_init d lexicon lang expand normalizer norm_table lemmatizer search_all_forms with
  | Ok w => observe d w searches targets
  | WnError => L [A (-1)]
  | OtherError => L [A (-4)]
  | OutOfFuel => L [A (-2)]
  end.
