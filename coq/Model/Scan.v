(* Model/Scan.v — executable model of wn.lmf.scan_lexicons and _unescape_attribute.
   (In this comment DQ stands for the double quote, SQ for the apostrophe, STAR for
   the Kleene star, LAZY for the non-greedy star: the regular expressions cannot be
   quoted literally inside a Coq comment.)

   def scan_lexicons(source):
       infos = []
       lex_re  = re.compile(b'<!--.LAZY-->|<!\[CDATA\[.LAZY\]\]>'
                            b'|<(Lexicon|LexiconExtension|Extends)\b((?:[^>DQSQ]|DQ[^DQ]STAR DQ|SQ[^SQ]STAR SQ)STAR)>',
                            flags=re.M | re.S)
       attr_re = re.compile(b'([^\s=<>DQSQ/]+)\sSTAR=\sSTAR(DQ[^DQ]STAR DQ|SQ[^SQ]STAR SQ)', flags=re.M)
       with open(source, 'rb') as fh:
           for m in lex_re.finditer(fh.read()):
               lextype, remainder = m.groups()
               if lextype is None: continue          # a comment or a CDATA section
               attrs = {_m.group(1).decode('utf-8'): _unescape_attribute(_m.group(2)[1:-1].decode('utf-8'))
                        for _m in attr_re.finditer(remainder)
                        if _m.group(1) in (b'id', b'version', b'label')}
               info = {'id': attrs['id'], 'version': attrs['version'], 'label': attrs.get('label'), 'extends': None}
               if 'id' not in info or 'version' not in info: raise LMFError(...)      # unreachable
               if lextype != b'Extends': infos.append(info)
               elif len(infos) > 0: infos[-1]['extends'] = {'id': info['id'], 'version': info['version']}
               else: raise LMFError('invalid use of <Extends> in WN-LMF file')
       return infos

   The two regular expressions are modelled by hand-written scanners over byte
   lists which follow the backtracking semantics of Python's re:

   - lex_re.  A match can only start at a '<'; at each position the alternatives
     are tried from left to right.
     Comment: the text starts with '<!--' and a '-->' occurs at or after the end
     of these four characters; the non-greedy dot (re.S: any byte) stops at the
     FIRST such '-->'.  CDATA section: the same with '<![CDATA[' and ']]>'.  These
     two matches have no group 1 and are skipped by the loop, but the search
     resumes after them (finditer: non-overlapping), so whatever they contain is
     never examined.  An unterminated '<!--' matches nothing; the other
     alternatives cannot match there either.
     Tag: the three names are tried in the order of the alternation, each followed
     by the word-boundary test (bytes pattern: a word character is [A-Za-z0-9_])
     and by the remainder.  The remainder group is deterministic: outside quotes a
     character other than '>', DQ, SQ is consumed by the first alternative only, a
     quote character can only be consumed by its quoted alternative, whose
     [^q]STAR must run to the next q, and '>' cannot be consumed at all — so the
     star can only stop at the first unquoted '>', and giving iterations back never
     helps (the character given back is not '>').  An unclosed quote or the end of
     the input makes the attempt at this '<' fail, and the search resumes at the
     next position.  A '<!--' inside the remainder of a tag belongs to the tag:
     the tag is matched at its own '<', before the position of the '<!--' is reached.
   - attr_re, over the remainder: a name is a non-empty run of bytes other than
     white space, '=', '<', '>', quotes and '/'.  The greedy run is maximal, and
     giving bytes back never helps (the byte given back is neither white space nor
     '='); a failed attempt is retried one byte further (inside the same run it
     fails again for the same reason).  \s is [ \t\n\r\f\v].  After a match the
     search resumes after the closing quote.  Only the matches whose name is
     exactly id, version or label enter the dictionary (and only their values are
     decoded).

   Errors: KeyError (attrs['id'], attrs['version']) -> EKey; LMFError -> ELmf;
   UnicodeDecodeError (a captured value that is not UTF-8), ValueError /
   OverflowError (chr() of a character reference above 0x10FFFF, int() of a decimal
   reference of more than 4300 digits) -> EOther.  The matches are processed in
   document order and the first exception wins; the regular expressions themselves
   never raise, so all matches can be computed first.

   _unescape_attribute works on str, where \w is Unicode-aware.  Here \w is
   modelled as [A-Za-z0-9_] plus every code point >= 128.  This over-approximation
   cannot be observed: a reference '&name;' whose name is not one of the five
   predefined entities is replaced by itself, and the text skipped that way contains
   no '&' (which is not a word character), so no other match is lost.  The five
   predefined names are ASCII. *)
From Coq Require Import String.
From Coq Require Import ZArith List Bool.
Import ListNotations.
Require Import WnV.Base.Sx.
Require Import WnV.Model.XmlText WnV.Model.Lmf.
Local Open Scope Z_scope.

Local Notation s_ := str_of_string.

(* ====================================================================== *)
(* Character classes                                                      *)
(* ====================================================================== *)
(* \w of a bytes pattern *)
Definition is_word (c : Z) : bool :=
  in_range 48 57 c || in_range 65 90 c || in_range 97 122 c || Z.eqb c 95.
(* \s of a bytes pattern: [ \t\n\r\f\v] *)
Definition is_bspace (c : Z) : bool := zin c [32; 9; 10; 13; 12; 11].
Definition is_quote (c : Z) : bool := Z.eqb c c_quot || Z.eqb c c_apos.

(* ====================================================================== *)
(* bytes.decode('utf-8') (strict)                                         *)
(* ====================================================================== *)
Definition cont_val (b : Z) : Z := b - 128.
Fixpoint utf8_decode (s : str) : option str :=
  match s with
  | [] => Some []
  | b0 :: r =>
      if in_range 0 127 b0 then option_map (cons b0) (utf8_decode r)
      else if in_range 194 223 b0 then
        match r with
        | b1 :: r' =>
            if is_cont b1
            then option_map (cons ((b0 - 192) * 64 + cont_val b1)) (utf8_decode r')
            else None
        | _ => None
        end
      else if in_range 224 239 b0 then
        match r with
        | b1 :: b2 :: r' =>
            if (if Z.eqb b0 224 then in_range 160 191 b1
                else if Z.eqb b0 237 then in_range 128 159 b1
                else is_cont b1) && is_cont b2
            then option_map (cons ((b0 - 224) * 4096 + cont_val b1 * 64 + cont_val b2))
                            (utf8_decode r')
            else None
        | _ => None
        end
      else if in_range 240 244 b0 then
        match r with
        | b1 :: b2 :: b3 :: r' =>
            if (if Z.eqb b0 240 then in_range 144 191 b1
                else if Z.eqb b0 244 then in_range 128 143 b1
                else is_cont b1) && is_cont b2 && is_cont b3
            then option_map (cons ((b0 - 240) * 262144 + cont_val b1 * 4096
                                   + cont_val b2 * 64 + cont_val b3))
                            (utf8_decode r')
            else None
        | _ => None
        end
      else None
  end.

(* str.encode('utf-8') for scalar values (used by the theorems and the tests) *)
Definition utf8_enc1 (c : Z) : str :=
  if Z.ltb c 128 then [c]
  else if Z.ltb c 2048 then [192 + c / 64; 128 + c mod 64]
  else if Z.ltb c 65536 then [224 + c / 4096; 128 + (c / 64) mod 64; 128 + c mod 64]
  else [240 + c / 262144; 128 + (c / 4096) mod 64; 128 + (c / 64) mod 64; 128 + c mod 64].
Definition utf8_encode (s : str) : str := flat_map utf8_enc1 s.

(* ====================================================================== *)
(* _unescape_attribute                                                    *)
(* ====================================================================== *)
(* re.sub(r'\r\n?|[\t\n]', ' ', value) *)
Fixpoint norm_space (s : str) : str :=
  match s with
  | [] => []
  | c :: r =>
      if Z.eqb c c_cr then
        c_sp :: match r with
                | d :: r' => if Z.eqb d c_nl then norm_space r' else norm_space r
                | [] => []
                end
      else if Z.eqb c c_tab || Z.eqb c c_nl then c_sp :: norm_space r
      else c :: norm_space r
  end.

(* the longest prefix whose characters satisfy p, and what follows (greedy) *)
Fixpoint span (p : Z -> bool) (s : str) : str * str :=
  match s with
  | [] => ([], [])
  | c :: r => if p c then let (a, b) := span p r in (c :: a, b) else ([], s)
  end.

Definition is_hex (c : Z) : bool := in_range 48 57 c || in_range 65 70 c || in_range 97 102 c.
Definition is_dec (c : Z) : bool := in_range 48 57 c.
(* \w of a str pattern, over-approximated (see the header) *)
Definition is_uword (c : Z) : bool := is_word c || Z.leb 128 c.

(* X+; : the body and the text after the semicolon.  A greedy X+ followed by a
   semicolon has one way to match only: giving characters back leaves an X. *)
Definition plus_semi (p : Z -> bool) (s : str) : option (str * str) :=
  match span p s with
  | ((_ :: _) as body, c :: rest) => if Z.eqb c c_semi then Some (body, rest) else None
  | _ => None
  end.

Definition hex_digit_val (c : Z) : Z :=
  if in_range 48 57 c then c - 48 else if in_range 65 70 c then c - 55 else c - 87.
Definition num_of (base : Z) (dv : Z -> Z) (ds : str) : Z :=
  fold_left (fun acc d => acc * base + dv d) ds 0.
(* chr(n): ValueError / OverflowError outside range(0x110000) *)
Definition py_chr (n : Z) : option Z := if in_range 0 1114111 n then Some n else None.

Inductive refmatch : Type :=
| RHex (ds : str)      (* #x[0-9a-fA-F]+ *)
| RDec (ds : str)      (* #[0-9]+ *)
| RName (nm : str).    (* \w+ *)

(* the text after an ampersand: (#x[0-9a-fA-F]+|#[0-9]+|\w+) and a semicolon, in this order *)
Definition ref_hex (r : str) : option (refmatch * str) :=
  match r with
  | h :: x :: r2 =>
      if Z.eqb h c_hash && Z.eqb x c_x then
        match plus_semi is_hex r2 with
        | Some (ds, rest) => Some (RHex ds, rest)
        | None => None
        end
      else None
  | _ => None
  end.
Definition ref_dec (r : str) : option (refmatch * str) :=
  match r with
  | h :: r1 =>
      if Z.eqb h c_hash then
        match plus_semi is_dec r1 with
        | Some (ds, rest) => Some (RDec ds, rest)
        | None => None
        end
      else None
  | _ => None
  end.
Definition ref_name (r : str) : option (refmatch * str) :=
  match plus_semi is_uword r with
  | Some (nm, rest) => Some (RName nm, rest)
  | None => None
  end.
Definition ref_at (r : str) : option (refmatch * str) :=
  match ref_hex r with
  | Some m => Some m
  | None => match ref_dec r with
            | Some m => Some m
            | None => ref_name r
            end
  end.

(* def replace(m): the replacement text; None = exception *)
Definition ref_value (m : refmatch) : option str :=
  match m with
  | RHex ds => option_map (fun c => [c]) (py_chr (num_of 16 hex_digit_val ds))
  | RDec ds =>
      (* int() refuses more than 4300 digits (sys.int_info.default_max_str_digits) *)
      if Nat.ltb 4300 (length ds) then None
      else option_map (fun c => [c]) (py_chr (num_of 10 (fun d => d - 48) ds))
  | RName nm =>
      Some (if str_eqb nm (s_ "amp") then [c_amp]
            else if str_eqb nm (s_ "lt") then [c_lt]
            else if str_eqb nm (s_ "gt") then [c_gt]
            else if str_eqb nm (s_ "quot") then [c_quot]
            else if str_eqb nm (s_ "apos") then [c_apos]
            else [c_amp] ++ nm ++ [c_semi])
  end.

(* re.sub(r'&(#x[0-9a-fA-F]+|#[0-9]+|\w+);', replace, value): leftmost,
   non-overlapping; the replacement text is not scanned again *)
Fixpoint ent_sub (fuel : nat) (s : str) : option str :=
  match fuel with
  | O => Some []
  | S f =>
      match s with
      | [] => Some []
      | c :: r =>
          if Z.eqb c c_amp then
            match ref_at r with
            | Some (m, rest) =>
                match ref_value m with
                | Some out => option_map (app out) (ent_sub f rest)
                | None => None
                end
            | None => option_map (cons c) (ent_sub f r)
            end
          else option_map (cons c) (ent_sub f r)
      end
  end.

Definition unescape_attribute (value : str) : option str :=
  let v := norm_space value in ent_sub (S (length v)) v.

(* ====================================================================== *)
(* lex_re                                                                 *)
(* ====================================================================== *)
Inductive lextype : Type := TLexicon | TLexiconExtension | TExtends.
Definition lextype_name (t : lextype) : str :=
  match t with
  | TLexicon => s_ "Lexicon"
  | TLexiconExtension => s_ "LexiconExtension"
  | TExtends => s_ "Extends"
  end.

(* the remainder group and the closing '>' — [mode = Some q]: inside a string quoted by q.
   Returns the remainder and the text after the '>'. *)
Fixpoint rem_aux (mode : option Z) (s : str) : option (str * str) :=
  match s with
  | [] => None
  | c :: r =>
      match mode with
      | Some q =>
          match rem_aux (if Z.eqb c q then None else Some q) r with
          | Some (a, b) => Some (c :: a, b)
          | None => None
          end
      | None =>
          if Z.eqb c c_gt then Some ([], r)
          else match rem_aux (if is_quote c then Some c else None) r with
               | Some (a, b) => Some (c :: a, b)
               | None => None
               end
      end
  end.

(* \b after a name (which ends with a word character) *)
Definition boundary_after (s : str) : bool :=
  match s with [] => true | c :: _ => negb (is_word c) end.

(* one alternative of the name group, then \b, the remainder and '>' *)
Definition try_name (t : lextype) (r : str) : option (lextype * str * str) :=
  let nm := lextype_name t in
  if prefixb nm r then
    let r' := skipn (length nm) r in
    if boundary_after r' then
      match rem_aux None r' with
      | Some (rem, rest) => Some (t, rem, rest)
      | None => None
      end
    else None
  else None.

(* the tag alternative, right after a '<' *)
Definition lex_at (r : str) : option (lextype * str * str) :=
  match try_name TLexicon r with
  | Some m => Some m
  | None => match try_name TLexiconExtension r with
            | Some m => Some m
            | None => try_name TExtends r
            end
  end.

(* the text after the first occurrence of [pat] *)
Fixpoint find_after (pat : str) (s : str) : option str :=
  if prefixb pat s then Some (skipn (length pat) s)
  else match s with
       | [] => None
       | _ :: r => find_after pat r
       end.

(* [opening] (without its '<') ... first [closing]: the text after the section *)
Definition section_at (opening closing : str) (r : str) : option str :=
  if prefixb opening r then find_after closing (skipn (length opening) r) else None.
(* the first two alternatives, right after a '<': a comment or a CDATA section *)
Definition skip_at (r : str) : option str :=
  match section_at (s_ "!--") (s_ "-->") r with
  | Some rest => Some rest
  | None => section_at (s_ "![CDATA[") (s_ "]]>") r
  end.

(* lex_re.finditer(data): (lextype, remainder) of every match that has a group 1 *)
Fixpoint lex_all (fuel : nat) (s : str) : list (lextype * str) :=
  match fuel with
  | O => []
  | S f =>
      match s with
      | [] => []
      | c :: r =>
          if Z.eqb c c_lt then
            match skip_at r with
            | Some rest => lex_all f rest
            | None =>
                match lex_at r with
                | Some (t, rem, rest) => (t, rem) :: lex_all f rest
                | None => lex_all f r
                end
            end
          else lex_all f r
      end
  end.
Definition lex_matches (data : str) : list (lextype * str) := lex_all (S (length data)) data.

(* ====================================================================== *)
(* attr_re                                                                *)
(* ====================================================================== *)
Inductive attrname : Type := NId | NVersion | NLabel.
Definition attrname_str (n : attrname) : str :=
  match n with NId => s_ "id" | NVersion => s_ "version" | NLabel => s_ "label" end.

(* [^q]STAR q : the text before the closing quote and what follows it *)
Fixpoint upto_quote (q : Z) (s : str) : option (str * str) :=
  match s with
  | [] => None
  | c :: r => if Z.eqb c q then Some ([], r)
              else match upto_quote q r with
                   | Some (a, b) => Some (c :: a, b)
                   | None => None
                   end
  end.

(* \sSTAR=\sSTAR(quoted) : the text between the quotes and what follows *)
Definition attr_tail (r : str) : option (str * str) :=
  match lstrip_by is_bspace r with
  | e :: r1 =>
      if Z.eqb e 61 then
        match lstrip_by is_bspace r1 with
        | q :: r2 => if is_quote q then upto_quote q r2 else None
        | [] => None
        end
      else None
  | [] => None
  end.

(* a byte of an attribute name *)
Definition is_namebyte (c : Z) : bool :=
  negb (is_bspace c || Z.eqb c 61 || Z.eqb c c_lt || Z.eqb c c_gt || is_quote c || Z.eqb c 47).

(* a match attempt: name, value (between the quotes), rest *)
Definition attr_at (s : str) : option (str * str * str) :=
  match span is_namebyte s with
  | ((_ :: _) as nm, r) =>
      match attr_tail r with
      | Some (v, rest) => Some (nm, v, rest)
      | None => None
      end
  | _ => None
  end.

(* attr_re.finditer(remainder) *)
Fixpoint attr_all (fuel : nat) (s : str) : list (str * str) :=
  match fuel with
  | O => []
  | S f =>
      match s with
      | [] => []
      | c :: r =>
          match attr_at s with
          | Some (nm, v, rest) => (nm, v) :: attr_all f rest
          | None => attr_all f r
          end
      end
  end.
Definition attr_tokens (remainder : str) : list (str * str) :=
  attr_all (S (length remainder)) remainder.

(* _m.group(1) in (b'id', b'version', b'label') *)
Definition scanned_of (nm : str) : option attrname :=
  if str_eqb nm (s_ "id") then Some NId
  else if str_eqb nm (s_ "version") then Some NVersion
  else if str_eqb nm (s_ "label") then Some NLabel
  else None.
Definition attr_sel (m : str * str) : list (attrname * str) :=
  match scanned_of (fst m) with Some n => [(n, snd m)] | None => [] end.
(* the matches that enter the dictionary *)
Definition attr_matches (remainder : str) : list (attrname * str) :=
  flat_map attr_sel (attr_tokens remainder).

(* ====================================================================== *)
(* scan_lexicons                                                          *)
(* ====================================================================== *)
(* the dictionary restricted to its three possible keys *)
Record attrs : Type := mkAttrs { a_id : option str; a_version : option str; a_label : option str }.
Definition attrs_empty : attrs := mkAttrs None None None.
Definition attrs_set (a : attrs) (n : attrname) (v : str) : attrs :=
  match n with
  | NId => mkAttrs (Some v) (a_version a) (a_label a)
  | NVersion => mkAttrs (a_id a) (Some v) (a_label a)
  | NLabel => mkAttrs (a_id a) (a_version a) (Some v)
  end.

(* _unescape_attribute(_m.group(2)[1:-1].decode("utf-8")) *)
Definition attr_value (raw : str) : option str :=
  match utf8_decode raw with
  | Some s => unescape_attribute s
  | None => None
  end.

(* the dictionary comprehension: later duplicates overwrite earlier ones; the
   first value that cannot be decoded raises *)
Fixpoint build_attrs (a : attrs) (ms : list (attrname * str)) : result attrs :=
  match ms with
  | [] => Ok a
  | (n, raw) :: r =>
      match attr_value raw with
      | Some v => build_attrs (attrs_set a n v) r
      | None => Err EOther
      end
  end.

Definition specifier : Type := (str * str)%type.
Record info : Type :=
  mkInfo { i_id : str; i_version : str; i_label : option str; i_extends : option specifier }.

(* the body of the loop for one match: the id / version / label of the tag *)
Definition tag_info (remainder : str) : result info :=
  do a <- build_attrs attrs_empty (attr_matches remainder);
  match a_id a with
  | None => Err EKey
  | Some i =>
      match a_version a with
      | None => Err EKey
      | Some v => Ok (mkInfo i v (a_label a) None)
      end
  end.

(* [acc]: infos, last one first *)
Fixpoint process (acc : list info) (ms : list (lextype * str)) : result (list info) :=
  match ms with
  | [] => Ok (rev acc)
  | (t, remainder) :: r =>
      do i <- tag_info remainder;
      match t with
      | TExtends =>
          match acc with
          | last :: acc' =>
              process (mkInfo (i_id last) (i_version last) (i_label last)
                              (Some (i_id i, i_version i)) :: acc') r
          | [] => Err ELmf
          end
      | _ => process (i :: acc) r
      end
  end.

Definition scan_lexicons (data : str) : result (list info) := process [] (lex_matches data).

(* ====================================================================== *)
(* Wire                                                                   *)
(* ====================================================================== *)
Definition sx_of_info (i : info) : sx :=
  L [Sz (i_id i); Sz (i_version i);
     sx_of_option Sz (i_label i);
     sx_of_option (fun e => L [Sz (fst e); Sz (snd e)]) (i_extends i)].

(* L [A b1; A b2; ...] -> L [info ...] | L [A code] *)
Definition run_scan (x : sx) : sx :=
  match scan_lexicons (sx_str x) with
  | Ok l => L (map sx_of_info l)
  | Err e => sx_of_err e
  end.

(* ====================================================================== *)
(* Sanity checks                                                          *)
(* ====================================================================== *)
Example unescape_ex :
  unescape_attribute (s_ "&lt;&#65;&#x42;&quot;&apos;&nosuch;&#xZZ;&amp;amp;&#x;&#;&;& a&b;")
  = Some (s_ "<AB""'&nosuch;&#xZZ;&amp;&#x;&#;&;& a&b;").
Proof. vm_compute. reflexivity. Qed.
Example unescape_ws_ex :
  unescape_attribute [97; 13; 10; 98; 13; 99; 9; 10; 100] = Some [97; 32; 98; 32; 99; 32; 32; 100].
Proof. vm_compute. reflexivity. Qed.
Example unescape_big_ex : unescape_attribute (s_ "&#x110000;") = None /\ unescape_attribute (s_ "&#1114111;") = Some [1114111]
                          /\ unescape_attribute (s_ "&#0;") = Some [0].
Proof. vm_compute. repeat split. Qed.
Example utf8_ex : utf8_decode [195; 169; 240; 157; 146; 179; 226; 130; 172; 65] = Some [233; 119987; 8364; 65]
                  /\ utf8_encode [233; 119987; 8364; 65] = [195; 169; 240; 157; 146; 179; 226; 130; 172; 65]
                  /\ utf8_decode [255] = None /\ utf8_decode [237; 160; 128] = None /\ utf8_decode [192; 128] = None.
Proof. vm_compute. repeat split. Qed.
Example scan_ex :
  scan_lexicons (s_ "<!-- <Lexicon id=""c"" version=""0""> --><LexiconExtension id=""x"" version=""1"" label='e' url='see version=""2"" there'><Extends id=""b"" version=""2""/><![CDATA[<Extends id=""q"" version=""7"">]]><Lexicons id=""no""><Lexicon id = 'a>' xversion=""9"" my-version=""8"" version=""3"" note=""<!--"">")
  = Ok [mkInfo (s_ "x") (s_ "1") (Some (s_ "e")) (Some (s_ "b", s_ "2")); mkInfo (s_ "a>") (s_ "3") None None].
Proof. vm_compute. reflexivity. Qed.
