(* Model/Val.v — JSON-like values: the in-memory shape of WN-LMF resources
   (the TypedDicts of wn/lmf.py) and of metadata.  Dictionaries are
   insertion-ordered association lists, as Python dicts are. *)
From Coq Require Import ZArith List Bool.
Import ListNotations.
Require Import WnV.Base.Sx.
Local Open Scope Z_scope.

Inductive val : Type :=
| VNone
| VBool (b : bool)
| VInt (n : Z)
| VStr (s : str)
| VList (l : list val)
| VDict (d : list (str * val)).

(* wire: None [0]; bool [1,b]; int [2,n]; str [3,s]; list [4,[...]]; dict [5,[[k,v]...]] *)
Fixpoint val_of_sx (x : sx) {struct x} : val :=
  match x with
  | L [A 0] => VNone
  | L [A 1; A b] => VBool (negb (Z.eqb b 0))
  | L [A 2; A n] => VInt n
  | L [A 3; L s] => VStr (map sx_z s)
  | L [A 4; L items] => VList (map val_of_sx items)
  | L [A 5; L kvs] =>
      VDict (map (fun kv => match kv with
                            | L [L k; v] => (map sx_z k, val_of_sx v)
                            | _ => ([], VNone)
                            end) kvs)
  | _ => VNone
  end.

Fixpoint sx_of_val (v : val) : sx :=
  match v with
  | VNone => L [A 0]
  | VBool b => L [A 1; A (if b then 1 else 0)]
  | VInt n => L [A 2; A n]
  | VStr s => L [A 3; L (map A s)]
  | VList l => L [A 4; L (map sx_of_val l)]
  | VDict d => L [A 5; L (map (fun kv => L [L (map A (fst kv)); sx_of_val (snd kv)]) d)]
  end.

(* d.get(k): None when absent (or when the value is not a dictionary) *)
Definition vget (d : val) (k : str) : val :=
  match d with
  | VDict kvs => match find (fun kv => str_eqb (fst kv) k) kvs with
                 | Some kv => snd kv
                 | None => VNone
                 end
  | _ => VNone
  end.
(* k in d *)
Definition vhas (d : val) (k : str) : bool :=
  match d with
  | VDict kvs => existsb (fun kv => str_eqb (fst kv) k) kvs
  | _ => false
  end.
(* d.get(k, []) for list-valued keys *)
Definition vlist (d : val) (k : str) : list val :=
  match vget d k with VList l => l | _ => [] end.
Definition vstr (v : val) : option str := match v with VStr s => Some s | _ => None end.
(* Python truthiness *)
Definition vtruthy (v : val) : bool :=
  match v with
  | VNone => false
  | VBool b => b
  | VInt n => negb (Z.eqb n 0)
  | VStr s => match s with [] => false | _ => true end
  | VList l => match l with [] => false | _ => true end
  | VDict d => match d with [] => false | _ => true end
  end.
(* d[k] = v keeping the position of an existing key *)
Fixpoint vset_list (kvs : list (str * val)) (k : str) (v : val) : list (str * val) :=
  match kvs with
  | [] => [(k, v)]
  | (k', v') :: r => if str_eqb k' k then (k', v) :: r else (k', v') :: vset_list r k v
  end.
Definition vset (d : val) (k : str) (v : val) : val :=
  match d with VDict kvs => VDict (vset_list kvs k v) | _ => d end.

Fixpoint val_eqb (a b : val) {struct a} : bool :=
  match a, b with
  | VNone, VNone => true
  | VBool x, VBool y => Bool.eqb x y
  | VInt x, VInt y => Z.eqb x y
  | VStr x, VStr y => str_eqb x y
  | VList x, VList y =>
      (fix go (x y : list val) : bool :=
         match x, y with
         | [], [] => true
         | u :: x', v :: y' => val_eqb u v && go x' y'
         | _, _ => false
         end) x y
  | VDict x, VDict y =>
      (fix go (x y : list (str * val)) : bool :=
         match x, y with
         | [], [] => true
         | (k, u) :: x', (k', v) :: y' => str_eqb k k' && val_eqb u v && go x' y'
         | _, _ => false
         end) x y
  | _, _ => false
  end.
