(* Model/Similarity.v — transliteration of wn/similarity.py.

   Two layers.  The *parts* layer computes, with natural numbers and synsets,
   what each formula is evaluated on: the path length; i, j, k of Wu-Palmer;
   the argument of the logarithm of Leacock-Chodorow; which synset's
   information content the IC-based metrics use.  The *value* layer applies the
   documented formula: over Q for the theorems, over IEEE-754 binary64 (Coq
   primitive floats, bit exact) for the correspondence with the implementation.
   math.log is not modelled: information-content values are an input table. *)
From Coq Require Import ZArith QArith List Bool.
Import ListNotations.
Require Import WnV.Base.Sx WnV.Model.Taxonomy.

Inductive res (T : Type) := Val (v : T) | WnError | KeyErr | Fuel.
Arguments Val {T} v. Arguments WnError {T}. Arguments KeyErr {T}. Arguments Fuel {T}.

(* max(l, key=...): the first maximal element; [gt x y] is Python's x > y *)
Definition argmax_first {T F} (gt : F -> F -> bool) (key : T -> F) (l : list T) : option T :=
  match l with
  | [] => None
  | x :: l' => Some (fold_left (fun best y => if gt (key y) (key best) then y else best) l' x)
  end.

Section Sim.
  Variable hyp : node -> list node.
  (* part-of-speech class with ADJ_SAT folded into ADJ (_check_if_pos_compatible) *)
  Variable cls : node -> Z.
  Variable fuel : nat.

  Definition compatible (a b : node) : bool := Z.eqb (cls a) (cls b).

  (* path: the distance; None = no path (distance = inf, similarity 0) *)
  Definition path_parts (a b : node) (sr : bool) : res (option nat) :=
    if negb (compatible a b) then WnError
    else match shortest_path_len hyp fuel a b sr with
         | None => Fuel
         | Some r => Val r
         end.

  (* len(x.shortest_path(y)): wn.Error propagates *)
  Definition dist_or_err (a b : node) (sr : bool) : res nat :=
    match shortest_path_len hyp fuel a b sr with
    | None => Fuel
    | Some None => WnError
    | Some (Some d) => Val d
    end.

  (* wup: (i, j, k) for lcs = lowest_common_hypernyms(...)[0]; k = lcs.max_depth() + 1 *)
  Definition wup_parts (a b : node) (sr : bool) : res (nat * nat * nat) :=
    if negb (compatible a b) then WnError
    else match lowest_common_hypernyms hyp fuel a b sr with
         | None => Fuel
         | Some [] => WnError
         | Some (lcs :: _) =>
             match dist_or_err a lcs sr with
             | Val i =>
                 match dist_or_err b lcs sr with
                 | Val j => match max_depth hyp fuel lcs false with
                            | Some md => Val (i, j, S md)
                            | None => Fuel
                            end
                 | WnError => WnError | KeyErr => KeyErr | Fuel => Fuel
                 end
             | WnError => WnError | KeyErr => KeyErr | Fuel => Fuel
             end
         end.

  (* lch: -log((p + 1) / (2 * max_depth)); the parts are (p + 1, 2 * max_depth) *)
  Definition lch_parts (a b : node) (maxd : Z) (sr : bool) : res (nat * Z) :=
    if negb (compatible a b) then WnError
    else match dist_or_err a b sr with
         | Val d => if Z.leb maxd 0 then WnError else Val (S d, (2 * maxd)%Z)
         | WnError => WnError | KeyErr => KeyErr | Fuel => Fuel
         end.

  (* ---- IC-based metrics: which synsets are looked at ------------------ *)
  Variable F : Type.
  Variable gt : F -> F -> bool.
  Variable wt : node -> option F.      (* pos_ic[ss.id], None = KeyError *)
  Variable icv : node -> option F.     (* information_content(ss, ic), None = KeyError *)

  Fixpoint with_key (f : node -> option F) (l : list node) : option (list (node * F)) :=
    match l with
    | [] => Some []
    | x :: l' => match f x, with_key f l' with
                 | Some v, Some r => Some ((x, v) :: r)
                 | _, _ => None
                 end
    end.

  (* res: max(information_content(ss) for ss in common_hypernyms) — the subsumer attaining it *)
  Definition res_choice (a b : node) : res (node * F) :=
    if negb (compatible a b) then WnError
    else match common_hypernyms hyp fuel a b false with
         | None => Fuel
         | Some [] => WnError
         | Some cs =>
             match with_key icv cs with
             | None => KeyErr
             | Some kv => match argmax_first gt snd kv with
                          | Some c => Val c
                          | None => WnError
                          end
             end
         end.

  (* pos_ic = ic[synset1.pos]; pos_ic[ss.id]: a KeyError for a synset of another class *)
  Definition wt_for (a c : node) : option F := if Z.eqb (cls c) (cls a) then wt c else None.

  (* _most_informative_lcs: the lowest common hypernym with the highest weight (first maximal) *)
  Definition most_informative_lcs (a b : node) : res node :=
    match lowest_common_hypernyms hyp fuel a b false with
    | None => Fuel
    | Some [] => WnError
    | Some ls =>
        match with_key (wt_for a) ls with
        | None => KeyErr
        | Some kv => match argmax_first gt snd kv with
                     | Some c => Val (fst c)
                     | None => WnError
                     end
        end
    end.

  (* jcn and lin are evaluated on (IC(c1), IC(c2), IC(c0)); the order of evaluation in the
     code decides which exception wins *)
  Definition jcn_parts (a b : node) : res (F * F * F) :=
    if negb (compatible a b) then WnError
    else match icv a with
         | None => KeyErr
         | Some ic1 =>
             match icv b with
             | None => KeyErr
             | Some ic2 =>
                 match most_informative_lcs a b with
                 | Val c0 => match icv c0 with Some ic0 => Val (ic1, ic2, ic0) | None => KeyErr end
                 | WnError => WnError | KeyErr => KeyErr | Fuel => Fuel
                 end
             end
         end.

  Definition lin_parts (a b : node) : res (F * F * F) :=
    if negb (compatible a b) then WnError
    else match most_informative_lcs a b with
         | Val c0 =>
             match icv a with
             | None => KeyErr
             | Some ic1 =>
                 match icv b with
                 | None => KeyErr
                 | Some ic2 => match icv c0 with Some ic0 => Val (ic1, ic2, ic0) | None => KeyErr end
                 end
             end
         | WnError => WnError | KeyErr => KeyErr | Fuel => Fuel
         end.
End Sim.

(* ---------- the documented formulas over Q (for the theorems) ---------- *)
Definition path_q (d : option nat) : Q :=
  match d with Some d => 1 / inject_Z (Z.of_nat (S d)) | None => 0 end.
Definition wup_q (p : nat * nat * nat) : Q :=
  match p with (i, j, k) =>
    inject_Z (Z.of_nat (2 * k)) / inject_Z (Z.of_nat (i + j + 2 * k)) end.
Definition lch_arg_q (p : nat * Z) : Q := inject_Z (Z.of_nat (fst p)) / inject_Z (snd p).
