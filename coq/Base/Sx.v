(* Base/Sx.v — the wire format between the harness and the models:
   S-expressions over integers.  Every correspondence case is an [sx],
   every model exposes [run : sx -> sx]; strings are lists of code points. *)
From Coq Require Import ZArith List Bool String Ascii.
Import ListNotations.
Local Open Scope Z_scope.

Inductive sx : Type :=
| A (z : Z)
| L (l : list sx).

Definition str := list Z.
Definition Sz (l : list Z) : sx := L (map A l).   (* a string literal on the wire *)

Fixpoint sx_eqb (a b : sx) {struct a} : bool :=
  match a, b with
  | A x, A y => Z.eqb x y
  | L xs, L ys =>
      (fix go (xs ys : list sx) {struct xs} : bool :=
         match xs, ys with
         | [], [] => true
         | x :: xs', y :: ys' => sx_eqb x y && go xs' ys'
         | _, _ => false
         end) xs ys
  | _, _ => false
  end.

Definition sx_mem (x : sx) (l : list sx) : bool := existsb (sx_eqb x) l.
Definition sx_incl (a b : list sx) : bool := forallb (fun x => sx_mem x b) a.
(* equality of two lists read as sets *)
Definition sx_seteq (a b : list sx) : bool := sx_incl a b && sx_incl b a.
(* equality as multisets *)
Fixpoint sx_remove1 (x : sx) (l : list sx) : option (list sx) :=
  match l with
  | [] => None
  | y :: l' => if sx_eqb x y then Some l'
               else match sx_remove1 x l' with Some r => Some (y :: r) | None => None end
  end.
Fixpoint sx_mseteq (a b : list sx) : bool :=
  match a with
  | [] => match b with [] => true | _ => false end
  | x :: a' => match sx_remove1 x b with Some b' => sx_mseteq a' b' | None => false end
  end.

Fixpoint forall2b {T} (f : T -> T -> bool) (a b : list T) : bool :=
  match a, b with
  | [], [] => true
  | x :: a', y :: b' => f x y && forall2b f a' b'
  | _, _ => false
  end.

(* encoders *)
Definition sx_of_str (s : str) : sx := L (map A s).
Definition sx_of_bool (b : bool) : sx := A (if b then 1 else 0).
Definition sx_of_nat (n : nat) : sx := A (Z.of_nat n).
Definition sx_of_list {T} (f : T -> sx) (l : list T) : sx := L (map f l).
Definition sx_of_option {T} (f : T -> sx) (o : option T) : sx :=
  match o with None => L [] | Some x => L [f x] end.

(* decoders (total, with defaults: the harness only sends well-formed cases,
   and a malformed case makes model and implementation disagree visibly) *)
Definition sx_z (x : sx) : Z := match x with A z => z | L _ => -1 end.
Definition sx_list (x : sx) : list sx := match x with L l => l | A _ => [] end.
Definition sx_str (x : sx) : str := map sx_z (sx_list x).
Definition sx_bool (x : sx) : bool := negb (Z.eqb (sx_z x) 0).
Definition sx_nat (x : sx) : nat := Z.to_nat (sx_z x).
Definition sx_nth (n : nat) (x : sx) : sx := nth n (sx_list x) (L []).
Definition sx_opt {T} (f : sx -> T) (x : sx) : option T :=
  match x with L [y] => Some (f y) | _ => None end.

(* strings *)
Fixpoint str_eqb (a b : str) : bool :=
  match a, b with
  | [], [] => true
  | x :: a', y :: b' => Z.eqb x y && str_eqb a' b'
  | _, _ => false
  end.
Definition str_mem (x : str) (l : list str) : bool := existsb (str_eqb x) l.

Fixpoint str_of_string (s : string) : str :=
  match s with
  | EmptyString => []
  | String c s' => Z.of_nat (nat_of_ascii c) :: str_of_string s'
  end.

Lemma str_eqb_eq : forall a b, str_eqb a b = true <-> a = b.
Proof.
  induction a as [|x a IH]; destruct b as [|y b]; simpl; split; intro H;
    try reflexivity; try discriminate.
  - apply andb_true_iff in H. destruct H as [H1 H2].
    apply Z.eqb_eq in H1. apply IH in H2. subst. reflexivity.
  - injection H as -> ->. rewrite Z.eqb_refl. simpl. apply IH. reflexivity.
Qed.

Lemma str_eqb_refl : forall a, str_eqb a a = true.
Proof. intro a. apply str_eqb_eq. reflexivity. Qed.

Lemma str_mem_In : forall x l, str_mem x l = true <-> In x l.
Proof.
  intros x l. unfold str_mem. rewrite existsb_exists. split.
  - intros [y [Hy He]]. apply str_eqb_eq in He. subst. exact Hy.
  - intro H. exists x. split; [exact H | apply str_eqb_refl].
Qed.


(* ---------- generic agreement with unordered collections ----------
   [L [A (-7); L items]] marks a collection whose order is not part of the
   observation: such collections are compared as multisets (recursively).
   Fuel bounds the nesting depth; a depth beyond the fuel counts as disagreement. *)
Fixpoint sx_agree (fuel : nat) (a b : sx) {struct fuel} : bool :=
  match fuel with
  | O => false
  | S f =>
      match a, b with
      | A x, A y => Z.eqb x y
      | L [A (-7)%Z; L xs], L [A (-7)%Z; L ys] =>
          (fix ms (xs ys : list sx) {struct xs} : bool :=
             match xs with
             | [] => match ys with [] => true | _ => false end
             | x :: xs' =>
                 (fix pick (pre ys : list sx) {struct ys} : bool :=
                    match ys with
                    | [] => false
                    | y :: ys' => if sx_agree f x y then ms xs' (rev_append pre ys')
                                  else pick (y :: pre) ys'
                    end) [] ys
             end) xs ys
      | L xs, L ys =>
          (fix go (xs ys : list sx) {struct xs} : bool :=
             match xs, ys with
             | [], [] => true
             | x :: xs', y :: ys' => sx_agree f x y && go xs' ys'
             | _, _ => false
             end) xs ys
      | _, _ => false
      end
  end.
Definition sx_agree_default (a b : sx) : bool := sx_agree 40 a b.
Definition mset (l : list sx) : sx := L [A (-7)%Z; L l].

(* The correspondence driver: a case is (input, implementation-output);
   [mismatches] returns the indices on which the model's verdict differs.
   [agree] is the property-specific comparison (exact, set, multiset...). *)
Fixpoint mismatches_from (i : Z) (run : sx -> sx) (agree : sx -> sx -> bool)
         (cases : list (sx * sx)) : list Z :=
  match cases with
  | [] => []
  | (inp, out) :: cs =>
      let rest := mismatches_from (i + 1) run agree cs in
      if agree (run inp) out then rest else i :: rest
  end.
Definition mismatches := mismatches_from 0.
