(* Properties/C10.v — navigation is referentially faithful (model: Model/Core.v).
   Sense.word()/Sense.synset() return the entity the sense row points to; Word.senses()/Synset.senses() list exactly
   the sense rows of the entity inside the scope; composite navigation is the composition; equality/hash keys are
   the database rowids (plus ILI and lexicon for inferred placeholders); translate() goes through the shared ILI.
   Statements only: every theorem is closed by `exact` of a lemma proved under Proofs/, followed by
   Print Assumptions.  (Statement texts were printed by Coq from the proved lemmas by harness/mkprops.py and are
   fixed from then on.) *)
From Coq Require Import String.
From Coq Require Import ZArith List Bool.
Import ListNotations.
Require Import WnV.Base.Sx WnV.Model.Spec WnV.Model.Tables WnV.Model.Query WnV.Model.Core.
Require Import WnV.Proofs.CoreLemmas WnV.Proofs.QueryFacts WnV.Proofs.ScopeProofs WnV.Proofs.SearchProofs
        WnV.Proofs.NavProofs WnV.Proofs.RelGeneric WnV.Proofs.RelProofs WnV.Proofs.RelClosureProofs
        WnV.Proofs.ExpandProofs WnV.Proofs.FrameProofs WnV.Proofs.CoreNonvacuity.
Local Open Scope Z_scope.

(* ---- entities returned by queries are the rows they claim to be *)
Theorem C10_Wordnet_senses_entities :
  forall (d : db) (w : Wordnet) (form pos : option str) (s : Sense),
         In s (Wordnet_senses d w form pos) ->
         exists (sr : sense_row) (e : entry_row) (ss : synset_row), sense_entity d s sr e ss.
Proof. exact (@Wordnet_senses_entities). Qed.
Print Assumptions C10_Wordnet_senses_entities.

Theorem C10_Word_senses_entities :
  forall (d : db) (x : Word) (s : Sense),
         In s (Word_senses d x) ->
         exists (sr : sense_row) (e : entry_row) (ss : synset_row),
           sense_entity d s sr e ss /\ se_entry_rowid sr = wd__id x.
Proof. exact (@Word_senses_entities). Qed.
Print Assumptions C10_Word_senses_entities.

Theorem C10_Synset_senses_entities :
  forall (d : db) (y : Synset) (s : Sense),
         In s (Synset_senses d y) ->
         exists (sr : sense_row) (e : entry_row) (ss : synset_row),
           sense_entity d s sr e ss /\ se_synset_rowid sr = ss__id y.
Proof. exact (@Synset_senses_entities). Qed.
Print Assumptions C10_Synset_senses_entities.

(* ---- N1: a sense navigates to the entry / synset its row points to *)
Theorem C10_Sense_word_is_entry :
  forall (d : db) (s : Sense) (sr : sense_row) (e : entry_row) (ss : synset_row),
         sense_entity d s sr e ss ->
         en_id e <> [] ->
         In (en_lexicon_rowid e) (Sense_get_declaring_lexicon_ids d s) ->
         (forall e' : entry_row,
          In e' (t_entries d) ->
          en_id e' = en_id e ->
          In (en_lexicon_rowid e') (Sense_get_declaring_lexicon_ids d s) -> e' = e) ->
         (exists f : form_row, In f (t_forms d) /\ fm_entry_rowid f = en_rowid e) ->
         exists x : Word,
           Sense_word d s = Ok x /\
           wd__id x = en_rowid e /\
           wd_id x = en_id e /\
           wd_pos x = en_pos e /\
           wd_lexid x = en_lexicon_rowid e /\
           wd_wordnet x = sn_wordnet s /\
           wd_forms x <> [] /\
           (forall qf : q_form,
            In qf (wd_forms x) ->
            exists f : form_row,
              In f (t_forms d) /\ fm_entry_rowid f = en_rowid e /\ qf = form_columns f).
Proof. exact (@Sense_word_is_entry). Qed.
Print Assumptions C10_Sense_word_is_entry.

Theorem C10_Sense_synset_is_synset :
  forall (d : db) (s : Sense) (sr : sense_row) (e : entry_row) (ss : synset_row),
         sense_entity d s sr e ss ->
         sy_id ss <> [] ->
         In (sy_lexicon_rowid ss) (Sense_get_declaring_lexicon_ids d s) ->
         (forall ss' : synset_row,
          In ss' (t_synsets d) ->
          sy_id ss' = sy_id ss ->
          In (sy_lexicon_rowid ss') (Sense_get_declaring_lexicon_ids d s) -> ss' = ss) ->
         Sense_synset d s = Ok (mk_Synset (sn_wordnet s) (synset_columns d ss)).
Proof. exact (@Sense_synset_is_synset). Qed.
Print Assumptions C10_Sense_synset_is_synset.

(* ---- N2: ... and is listed among the senses of that word / synset; Word.senses / Synset.senses list exactly the sense rows in scope *)
Theorem C10_sense_in_Word_senses :
  forall (d : db) (s : Sense) (sr : sense_row) (e : entry_row) (ss : synset_row) (x : Word),
         sense_entity d s sr e ss ->
         wd__id x = en_rowid e ->
         wd_wordnet x = sn_wordnet s ->
         In (sn_lexid s) (scope d (wd_wordnet x) (wd_lexid x)) -> In s (Word_senses d x).
Proof. exact (@sense_in_Word_senses). Qed.
Print Assumptions C10_sense_in_Word_senses.

Theorem C10_sense_in_Synset_senses :
  forall (d : db) (s : Sense) (sr : sense_row) (e : entry_row) (ss : synset_row) (y : Synset),
         sense_entity d s sr e ss ->
         ss__id y = sy_rowid ss ->
         ss_wordnet y = sn_wordnet s ->
         In (sn_lexid s) (scope d (ss_wordnet y) (ss_lexid y)) -> In s (Synset_senses d y).
Proof. exact (@sense_in_Synset_senses). Qed.
Print Assumptions C10_sense_in_Synset_senses.

Theorem C10_sense_in_Word_senses_nondefault :
  forall (d : db) (s : Sense) (sr : sense_row) (e : entry_row) (ss : synset_row) (x : Word),
         sense_entity d s sr e ss ->
         wd__id x = en_rowid e ->
         wd_wordnet x = sn_wordnet s ->
         wn_default_mode (sn_wordnet s) = false ->
         In (sn_lexid s) (wn_lexicon_ids (sn_wordnet s)) -> In s (Word_senses d x).
Proof. exact (@sense_in_Word_senses_nondefault). Qed.
Print Assumptions C10_sense_in_Word_senses_nondefault.

Theorem C10_Word_senses_iff :
  forall (d : db) (x : Word) (s : Sense),
         In s (Word_senses d x) <->
         (exists (sr : sense_row) (e : entry_row) (ss : synset_row),
            sense_entity d s sr e ss /\
            se_entry_rowid sr = wd__id x /\
            sn_wordnet s = wd_wordnet x /\ In (sn_lexid s) (scope d (wd_wordnet x) (wd_lexid x))).
Proof. exact (@Word_senses_iff). Qed.
Print Assumptions C10_Word_senses_iff.

Theorem C10_Synset_senses_iff :
  forall (d : db) (y : Synset) (s : Sense),
         In s (Synset_senses d y) <->
         (exists (sr : sense_row) (e : entry_row) (ss : synset_row),
            sense_entity d s sr e ss /\
            se_synset_rowid sr = ss__id y /\
            sn_wordnet s = ss_wordnet y /\ In (sn_lexid s) (scope d (ss_wordnet y) (ss_lexid y))).
Proof. exact (@Synset_senses_iff). Qed.
Print Assumptions C10_Synset_senses_iff.

(* ---- N3: composite navigation is the composition of the single steps *)
Theorem C10_Word_synsets_def :
  forall (d : db) (x : Word), Word_synsets d x = mapM (Sense_synset d) (Word_senses d x).
Proof. exact (@Word_synsets_def). Qed.
Print Assumptions C10_Word_synsets_def.

Theorem C10_Synset_words_def :
  forall (d : db) (y : Synset), Synset_words d y = mapM (Sense_word d) (Synset_senses d y).
Proof. exact (@Synset_words_def). Qed.
Print Assumptions C10_Synset_words_def.

Theorem C10_Synset_lemmas_def :
  forall (d : db) (y : Synset),
         Synset_lemmas d y = (do ws <- Synset_words d y; mapM Word_lemma ws).
Proof. exact (@Synset_lemmas_def). Qed.
Print Assumptions C10_Synset_lemmas_def.

Theorem C10_Word_lemma_def :
  forall x : Word,
         Word_lemma x = match wd_forms x with
                        | [] => OtherError
                        | q :: _ => Ok (mk_Form q)
                        end.
Proof. exact (@Word_lemma_def). Qed.
Print Assumptions C10_Word_lemma_def.

Theorem C10_Word_synsets_Ok :
  forall (d : db) (x : Word) (ys : list Synset),
         Word_synsets d x = Ok ys <->
         Forall2 (fun (s : Sense) (y : Synset) => Sense_synset d s = Ok y) (Word_senses d x) ys.
Proof. exact (@Word_synsets_Ok). Qed.
Print Assumptions C10_Word_synsets_Ok.

Theorem C10_Synset_words_Ok :
  forall (d : db) (y : Synset) (xs : list Word),
         Synset_words d y = Ok xs <->
         Forall2 (fun (s : Sense) (x : Word) => Sense_word d s = Ok x) (Synset_senses d y) xs.
Proof. exact (@Synset_words_Ok). Qed.
Print Assumptions C10_Synset_words_Ok.

Theorem C10_Synset_lemmas_Ok :
  forall (d : db) (y : Synset) (fs : list Form),
         Synset_lemmas d y = Ok fs <->
         (exists xs : list Word,
            Synset_words d y = Ok xs /\
            Forall2 (fun (x : Word) (f : Form) => Word_lemma x = Ok f) xs fs).
Proof. exact (@Synset_lemmas_Ok). Qed.
Print Assumptions C10_Synset_lemmas_Ok.

Theorem C10_Word_lemma_first_form :
  forall (x : Word) (q : q_form) (qs : list q_form),
         wd_forms x = q :: qs -> Word_lemma x = Ok (mk_Form q).
Proof. exact (@Word_lemma_first_form). Qed.
Print Assumptions C10_Word_lemma_first_form.

(* ---- N4: equality and hashing keys *)
Theorem C10_Word_key_eqb_iff :
  forall a b : Word, Word_key_eqb a b = true <-> wd__id a = wd__id b.
Proof. exact (@Word_key_eqb_iff). Qed.
Print Assumptions C10_Word_key_eqb_iff.

Theorem C10_Sense_key_eqb_iff :
  forall a b : Sense, Sense_key_eqb a b = true <-> sn__id a = sn__id b.
Proof. exact (@Sense_key_eqb_iff). Qed.
Print Assumptions C10_Sense_key_eqb_iff.

Theorem C10_Synset_key_eqb_iff :
  forall a b : Synset,
         Synset_key_eqb a b = true <->
         ss_ili a = ss_ili b /\ ss_lexid a = ss_lexid b /\ ss__id a = ss__id b.
Proof. exact (@Synset_key_eqb_iff). Qed.
Print Assumptions C10_Synset_key_eqb_iff.

Theorem C10_Synset_key_eqb_rows :
  forall (d : db) (w1 w2 : Wordnet) (ss1 ss2 : synset_row),
         unique_keys sy_rowid (t_synsets d) ->
         In ss1 (t_synsets d) ->
         In ss2 (t_synsets d) ->
         Synset_key_eqb (mk_Synset w1 (synset_columns d ss1)) (mk_Synset w2 (synset_columns d ss2)) =
         true <-> sy_rowid ss1 = sy_rowid ss2.
Proof. exact (@Synset_key_eqb_rows). Qed.
Print Assumptions C10_Synset_key_eqb_rows.

Theorem C10_Synset_key_eqb_inferred :
  forall (i1 : option str) (l1 : Z) (w1 : Wordnet) (i2 : option str) (l2 : Z) (w2 : Wordnet),
         Synset_key_eqb (Synset_empty _INFERRED_SYNSET i1 l1 w1)
           (Synset_empty _INFERRED_SYNSET i2 l2 w2) = true <-> i1 = i2 /\ l1 = l2.
Proof. exact (@Synset_key_eqb_inferred). Qed.
Print Assumptions C10_Synset_key_eqb_inferred.

Theorem C10_unique_list_spec :
  forall (T : Type) (eqb : T -> T -> bool) (l : list T),
         (forall a : T, eqb a a = true) ->
         nodup_by eqb (unique_list eqb l) /\
         (forall x : T, In x (unique_list eqb l) -> In x l) /\
         (forall x : T, In x l -> exists y : T, In y (unique_list eqb l) /\ eqb x y = true).
Proof. exact (@unique_list_spec). Qed.
Print Assumptions C10_unique_list_spec.

(* ---- N5: translation goes through the ILI: none without an ILI; otherwise exactly the synsets of the target lexicons with that ILI *)
Theorem C10_Synset_translate_no_ili :
  forall (d : db) (y : Synset) (lexicon lang : option str),
         truthy (ss_ili y) = false -> Synset_translate d y lexicon lang = Ok [].
Proof. exact (@Synset_translate_no_ili). Qed.
Print Assumptions C10_Synset_translate_no_ili.

Theorem C10_synset_without_ili_row :
  forall (d : db) (w : Wordnet) (ss : synset_row),
         sy_ili_rowid ss = None -> ss_ili (mk_Synset w (synset_columns d ss)) = None.
Proof. exact (@synset_without_ili_row). Qed.
Print Assumptions C10_synset_without_ili_row.

Theorem C10_Synset_translate_ili :
  forall (d : db) (y : Synset) (lexicon lang : option str),
         truthy (ss_ili y) = true ->
         Synset_translate d y lexicon lang =
         (do w' <- Wordnet_init d lexicon lang None true (wn_norm_table (ss_wordnet y)) None true;
          Ok (Wordnet_synsets d w' None None (ss_ili y))).
Proof. exact (@Synset_translate_ili). Qed.
Print Assumptions C10_Synset_translate_ili.

Theorem C10_Synset_translate_sound :
  forall (d : db) (y : Synset) (lexicon lang : option str) (ts : list Synset) (t : Synset),
         db_ok d = true ->
         t_lexicons d <> [] ->
         Synset_translate d y lexicon lang = Ok ts ->
         In t ts ->
         exists w' : Wordnet,
           Wordnet_init d lexicon lang None true (wn_norm_table (ss_wordnet y)) None true = Ok w' /\
           ss_wordnet t = w' /\
           In (ss_lexid t) (wn_lexicon_ids w') /\
           ss_ili t = ss_ili y /\
           (exists ss : synset_row, In ss (t_synsets d) /\ t = mk_Synset w' (synset_columns d ss)).
Proof. exact (@Synset_translate_sound). Qed.
Print Assumptions C10_Synset_translate_sound.

Theorem C10_Sense_translate_def :
  forall (d : db) (s : Sense) (lexicon lang : option str),
         Sense_translate d s lexicon lang =
         (do y <- Sense_synset d s;
          do ts <- Synset_translate d y lexicon lang; Ok (flat_map (Synset_senses d) ts)).
Proof. exact (@Sense_translate_def). Qed.
Print Assumptions C10_Sense_translate_def.

Theorem C10_Word_translate_def :
  forall (d : db) (x : Word) (lexicon lang : option str),
         Word_translate d x lexicon lang =
         (do pairs <-
          mapM
            (fun sense : Sense =>
             do t_senses <- Sense_translate d sense lexicon lang;
             do ws <- mapM (Sense_word d) t_senses; Ok (sense, ws)) (Word_senses d x);
          Ok (dict_of Sense_key_eqb pairs)).
Proof. exact (@Word_translate_def). Qed.
Print Assumptions C10_Word_translate_def.

(* ---- navigation stays in scope and keeps the Wordnet (shared with C04) *)
Theorem C10_Sense_word_scope :
  forall (d : db) (s : Sense) (x : Word),
         db_ok d = true ->
         Sense_word d s = Ok x ->
         In (wd_lexid x) (scope d (sn_wordnet s) (sn_lexid s)) /\ wd_wordnet x = sn_wordnet s.
Proof. exact (@Sense_word_scope). Qed.
Print Assumptions C10_Sense_word_scope.

Theorem C10_Sense_synset_scope :
  forall (d : db) (s : Sense) (y : Synset),
         db_ok d = true ->
         Sense_synset d s = Ok y ->
         In (ss_lexid y) (scope d (sn_wordnet s) (sn_lexid s)) /\ ss_wordnet y = sn_wordnet s.
Proof. exact (@Sense_synset_scope). Qed.
Print Assumptions C10_Sense_synset_scope.

(* ---- non-vacuity *)
Theorem C10_db_ok_sample_1 :
  db_ok sample_db_1 = true.
Proof. exact (@db_ok_sample_1). Qed.
Print Assumptions C10_db_ok_sample_1.

Theorem C10_db_ok_sample_2 :
  db_ok sample_db_2 = true.
Proof. exact (@db_ok_sample_2). Qed.
Print Assumptions C10_db_ok_sample_2.

Require Import WnV.Proofs.Translate.
(* ---- N5 continued: translation is complete (every synset of a selected target lexicon that carries the same ILI is returned), hence exact (an iff on rowids together with C10_Synset_translate_sound) and symmetric (if a and b share a truthy ILI, a translates to b under a selection containing b's lexicon and b to a under one containing a's) *)
Theorem C10_Wordnet_synsets_ili_complete :
  forall (d : db) (w : Wordnet) (ili : option str) (ss : synset_row),
         truthy ili = true ->
         In ss (t_synsets d) ->
         in_selection w (sy_lexicon_rowid ss) ->
         ili_id_of d (sy_ili_rowid ss) = ili ->
         In (mk_Synset w (synset_columns d ss)) (Wordnet_synsets d w None None ili).
Proof. exact (@Wordnet_synsets_ili_complete). Qed.
Print Assumptions C10_Wordnet_synsets_ili_complete.

Theorem C10_Synset_translate_complete :
  forall (d : db) (y : Synset) (lexicon lang : option str) (w' : Wordnet) (ss : synset_row),
         truthy (ss_ili y) = true ->
         Wordnet_init d lexicon lang None true (wn_norm_table (ss_wordnet y)) None true = Ok w' ->
         In ss (t_synsets d) ->
         in_selection w' (sy_lexicon_rowid ss) ->
         ili_id_of d (sy_ili_rowid ss) = ss_ili y ->
         exists ts : list Synset,
           Synset_translate d y lexicon lang = Ok ts /\
           (exists t : Synset, In t ts /\ ss__id t = sy_rowid ss).
Proof. exact (@Synset_translate_complete). Qed.
Print Assumptions C10_Synset_translate_complete.

Theorem C10_Synset_translate_exact :
  forall (d : db) (y : Synset) (lexicon lang : option str) (w' : Wordnet),
         db_ok d = true ->
         t_lexicons d <> [] ->
         truthy (ss_ili y) = true ->
         Wordnet_init d lexicon lang None true (wn_norm_table (ss_wordnet y)) None true = Ok w' ->
         exists ts : list Synset,
           Synset_translate d y lexicon lang = Ok ts /\
           (forall r : Z,
            (exists t : Synset, In t ts /\ ss__id t = r) <->
            (exists ss : synset_row,
               In ss (t_synsets d) /\
               sy_rowid ss = r /\
               In (sy_lexicon_rowid ss) (wn_lexicon_ids w') /\
               ili_id_of d (sy_ili_rowid ss) = ss_ili y)).
Proof. exact (@Synset_translate_exact). Qed.
Print Assumptions C10_Synset_translate_exact.

Theorem C10_Synset_translate_symmetric :
  forall (d : db) (a b : synset_row) (w0a w0b : Wordnet)
           (la_lexicon la_lang lb_lexicon lb_lang : option str) (wa wb : Wordnet),
         In a (t_synsets d) ->
         In b (t_synsets d) ->
         truthy (ili_id_of d (sy_ili_rowid a)) = true ->
         ili_id_of d (sy_ili_rowid a) = ili_id_of d (sy_ili_rowid b) ->
         Wordnet_init d la_lexicon la_lang None true (wn_norm_table w0b) None true = Ok wa ->
         in_selection wa (sy_lexicon_rowid a) ->
         Wordnet_init d lb_lexicon lb_lang None true (wn_norm_table w0a) None true = Ok wb ->
         in_selection wb (sy_lexicon_rowid b) ->
         (exists ts : list Synset,
            Synset_translate d (mk_Synset w0a (synset_columns d a)) lb_lexicon lb_lang = Ok ts /\
            (exists t : Synset, In t ts /\ ss__id t = sy_rowid b)) /\
         (exists ts : list Synset,
            Synset_translate d (mk_Synset w0b (synset_columns d b)) la_lexicon la_lang = Ok ts /\
            (exists t : Synset, In t ts /\ ss__id t = sy_rowid a)).
Proof. exact (@Synset_translate_symmetric). Qed.
Print Assumptions C10_Synset_translate_symmetric.
