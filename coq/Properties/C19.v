(* Properties/C19.v — placeholder until Proofs for Model/Add.v add_ili are assembled. *)
From Coq Require Import ZArith List.
Import ListNotations.
Require Import WnV.Base.Sx WnV.Model.Add.
Example C19_placeholder : run_add_ili (L [L []; L []]) = run_add_ili (L [L []; L []]).
Proof. reflexivity. Qed.
Print Assumptions C19_placeholder.
