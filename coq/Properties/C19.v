(* Properties/C19.v — loading an ILI index only updates status and definitions (model: Add.add_ili written from wn/_add.py _add_ili;
   the file-format recogniser is_ili is part of Model/Project.v, Properties/C07.v).
   [ilis_ok] (Proofs/AddProofs.v): every ilis row is [rowid; id; status; definition; metadata] with distinct rowids and ids.
   Statements only: every theorem is closed by `exact` of a lemma proved under Proofs/, followed by
   Print Assumptions.  (Statement texts were printed by Coq from the proved lemmas by harness/mkprops.py and are
   fixed from then on.) *)
From Coq Require Import String.
From Coq Require Import ZArith List Bool.
Import ListNotations.
Require Import WnV.Base.Sx WnV.Gen.Schema WnV.Gen.Constants WnV.Model.Spec WnV.Model.Val.
Require Import WnV.Model.Rel WnV.Model.Add WnV.Proofs.AddProofs.
Local Open Scope Z_scope.
Local Open Scope string_scope.

(* ---- nothing but the ilis and ili_statuses tables is touched: no lexicon content changes *)
Theorem C19_add_ili_touches_only_ili_tables :
  forall (d : db) (lines : list (list str)) (d' : db),
         add_ili d lines = Ok d' ->
         forall t : string, t <> "ilis" -> t <> "ili_statuses" -> get_table d' t = get_table d t.
Proof. exact (@add_ili_touches_only_ili_tables). Qed.
Print Assumptions C19_add_ili_touches_only_ili_tables.

(* ---- an ILI listed in the file ends with the status and definition of its LAST line (NULL definition when the field is missing), keeping its rowid and metadata *)
Theorem C19_add_ili_listed :
  forall (d : db) (lines : list (list str)) (d' : db) (infos pre : list (list (val * str)))
           (info : list (val * str)) (post : list (list (val * str))) (i : str),
         ilis_ok (get_table d "ilis") = true ->
         add_ili d lines = Ok d' ->
         ili_load lines = Ok infos ->
         infos = (pre ++ info :: post)%list ->
         dict_get info (vs "ili") = Some i ->
         (forall x : list (val * str), In x post -> dict_get x (vs "ili") <> Some i) ->
         (exists r : row, In r (get_table d' "ilis") /\ col "ilis" "id" r = CText i) /\
         (forall r : row,
          In r (get_table d' "ilis") ->
          col "ilis" "id" r = CText i ->
          col "ilis" "status_rowid" r = ILISTAT_QUERY d' (CText (status_of info)) /\
          (exists n : Z, col "ilis" "status_rowid" r = CInt n) /\
          col "ilis" "definition" r = def_cell info) /\
         (forall r0 : row,
          In r0 (get_table d "ilis") ->
          col "ilis" "id" r0 = CText i ->
          exists r : row,
            In r (get_table d' "ilis") /\
            col "ilis" "id" r = CText i /\
            rowid_of r = rowid_of r0 /\ col "ilis" "metadata" r = col "ilis" "metadata" r0).
Proof. exact (@add_ili_listed). Qed.
Print Assumptions C19_add_ili_listed.

(* ---- every other ILI row is unchanged; new rows are appended only for listed ids that were absent, with fresh rowids *)
Theorem C19_add_ili_unlisted :
  forall (d : db) (lines : list (list str)) (d' : db) (infos : list (list (val * str))),
         ilis_ok (get_table d "ilis") = true ->
         add_ili d lines = Ok d' ->
         ili_load lines = Ok infos ->
         exists (f : row -> row) (news : table),
           get_table d' "ilis" = (map f (get_table d "ilis") ++ news)%list /\
           (forall (r : row) (j : nat),
            j <> col_index "ilis" "status_rowid" ->
            j <> col_index "ilis" "definition" -> cell_at j (f r) = cell_at j r) /\
           (forall r : row,
            rowid_of (f r) = rowid_of r /\ Datatypes.length (f r) = Datatypes.length r) /\
           (forall r : row,
            (forall (info : list (val * str)) (i : str),
             In info infos -> dict_get info (vs "ili") = Some i -> col "ilis" "id" r <> CText i) ->
            f r = r) /\
           (forall r : row,
            In r news ->
            exists (info : list (val * str)) (i : str),
              In info infos /\
              dict_get info (vs "ili") = Some i /\
              col "ilis" "id" r = CText i /\
              (forall r0 : row,
               In r0 (get_table d "ilis") ->
               col "ilis" "id" r0 <> CText i /\ rowid_of r0 < rowid_of r)).
Proof. exact (@add_ili_unlisted). Qed.
Print Assumptions C19_add_ili_unlisted.

(* ---- loading the same index again changes nothing (exact database equality) *)
Theorem C19_add_ili_idempotent :
  forall (d : db) (lines : list (list str)) (d' : db),
         ilis_ok (get_table d "ilis") = true -> add_ili d lines = Ok d' -> add_ili d' lines = Ok d'.
Proof. exact (@add_ili_idempotent). Qed.
Print Assumptions C19_add_ili_idempotent.

(* ---- statuses: old rows kept as a prefix, every status of the file present afterwards, nothing else added *)
Theorem C19_add_ili_statuses_grow :
  forall (d : db) (lines : list (list str)) (d' : db) (infos : list (list (val * str))),
         add_ili d lines = Ok d' ->
         ili_load lines = Ok infos ->
         exists (ns : list str) (rows : list row),
           get_table d' "ili_statuses" = (get_table d "ili_statuses" ++ rows)%list /\
           map (col "ili_statuses" "status") rows = map CText ns /\
           subseq ns (file_statuses infos) /\
           Sorted.StronglySorted str_lt (file_statuses infos) /\
           (forall s : str, In s ns -> has_status (get_table d "ili_statuses") s = false) /\
           (forall info : list (val * str),
            In info infos -> has_status (get_table d' "ili_statuses") (status_of info) = true).
Proof. exact (@add_ili_statuses_grow). Qed.
Print Assumptions C19_add_ili_statuses_grow.

(* ---- the well-formedness predicate is preserved and makes the row of an id unique *)
Theorem C19_add_ili_ilis_ok :
  forall (d : db) (lines : list (list str)) (d' : db),
         ilis_ok (get_table d "ilis") = true ->
         add_ili d lines = Ok d' -> ilis_ok (get_table d' "ilis") = true.
Proof. exact (@add_ili_ilis_ok). Qed.
Print Assumptions C19_add_ili_ilis_ok.

Theorem C19_ilis_ok_unique :
  forall (T : table) (r1 r2 : row) (i : str),
         ilis_ok T = true ->
         In r1 T ->
         In r2 T -> col "ilis" "id" r1 = CText i -> col "ilis" "id" r2 = CText i -> r1 = r2.
Proof. exact (@ilis_ok_unique). Qed.
Print Assumptions C19_ilis_ok_unique.

(* ---- non-vacuity: a database built by two add_ili calls on the empty database satisfies ilis_ok *)
Theorem C19_ex_db_ilis_ok :
  ilis_ok (get_table ex_db "ilis") = true /\
         Datatypes.length (get_table ex_db "ilis") = 4%nat /\
         Datatypes.length (get_table ex_db "ili_statuses") = 3%nat.
Proof. exact (@ex_db_ilis_ok). Qed.
Print Assumptions C19_ex_db_ilis_ok.

Require Import WnV.Proofs.AddContent WnV.Proofs.AddRemove WnV.Proofs.IliLinks.

(* ---- which synsets carry which ILI stays the same: the synsets table is untouched, and every ILI row a synset points to still exists with the same rowid, id and metadata (no other row has that rowid); proposed ILIs and every content table of every lexicon are unchanged *)
Theorem C19_synset_keeps_ili :
  forall (d : db) (lines : list (list str)) (d' : db),
         ilis_ok (get_table d "ilis") = true ->
         add_ili d lines = Ok d' ->
         forall r : row,
         In r (get_table d "synsets") ->
         In r (get_table d' "synsets") /\
         (forall (k : Z) (i : str),
          col "synsets" "ili_rowid" r = CInt k ->
          (exists ir : row,
             In ir (get_table d "ilis") /\ rowid_of ir = k /\ col "ilis" "id" ir = CText i) ->
          (exists ir' : row,
             In ir' (get_table d' "ilis") /\
             rowid_of ir' = k /\
             col "ilis" "id" ir' = CText i /\
             col "ilis" "metadata" ir' =
             col "ilis" "metadata"
               match find (fun x : row => (rowid_of x =? k)%Z) (get_table d "ilis") with
               | Some x => x
               | None => []
               end) /\
          (forall ir' : row,
           In ir' (get_table d' "ilis") -> rowid_of ir' = k -> col "ilis" "id" ir' = CText i)).
Proof. exact (@synset_keeps_ili). Qed.
Print Assumptions C19_synset_keeps_ili.

Theorem C19_lexicon_content_unchanged :
  forall (d : db) (lines : list (list str)) (d' : db),
         add_ili d lines = Ok d' ->
         forall t : string, In t content_tables -> get_table d' t = get_table d t.
Proof. exact (@lexicon_content_unchanged). Qed.
Print Assumptions C19_lexicon_content_unchanged.

Theorem C19_proposed_ilis_unchanged :
  forall (d : db) (lines : list (list str)) (d' : db),
         add_ili d lines = Ok d' -> get_table d' "proposed_ilis" = get_table d "proposed_ilis".
Proof. exact (@proposed_ilis_unchanged). Qed.
Print Assumptions C19_proposed_ilis_unchanged.

Theorem C19_other_lookup_tables_unchanged :
  forall (d : db) (lines : list (list str)) (d' : db),
         add_ili d lines = Ok d' ->
         get_table d' "relation_types" = get_table d "relation_types" /\
         get_table d' "lexfiles" = get_table d "lexfiles".
Proof. exact (@other_lookup_tables_unchanged). Qed.
Print Assumptions C19_other_lookup_tables_unchanged.

Theorem C19_ili_tables_are_lookup_tables :
  existsb (String.eqb "ilis") content_tables = false /\
         existsb (String.eqb "ili_statuses") content_tables = false /\
         existsb (String.eqb "proposed_ilis") content_tables = true.
Proof. exact (@ili_tables_are_lookup_tables). Qed.
Print Assumptions C19_ili_tables_are_lookup_tables.

Theorem C19_ex_ili_links :
  ilis_ok (get_table ex_db2 "ilis") = true /\
         match add_ili ex_db2 ex_lines3 with
         | Ok d' =>
             map (col "synsets" "ili_rowid") (get_table ex_db2 "synsets") = [CInt 1; CInt 1] /\
             get_table d' "synsets" = get_table ex_db2 "synsets" /\
             hd [] (get_table ex_db2 "ilis") =
             [CInt 1; CText (k "i1"); CInt 2; CText (k "changed"); CNull] /\
             hd [] (get_table d' "ilis") =
             [CInt 1; CText (k "i1"); CInt 4; CText (k "a new definition"); CNull] /\
             map (fun r : row => (rowid_of r, col "ili_statuses" "status" r))
               (get_table d' "ili_statuses") =
             [(1, CText (k "active")); (2, CText (k "deprecated")); (3, CText (k "weird"));
              (4, CText (k "retired"))] /\
             Datatypes.length (get_table d' "ilis") = 5%nat /\
             forallb
               (fun t : string =>
                sx_eqb (sx_of_db [(tn t, get_table d' t)]) (sx_of_db [(tn t, get_table ex_db2 t)]))
               content_tables = true
         | _ => False
         end.
Proof. exact (@ex_ili_links). Qed.
Print Assumptions C19_ex_ili_links.

Require Import WnV.Model.IliFile WnV.Proofs.IliFileProofs.
(* ---- the text layer of wn._ili.load (Model/IliFile.v: universal newlines, rstrip of the line end, split at tabs): rows written one per line with tab-separated fields are read back as exactly those rows, for LF, CR LF and lone CR line ends, with or without a final line end; nothing but code points 9, 10 and 13 separates anything, so a definition may contain U+2028, U+2029, U+0085, form feed, vertical tab and the C0 separators (at which str.splitlines() would cut it); add_ili_text (the whole of wn.add for an ILI file, from the decoded text) is add_ili of the rows *)
Theorem C19_split_tab_join :
  forall fs : list str,
         fs <> [] -> Forall (fun f : list Z => ~ In 9 f) fs -> split_tab (join_tab fs) = fs.
Proof. exact (@split_tab_join). Qed.
Print Assumptions C19_split_tab_join.

Theorem C19_file_lines_render_eol :
  forall e : str,
         eol e ->
         forall ls : list str,
         Forall line_ok ls -> map rstrip_crlf (file_lines (render_lines e ls)) = ls.
Proof. exact (@file_lines_render_eol). Qed.
Print Assumptions C19_file_lines_render_eol.

Theorem C19_file_lines_render_eol_nofinal :
  forall e : str,
         eol e ->
         forall (ls : list str) (last : str),
         Forall line_ok ls ->
         line_ok last ->
         last <> [] ->
         map rstrip_crlf (file_lines (render_lines e ls ++ last)%list) = (ls ++ [last])%list.
Proof. exact (@file_lines_render_eol_nofinal). Qed.
Print Assumptions C19_file_lines_render_eol_nofinal.

Theorem C19_ili_file_lines_render_eol :
  forall e : str,
         eol e ->
         forall rows : list (list str),
         Forall (fun row : list str => row <> [] /\ Forall field_ok row) rows ->
         ili_file_lines (render_with e rows) = rows.
Proof. exact (@ili_file_lines_render_eol). Qed.
Print Assumptions C19_ili_file_lines_render_eol.

Theorem C19_ili_file_lines_render :
  forall rows : list (list str),
         Forall
           (fun row : list (list Z) =>
            row <> [] /\ Forall (fun f : list Z => ~ In 9 f /\ ~ In 10 f /\ ~ In 13 f) row) rows ->
         ili_file_lines (render rows) = rows.
Proof. exact (@ili_file_lines_render). Qed.
Print Assumptions C19_ili_file_lines_render.

Theorem C19_add_ili_text_render :
  forall (d : db) (rows : list (list str)),
         Forall
           (fun row : list (list Z) =>
            row <> [] /\ Forall (fun f : list Z => ~ In 9 f /\ ~ In 10 f /\ ~ In 13 f) row) rows ->
         add_ili_text d (render rows) = add_ili d rows.
Proof. exact (@add_ili_text_render). Qed.
Print Assumptions C19_add_ili_text_render.

Theorem C19_ili_file_lines_nil :
  ili_file_lines [] = [].
Proof. exact (@ili_file_lines_nil). Qed.
Print Assumptions C19_ili_file_lines_nil.

Theorem C19_add_ili_text_nil :
  forall d : db, add_ili_text d [] = OtherError.
Proof. exact (@add_ili_text_nil). Qed.
Print Assumptions C19_add_ili_text_nil.

Theorem C19_just_newline :
  ili_file_lines [10] = [[[]]].
Proof. exact (@just_newline). Qed.
Print Assumptions C19_just_newline.

Theorem C19_other_separators_kept :
  ili_file_lines (render [other_seps_row]) = [other_seps_row] /\
         file_lines (render [other_seps_row]) = [(join_tab other_seps_row ++ [10])%list].
Proof. exact (@other_separators_kept). Qed.
Print Assumptions C19_other_separators_kept.

Theorem C19_crlf_and_cr :
  let text :=
           [105; 108; 105; 9; 115; 116; 97; 116; 117; 115; 13; 10; 105; 49; 9; 97; 99; 116; 105; 118;
            101; 13; 105; 50; 9] in
         file_lines text =
         [[105; 108; 105; 9; 115; 116; 97; 116; 117; 115; 10];
          [105; 49; 9; 97; 99; 116; 105; 118; 101; 10]; [105; 50; 9]] /\
         ili_file_lines text =
         [[[105; 108; 105]; [115; 116; 97; 116; 117; 115]];
          [[105; 49]; [97; 99; 116; 105; 118; 101]]; [[105; 50]; []]].
Proof. exact (@crlf_and_cr). Qed.
Print Assumptions C19_crlf_and_cr.

Theorem C19_python_agreement :
  file_lines [97; 13; 13; 10; 10; 13] = [[97; 10]; [10]; [10]; [10]] /\
         file_lines [97; 10; 13; 98] = [[97; 10]; [10]; [98]] /\
         file_lines [13] = [[10]] /\
         rstrip_crlf [97; 10; 13; 10] = [97] /\
         rstrip_crlf [13; 97; 10; 98] = [13; 97; 10; 98] /\
         split_tab [97; 9; 9; 98; 9] = [[97]; []; [98]; []] /\ split_tab [] = [[]].
Proof. exact (@python_agreement). Qed.
Print Assumptions C19_python_agreement.
