(* Properties/C19.v — loading an ILI index only updates status and definitions (model: Add.add_ili written from wn/_add.py _add_ili;
   the file-format recogniser is_ili is part of Model/Project.v, Properties/C07.v).
   [ilis_ok] (Proofs/AddProofs.v): every ilis row is [rowid; id; status; definition; metadata] with distinct rowids and ids.
   Statements only: every theorem is closed by `exact` of a lemma proved under Proofs/, followed by
   Print Assumptions.  (Statement texts were printed by Coq from the proved lemmas by harness/mkprops.py and are
   fixed from then on.) *)
From Coq Require Import String.
From Coq Require Import ZArith List Bool.
Import ListNotations.
Require Import WnV.Base.Sx WnV.Gen.Schema WnV.Gen.Constants WnV.Model.Spec WnV.Model.Val.
Require Import WnV.Model.Rel WnV.Model.Add WnV.Proofs.AddProofs.
Local Open Scope Z_scope.
Local Open Scope string_scope.

(* ---- nothing but the ilis and ili_statuses tables is touched: no lexicon content changes *)
Theorem C19_add_ili_touches_only_ili_tables :
  forall (d : db) (lines : list (list str)) (d' : db),
         add_ili d lines = Ok d' ->
         forall t : string, t <> "ilis" -> t <> "ili_statuses" -> get_table d' t = get_table d t.
Proof. exact (@add_ili_touches_only_ili_tables). Qed.
Print Assumptions C19_add_ili_touches_only_ili_tables.

(* ---- an ILI listed in the file ends with the status and definition of its LAST line (NULL definition when the field is missing), keeping its rowid and metadata *)
Theorem C19_add_ili_listed :
  forall (d : db) (lines : list (list str)) (d' : db) (infos pre : list (list (val * str)))
           (info : list (val * str)) (post : list (list (val * str))) (i : str),
         ilis_ok (get_table d "ilis") = true ->
         add_ili d lines = Ok d' ->
         ili_load lines = Ok infos ->
         infos = (pre ++ info :: post)%list ->
         dict_get info (vs "ili") = Some i ->
         (forall x : list (val * str), In x post -> dict_get x (vs "ili") <> Some i) ->
         (exists r : row, In r (get_table d' "ilis") /\ col "ilis" "id" r = CText i) /\
         (forall r : row,
          In r (get_table d' "ilis") ->
          col "ilis" "id" r = CText i ->
          col "ilis" "status_rowid" r = ILISTAT_QUERY d' (CText (status_of info)) /\
          (exists n : Z, col "ilis" "status_rowid" r = CInt n) /\
          col "ilis" "definition" r = def_cell info) /\
         (forall r0 : row,
          In r0 (get_table d "ilis") ->
          col "ilis" "id" r0 = CText i ->
          exists r : row,
            In r (get_table d' "ilis") /\
            col "ilis" "id" r = CText i /\
            rowid_of r = rowid_of r0 /\ col "ilis" "metadata" r = col "ilis" "metadata" r0).
Proof. exact (@add_ili_listed). Qed.
Print Assumptions C19_add_ili_listed.

(* ---- every other ILI row is unchanged; new rows are appended only for listed ids that were absent, with fresh rowids *)
Theorem C19_add_ili_unlisted :
  forall (d : db) (lines : list (list str)) (d' : db) (infos : list (list (val * str))),
         ilis_ok (get_table d "ilis") = true ->
         add_ili d lines = Ok d' ->
         ili_load lines = Ok infos ->
         exists (f : row -> row) (news : table),
           get_table d' "ilis" = (map f (get_table d "ilis") ++ news)%list /\
           (forall (r : row) (j : nat),
            j <> col_index "ilis" "status_rowid" ->
            j <> col_index "ilis" "definition" -> cell_at j (f r) = cell_at j r) /\
           (forall r : row,
            rowid_of (f r) = rowid_of r /\ Datatypes.length (f r) = Datatypes.length r) /\
           (forall r : row,
            (forall (info : list (val * str)) (i : str),
             In info infos -> dict_get info (vs "ili") = Some i -> col "ilis" "id" r <> CText i) ->
            f r = r) /\
           (forall r : row,
            In r news ->
            exists (info : list (val * str)) (i : str),
              In info infos /\
              dict_get info (vs "ili") = Some i /\
              col "ilis" "id" r = CText i /\
              (forall r0 : row,
               In r0 (get_table d "ilis") ->
               col "ilis" "id" r0 <> CText i /\ rowid_of r0 < rowid_of r)).
Proof. exact (@add_ili_unlisted). Qed.
Print Assumptions C19_add_ili_unlisted.

(* ---- loading the same index again changes nothing (exact database equality) *)
Theorem C19_add_ili_idempotent :
  forall (d : db) (lines : list (list str)) (d' : db),
         ilis_ok (get_table d "ilis") = true -> add_ili d lines = Ok d' -> add_ili d' lines = Ok d'.
Proof. exact (@add_ili_idempotent). Qed.
Print Assumptions C19_add_ili_idempotent.

(* ---- statuses: old rows kept as a prefix, every status of the file present afterwards, nothing else added *)
Theorem C19_add_ili_statuses_grow :
  forall (d : db) (lines : list (list str)) (d' : db) (infos : list (list (val * str))),
         add_ili d lines = Ok d' ->
         ili_load lines = Ok infos ->
         exists (ns : list str) (rows : list row),
           get_table d' "ili_statuses" = (get_table d "ili_statuses" ++ rows)%list /\
           map (col "ili_statuses" "status") rows = map CText ns /\
           subseq ns (file_statuses infos) /\
           Sorted.StronglySorted str_lt (file_statuses infos) /\
           (forall s : str, In s ns -> has_status (get_table d "ili_statuses") s = false) /\
           (forall info : list (val * str),
            In info infos -> has_status (get_table d' "ili_statuses") (status_of info) = true).
Proof. exact (@add_ili_statuses_grow). Qed.
Print Assumptions C19_add_ili_statuses_grow.

(* ---- the well-formedness predicate is preserved and makes the row of an id unique *)
Theorem C19_add_ili_ilis_ok :
  forall (d : db) (lines : list (list str)) (d' : db),
         ilis_ok (get_table d "ilis") = true ->
         add_ili d lines = Ok d' -> ilis_ok (get_table d' "ilis") = true.
Proof. exact (@add_ili_ilis_ok). Qed.
Print Assumptions C19_add_ili_ilis_ok.

Theorem C19_ilis_ok_unique :
  forall (T : table) (r1 r2 : row) (i : str),
         ilis_ok T = true ->
         In r1 T ->
         In r2 T -> col "ilis" "id" r1 = CText i -> col "ilis" "id" r2 = CText i -> r1 = r2.
Proof. exact (@ilis_ok_unique). Qed.
Print Assumptions C19_ilis_ok_unique.

(* ---- non-vacuity: a database built by two add_ili calls on the empty database satisfies ilis_ok *)
Theorem C19_ex_db_ilis_ok :
  ilis_ok (get_table ex_db "ilis") = true /\
         Datatypes.length (get_table ex_db "ilis") = 4%nat /\
         Datatypes.length (get_table ex_db "ili_statuses") = 3%nat.
Proof. exact (@ex_db_ilis_ok). Qed.
Print Assumptions C19_ex_db_ilis_ok.

