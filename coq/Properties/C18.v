(* Properties/C18.v — placeholder until the proofs are assembled. *)
From Coq Require Import String.
From Coq Require Import ZArith List.
Import ListNotations.
Require Import WnV.Base.Sx WnV.Model.Validate.
Example C18_model_runs :
  match validate {| l_id := str_of_string "x"; l_entries := []; l_synsets := []; l_frame_ids := []; l_extends := false |}
                 [str_of_string "E"] with
  | Some rep => map fst rep = ["E101"; "E204"; "E401"]%string
  | None => False
  end.
Proof. vm_compute. reflexivity. Qed.
Print Assumptions C18_model_runs.
