(* Properties/C18.v — the validator always produces a report and each check is exact.
   Statements only; proofs in Proofs/ValidateProofs.v; the declarative conditions are in
   Proofs/ValidateSpec.v (occurrence counts, "is a sense/synset id", the relation triples of W404). *)
From Coq Require Import String.
From Coq Require Import ZArith List Bool.
Import ListNotations.
Require Import WnV.Base.Sx WnV.Gen.Constants WnV.Gen.ValidateTable WnV.Model.Validate
        WnV.Proofs.ValidateSpec WnV.Proofs.ValidateProofs.
Local Open Scope Z_scope.

(* ---- the report ---- *)
Theorem C18_validate_total : forall lex sel, validate lex sel <> None.
Proof. exact validate_total. Qed.
Print Assumptions C18_validate_total.

Theorem C18_validate_selected : forall lex sel rep,
    l_extends lex = false -> validate lex sel = Some rep ->
    map fst rep = filter (selected sel) (map (fun c => fst (fst c)) VALIDATE_CODES).
Proof. exact validate_selected. Qed.
Print Assumptions C18_validate_selected.

Theorem C18_validate_items : forall lex sel rep code its,
    validate lex sel = Some rep -> In (code, its) rep ->
    exists fname doc f, In (code, fname, doc) VALIDATE_CODES /\ check_of_name fname = Some f /\ its = f lex.
Proof. exact validate_items. Qed.
Print Assumptions C18_validate_items.

Theorem C18_validate_extension : forall lex sel, l_extends lex = true -> validate lex sel = Some [].
Proof. exact validate_extension. Qed.
Print Assumptions C18_validate_extension.


(* ---- each check lists exactly the entities that satisfy its condition ---- *)
Theorem C18_E101_exact : forall lex k c,
    In (k, c) (non_unique_id lex) <->
    ((1 < occ k (all_ids lex))%nat /\ c = [(f_count, A (Z.of_nat (occ k (all_ids lex))))]).
Proof. exact E101_exact. Qed.
Print Assumptions C18_E101_exact.

Theorem C18_W201_exact : forall lex k,
    In k (keys (has_no_senses lex)) <-> exists e, In e (l_entries lex) /\ e_senses e = [] /\ k = K (e_id e).
Proof. exact W201_exact. Qed.
Print Assumptions C18_W201_exact.

Theorem C18_W202_exact : forall lex k,
    In k (keys (redundant_sense lex)) <->
    exists e s, In e (l_entries lex) /\ In s (e_senses e) /\ k = K (s_id s)
                /\ (1 < occ (K (s_synset s)) (map (fun s' => K (s_synset s')) (e_senses e)))%nat.
Proof. exact W202_exact. Qed.
Print Assumptions C18_W202_exact.

Theorem C18_W203_exact : forall lex k,
    In k (keys (redundant_entry lex)) <->
    exists e s, In (e, s) (all_senses lex) /\ k = K (e_lemma e)
                /\ (1 < occ (L [K (e_lemma e); K (s_synset s)])
                            (map (fun es => L [K (e_lemma (fst es)); K (s_synset (snd es))]) (all_senses lex)))%nat.
Proof. exact W203_exact. Qed.
Print Assumptions C18_W203_exact.

Theorem C18_E204_exact : forall lex k,
    In k (keys (missing_synset lex)) <->
    exists e s, In (e, s) (all_senses lex) /\ k = K (s_id s) /\ ~ is_synset_id lex (s_synset s).
Proof. exact E204_exact. Qed.
Print Assumptions C18_E204_exact.

Theorem C18_W301_exact : forall lex k,
    In k (keys (empty_synset lex)) <->
    exists ss, In ss (l_synsets lex) /\ k = K (ss_id ss)
               /\ ~ (exists e s, In (e, s) (all_senses lex) /\ s_synset s = ss_id ss).
Proof. exact W301_exact. Qed.
Print Assumptions C18_W301_exact.

Theorem C18_W302_exact : forall lex k,
    In k (keys (repeated_ili lex)) <->
    exists ss, In ss (l_synsets lex) /\ k = K (ss_id ss)
               /\ (1 < occ (K (ss_ili ss)) (map (fun x => K (ss_ili x)) (filter real_ili (l_synsets lex))))%nat.
Proof. exact W302_exact. Qed.
Print Assumptions C18_W302_exact.

Theorem C18_W303_exact : forall lex k,
    In k (keys (missing_ili_definition lex)) <->
    exists ss, In ss (l_synsets lex) /\ k = K (ss_id ss) /\ ss_ili ss = s_in /\ ss_ilidef ss = false.
Proof. exact W303_exact. Qed.
Print Assumptions C18_W303_exact.

Theorem C18_W304_exact : forall lex k,
    In k (keys (spurious_ili_definition lex)) <->
    exists ss, In ss (l_synsets lex) /\ k = K (ss_id ss) /\ real_ili ss = true /\ ss_ilidef ss = true.
Proof. exact W304_exact. Qed.
Print Assumptions C18_W304_exact.

Theorem C18_blank_spec : forall s, blank s = true <-> forall c, In c s -> is_space c = true.
Proof. exact blank_spec. Qed.
Print Assumptions C18_blank_spec.

Theorem C18_W305_exact : forall lex k,
    In k (keys (blank_synset_definition lex)) <->
    exists ss d, In ss (l_synsets lex) /\ k = K (ss_id ss) /\ In d (ss_defs ss) /\ blank d = true.
Proof. exact W305_exact. Qed.
Print Assumptions C18_W305_exact.

Theorem C18_W306_exact : forall lex k,
    In k (keys (blank_synset_example lex)) <->
    exists ss d, In ss (l_synsets lex) /\ k = K (ss_id ss) /\ In d (ss_exs ss) /\ blank d = true.
Proof. exact W306_exact. Qed.
Print Assumptions C18_W306_exact.

Theorem C18_W307_exact : forall lex k,
    In k (keys (repeated_synset_definition lex)) <->
    exists ss d, In ss (l_synsets lex) /\ k = K (ss_id ss) /\ In d (ss_defs ss)
                 /\ (1 < occ (K d) (map K (flat_map ss_defs (l_synsets lex))))%nat.
Proof. exact W307_exact. Qed.
Print Assumptions C18_W307_exact.

Theorem C18_E401_exact : forall lex k,
    In k (keys (missing_relation_target lex)) <->
    (exists s r, In (s, r) (sense_relations lex) /\ k = K (s_id s)
                 /\ ~ is_sense_id lex (r_target r) /\ ~ is_synset_id lex (r_target r))
    \/ (exists ss r, In (ss, r) (synset_relations lex) /\ k = K (ss_id ss) /\ ~ is_synset_id lex (r_target r)).
Proof. exact E401_exact. Qed.
Print Assumptions C18_E401_exact.

Theorem C18_W402_exact : forall lex k,
    In k (keys (invalid_relation_type lex)) <->
    (exists s r, In (s, r) (sense_relations lex) /\ k = K (s_id s)
                 /\ ((is_sense_id lex (r_target r) /\ smem (r_type r) SENSE_RELATIONS = false)
                     \/ (is_synset_id lex (r_target r) /\ smem (r_type r) SENSE_SYNSET_RELATIONS = false)))
    \/ (exists ss r, In (ss, r) (synset_relations lex) /\ k = K (ss_id ss)
                     /\ smem (r_type r) SYNSET_RELATIONS = false).
Proof. exact W402_exact. Qed.
Print Assumptions C18_W402_exact.

Theorem C18_W403_exact : forall lex k,
    In k (keys (redundant_relation lex)) <->
    exists rk, In rk (all_rel_keys lex) /\ k = sx_nth 0 rk /\ (1 < occ rk (all_rel_keys lex))%nat.
Proof. exact W403_exact. Qed.
Print Assumptions C18_W403_exact.

Theorem C18_W404_exact : forall lex k,
    In k (keys (missing_reverse_relation lex)) <->
    exists src typ rv tgt, k = K tgt /\ regular lex src typ tgt /\ reverse_of typ = Some rv
                           /\ ~ regular lex tgt rv src.
Proof. exact W404_exact. Qed.
Print Assumptions C18_W404_exact.

Theorem C18_W501_exact : forall lex k,
    In k (keys (hypernym_wrong_pos lex)) <->
    exists ss r p, In (ss, r) (synset_relations lex) /\ k = K (ss_id ss) /\ r_type r = s_hypernym
                   /\ sspos lex (r_target r) = Some p /\ ss_pos ss <> p.
Proof. exact W501_exact. Qed.
Print Assumptions C18_W501_exact.

Theorem C18_W502_exact : forall lex k,
    In k (keys (self_loop lex)) <->
    (exists s r, In (s, r) (sense_relations lex) /\ k = K (s_id s) /\ s_id s = r_target r)
    \/ (exists ss r, In (ss, r) (synset_relations lex) /\ k = K (ss_id ss) /\ ss_id ss = r_target r).
Proof. exact W502_exact. Qed.
Print Assumptions C18_W502_exact.

(* the reverse-relation table is an involution *)
Theorem C18_reverse_involution : forall a b, reverse_of a = Some b -> reverse_of b = Some a.
Proof. exact reverse_involution. Qed.
Print Assumptions C18_reverse_involution.

(* every context value reported for a key comes from some entity with that key (no invented contexts) *)
Theorem C18_dict_of_sound : forall l k v, In (k, v) (dict_of l) -> In (k, v) l.
Proof. exact dict_of_sound. Qed.
Print Assumptions C18_dict_of_sound.

(* the table binds every documented code to its check, in the documented order (Gen/ValidateTable.v) *)
Example C18_table_matches :
  map (fun c : string * string * string => (fst (fst c), snd (fst c))) VALIDATE_CODES =
  [("E101", "_non_unique_id"); ("W201", "_has_no_senses"); ("W202", "_redundant_sense"); ("W203", "_redundant_entry");
   ("E204", "_missing_synset"); ("W301", "_empty_synset"); ("W302", "_repeated_ili"); ("W303", "_missing_ili_definition");
   ("W304", "_spurious_ili_definition"); ("W305", "_blank_synset_definition"); ("W306", "_blank_synset_example");
   ("W307", "_repeated_synset_definition"); ("E401", "_missing_relation_target"); ("W402", "_invalid_relation_type");
   ("W403", "_redundant_relation"); ("W404", "_missing_reverse_relation"); ("W501", "_hypernym_wrong_pos");
   ("W502", "_self_loop")]%string.
Proof. vm_compute. reflexivity. Qed.
Print Assumptions C18_table_matches.

(* non-vacuity: a lexicon with a dangling hypernym: E401 reports it, W501 stays silent, no exception *)
Example C18_nonvacuous :
  let ss := {| ss_id := str_of_string "x-1"; ss_ili := []; ss_pos := Some (str_of_string "n"); ss_ilidef := false;
               ss_defs := []; ss_exs := [];
               ss_rels := [ {| r_target := str_of_string "x-missing"; r_type := s_hypernym; r_dctype := None |} ] |} in
  let lex := {| l_id := str_of_string "x"; l_entries := []; l_synsets := [ss]; l_frame_ids := []; l_extends := false |} in
  keys (missing_relation_target lex) = [K (str_of_string "x-1")] /\ hypernym_wrong_pos lex = []
  /\ validate lex [str_of_string "E"; str_of_string "W"] <> None.
Proof. vm_compute. repeat split; try reflexivity. discriminate. Qed.
Print Assumptions C18_nonvacuous.
