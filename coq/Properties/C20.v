(* Properties/C20.v — invalid WN-LMF is rejected as a whole (model: Model/Lmf.v written from wn/lmf.py: read_header, the expat handlers
   driven by the per-version element tables regenerated from the source into Gen/LmfTables.v, and the _validate functions).
   [has_unknown version t] = the tree contains an element that the DTD of that version does not allow at that place;
   [has_dup_single version t] = a child that may occur once occurs twice; [missing_id t] = an element that needs an id has none.
   That a rejected document leaves the database unchanged is C06 (the add is one transaction) together with the fact that the
   model's add works on the loaded resource only: load failing means add is never entered.
   Statements only: every theorem is closed by `exact` of a lemma proved under Proofs/, followed by
   Print Assumptions.  (Statement texts were printed by Coq from the proved lemmas by harness/mkprops.py and are
   fixed from then on.) *)
From Coq Require Import String.
From Coq Require Import ZArith List Bool.
Import ListNotations.
Require Import WnV.Base.Sx WnV.Gen.LmfTables WnV.Model.Val WnV.Model.XmlText WnV.Model.Lmf.
Require Import WnV.Proofs.XmlTextProofs WnV.Proofs.LmfProofs.
Local Open Scope Z_scope.

(* ---- the header: accepted exactly when line 1 is the XML declaration and line 2 a DOCTYPE of a supported version; every supported version has an accepted header; otherwise LMFError (or a decoding error) *)
Theorem C20_read_header_spec :
  forall l1 l2 v : str,
         read_header l1 l2 = Ok v <->
         header_line l1 = xmldecl /\
         utf8_valid (header_line l2) = true /\ assoc (header_line l2) doctypes = Some v.
Proof. exact (@read_header_spec). Qed.
Print Assumptions C20_read_header_spec.

Theorem C20_read_header_errors :
  forall (l1 l2 : str) (e : err),
         read_header l1 l2 = Err e ->
         e = ELmf /\ (header_line l1 <> xmldecl \/ assoc (header_line l2) doctypes = None) \/
         e = EOther /\ header_line l1 = xmldecl /\ utf8_valid (header_line l2) = false.
Proof. exact (@read_header_errors). Qed.
Print Assumptions C20_read_header_errors.

Theorem C20_supported_iff :
  forall v : str,
         (exists l1 l2 : str, read_header l1 l2 = Ok v) <-> str_mem v supported_versions = true.
Proof. exact (@supported_iff). Qed.
Print Assumptions C20_supported_iff.

(* ---- structure: an element not allowed by the declared version (including elements of other versions), a repeated single child, or a missing id make load fail, wherever they occur in the document *)
Theorem C20_unknown_element_rejected :
  forall (version : str) (t : xtree),
         has_unknown version t = true -> exists e : err, parse_doc version t = Err e.
Proof. exact (@unknown_element_rejected). Qed.
Print Assumptions C20_unknown_element_rejected.

Theorem C20_unknown_element_load_rejected :
  forall (version : str) (t : xtree),
         has_unknown version t = true -> exists e : err, load_tree version t = Err e.
Proof. exact (@unknown_element_load_rejected). Qed.
Print Assumptions C20_unknown_element_load_rejected.

Theorem C20_duplicate_single_rejected :
  forall (version : str) (t : xtree),
         has_dup_single version t = true -> exists e : err, parse_doc version t = Err e.
Proof. exact (@duplicate_single_rejected). Qed.
Print Assumptions C20_duplicate_single_rejected.

Theorem C20_duplicate_single_load_rejected :
  forall (version : str) (t : xtree),
         has_dup_single version t = true -> exists e : err, load_tree version t = Err e.
Proof. exact (@duplicate_single_load_rejected). Qed.
Print Assumptions C20_duplicate_single_load_rejected.

Theorem C20_missing_id_rejected :
  forall (version : str) (t : xtree),
         missing_id t = true -> exists e : err, load_tree version t = Err e.
Proof. exact (@missing_id_rejected). Qed.
Print Assumptions C20_missing_id_rejected.

Theorem C20_load_rejects_unknown_element :
  forall (l1 l2 : str) (t : xtree),
         (forall version : str, has_unknown version t = true) -> exists e : err, load l1 l2 t = Err e.
Proof. exact (@load_rejects_unknown_element). Qed.
Print Assumptions C20_load_rejects_unknown_element.

Theorem C20_load_rejects_duplicate_single :
  forall (l1 l2 : str) (t : xtree),
         (forall version : str, has_dup_single version t = true) ->
         exists e : err, load l1 l2 t = Err e.
Proof. exact (@load_rejects_duplicate_single). Qed.
Print Assumptions C20_load_rejects_duplicate_single.

Theorem C20_load_rejects_missing_id :
  forall (l1 l2 : str) (t : xtree),
         missing_id t = true -> exists e : err, load l1 l2 t = Err e.
Proof. exact (@load_rejects_missing_id). Qed.
Print Assumptions C20_load_rejects_missing_id.

Theorem C20_load_rejects_for_version :
  forall (l1 l2 : str) (t : xtree) (version : str),
         read_header l1 l2 = Ok version ->
         has_unknown version t = true \/ has_dup_single version t = true \/ missing_id t = true ->
         exists e : err, load l1 l2 t = Err e.
Proof. exact (@load_rejects_for_version). Qed.
Print Assumptions C20_load_rejects_for_version.

(* ---- what dump writes is accepted again: its first two lines are a header of the version it was asked to write *)
Theorem C20_dump_header_accepted :
  forall (version : str) (resource : val) (text : str),
         dump version resource = Ok text ->
         exists line1 line2 rest : list Z,
           text = line1 ++ [c_nl] ++ line2 ++ [c_nl] ++ rest /\
           read_header (line1 ++ [c_nl]) (line2 ++ [c_nl]) = Ok version.
Proof. exact (@dump_header_accepted). Qed.
Print Assumptions C20_dump_header_accepted.

(* ---- non-vacuity: concrete trees with each fault *)
Theorem C20_has_unknown_ex :
  has_unknown (str_of_string "1.0")
           (XNode (str_of_string "LexicalResource") [] []
              [XNode (str_of_string "Lexicon") [] [] [XNode (str_of_string "Requires") [] [] []]]) =
         true.
Proof. exact (@has_unknown_ex). Qed.
Print Assumptions C20_has_unknown_ex.

Theorem C20_has_dup_single_ex :
  has_dup_single (str_of_string "1.1")
           (XNode (str_of_string "LexicalResource") [] []
              [XNode (str_of_string "Lexicon") [] []
                 [XNode (str_of_string "LexicalEntry") [] []
                    [XNode (str_of_string "Lemma") [] [] []; XNode (str_of_string "Sense") [] [] [];
                     XNode (str_of_string "Lemma") [] [] []]]]) = true.
Proof. exact (@has_dup_single_ex). Qed.
Print Assumptions C20_has_dup_single_ex.

Theorem C20_missing_id_ex :
  missing_id
           (XNode (str_of_string "LexicalResource") [] []
              [XNode (str_of_string "Lexicon") [(str_of_string "id", str_of_string "x")] []
                 [XNode (str_of_string "LexicalEntry") [(str_of_string "id", str_of_string "e")] []
                    [XNode (str_of_string "Lemma") [] [] [];
                     XNode (str_of_string "Sense") [(str_of_string "synset", str_of_string "s")] []
                       []]]]) = true.
Proof. exact (@missing_id_ex). Qed.
Print Assumptions C20_missing_id_ex.

