(* Properties/C20.v — placeholder until Model/Lmf.v and its theorems are assembled. *)
From Coq Require Import String.
From Coq Require Import ZArith List.
Import ListNotations.
Require Import WnV.Base.Sx WnV.Gen.LmfTables.
(* the element tables the loader is driven by: every 1.0 element is a 1.1 element *)
Example C20_elements_monotone :
  forallb (fun kv : string * string =>
             existsb (fun kv' : string * string => String.eqb (fst kv) (fst kv'))
                     (match find (fun e => String.eqb (fst e) "1.1") VALID_ELEMS with Some e => snd e | None => [] end))
          (match find (fun e => String.eqb (fst e) "1.0") VALID_ELEMS with Some e => snd e | None => [] end) = true.
Proof. vm_compute. reflexivity. Qed.
Print Assumptions C20_elements_monotone.
