(* Properties/C20.v — invalid WN-LMF is rejected as a whole (model: Model/Lmf.v written from wn/lmf.py: read_header, the expat handlers
   driven by the per-version element tables regenerated from the source into Gen/LmfTables.v, and the _validate functions).
   [has_unknown version t] = the tree contains an element that the DTD of that version does not allow at that place;
   [has_dup_single version t] = a child that may occur once occurs twice; [missing_id t] = an element that needs an id has none.
   That a rejected document leaves the database unchanged is C06 (the add is one transaction) together with the fact that the
   model's add works on the loaded resource only: load failing means add is never entered.
   Statements only: every theorem is closed by `exact` of a lemma proved under Proofs/, followed by
   Print Assumptions.  (Statement texts were printed by Coq from the proved lemmas by harness/mkprops.py and are
   fixed from then on.) *)
From Coq Require Import String.
From Coq Require Import ZArith List Bool.
Import ListNotations.
Require Import WnV.Base.Sx WnV.Gen.LmfTables WnV.Model.Val WnV.Model.XmlText WnV.Model.Lmf.
Require Import WnV.Proofs.XmlTextProofs WnV.Proofs.LmfProofs.
Require Import WnV.Proofs.LmfRequired.
Require Import WnV.Model.Scan WnV.Proofs.ScanProofs.
Local Open Scope Z_scope.

(* ---- the header: accepted exactly when line 1 is the XML declaration and line 2 a DOCTYPE of a supported version; every supported version has an accepted header; otherwise LMFError (or a decoding error) *)
Theorem C20_read_header_spec :
  forall l1 l2 v : str,
         read_header l1 l2 = Ok v <->
         header_line l1 = xmldecl /\
         utf8_valid (header_line l2) = true /\ assoc (header_line l2) doctypes = Some v.
Proof. exact (@read_header_spec). Qed.
Print Assumptions C20_read_header_spec.

Theorem C20_read_header_errors :
  forall (l1 l2 : str) (e : err),
         read_header l1 l2 = Err e ->
         e = ELmf /\ (header_line l1 <> xmldecl \/ assoc (header_line l2) doctypes = None) \/
         e = EOther /\ header_line l1 = xmldecl /\ utf8_valid (header_line l2) = false.
Proof. exact (@read_header_errors). Qed.
Print Assumptions C20_read_header_errors.

Theorem C20_supported_iff :
  forall v : str,
         (exists l1 l2 : str, read_header l1 l2 = Ok v) <-> str_mem v supported_versions = true.
Proof. exact (@supported_iff). Qed.
Print Assumptions C20_supported_iff.

(* ---- structure: an element not allowed by the declared version (including elements of other versions), a repeated single child, or a missing id make load fail, wherever they occur in the document *)
Theorem C20_unknown_element_rejected :
  forall (version : str) (t : xtree),
         has_unknown version t = true -> exists e : err, parse_doc version t = Err e.
Proof. exact (@unknown_element_rejected). Qed.
Print Assumptions C20_unknown_element_rejected.

Theorem C20_unknown_element_load_rejected :
  forall (version : str) (t : xtree),
         has_unknown version t = true -> exists e : err, load_tree version t = Err e.
Proof. exact (@unknown_element_load_rejected). Qed.
Print Assumptions C20_unknown_element_load_rejected.

Theorem C20_duplicate_single_rejected :
  forall (version : str) (t : xtree),
         has_dup_single version t = true -> exists e : err, parse_doc version t = Err e.
Proof. exact (@duplicate_single_rejected). Qed.
Print Assumptions C20_duplicate_single_rejected.

Theorem C20_duplicate_single_load_rejected :
  forall (version : str) (t : xtree),
         has_dup_single version t = true -> exists e : err, load_tree version t = Err e.
Proof. exact (@duplicate_single_load_rejected). Qed.
Print Assumptions C20_duplicate_single_load_rejected.

Theorem C20_missing_id_rejected :
  forall (version : str) (t : xtree),
         missing_id t = true -> exists e : err, load_tree version t = Err e.
Proof. exact (@missing_id_rejected). Qed.
Print Assumptions C20_missing_id_rejected.

Theorem C20_load_rejects_unknown_element :
  forall (l1 l2 : str) (t : xtree),
         (forall version : str, has_unknown version t = true) -> exists e : err, load l1 l2 t = Err e.
Proof. exact (@load_rejects_unknown_element). Qed.
Print Assumptions C20_load_rejects_unknown_element.

Theorem C20_load_rejects_duplicate_single :
  forall (l1 l2 : str) (t : xtree),
         (forall version : str, has_dup_single version t = true) ->
         exists e : err, load l1 l2 t = Err e.
Proof. exact (@load_rejects_duplicate_single). Qed.
Print Assumptions C20_load_rejects_duplicate_single.

Theorem C20_load_rejects_missing_id :
  forall (l1 l2 : str) (t : xtree),
         missing_id t = true -> exists e : err, load l1 l2 t = Err e.
Proof. exact (@load_rejects_missing_id). Qed.
Print Assumptions C20_load_rejects_missing_id.

Theorem C20_load_rejects_for_version :
  forall (l1 l2 : str) (t : xtree) (version : str),
         read_header l1 l2 = Ok version ->
         has_unknown version t = true \/ has_dup_single version t = true \/ missing_id t = true ->
         exists e : err, load l1 l2 t = Err e.
Proof. exact (@load_rejects_for_version). Qed.
Print Assumptions C20_load_rejects_for_version.

(* ---- what dump writes is accepted again: its first two lines are a header of the version it was asked to write *)
Theorem C20_dump_header_accepted :
  forall (version : str) (resource : val) (text : str),
         dump version resource = Ok text ->
         exists line1 line2 rest : list Z,
           text = line1 ++ [c_nl] ++ line2 ++ [c_nl] ++ rest /\
           read_header (line1 ++ [c_nl]) (line2 ++ [c_nl]) = Ok version.
Proof. exact (@dump_header_accepted). Qed.
Print Assumptions C20_dump_header_accepted.

(* ---- non-vacuity: concrete trees with each fault *)
Theorem C20_has_unknown_ex :
  has_unknown (str_of_string "1.0")
           (XNode (str_of_string "LexicalResource") [] []
              [XNode (str_of_string "Lexicon") [] [] [XNode (str_of_string "Requires") [] [] []]]) =
         true.
Proof. exact (@has_unknown_ex). Qed.
Print Assumptions C20_has_unknown_ex.

Theorem C20_has_dup_single_ex :
  has_dup_single (str_of_string "1.1")
           (XNode (str_of_string "LexicalResource") [] []
              [XNode (str_of_string "Lexicon") [] []
                 [XNode (str_of_string "LexicalEntry") [] []
                    [XNode (str_of_string "Lemma") [] [] []; XNode (str_of_string "Sense") [] [] [];
                     XNode (str_of_string "Lemma") [] [] []]]]) = true.
Proof. exact (@has_dup_single_ex). Qed.
Print Assumptions C20_has_dup_single_ex.

Theorem C20_missing_id_ex :
  missing_id
           (XNode (str_of_string "LexicalResource") [] []
              [XNode (str_of_string "Lexicon") [(str_of_string "id", str_of_string "x")] []
                 [XNode (str_of_string "LexicalEntry") [(str_of_string "id", str_of_string "e")] []
                    [XNode (str_of_string "Lemma") [] [] [];
                     XNode (str_of_string "Sense") [(str_of_string "synset", str_of_string "s")] []
                       []]]]) = true.
Proof. exact (@missing_id_ex). Qed.
Print Assumptions C20_missing_id_ex.

(* ---- scan_lexicons (model: Model/Scan.v, hand-written scanners equivalent to the two regular expressions of wn.lmf.scan_lexicons, validated against the implementation on generated, mutated and hand-written edge cases) reports what dump wrote: for every file dump produces, the scan returns exactly the id, version, label and extension base of every lexicon, in order — whatever the other attribute values, texts and metadata contain *)
Theorem C20_scan_dump :
  forall (version : str) (resource : val) (text : str),
         dump version resource = Ok text ->
         exists (ver : list Z) (lexv : val) (lexicons : list val) (specs : list lexspec),
           version_info version = Ok ver /\
           py_item resource (str_of_string "lexicons") = Ok lexv /\
           py_iter lexv = Ok lexicons /\
           Forall2 (spec_of ver) lexicons specs /\
           (Forall ls_encodable specs -> scan_lexicons (utf8_encode text) = Ok (map ls_info specs)).
Proof. exact (@scan_dump). Qed.
Print Assumptions C20_scan_dump.

Theorem C20_scan_dump_single :
  forall (version : str) (resource : val) (text : str),
         dump version resource = Ok text ->
         forall (lexicon : val) (ver : list Z) (lexv : val),
         version_info version = Ok ver ->
         py_item resource (str_of_string "lexicons") = Ok lexv ->
         py_iter lexv = Ok [lexicon] ->
         exists l : lexspec,
           spec_of ver lexicon l /\
           (ls_encodable l -> scan_lexicons (utf8_encode text) = Ok [ls_info l]).
Proof. exact (@scan_dump_single). Qed.
Print Assumptions C20_scan_dump_single.

Theorem C20_scan_document :
  forall (pre : str) (specs : list lexspec) (post : str),
         lt_freew pre = true ->
         Forall ls_wf specs ->
         Forall ls_encodable specs ->
         lt_freew post = true ->
         scan_lexicons (utf8_encode (pre ++ concat (map ls_text specs) ++ post)) =
         Ok (map ls_info specs).
Proof. exact (@scan_document). Qed.
Print Assumptions C20_scan_document.

Theorem C20_dump_inv :
  forall (version : str) (resource : val) (text : str),
         dump version resource = Ok text ->
         exists
           (schema dc_uri : str) (ver : list Z) (lexv : val) (lexicons : list val)
         (specs : list lexspec),
           assoc version schemas = Some schema /\
           assoc version dc_uris = Some dc_uri /\
           In version supported_versions /\
           version_info version = Ok ver /\
           py_item resource (str_of_string "lexicons") = Ok lexv /\
           py_iter lexv = Ok lexicons /\
           Forall ls_wf specs /\
           Forall2 (spec_of ver) lexicons specs /\
           text = dump_header schema dc_uri ++ concat (map ls_text specs) ++ dump_footer.
Proof. exact (@dump_inv). Qed.
Print Assumptions C20_dump_inv.

(* ---- the attribute scanner tokenises a start tag into exactly the written (name, value) pairs and unescaping inverts both escapers, so text inside another attribute value can no longer be mistaken for id/version/label (the defect F21 these proofs uncovered; the old failing inputs are kept as positive examples) *)
Theorem C20_attr_tokens_rem_text :
  forall (l : list rattr) (trailer : list Z),
         forallb rattr_wf l = true ->
         forallb dead trailer = true -> attr_tokens (rem_text l trailer) = map rattr_token l.
Proof. exact (@attr_tokens_rem_text). Qed.
Print Assumptions C20_attr_tokens_rem_text.

Theorem C20_start_tag_scanned :
  forall (t : lextype) (attrib : list (str * str)) (rest : list Z),
         attrib <> [] ->
         forallb (fun kv : str * str => attr_name_ok (fst kv)) attrib = true ->
         let R := utf8_encode (start_tag_rem (lextype_name t) attrib) in
         lex_at
           (utf8_encode (lextype_name t ++ start_tag_rem (lextype_name t) attrib) ++ c_gt :: rest) =
         Some (t, R, rest) /\ attr_tokens R = map q_token attrib.
Proof. exact (@start_tag_scanned). Qed.
Print Assumptions C20_start_tag_scanned.

Theorem C20_lexicon_start_tag_scanned :
  forall (t : lextype) (id label language email license version : str)
           (extra : list (str * str)) (rest : list Z),
         Forall (fun kv : str * str => In (fst kv) extra_names) extra ->
         scalars id = true ->
         scalars label = true ->
         scalars version = true ->
         let attrib := lexicon_attrib id label language email license version extra in
         let R := utf8_encode (start_tag_rem (lextype_name t) attrib) in
         lex_at
           (utf8_encode (lextype_name t ++ start_tag_rem (lextype_name t) attrib) ++ c_gt :: rest) =
         Some (t, R, rest) /\
         attr_tokens R = map q_token attrib /\
         tag_info R =
         Ok {| i_id := id; i_version := version; i_label := Some label; i_extends := None |}.
Proof. exact (@lexicon_start_tag_scanned). Qed.
Print Assumptions C20_lexicon_start_tag_scanned.

Theorem C20_dump_lexicon_start_tag :
  forall (lexicon : val) (version : list Z) (text : str),
         _dump_lexicon lexicon version = Ok text ->
         exists (l : lexspec) (rest : list Z),
           spec_of version lexicon l /\
           text =
           str_of_string "  <" ++
           (lextype_name (ls_type l) ++ start_tag_rem (lextype_name (ls_type l)) (ls_attrib l)) ++
           [c_gt] ++ rest /\
           (scalars (ls_id l) = true ->
            scalars (ls_label l) = true ->
            scalars (ls_version l) = true ->
            forall rest' : str,
            let R := utf8_encode (start_tag_rem (lextype_name (ls_type l)) (ls_attrib l)) in
            lex_at
              (utf8_encode
                 (lextype_name (ls_type l) ++ start_tag_rem (lextype_name (ls_type l)) (ls_attrib l)) ++
               c_gt :: rest') = Some (ls_type l, R, rest') /\
            attr_tokens R = map q_token (ls_attrib l) /\
            tag_info R =
            Ok
              {|
                i_id := ls_id l;
                i_version := ls_version l;
                i_label := Some (ls_label l);
                i_extends := None
              |}).
Proof. exact (@dump_lexicon_start_tag). Qed.
Print Assumptions C20_dump_lexicon_start_tag.

Theorem C20_unescape_quoteattr :
  forall s : str, unescape_attribute (quoteattr_inner s) = Some s.
Proof. exact (@unescape_quoteattr). Qed.
Print Assumptions C20_unescape_quoteattr.

Theorem C20_unescape_escape_attrib :
  forall s : str, unescape_attribute (escape_attrib s) = Some s.
Proof. exact (@unescape_escape_attrib). Qed.
Print Assumptions C20_unescape_escape_attrib.

Theorem C20_utf8_roundtrip :
  forall s : str, scalars s = true -> utf8_decode (utf8_encode s) = Some s.
Proof. exact (@utf8_roundtrip). Qed.
Print Assumptions C20_utf8_roundtrip.

Theorem C20_start_tag_old_witness :
  let attrib :=
           lexicon_attrib (str_of_string "a") (str_of_string "x") (str_of_string "en")
             (str_of_string "e") (str_of_string "l") (str_of_string "1")
             [(str_of_string "url", str_of_string "see version=""2"" there")] in
         tag_info (utf8_encode (start_tag_rem (str_of_string "Lexicon") attrib)) =
         Ok
           {|
             i_id := str_of_string "a";
             i_version := str_of_string "1";
             i_label := Some (str_of_string "x");
             i_extends := None
           |} /\
         attr_tokens (utf8_encode (start_tag_rem (str_of_string "Lexicon") attrib)) =
         [(str_of_string "id", str_of_string "a"); (str_of_string "label", str_of_string "x");
          (str_of_string "language", str_of_string "en"); (str_of_string "email", str_of_string "e");
          (str_of_string "license", str_of_string "l"); (str_of_string "version", str_of_string "1");
          (str_of_string "url", str_of_string "see version=""2"" there")].
Proof. exact (@start_tag_old_witness). Qed.
Print Assumptions C20_start_tag_old_witness.

Theorem C20_extends_old_witness :
  tag_info
           (item_rem
              (extends_item (str_of_string "b") (str_of_string "2")
                 [(str_of_string "url", str_of_string "id='evil'")])) =
         Ok
           {|
             i_id := str_of_string "b";
             i_version := str_of_string "2";
             i_label := None;
             i_extends := None
           |}.
Proof. exact (@extends_old_witness). Qed.
Print Assumptions C20_extends_old_witness.

Theorem C20_scan_dump_old_witness :
  match
           dump (str_of_string "1.1")
             (VDict
                [(str_of_string "lexicons", VList [ex_lexicon "base" "Base" "version=""evil""" VNone])])
         with
         | Ok text => scan_lexicons (utf8_encode text)
         | Err e => Err e
         end =
         Ok
           [{|
              i_id := str_of_string "base";
              i_version := str_of_string "1.0";
              i_label := Some (str_of_string "Base");
              i_extends := None
            |}].
Proof. exact (@scan_dump_old_witness). Qed.
Print Assumptions C20_scan_dump_old_witness.

Theorem C20_name_boundary_example :
  attr_matches
           (str_of_string
              " id=""a"" xml:id=""b"" xid=""c"" my-version=""2"" dc:identifier=""d"" version='1'") =
         [(NId, str_of_string "a"); (NVersion, str_of_string "1")].
Proof. exact (@name_boundary_example). Qed.
Print Assumptions C20_name_boundary_example.

(* ---- comments and CDATA sections contribute nothing (F21b); dump never writes any; the side condition of the skipping lemma is needed (witnesses) *)
Theorem C20_comment_skipped :
  forall (pre c : str) (post : list Z),
         lex_closed pre ->
         substrb (str_of_string "-->") c = false ->
         lex_matches (pre ++ str_of_string "<!--" ++ c ++ str_of_string "-->" ++ post) =
         lex_matches (pre ++ post) /\
         scan_lexicons (pre ++ str_of_string "<!--" ++ c ++ str_of_string "-->" ++ post) =
         scan_lexicons (pre ++ post).
Proof. exact (@comment_skipped). Qed.
Print Assumptions C20_comment_skipped.

Theorem C20_cdata_skipped :
  forall (pre c : str) (post : list Z),
         lex_closed pre ->
         substrb (str_of_string "]]>") c = false ->
         lex_matches (pre ++ str_of_string "<![CDATA[" ++ c ++ str_of_string "]]>" ++ post) =
         lex_matches (pre ++ post) /\
         scan_lexicons (pre ++ str_of_string "<![CDATA[" ++ c ++ str_of_string "]]>" ++ post) =
         scan_lexicons (pre ++ post).
Proof. exact (@cdata_skipped). Qed.
Print Assumptions C20_cdata_skipped.

Theorem C20_scan_document_with_comment :
  forall (pre : str) (specs1 : list lexspec) (c : str) (specs2 : list lexspec) (post : str),
         lt_freew pre = true ->
         Forall ls_wf specs1 ->
         Forall ls_encodable specs1 ->
         Forall ls_wf specs2 ->
         Forall ls_encodable specs2 ->
         lt_freew post = true ->
         substrb (str_of_string "-->") c = false ->
         scan_lexicons
           (utf8_encode (pre ++ concat (map ls_text specs1)) ++
            str_of_string "<!--" ++
            c ++ str_of_string "-->" ++ utf8_encode (concat (map ls_text specs2) ++ post)) =
         Ok (map ls_info (specs1 ++ specs2)).
Proof. exact (@scan_document_with_comment). Qed.
Print Assumptions C20_scan_document_with_comment.

Theorem C20_dump_no_sections :
  forall (version : str) (resource : val) (text : str),
         dump version resource = Ok text ->
         (exists (schema : str) (d rest : list Z),
            text = xmldecl ++ [c_nl] ++ (c_lt :: 33 :: d) ++ [c_nl] ++ rest /\
            doctype_of schema = c_lt :: 33 :: d /\
            zin c_lt d = false /\ bang_free (xmldecl ++ [c_nl]) = true /\ bang_free rest = true) /\
         section_free text = true.
Proof. exact (@dump_no_sections). Qed.
Print Assumptions C20_dump_no_sections.

Theorem C20_dump_never_skips :
  forall (version : str) (resource : val) (text : str),
         dump version resource = Ok text ->
         forall a b : list Z, text = a ++ c_lt :: b -> skip_at b = None.
Proof. exact (@dump_never_skips). Qed.
Print Assumptions C20_dump_never_skips.

Theorem C20_comment_not_skipped_witness :
  let pre := str_of_string "<Lexicon id=""a"" version=""1"" note=""" in
         let c := str_of_string """><Lexicon id=""c"" version=""3"" note=""" in
         let post := str_of_string """>" in
         substrb (str_of_string "-->") c = false /\
         scan_lexicons (pre ++ str_of_string "<!--" ++ c ++ str_of_string "-->" ++ post) =
         Ok
           [{|
              i_id := str_of_string "a";
              i_version := str_of_string "1";
              i_label := None;
              i_extends := None
            |};
            {|
              i_id := str_of_string "c";
              i_version := str_of_string "3";
              i_label := None;
              i_extends := None
            |}] /\
         scan_lexicons (pre ++ post) =
         Ok
           [{|
              i_id := str_of_string "a";
              i_version := str_of_string "1";
              i_label := None;
              i_extends := None
            |}].
Proof. exact (@comment_not_skipped_witness). Qed.
Print Assumptions C20_comment_not_skipped_witness.

Theorem C20_comment_not_skipped_witness2 :
  let pre := str_of_string "<!-- " in
         let post := str_of_string "<Lexicon id=""a"" version=""1""> -->" in
         scan_lexicons
           (pre ++ str_of_string "<!--" ++ str_of_string " x " ++ str_of_string "-->" ++ post) =
         Ok
           [{|
              i_id := str_of_string "a";
              i_version := str_of_string "1";
              i_label := None;
              i_extends := None
            |}] /\ scan_lexicons (pre ++ post) = Ok [].
Proof. exact (@comment_not_skipped_witness2). Qed.
Print Assumptions C20_comment_not_skipped_witness2.

(* ---- negative: a Lexicon/LexiconExtension/Extends start tag without id or version never yields a list (KeyError; the LMFError branch of the source is unreachable), an Extends before any lexicon is an LMFError *)
Theorem C20_scan_missing_id_or_version :
  forall (data : str) (t : lextype) (R : str),
         In (t, R) (lex_matches data) ->
         lacks_id_or_version (attr_matches R) -> exists e : err, scan_lexicons data = Err e.
Proof. exact (@scan_missing_id_or_version). Qed.
Print Assumptions C20_scan_missing_id_or_version.

Theorem C20_scan_first_missing_keyerror :
  forall (data : str) (t : lextype) (R : str) (ms : list (lextype * str)),
         lex_matches data = (t, R) :: ms ->
         lacks_id_or_version (attr_matches R) ->
         Forall (fun m : attrname * str => attr_value (snd m) <> None) (attr_matches R) ->
         scan_lexicons data = Err EKey.
Proof. exact (@scan_first_missing_keyerror). Qed.
Print Assumptions C20_scan_first_missing_keyerror.

Theorem C20_tag_info_never_lmferror :
  forall R : str, tag_info R <> Err ELmf.
Proof. exact (@tag_info_never_lmferror). Qed.
Print Assumptions C20_tag_info_never_lmferror.

Theorem C20_scan_extends_first :
  forall (data R : str) (ms : list (lextype * str)) (i : info),
         lex_matches data = (TExtends, R) :: ms -> tag_info R = Ok i -> scan_lexicons data = Err ELmf.
Proof. exact (@scan_extends_first). Qed.
Print Assumptions C20_scan_extends_first.

(* ---- non-vacuity of scan_dump: a lexicon whose label contains quotes, > and a literal <Lexicon ...> *)
Theorem C20_scan_dump_example :
  match dump (str_of_string "1.1") ex_resource with
         | Ok text => scan_lexicons (utf8_encode text)
         | Err e => Err e
         end =
         Ok
           [{|
              i_id := str_of_string "base";
              i_version := str_of_string "1.0";
              i_label := Some (str_of_string "it's ""quoted"" > <Lexicon id='x' version='9'>");
              i_extends := None
            |};
            {|
              i_id := str_of_string "ext";
              i_version := str_of_string "1.0";
              i_label := Some (str_of_string "Extension");
              i_extends := Some (str_of_string "base", str_of_string "1.0")
            |}].
Proof. exact (@scan_dump_example). Qed.
Print Assumptions C20_scan_dump_example.

(* ---- required attributes and children (Proofs/LmfRequired.v): for every assert / conversion of the _validate* functions of wn/lmf.py there is a boolean fault predicate on the document tree (at exactly the positions the validators visit) and a theorem that a document with that fault is rejected, for every version and wherever the fault occurs: R1 the six Lexicon attributes; R2 Lemma / writtenForm / partOfSpeech; R3 synset of a Sense, ili of a Synset; R4 target / relType of relations, id / version of Requires and Extends, subcategorizationFrame, category of a Tag; R5 Count text that int() rejects; R6 External* elements outside an extension, ExternalForm without id, a root that is not LexicalResource.  any_fault is their disjunction together with LmfProofs.missing_id *)
Theorem C20_r1_rejected :
  forall (version : str) (t : xtree),
         r1_fault t = true -> exists e : err, load_tree version t = Err e.
Proof. exact (@r1_rejected). Qed.
Print Assumptions C20_r1_rejected.

Theorem C20_r2_rejected :
  forall (version : str) (t : xtree),
         r2_fault t = true -> exists e : err, load_tree version t = Err e.
Proof. exact (@r2_rejected). Qed.
Print Assumptions C20_r2_rejected.

Theorem C20_r3_rejected :
  forall (version : str) (t : xtree),
         r3_fault t = true -> exists e : err, load_tree version t = Err e.
Proof. exact (@r3_rejected). Qed.
Print Assumptions C20_r3_rejected.

Theorem C20_r4_rejected :
  forall (version : str) (t : xtree),
         r4_fault t = true -> exists e : err, load_tree version t = Err e.
Proof. exact (@r4_rejected). Qed.
Print Assumptions C20_r4_rejected.

Theorem C20_r5_rejected :
  forall (version : str) (t : xtree),
         r5_fault t = true -> exists e : err, load_tree version t = Err e.
Proof. exact (@r5_rejected). Qed.
Print Assumptions C20_r5_rejected.

Theorem C20_r6_xform_rejected :
  forall (version : str) (t : xtree),
         r6_xform_fault t = true -> exists e : err, load_tree version t = Err e.
Proof. exact (@r6_xform_rejected). Qed.
Print Assumptions C20_r6_xform_rejected.

Theorem C20_r6_external_rejected :
  forall (version : str) (t : xtree),
         r6_external_fault t = true -> exists e : err, load_tree version t = Err e.
Proof. exact (@r6_external_rejected). Qed.
Print Assumptions C20_r6_external_rejected.

Theorem C20_root_not_lexical_resource_rejected :
  forall (version : str) (t : xtree),
         str_eqb (xname t) (str_of_string "LexicalResource") = false ->
         exists e : err, load_tree version t = Err e.
Proof. exact (@root_not_lexical_resource_rejected). Qed.
Print Assumptions C20_root_not_lexical_resource_rejected.

Theorem C20_required_rejected :
  forall (version : str) (t : xtree),
         required_fault t = true -> exists e : err, load_tree version t = Err e.
Proof. exact (@required_rejected). Qed.
Print Assumptions C20_required_rejected.

Theorem C20_any_fault_rejected :
  forall (version : str) (t : xtree),
         any_fault t = true -> exists e : err, load_tree version t = Err e.
Proof. exact (@any_fault_rejected). Qed.
Print Assumptions C20_any_fault_rejected.

Theorem C20_load_rejects_any_fault :
  forall (l1 l2 : str) (t : xtree), any_fault t = true -> exists e : err, load l1 l2 t = Err e.
Proof. exact (@load_rejects_any_fault). Qed.
Print Assumptions C20_load_rejects_any_fault.

Theorem C20_load_rejects_required_for_version :
  forall (l1 l2 : str) (t : xtree) (version : str),
         read_header l1 l2 = Ok version ->
         r2_fault t = true \/
         r3_fault t = true \/
         r4_fault t = true \/
         r1_fault t = true \/
         r5_fault t = true \/
         r6_xform_fault t = true \/
         r6_external_fault t = true \/ str_eqb (xname t) (str_of_string "LexicalResource") = false ->
         exists e : err, load l1 l2 t = Err e.
Proof. exact (@load_rejects_required_for_version). Qed.
Print Assumptions C20_load_rejects_required_for_version.

(* ---- non-vacuity and sharpness: documents with each fault (rejected, with the exception class the implementation raises: -6 AssertionError, -4 ValueError, -3 KeyError) and accepted neighbours (0); the same documents are given to the real wn.lmf.load by the check on every run *)
Theorem C20_r1_lexicon_no_license_fault :
  r1_fault r1_lexicon_no_license = true.
Proof. exact (@r1_lexicon_no_license_fault). Qed.
Print Assumptions C20_r1_lexicon_no_license_fault.

Theorem C20_r1_lexicon_no_license_verdict :
  verdict (str_of_string "1.1") r1_lexicon_no_license = -6.
Proof. exact (@r1_lexicon_no_license_verdict). Qed.
Print Assumptions C20_r1_lexicon_no_license_verdict.

Theorem C20_r2_lemma_no_pos_fault :
  r2_fault r2_lemma_no_pos = true.
Proof. exact (@r2_lemma_no_pos_fault). Qed.
Print Assumptions C20_r2_lemma_no_pos_fault.

Theorem C20_r2_lemma_no_pos_verdict :
  verdict (str_of_string "1.1") r2_lemma_no_pos = -6.
Proof. exact (@r2_lemma_no_pos_verdict). Qed.
Print Assumptions C20_r2_lemma_no_pos_verdict.

Theorem C20_r3_sense_no_synset_fault :
  r3_fault r3_sense_no_synset = true.
Proof. exact (@r3_sense_no_synset_fault). Qed.
Print Assumptions C20_r3_sense_no_synset_fault.

Theorem C20_r3_sense_no_synset_verdict :
  verdict (str_of_string "1.1") r3_sense_no_synset = -6.
Proof. exact (@r3_sense_no_synset_verdict). Qed.
Print Assumptions C20_r3_sense_no_synset_verdict.

Theorem C20_r4_requires_no_version_fault :
  r4_fault r4_requires_no_version = true.
Proof. exact (@r4_requires_no_version_fault). Qed.
Print Assumptions C20_r4_requires_no_version_fault.

Theorem C20_r4_requires_no_version_verdict :
  verdict (str_of_string "1.1") r4_requires_no_version = -6.
Proof. exact (@r4_requires_no_version_verdict). Qed.
Print Assumptions C20_r4_requires_no_version_verdict.

Theorem C20_r5_count_decimal_fault :
  r5_fault r5_count_decimal = true.
Proof. exact (@r5_count_decimal_fault). Qed.
Print Assumptions C20_r5_count_decimal_fault.

Theorem C20_r5_count_decimal_verdict :
  verdict (str_of_string "1.1") r5_count_decimal = -4.
Proof. exact (@r5_count_decimal_verdict). Qed.
Print Assumptions C20_r5_count_decimal_verdict.

Theorem C20_r6_external_sense_in_lexicon_fault :
  r6_external_fault r6_external_sense_in_lexicon = true.
Proof. exact (@r6_external_sense_in_lexicon_fault). Qed.
Print Assumptions C20_r6_external_sense_in_lexicon_fault.

Theorem C20_r6_external_sense_in_lexicon_verdict :
  verdict (str_of_string "1.1") r6_external_sense_in_lexicon = -6.
Proof. exact (@r6_external_sense_in_lexicon_verdict). Qed.
Print Assumptions C20_r6_external_sense_in_lexicon_verdict.

Theorem C20_r6_external_form_no_id_fault :
  r6_xform_fault r6_external_form_no_id = true.
Proof. exact (@r6_external_form_no_id_fault). Qed.
Print Assumptions C20_r6_external_form_no_id_fault.

Theorem C20_r6_external_form_no_id_verdict :
  verdict (str_of_string "1.1") r6_external_form_no_id = -6.
Proof. exact (@r6_external_form_no_id_verdict). Qed.
Print Assumptions C20_r6_external_form_no_id_verdict.

Theorem C20_r6_root_is_lexicon_verdict :
  verdict (str_of_string "1.1") r6_root_is_lexicon = -3.
Proof. exact (@r6_root_is_lexicon_verdict). Qed.
Print Assumptions C20_r6_root_is_lexicon_verdict.

Theorem C20_a_minimal_verdict :
  verdict (str_of_string "1.1") a_minimal = 0.
Proof. exact (@a_minimal_verdict). Qed.
Print Assumptions C20_a_minimal_verdict.

Theorem C20_a_lexicon_empty_values_verdict :
  verdict (str_of_string "1.1") a_lexicon_empty_values = 0.
Proof. exact (@a_lexicon_empty_values_verdict). Qed.
Print Assumptions C20_a_lexicon_empty_values_verdict.

Theorem C20_a_synset_no_part_of_speech_verdict :
  verdict (str_of_string "1.1") a_synset_no_part_of_speech = 0.
Proof. exact (@a_synset_no_part_of_speech_verdict). Qed.
Print Assumptions C20_a_synset_no_part_of_speech_verdict.

Theorem C20_a_count_lenient_verdict :
  verdict (str_of_string "1.1") a_count_lenient = 0.
Proof. exact (@a_count_lenient_verdict). Qed.
Print Assumptions C20_a_count_lenient_verdict.

Theorem C20_a_extension_empty_extends_verdict :
  verdict (str_of_string "1.1") a_extension_empty_extends = 0.
Proof. exact (@a_extension_empty_extends_verdict). Qed.
Print Assumptions C20_a_extension_empty_extends_verdict.

Theorem C20_a_dangling_references_verdict :
  verdict (str_of_string "1.1") a_dangling_references = 0.
Proof. exact (@a_dangling_references_verdict). Qed.
Print Assumptions C20_a_dangling_references_verdict.
